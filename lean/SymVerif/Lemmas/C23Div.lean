import SymVerif.Lemmas.C23Basic

/-!
C23 helper lemmas, part 2: the division loop.

`divLoop` (the model, on `Array ℕ`, same index expressions as the C++) is first shown equal to a
list loop `divLoopL` that keeps the already final upper part `hi = dict_out[it+1 .. n]`; the
semantic proof is on `divLoopL`:
 * phase 1 (`it ≥ m`): `X^m * toPoly (a.drop (it+1)) - toPoly hi * D` has no coefficient `≥ m`;
 * phase 2 (`it < m`): the new entries are the coefficients of `A - Q * D`.
-/
namespace SymVerif.C23
open Polynomial SymVerif.GF

variable {p : ℕ}

/-- list version of `divLoop`: `hi` is `dict_out[it+1 .. n]` -/
def divLoopL (p : ℕ) (a d : List ℕ) (inv n m : ℕ) : ℕ → List ℕ → List ℕ
  | 0, hi => hi
  | it + 1, hi =>
    let lb := m + it - n
    let ub := min (it + 1) m
    let s := sumFrom (fun j => (hi.getD (m - 1 - j) 0 : ℤ) * (d.getD j 0 : ℤ)) lb (ub - lb)
    let coeff : ℤ := (a.getD it 0 : ℤ) - s
    let coeff := if it ≥ m then coeff * (inv : ℤ) else coeff
    divLoopL p a d inv n m it ((coeff % (p : ℤ)).toNat :: hi)

theorem sumFrom_congr {f g : ℕ → ℤ} (lb cnt : ℕ) (h : ∀ k < cnt, f (lb + k) = g (lb + k)) :
    sumFrom f lb cnt = sumFrom g lb cnt := by
  induction cnt generalizing lb with
  | zero => rfl
  | succ k ih =>
    simp only [sumFrom]
    rw [ih (lb + 1) (fun j hj => by have := h (j + 1) (by omega); rwa [show lb + (j + 1) = lb + 1 + j by omega] at this)]
    have := h 0 (by omega)
    simp at this
    rw [this]

theorem length_take_of_le (l : List ℕ) (m : ℕ) (h : m ≤ l.length) : (l.take m).length = m := by
  simp [List.length_take, h]

theorem toArray_getD (l : List ℕ) (i : ℕ) : (l.toArray).getD i 0 = l.getD i 0 := by
  simp [Array.getD, List.getD]
  split <;> simp_all

theorem getD_append_right' (l1 l2 : List ℕ) (i : ℕ) (h : l1.length ≤ i) :
    (l1 ++ l2).getD i 0 = l2.getD (i - l1.length) 0 := by
  simp [List.getD, List.getElem?_append_right h]

theorem getD_append_left' (l1 l2 : List ℕ) (i : ℕ) (h : i < l1.length) :
    (l1 ++ l2).getD i 0 = l1.getD i 0 := by
  simp [List.getD, List.getElem?_append_left h]

theorem getD_take' (l : List ℕ) (i k : ℕ) (h : i < k) : (l.take k).getD i 0 = l.getD i 0 := by
  simp [List.getD, List.getElem?_take, h]

/-- the array loop of the model is the list loop -/
theorem divLoop_eq (a d : List ℕ) (inv n m : ℕ) (ha : a.length = n + 1) :
    ∀ (it1 : ℕ) (hi : List ℕ), it1 ≤ n + 1 → hi.length = n + 1 - it1 →
      (divLoop p d.toArray inv n m it1 (a.take it1 ++ hi).toArray).toList = divLoopL p a d inv n m it1 hi := by
  intro it1
  induction it1 with
  | zero => intro hi _ _; simp [divLoop, divLoopL]
  | succ it ih =>
    intro hi hle hlen
    simp only [divLoop, divLoopL]
    have htake : (a.take (it + 1)).length = it + 1 := by simp [List.length_take]; omega
    have e1 : ((a.take (it + 1) ++ hi).toArray).getD it 0 = a.getD it 0 := by
      rw [toArray_getD, getD_append_left' _ _ _ (by omega), getD_take' _ _ _ (by omega)]
    have e2 : sumFrom (fun j => ((((a.take (it + 1) ++ hi).toArray).getD (it - j + m) 0 : ℕ) : ℤ) * ((d.toArray.getD j 0 : ℕ) : ℤ))
          (m + it - n) (min (it + 1) m - (m + it - n))
        = sumFrom (fun j => (hi.getD (m - 1 - j) 0 : ℤ) * (d.getD j 0 : ℤ)) (m + it - n) (min (it + 1) m - (m + it - n)) := by
      apply sumFrom_congr
      intro k hk
      have hj1 : m + it - n + k < m := by omega
      have hj2 : m + it - n + k ≤ it := by omega
      beta_reduce
      rw [toArray_getD, toArray_getD, getD_append_right' _ _ _ (by omega), htake]
      congr 3; omega
    rw [e1, e2]
    have e3 : ∀ c : ℕ, ((a.take (it + 1) ++ hi).toArray.setIfInBounds it c) = (a.take it ++ c :: hi).toArray := by
      intro c
      have hit : it < a.length := by omega
      have hl : (a.take (it + 1) ++ hi).set it c = a.take it ++ c :: hi := by
        rw [List.take_succ_eq_append_getElem hit, List.append_assoc]
        rw [List.set_append_right _ _ (by simp [List.length_take] <;> omega)]
        try simp [List.length_take, Nat.min_eq_left (by omega : it ≤ a.length)]
      simp [hl]
    rw [e3]
    exact ih _ (by omega) (by simp; omega)

theorem sumFrom_cast (f : ℕ → ℤ) (lb cnt : ℕ) :
    ((sumFrom f lb cnt : ℤ) : ZMod p) = ∑ k ∈ Finset.range cnt, ((f (lb + k) : ℤ) : ZMod p) := by
  induction cnt generalizing lb with
  | zero => simp [sumFrom]
  | succ k ih =>
    simp only [sumFrom]
    rw [Finset.sum_range_succ', Int.cast_add, ih]
    simp only [Nat.add_zero]
    rw [add_comm]
    congr 1
    apply Finset.sum_congr rfl
    intro j _
    rw [show lb + 1 + j = lb + (j + 1) by omega]

theorem coeff_mul_range (P Q : (ZMod p)[X]) (N : ℕ) :
    (P * Q).coeff N = ∑ k ∈ Finset.range (N + 1), P.coeff (N - k) * Q.coeff k := by
  rw [mul_comm, coeff_mul, Finset.Nat.sum_antidiagonal_eq_sum_range_succ (fun i j => Q.coeff i * P.coeff j)]
  apply Finset.sum_congr rfl
  intro k _
  ring

section loop
variable [Fact p.Prime] (a d : List ℕ) (inv n m : ℕ)

/-- the inner sum, in `ZMod p`, is a coefficient of `toPoly hi * toPoly d` (phase 1) -/
theorem innerSum_phase1 (hi : List ℕ) (it : ℕ) (hitn : it ≤ n) (hmi : m ≤ it)
    (hlen : hi.length = n - it) :
    ((sumFrom (fun j => (hi.getD (m - 1 - j) 0 : ℤ) * (d.getD j 0 : ℤ)) (m + it - n)
        (min (it + 1) m - (m + it - n)) : ℤ) : ZMod p)
      = (X * (toPoly p hi * toPoly p d)).coeff m := by
  cases m with
  | zero => simp [sumFrom]
  | succ m' =>
    rw [coeff_X_mul, coeff_mul_range, sumFrom_cast]
    have hub : min (it + 1) (m' + 1) = m' + 1 := by omega
    rw [hub]
    have hsplit : m' + 1 = (m' + 1 + it - n) + (m' + 1 - (m' + 1 + it - n)) := by omega
    conv_rhs => rw [hsplit, Finset.sum_range_add]
    have hz : ∑ k ∈ Finset.range (m' + 1 + it - n), (toPoly p hi).coeff (m' - k) * (toPoly p d).coeff k = 0 := by
      apply Finset.sum_eq_zero
      intro k hk
      have hk' := Finset.mem_range.mp hk
      rw [coeff_toPoly, getD_of_le _ _ (by omega)]; simp
    rw [hz, zero_add]
    apply Finset.sum_congr rfl
    intro k _
    rw [coeff_toPoly, coeff_toPoly]
    push_cast
    congr 3

/-- `E = X^m * (upper part of a) - toPoly hi * D` -/
noncomputable def errPoly (p : ℕ) (a d : List ℕ) (m it1 : ℕ) (hi : List ℕ) : (ZMod p)[X] :=
  X ^ m * toPoly p (a.drop it1) - toPoly p hi * toPoly p d

theorem coeff_toPoly_d_of_gt (hd : d.length = m + 1) (k : ℕ) (hk : m < k) : (toPoly p d).coeff k = 0 := by
  rw [coeff_toPoly, getD_of_le _ _ (by omega)]; simp

/-- one step of phase 1 keeps the invariant -/
theorem phase1_step (hd : d.length = m + 1) (ha : a.length = n + 1)
    (hinv : ((inv : ℕ) : ZMod p) * ((d.getD m 0 : ℕ) : ZMod p) = 1)
    (hi : List ℕ) (it : ℕ) (hitn : it ≤ n) (hmi : m ≤ it) (hlen : hi.length = n - it)
    (hE : ∀ k, m ≤ k → (errPoly p a d m (it + 1) hi).coeff k = 0) :
    let s := sumFrom (fun j => (hi.getD (m - 1 - j) 0 : ℤ) * (d.getD j 0 : ℤ)) (m + it - n)
        (min (it + 1) m - (m + it - n))
    let c := ((((a.getD it 0 : ℤ) - s) * (inv : ℤ)) % (p : ℤ)).toNat
    ∀ k, m ≤ k → (errPoly p a d m it (c :: hi)).coeff k = 0 := by
  intro s c k hk
  have hp : 0 < p := (Fact.out : p.Prime).pos
  have hdrop : a.drop it = a.getD it 0 :: a.drop (it + 1) := by
    have hit : it < a.length := by omega
    rw [List.drop_eq_getElem_cons hit]
    simp [List.getD, List.getElem?_eq_getElem hit]
  have hE' : errPoly p a d m it (c :: hi)
      = X * errPoly p a d m (it + 1) hi + C ((a.getD it 0 : ℕ) : ZMod p) * X ^ m - C (c : ZMod p) * toPoly p d := by
    unfold errPoly
    rw [hdrop]
    simp only [toPoly_cons]
    ring
  have hs := innerSum_phase1 (p := p) d n m hi it hitn hmi hlen
  have hc : (c : ZMod p) = (((a.getD it 0 : ℕ) : ZMod p) - ((s : ℤ) : ZMod p)) * (inv : ZMod p) := by
    show (((((a.getD it 0 : ℤ) - s) * (inv : ℤ)) % (p : ℤ)).toNat : ZMod p) = _
    rw [intEmod_cast hp]; push_cast; ring
  rw [hE']
  simp only [coeff_sub, coeff_add, coeff_C_mul, coeff_X_pow]
  rcases Nat.lt_or_ge m k with hlt | hge
  · -- k > m
    obtain ⟨k', rfl⟩ : ∃ k', k = k' + 1 := ⟨k - 1, by omega⟩
    rw [coeff_X_mul, hE k' (by omega), coeff_toPoly_d_of_gt (p := p) d m hd _ hlt]
    have : k' + 1 ≠ m := by omega
    simp [this]
  · -- k = m
    have hkm : k = m := by omega
    subst hkm
    have hXE : (X * errPoly p a d k (it + 1) hi).coeff k = - ((s : ℤ) : ZMod p) := by
      unfold errPoly
      rw [mul_sub, coeff_sub, ← mul_assoc, ← pow_succ', coeff_X_pow_mul', if_neg (by omega), zero_sub]
      rw [hs]
    rw [hXE, coeff_toPoly, hc]
    simp only [if_true]
    linear_combination (-(((a.getD it 0 : ℕ) : ZMod p) - ((s : ℤ) : ZMod p))) * hinv

/-- phase 1: running from `it1` down to `m` -/
theorem phase1 (hd : d.length = m + 1) (ha : a.length = n + 1)
    (hinv : ((inv : ℕ) : ZMod p) * ((d.getD m 0 : ℕ) : ZMod p) = 1) :
    ∀ (k : ℕ) (it1 : ℕ) (hi : List ℕ), it1 = m + k → it1 ≤ n + 1 → hi.length = n + 1 - it1 →
      (∀ x ∈ hi, x < p) →
      (∀ j, m ≤ j → (errPoly p a d m it1 hi).coeff j = 0) →
      ∃ qs : List ℕ, divLoopL p a d inv n m it1 hi = divLoopL p a d inv n m m qs ∧
        qs.length = n + 1 - m ∧ (∀ x ∈ qs, x < p) ∧
        (∀ j, m ≤ j → (errPoly p a d m m qs).coeff j = 0) := by
  have hp : 0 < p := (Fact.out : p.Prime).pos
  intro k
  induction k with
  | zero =>
    intro it1 hi h1 _ hlen hred hE
    subst h1
    exact ⟨hi, rfl, hlen, hred, hE⟩
  | succ k ih =>
    intro it1 hi h1 hle hlen hred hE
    obtain ⟨it, rfl⟩ : ∃ it, it1 = it + 1 := ⟨m + k, by omega⟩
    have hmi : m ≤ it := by omega
    have hitn : it ≤ n := by omega
    have step := phase1_step (p := p) a d inv n m hd ha hinv hi it hitn hmi (by omega) hE
    simp only [divLoopL]
    rw [if_pos hmi]
    refine ih it _ (by omega) (by omega) (by simp; omega) ?_ step
    intro x hx
    rcases List.mem_cons.mp hx with rfl | hx
    · exact intEmod_lt hp _
    · exact hred x hx

/-- the inner sum in phase 2 is a coefficient of `Q * D` -/
theorem innerSum_phase2 (hmn : m ≤ n) (qs rs : List ℕ) (hq : qs.length = n + 1 - m) (it : ℕ) (him : it < m)
    (hlen : rs.length = m - (it + 1)) :
    ((sumFrom (fun j => ((rs ++ qs).getD (m - 1 - j) 0 : ℤ) * (d.getD j 0 : ℤ)) (m + it - n)
        (min (it + 1) m - (m + it - n)) : ℤ) : ZMod p)
      = (toPoly p qs * toPoly p d).coeff it := by
  rw [coeff_mul_range, sumFrom_cast]
  have hub : min (it + 1) m = it + 1 := by omega
  rw [hub]
  have hsplit : it + 1 = (m + it - n) + (it + 1 - (m + it - n)) := by omega
  conv_rhs => rw [hsplit, Finset.sum_range_add]
  have hz : ∑ k ∈ Finset.range (m + it - n), (toPoly p qs).coeff (it - k) * (toPoly p d).coeff k = 0 := by
    apply Finset.sum_eq_zero
    intro k hk
    have hk' := Finset.mem_range.mp hk
    rw [coeff_toPoly, getD_of_le _ _ (by omega)]; simp
  rw [hz, zero_add]
  apply Finset.sum_congr rfl
  intro k hk
  have hk' := Finset.mem_range.mp hk
  rw [coeff_toPoly, coeff_toPoly, getD_append_right' _ _ _ (by omega), hlen]
  push_cast
  congr 3
  omega

/-- phase 2: the remainder entries -/
theorem phase2 (hmn : m ≤ n) (qs : List ℕ) (hq : qs.length = n + 1 - m) :
    ∀ (it1 : ℕ) (rs : List ℕ), it1 ≤ m → rs.length = m - it1 → (∀ x ∈ rs, x < p) →
      (∀ i, i < rs.length → ((rs.getD i 0 : ℕ) : ZMod p)
          = ((a.getD (it1 + i) 0 : ℕ) : ZMod p) - (toPoly p qs * toPoly p d).coeff (it1 + i)) →
      ∃ rs' : List ℕ, divLoopL p a d inv n m it1 (rs ++ qs) = rs' ++ qs ∧ rs'.length = m ∧
        (∀ x ∈ rs', x < p) ∧
        (∀ i, i < m → ((rs'.getD i 0 : ℕ) : ZMod p)
          = ((a.getD i 0 : ℕ) : ZMod p) - (toPoly p qs * toPoly p d).coeff i) := by
  have hp : 0 < p := (Fact.out : p.Prime).pos
  intro it1
  induction it1 with
  | zero =>
    intro rs _ hlen hred h
    refine ⟨rs, rfl, by omega, hred, ?_⟩
    intro i hi
    have := h i (by omega)
    simpa using this
  | succ it ih =>
    intro rs hle hlen hred h
    simp only [divLoopL]
    rw [if_neg (by omega)]
    have hs := innerSum_phase2 (p := p) d n m hmn qs rs hq it (by omega) hlen
    rw [← List.cons_append]
    apply ih _ (by omega) (by simp; omega)
    · intro x hx
      rcases List.mem_cons.mp hx with rfl | hx
      · exact intEmod_lt hp _
      · exact hred x hx
    · intro i hi
      cases i with
      | zero =>
        simp only [List.getD_cons_zero, Nat.add_zero]
        rw [intEmod_cast hp, Int.cast_sub, hs]
        simp
      | succ i =>
        simp only [List.getD_cons_succ]
        have hi' : i < rs.length := by rw [List.length_cons] at hi; omega
        have := h i hi'
        rw [this, show it + 1 + i = it + (i + 1) by omega]

/-- the content of `dict_out` after the loop -/
theorem divLoopL_spec (hd : d.length = m + 1) (ha : a.length = n + 1) (hmn : m ≤ n)
    (hinv : ((inv : ℕ) : ZMod p) * ((d.getD m 0 : ℕ) : ZMod p) = 1) :
    ∃ rs qs : List ℕ, divLoopL p a d inv n m (n + 1) [] = rs ++ qs ∧ rs.length = m ∧
      (∀ x ∈ rs, x < p) ∧ (∀ x ∈ qs, x < p) ∧
      toPoly p a = toPoly p qs * toPoly p d + toPoly p rs := by
  obtain ⟨qs, h1, hql, hqred, hE⟩ := phase1 (p := p) a d inv n m hd ha hinv (n + 1 - m) (n + 1) []
    (by omega) (by omega) (by simp) (by simp) (by
      intro j _
      unfold errPoly
      rw [List.drop_of_length_le (by omega)]
      simp)
  obtain ⟨rs, h2, hrl, hrred, hR⟩ := phase2 (p := p) a d inv n m hmn qs hql m [] (by omega) (by simp) (by simp)
    (by intro i hi; simp at hi)
  refine ⟨rs, qs, ?_, hrl, hrred, hqred, ?_⟩
  · rw [h1]; simpa using h2
  · have hA : toPoly p a = toPoly p (a.take m) + X ^ m * toPoly p (a.drop m) := by
      conv_lhs => rw [← List.take_append_drop m a]
      rw [toPoly_append, length_take_of_le a m (by omega)]
    ext i
    rcases Nat.lt_or_ge i m with hi | hi
    · rw [coeff_add, coeff_toPoly rs, hR i hi, coeff_toPoly]; ring
    · have hEi := hE i hi
      unfold errPoly at hEi
      rw [coeff_sub] at hEi
      rw [hA, coeff_add, coeff_add, coeff_toPoly (a.take m), coeff_toPoly rs,
        getD_of_le _ _ (by simp [List.length_take]; omega), getD_of_le _ _ (by omega)]
      simp only [Nat.cast_zero, zero_add, add_zero]
      exact sub_eq_zero.mp hEi

end loop

end SymVerif.C23
