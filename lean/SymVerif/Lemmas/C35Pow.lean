/-
Value lemmas for the Pow-of-Pow rule (exact exponent arithmetic, even powers) and for
SimplifyVisitor::simplify_pow.  Headline statements: Props/C35.lean.
-/
import SymVerif.Lemmas.C35Rules
import SymVerif.Lemmas.C34Build
import Mathlib.Analysis.SpecialFunctions.Pow.Complex

namespace SymVerif.C35
open SymVerif SymVerif.Queries SymVerif.Refine SymVerif.C34

/-! ## exact numbers -/

theorem evalR_qToNum {ρ : String → ℝ} {n : ℤ} {d : ℕ} (hd : d ≠ 0) :
    evalR ρ (qToNum n d) = some ((n : ℝ) / (d : ℝ)) := by
  unfold qToNum
  have hg : Nat.gcd n.natAbs d ≠ 0 := by
    intro h; exact hd (Nat.eq_zero_of_gcd_eq_zero_right h)
  set g := Nat.gcd n.natAbs d with hgdef
  have hgd : g ∣ d := Nat.gcd_dvd_right _ _
  have hgn : (g : ℤ) ∣ n := by
    have : g ∣ n.natAbs := Nat.gcd_dvd_left _ _
    exact Int.natCast_dvd.mpr this
  have hd' : d = d / g * g := (Nat.div_mul_cancel hgd).symm
  have hn' : n = n / (g : ℤ) * (g : ℤ) := (Int.ediv_mul_cancel hgn).symm
  have hgR : (g : ℝ) ≠ 0 := by exact_mod_cast hg
  have hdg : d / g ≠ 0 := by
    intro h0; rw [h0, Nat.zero_mul] at hd'; exact hd hd'
  have hdgR : ((d / g : ℕ) : ℝ) ≠ 0 := by exact_mod_cast hdg
  have key : (n : ℝ) / (d : ℝ) = ((n / (g : ℤ) : ℤ) : ℝ) / ((d / g : ℕ) : ℝ) := by
    have h1 : (n : ℝ) = ((n / (g : ℤ) : ℤ) : ℝ) * (g : ℝ) := by exact_mod_cast hn'
    have h2 : (d : ℝ) = ((d / g : ℕ) : ℝ) * (g : ℝ) := by exact_mod_cast hd'
    rw [h1, h2]
    field_simp
  simp only [beq_iff_eq, hg, if_false]
  split
  · rename_i h1
    simp only [evalR]
    rw [key, h1]
    simp
  · simp only [evalR, hdg, if_false]
    rw [key]

theorem numToQ_val {ρ : String → ℝ} {x : Expr} {n : ℤ} {d : ℕ} (hw : wf x = true) (h : numToQ x = some (n, d)) :
    d ≠ 0 ∧ evalR ρ x = some ((n : ℝ) / (d : ℝ)) := by
  cases x with
  | int k =>
    simp [numToQ] at h
    obtain ⟨rfl, rfl⟩ := h
    simp [evalR]
  | rat k e =>
    simp [numToQ] at h
    obtain ⟨rfl, rfl⟩ := h
    simp only [wf, Bool.and_eq_true, decide_eq_true_eq] at hw
    have he : e ≠ 0 := by omega
    exact ⟨he, by simp [evalR, he]⟩
  | _ => simp [numToQ] at h

theorem numMul_val {ρ : String → ℝ} {x y p : Expr} {vx vy : ℝ} (hwx : wf x = true) (hwy : wf y = true)
    (hx : evalR ρ x = some vx) (hy : evalR ρ y = some vy) (h : numMul x y = some p) :
    evalR ρ p = some (vx * vy) := by
  unfold numMul at h
  split at h
  · rename_i n1 d1 n2 d2 h1 h2
    cases h
    obtain ⟨hd1, hv1⟩ := numToQ_val (ρ := ρ) hwx h1
    obtain ⟨hd2, hv2⟩ := numToQ_val (ρ := ρ) hwy h2
    rw [hx] at hv1
    rw [hy] at hv2
    cases hv1
    cases hv2
    rw [evalR_qToNum (Nat.mul_ne_zero hd1 hd2)]
    congr 1
    first
      | (push_cast; rw [div_mul_div_comm])
      | (rw [div_mul_div_comm]; push_cast; rfl)
      | (simp [div_mul_div_comm])
  · cases h

/-! ## the Pow-of-Pow rule -/

theorem powSem_even {vb : ℝ} {k : ℤ} (hk : k % 2 = 0) (hb : vb ≠ 0) (ve : Option ℝ) :
    powSem (some vb) (.int k) ve = some (|vb| ^ (k : ℝ)) := by
  have habs : 0 < |vb| := abs_pos.mpr hb
  simp only [powSem]
  split
  · rename_i h0
    congr 1
    have hev : Even k.toNat := by
      rw [Nat.even_iff]; omega
    have hc : ((k.toNat : ℕ) : ℝ) = (k : ℝ) := by
      have := Int.toNat_of_nonneg h0
      exact_mod_cast this
    rw [← hc, Real.rpow_natCast, Even.pow_abs hev]
  · rename_i h0
    congr 1
    have hev : Even k.natAbs := by
      rw [Nat.even_iff]; omega
    have hc : (k : ℝ) = -((k.natAbs : ℕ) : ℝ) := by
      have : (k : ℤ) = -(k.natAbs : ℤ) := by omega
      exact_mod_cast this
    rw [hc, Real.rpow_neg habs.le, Real.rpow_natCast, Even.pow_abs hev]

theorem powSem_nonint_pos {ρ : String → ℝ} {y v : ℝ} {x : Expr} (hxi : ∀ n, x ≠ .int n)
    (h : powSem (some y) x (evalR ρ x) = some v) : 0 < y := by
  cases x with
  | int n => exact absurd rfl (hxi n)
  | _ =>
    simp only [powSem] at h
    split at h
    · split at h
      · assumption
      · cases h
    · cases h

theorem powSem_zero_int {k : ℤ} (hk0 : k ≠ 0) (ve : Option ℝ) :
    powSem (some (0 : ℝ)) (.int k) ve = if 0 < k then some 0 else none := by
  simp only [powSem]
  split
  · rename_i h0
    have hpos : 0 < k := lt_of_le_of_ne h0 (Ne.symm hk0)
    have : k.toNat ≠ 0 := by omega
    simp [hpos, zero_pow this]
  · rename_i h0
    have : ¬ 0 < k := by omega
    simp [this]

/-- **The repaired Pow-of-Pow rule preserves the value** (`asIs = false`): where `(b**ie)**x` has a real value,
    the rewritten expression has the same value. -/
theorem rulePow_value {ρ : String → ℝ} {A : Assumptions} (hA : FactsSat ρ A) {b x r : Expr} {v : ℝ}
    (hw : wf (.pow b x) = true) (hc : powNonCanon b x = false)
    (hr : rulePow false A b x = some r) (hv : evalR ρ (.pow b x) = some v) : evalR ρ r = some v := by
  unfold rulePow at hr
  split at hr
  · rename_i ib ie
    simp only [wf, Bool.and_eq_true] at hw
    obtain ⟨⟨hwib, hwie⟩, hwx⟩ := hw
    split at hr
    · rename_i hcond
      -- x is not an integer literal
      have hxi : ∀ n, x ≠ .int n := by
        intro n hn; subst hn; simp [powNonCanon] at hc
      simp only [evalR] at hv
      cases hib : evalR ρ ib with
      | none => rw [hib, powSem_base_none, powSem_base_none] at hv; cases hv
      | some vib =>
        rw [hib] at hv
        split at hr
        · -- positive base
          rename_i hpos
          have hvpos : 0 < vib := (isPositiveF_sound hA _ ib vib hwib hib).1 (by simpa [isPositive] using hpos)
          cases hp : numMul x ie with
          | none => simp [hp] at hr
          | some p =>
            simp [hp] at hr
            subst hr
            cases hy : powSem (some vib) ie (evalR ρ ie) with
            | none => rw [hy, powSem_base_none] at hv; cases hv
            | some y =>
              obtain ⟨vie, hvie, rfl⟩ := powSem_pos hvpos hy
              rw [hy] at hv
              have hypos : 0 < vib ^ vie := Real.rpow_pos_of_pos hvpos vie
              obtain ⟨vx, hvx, rfl⟩ := powSem_pos hypos hv
              have hpv := numMul_val hwx hwie hvx hvie hp
              simp only [evalR, hib]
              rw [powSem_pos_eq hvpos hpv]
              congr 1
              rw [← Real.rpow_mul hvpos.le, mul_comm]
        · split at hr
          · -- even integer inner exponent
            rename_i _ hev
            simp only [Bool.false_or] at hev
            cases ie with
            | int k =>
              simp only [isEvenInt, beq_iff_eq] at hev
              have hk0 : k ≠ 0 := by
                intro h0; subst h0
                cases x <;> simp [powNonCanon] at hc
              cases hp : numMul x (.int k) with
              | none => simp [hp] at hr
              | some p =>
                simp [hp] at hr
                subst hr
                -- the base is not zero, otherwise the outer (non-integer) power has no value
                have hvne : vib ≠ 0 := by
                  intro h0
                  subst h0
                  rw [powSem_zero_int hk0] at hv
                  split at hv
                  · exact absurd (powSem_nonint_pos hxi hv) (lt_irrefl 0)
                  · rw [powSem_base_none] at hv; cases hv
                rw [powSem_even hev hvne] at hv
                have habs : 0 < |vib| := abs_pos.mpr hvne
                have hypos : 0 < |vib| ^ (k : ℝ) := Real.rpow_pos_of_pos habs _
                obtain ⟨vx, hvx, rfl⟩ := powSem_pos hypos hv
                have hpv := numMul_val (ρ := ρ) (vy := (k : ℝ)) hwx hwie hvx (by simp [evalR]) hp
                have habsv : evalR ρ (.app "Abs" [ib]) = some |vib| := by
                  simp [evalR, evalArgs, hib, appSem]
                simp only [evalR] at habsv ⊢
                rw [habsv, powSem_pos_eq habs hpv]
                congr 1
                rw [← Real.rpow_mul habs.le, mul_comm]
            | _ => simp [isEvenInt] at hev
          · cases hr
    · cases hr
  · cases hr

/-! ## SimplifyVisitor::simplify_pow -/

theorem simplifyPow_value {ρ : String → ℝ} {x b : Expr} {v : ℝ}
    (hv : powSem (evalR ρ b) x (evalR ρ x) = some v) :
    powSem (evalR ρ (simplifyPow x b).2) (simplifyPow x b).1 (evalR ρ (simplifyPow x b).1) = some v := by
  unfold simplifyPow
  split
  · rename_i u
    simp only [evalR, evalArgs] at hv ⊢
    cases hu : evalR ρ u with
    | none => simp [hu, appSem, powSem] at hv
    | some vu =>
      simp only [hu, Option.bind_some, Option.map_some, appSem, String.reduceEq, if_false, if_true] at hv ⊢
      split at hv
      · simp [powSem] at hv
      · rename_i hs
        simp [powSem, hs] at hv ⊢
        exact hv
  · rename_i u
    simp only [evalR, evalArgs] at hv ⊢
    cases hu : evalR ρ u with
    | none => simp [hu, appSem, powSem] at hv
    | some vu =>
      simp only [hu, Option.bind_some, Option.map_some, appSem, String.reduceEq, if_false, if_true] at hv ⊢
      split at hv
      · simp [powSem] at hv
      · rename_i hs
        simp [powSem, hs] at hv ⊢
        exact hv
  · rename_i u
    simp only [evalR, evalArgs] at hv ⊢
    cases hu : evalR ρ u with
    | none => simp [hu, appSem, powSem] at hv
    | some vu =>
      simp only [hu, Option.bind_some, Option.map_some, appSem, String.reduceEq, if_false, if_true] at hv ⊢
      split at hv
      · simp [powSem] at hv
      · rename_i hs
        simp only [powSem] at hv ⊢
        have hneg : ¬ (0 : ℤ) ≤ -1 := by norm_num
        simp only [hneg, if_false] at hv
        split at hv
        · cases hv
        · rename_i hq
          have hc : Real.cos vu ≠ 0 := by
            intro h0; apply hq; rw [h0]; simp
          simp only [hc, if_false]
          simp at hv ⊢
          rw [← hv]
  · exact hv


end SymVerif.C35
