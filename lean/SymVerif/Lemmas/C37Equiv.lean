/-
C37 — soundness of `treeEquiv`: trees accepted by the checker have equal values under every
lawful interpretation at which both are defined.
-/
import SymVerif.Lemmas.C37Fold
import SymVerif.Lemmas.C37Eqb

namespace SymVerif
namespace CSE

open NF
open Classical

set_option linter.unusedSectionVars false

section
variable {K : Type} [Field K] [CharZero K] {M : Interp K}

/-- equal values wherever both trees are defined -/
def Sound (M : Interp K) (a b : Expr) : Prop :=
  ∀ va vb, evalS M a = some va → evalS M b = some vb → va = vb

def sgn (neg : Bool) (a : K) : K := if neg then -a else a

/-- the dump string of the `i`-th abstract atom -/
def key (i : Nat) : String := Expr.dumpCanon (.sym (enc i))

theorem dumpCanon_sym (n : String) : Expr.dumpCanon (.sym n) = "(s " ++ n ++ ")" := by
  simp only [Expr.dumpCanon, Expr.canonOrder, Expr.dump]
  rfl

theorem key_length (i : Nat) : (key i).length = i + 4 := by
  rw [key, dumpCanon_sym]
  have h1 : "(s ".length = 3 := by decide
  have h2 : ")".length = 1 := by decide
  simp [String.length_append, enc, h1, h2]
  omega

/-- what a match of the atom `x` against the atom `r` means -/
def MatchSpec (M : Interp K) (x r : Expr) (m : Match) : Prop :=
  ∀ vx vr, evalS M x = some vx → evalS M r = some vr →
    (m.shift = 0 → m.inv = false → vx = sgn m.neg vr) ∧
    (∀ b e vb, x = .pow b e → intLit? e = none → evalS M b = some vb →
      vx = vb ^ m.shift * sgn m.neg vr ^ invExp m.inv ∧ vr ≠ 0)

/-- what the index function handed to `absE` must guarantee -/
def IdxOK (M : Interp K) (ρ : String → K) (idx : Expr → Option (Nat × Match)) : Prop :=
  ∀ x i m v, idx x = some (i, m) → evalS M x = some v →
    (m.shift = 0 → m.inv = false → v = sgn m.neg (ρ (key i))) ∧
    (∀ b e vb, x = .pow b e → intLit? e = none → evalS M b = some vb →
      v = vb ^ m.shift * sgn m.neg (ρ (key i)) ^ invExp m.inv ∧ ρ (key i) ≠ 0)

/-! ### abstraction -/

theorem evalK_atomSym (I : K) (ρ : String → K) (i : Nat) (neg : Bool) :
    evalK I ρ (atomSym i neg) = some (sgn neg (ρ (key i))) := by
  cases neg
  · simp [atomSym, evalK, sgn, key]
  · simp [atomSym, evalK, evalFacs, intLit?, sgn, key, powVal, mul2]

theorem absAtom_some {idx : Expr → Option (Nat × Match)} {x e' : Expr} (h : absAtom idx x = some e') :
    ∃ i m, idx x = some (i, m) ∧ m.shift = 0 ∧ m.inv = false ∧ e' = atomSym i m.neg := by
  unfold absAtom at h
  split at h
  · rename_i i m hi
    split at h
    · rename_i hs
      simp only [Bool.and_eq_true, decide_eq_true_eq, Bool.not_eq_true'] at hs
      simp only [Option.some.injEq] at h
      exact ⟨i, m, hi, hs.1, hs.2, h.symm⟩
    · cases h
  · cases h

theorem absAtom_sound {ρ : String → K} {idx : Expr → Option (Nat × Match)} (hidx : IdxOK M ρ idx)
    {x e' : Expr} {v : K} (h : absAtom idx x = some e') (hv : evalS M x = some v) :
    evalK M.I ρ e' = some v := by
  obtain ⟨i, m, hi, hs, hinv, rfl⟩ := absAtom_some h
  rw [evalK_atomSym, (hidx x i m v hi hv).1 hs hinv]

theorem sgn_ne_zero {neg : Bool} {a : K} (h : a ≠ 0) : sgn neg a ≠ 0 := by
  cases neg <;> simp [sgn, h]

theorem evalFacs_powEntries (I : K) (ρ : String → K) (b' : Expr) (q : Nat × Match) (k c : Int)
    (t' : List (Expr × Expr)) {vb y : K} (hb : evalK I ρ b' = some vb) (hne : vb ≠ 0)
    (hs : ρ (key q.1) ≠ 0) (ht : evalFacs I ρ t' = some y) :
    evalFacs I ρ (powEntries b' q k c ++ t') =
      some (vb ^ k * (vb ^ q.2.shift * sgn q.2.neg (ρ (key q.1)) ^ invExp q.2.inv) ^ c * y) := by
  have hs' : sgn q.2.neg (ρ (key q.1)) ≠ 0 := sgn_ne_zero hs
  simp only [powEntries, List.cons_append, List.nil_append, evalFacs, intLit?, hb, evalK_atomSym,
    Option.bind_some, powVal_of_ne hne, powVal_of_ne hs', ht, mul2]
  congr 1
  rw [mul_zpow, ← zpow_mul, ← zpow_mul, zpow_add₀ hne]
  ring

mutual
  theorem absE_sound (hM : Lawful M) (ρ : String → K) (idx : Expr → Option (Nat × Match)) (hidx : IdxOK M ρ idx) :
      ∀ (e e' : Expr) (v : K), absE idx e = some e' → evalS M e = some v →
        evalK M.I ρ e' = some v
    | .int n, e', v, h, hv => by
      simp only [absE, Option.some.injEq] at h; subst h; simpa [evalK, evalS] using hv
    | .rat n d, e', v, h, hv => by
      simp only [absE, Option.some.injEq] at h; subst h; simpa [evalK, evalS] using hv
    | .cplx re im, e', v, h, hv => by
      simp only [absE, Option.some.injEq] at h; subst h; simpa [evalK, evalS] using hv
    | .add c ts, e', v, h, hv => by
      simp only [absE] at h
      simp only [evalS] at hv
      obtain ⟨a, b, ha, hb, rfl⟩ := add2_some hv
      cases hc : absE idx c with
      | none => simp [hc] at h
      | some c' =>
        cases ht : absTerms idx ts with
        | none => simp [hc, ht] at h
        | some ts' =>
          simp only [hc, ht, Option.some.injEq] at h
          subst h
          simp only [evalK, absE_sound hM ρ idx hidx c c' a hc ha,
            absTerms_sound hM ρ idx hidx ts ts' b ht hb, add2]
    | .mul c fs, e', v, h, hv => by
      simp only [absE] at h
      simp only [evalS] at hv
      obtain ⟨a, b, ha, hb, rfl⟩ := mul2_some hv
      cases hc : absE idx c with
      | none => simp [hc] at h
      | some c' =>
        cases ht : absFacs idx fs with
        | none => simp [hc, ht] at h
        | some fs' =>
          simp only [hc, ht, Option.some.injEq] at h
          subst h
          simp only [evalK, absE_sound hM ρ idx hidx c c' a hc ha,
            absFacs_sound hM ρ idx hidx fs fs' b ht hb, mul2]
    | .pow b e, e', v, h, hv => by
      have hv0 := hv
      simp only [absE] at h
      simp only [evalS] at hv
      cases he : intLit? e with
      | some n =>
        simp only [he] at h hv
        obtain ⟨a, ha, hz, rfl⟩ := bind_powVal_some hv
        cases hb : absE idx b with
        | none => simp [hb] at h
        | some b' =>
          simp only [hb, Option.map_some, Option.some.injEq] at h
          subst h
          simp only [evalK, intLit?, absE_sound hM ρ idx hidx b b' a hb ha, Option.bind_some]
          rw [ha] at hv; simpa using hv
      | none =>
        simp only [he] at h
        rw [evalS_pow_eq] at hv0
        obtain ⟨vb, ve, v0, hvb, hne, hve, hv0e, hc, rfl, hat⟩ := powAtom_defined he hv0
        cases hb : absE idx b with
        | none => simp [hb] at h
        | some b' =>
          cases hq : idx (.pow b (expNorm e).2.2) with
          | none => simp [hb, hq] at h
          | some q =>
            simp only [hb, hq, Option.some.injEq] at h
            subst h
            have hbK := absE_sound hM ρ idx hidx b b' vb hb hvb
            obtain ⟨i, m⟩ := q
            have hI := (hidx (.pow b (expNorm e).2.2) i m _ hq hat).2 b _ vb rfl
              (intLit_expNorm e he) hvb
            have hE := evalFacs_powEntries M.I ρ b' (i, m) (expNorm e).1 (expNorm e).2.1 [] hbK hne
              hI.2 (show evalFacs M.I ρ [] = some 1 by simp [evalFacs])
            simp only [List.append_nil] at hE
            simp only [evalK, hE, mul2]
            rw [hc, hM.pw_add_int vb _ _ hne, ← hM.pw_mul_int vb v0 _ hne, hI.1]
            congr 1
            ring
    | .sym n, e', v, h, hv => by simp only [absE] at h; exact absAtom_sound hidx h hv
    | .dummy n i, e', v, h, hv => by simp only [absE] at h; exact absAtom_sound hidx h hv
    | .const n, e', v, h, hv => by simp only [absE] at h; exact absAtom_sound hidx h hv
    | .fsym n args, e', v, h, hv => by simp only [absE] at h; exact absAtom_sound hidx h hv
    | .app hd args, e', v, h, hv => by simp only [absE] at h; exact absAtom_sound hidx h hv
    | .dbl _, e', v, h, hv => by simp [absE] at h
    | .cdbl _ _, e', v, h, hv => by simp [absE] at h
    | .infty _, e', v, h, hv => by simp [absE] at h
    | .nan, e', v, h, hv => by simp [absE] at h
    | .bool _, e', v, h, hv => by simp [absE] at h
  theorem absTerms_sound (hM : Lawful M) (ρ : String → K) (idx : Expr → Option (Nat × Match)) (hidx : IdxOK M ρ idx) :
      ∀ (ts ts' : List (Expr × Expr)) (v : K), absTerms idx ts = some ts' →
        evalSTerms M ts = some v → evalTerms M.I ρ ts' = some v
    | [], ts', v, h, hv => by
      simp only [absTerms, Option.some.injEq] at h; subst h; simpa [evalTerms, evalSTerms] using hv
    | (k, c) :: t, ts', v, h, hv => by
      simp only [absTerms] at h
      simp only [evalSTerms] at hv
      obtain ⟨x, y, hx, hy, rfl⟩ := add2_some hv
      obtain ⟨a, b, ha, hb, rfl⟩ := mul2_some hx
      cases hk : absE idx k with
      | none => simp [hk] at h
      | some k' =>
        cases hc : absE idx c with
        | none => simp [hk, hc] at h
        | some c' =>
          cases ht : absTerms idx t with
          | none => simp [hk, hc, ht] at h
          | some t' =>
            simp only [hk, hc, ht, Option.some.injEq] at h
            subst h
            simp only [evalTerms, absE_sound hM ρ idx hidx k k' a hk ha,
              absE_sound hM ρ idx hidx c c' b hc hb, absTerms_sound hM ρ idx hidx t t' y ht hy, add2, mul2]
  theorem absFacs_sound (hM : Lawful M) (ρ : String → K) (idx : Expr → Option (Nat × Match)) (hidx : IdxOK M ρ idx) :
      ∀ (fs fs' : List (Expr × Expr)) (v : K), absFacs idx fs = some fs' →
        evalSFacs M fs = some v → evalFacs M.I ρ fs' = some v
    | [], fs', v, h, hv => by
      simp only [absFacs, Option.some.injEq] at h; subst h; simpa [evalFacs, evalSFacs] using hv
    | (b, e) :: t, fs', v, h, hv => by
      simp only [absFacs] at h
      rw [evalSFacs_cons] at hv
      obtain ⟨x, y, hx, hy, rfl⟩ := mul2_some hv
      have hx0 := hx
      simp only [facVal] at hx
      cases he : intLit? e with
      | some n =>
        simp only [he] at h hx
        obtain ⟨a, ha, hz, rfl⟩ := bind_powVal_some hx
        cases hb : absE idx b with
        | none => simp [hb] at h
        | some b' =>
          cases ht : absFacs idx t with
          | none => simp [hb, ht] at h
          | some t' =>
            simp only [hb, ht, Option.some.injEq] at h
            subst h
            simp only [evalFacs, intLit?, absE_sound hM ρ idx hidx b b' a hb ha, Option.bind_some,
              absFacs_sound hM ρ idx hidx t t' y ht hy]
            rw [ha] at hx
            simp only [Option.bind_some] at hx
            rw [hx]; rfl
      | none =>
        simp only [he] at h
        obtain ⟨vb, ve, v0, hvb, hne, hve, hv0e, hc, rfl, hat⟩ := powAtom_defined he hx0
        cases hb : absE idx b with
        | none => simp [hb] at h
        | some b' =>
          cases hq : idx (.pow b (expNorm e).2.2) with
          | none => simp [hb, hq] at h
          | some q =>
            cases ht : absFacs idx t with
            | none => simp [hb, hq, ht] at h
            | some t' =>
              simp only [hb, hq, ht, Option.some.injEq] at h
              subst h
              have hbK := absE_sound hM ρ idx hidx b b' vb hb hvb
              obtain ⟨i, m⟩ := q
              have hI := (hidx (.pow b (expNorm e).2.2) i m _ hq hat).2 b _ vb rfl
                (intLit_expNorm e he) hvb
              rw [evalFacs_powEntries M.I ρ b' (i, m) (expNorm e).1 (expNorm e).2.1 t' hbK hne hI.2
                (absFacs_sound hM ρ idx hidx t t' y ht hy)]
              rw [hc, hM.pw_add_int vb _ _ hne, ← hM.pw_mul_int vb v0 _ hne, hI.1]
end

end

end CSE
end SymVerif
