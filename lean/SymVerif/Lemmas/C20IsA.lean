/-
`build_isA`: the constructed object of a class that passes `is_base_of<T, Class>` passes it dynamically.
(The per-class case distinctions are generated from the class lists of Model/Codec.lean.)
-/
import SymVerif.Lemmas.C20Build

namespace SymVerif.Codec

theorem build_notImpl (n : String) (fvs : List FV) (e : Expr) : build .notImpl n fvs ≠ .ok e := by
  unfold build; split <;> simp_all

theorem build_unavailable (n : String) (fvs : List FV) (e : Expr) : build .unavailable n fvs ≠ .ok e := by
  unfold build; split <;> simp_all

theorem build_args (cs : List Cls) (n : String) (fvs : List FV) (e : Expr) (h : build (.args cs) n fvs = .ok e) :
    Expr.className e = n := by
  unfold build at h
  split at h <;> simp_all
  split at h <;> simp_all
  subst h; rfl

theorem build_vec (el : Nat) (c : Cls) (d : Bool) (n : String) (fvs : List FV) (e : Expr)
    (h : build (.vec el c d) n fvs = .ok e) : Expr.className e = n := by
  unfold build at h
  split at h <;> simp_all
  all_goals (subst h; rfl)

theorem build_interval (n : String) (fvs : List FV) (e : Expr) (h : build .interval n fvs = .ok e) :
    Expr.className e = n := by
  unfold build at h
  split at h <;> simp_all
  all_goals (subst h; rfl)

theorem build_boolAtom (n : String) (fvs : List FV) (e : Expr) (h : build .boolAtom n fvs = .ok e) :
    Expr.className e = "BooleanAtom" := by
  unfold build at h
  split at h <;> simp_all
  all_goals (subst h; rfl)

theorem fromTwoInts_number (n d : Int) : isA .number (Expr.className (fromTwoInts n d)) = true := by
  unfold fromTwoInts
  split
  · split <;> (simp only [Expr.className]; decide)
  · simp only []
    split <;> (simp only [Expr.className]; decide)

theorem fromTwoNums_number (re im e : Expr) (h : fromTwoNums re im = .ok e) :
    isA .number (Expr.className e) = true := by
  unfold fromTwoNums at h
  split at h
  · rename_i r i hr hi
    split at h
    · simp at h; subst h
      cases re <;> simp [qOf] at hr <;> (simp only [Expr.className]; decide)
    · simp at h; subst h; simp only [Expr.className]; decide
  · simp at h

theorem build_number (k : NK) (hk : k = .integer ∨ k = .rational ∨ k = .complex ∨ k = .cdouble ∨ k = .rdouble ∨ k = .infty ∨ k = .nan)
    (n : String) (fvs : List FV) (e : Expr) (h : build k n fvs = .ok e) :
    isA .number (Expr.className e) = true := by
  rcases hk with rfl | rfl | rfl | rfl | rfl | rfl | rfl <;> unfold build at h <;> split at h <;> simp_all
  · split at h <;> simp_all
    subst h; simp only [Expr.className]; decide
  · subst h; exact fromTwoInts_number _ _
  · exact fromTwoNums_number _ _ _ h
  · subst h; simp only [Expr.className]; decide
  · subst h; simp only [Expr.className]; decide
  · subst h; simp only [Expr.className]; decide
  · subst h; simp only [Expr.className]; decide

theorem build_integer (n : String) (fvs : List FV) (e : Expr) (h : build .integer n fvs = .ok e) :
    isA .integer (Expr.className e) = true := by
  unfold build at h
  split at h <;> simp_all
  split at h <;> simp_all
  subst h; simp only [Expr.className]; decide

theorem build_isA (c : Cls) (n : String) (fvs : List FV) (e : Expr)
    (h : build (kindOfName n) n fvs = .ok e) (hc : isA c n = true) : isA c (Expr.className e) = true := by
  cases c with
  | basic => rfl
  | integer =>
    have hn : n = "Integer" := by simpa [isA] using hc
    subst hn
    rw [show kindOfName "Integer" = NK.integer from by decide] at h
    exact build_integer _ _ _ h
  | number =>
    have hm : n ∈ numberNames := by simpa [isA] using hc
    simp only [numberNames, List.mem_cons, List.not_mem_nil, or_false] at hm
    rcases hm with rfl | rfl | rfl | rfl | rfl | rfl | rfl | rfl | rfl | rfl | rfl | rfl | rfl | rfl
    · rw [show kindOfName "Integer" = NK.integer from by decide] at h
      exact build_number _ (by simp) _ _ _ h
    · rw [show kindOfName "Rational" = NK.rational from by decide] at h
      exact build_number _ (by simp) _ _ _ h
    · rw [show kindOfName "Complex" = NK.complex from by decide] at h
      exact build_number _ (by simp) _ _ _ h
    · rw [show kindOfName "ComplexDouble" = NK.cdouble from by decide] at h
      exact build_number _ (by simp) _ _ _ h
    · rw [show kindOfName "RealMPFR" = NK.unavailable from by decide] at h
      exact absurd h (build_unavailable _ _ _)
    · rw [show kindOfName "ComplexMPC" = NK.unavailable from by decide] at h
      exact absurd h (build_unavailable _ _ _)
    · rw [show kindOfName "RealDouble" = NK.rdouble from by decide] at h
      exact build_number _ (by simp) _ _ _ h
    · rw [show kindOfName "Infty" = NK.infty from by decide] at h
      exact build_number _ (by simp) _ _ _ h
    · rw [show kindOfName "NaN" = NK.nan from by decide] at h
      exact build_number _ (by simp) _ _ _ h
    · rw [show kindOfName "URatPSeriesPiranha" = NK.unavailable from by decide] at h
      exact absurd h (build_unavailable _ _ _)
    · rw [show kindOfName "UPSeriesPiranha" = NK.unavailable from by decide] at h
      exact absurd h (build_unavailable _ _ _)
    · rw [show kindOfName "URatPSeriesFlint" = NK.unavailable from by decide] at h
      exact absurd h (build_unavailable _ _ _)
    · rw [show kindOfName "NumberWrapper" = NK.notImpl from by decide] at h
      exact absurd h (build_notImpl _ _ _)
    · rw [show kindOfName "UnivariateSeries" = NK.notImpl from by decide] at h
      exact absurd h (build_notImpl _ _ _)
  | boolean =>
    have hm : n ∈ booleanNames := by simpa [isA] using hc
    simp only [booleanNames, List.mem_cons, List.not_mem_nil, or_false] at hm
    rcases hm with rfl | rfl | rfl | rfl | rfl | rfl | rfl | rfl | rfl | rfl
    · rw [show kindOfName "Contains" = NK.args [.basic, .set] from by decide] at h
      rw [build_args _ _ _ _ h]; decide
    · rw [show kindOfName "BooleanAtom" = NK.boolAtom from by decide] at h
      rw [build_boolAtom _ _ _ h]; decide
    · rw [show kindOfName "Not" = NK.args [.boolean] from by decide] at h
      rw [build_args _ _ _ _ h]; decide
    · rw [show kindOfName "And" = NK.vec 0 .boolean true from by decide] at h
      rw [build_vec _ _ _ _ _ _ h]; decide
    · rw [show kindOfName "Or" = NK.vec 0 .boolean true from by decide] at h
      rw [build_vec _ _ _ _ _ _ h]; decide
    · rw [show kindOfName "Xor" = NK.vec 8 .boolean false from by decide] at h
      rw [build_vec _ _ _ _ _ _ h]; decide
    · rw [show kindOfName "Equality" = NK.args [.basic, .basic] from by decide] at h
      rw [build_args _ _ _ _ h]; decide
    · rw [show kindOfName "Unequality" = NK.args [.basic, .basic] from by decide] at h
      rw [build_args _ _ _ _ h]; decide
    · rw [show kindOfName "LessThan" = NK.args [.basic, .basic] from by decide] at h
      rw [build_args _ _ _ _ h]; decide
    · rw [show kindOfName "StrictLessThan" = NK.args [.basic, .basic] from by decide] at h
      rw [build_args _ _ _ _ h]; decide
  | set =>
    have hm : n ∈ setNames := by simpa [isA] using hc
    simp only [setNames, List.mem_cons, List.not_mem_nil, or_false] at hm
    rcases hm with rfl | rfl | rfl | rfl | rfl | rfl | rfl | rfl | rfl | rfl | rfl | rfl | rfl | rfl | rfl
    · rw [show kindOfName "EmptySet" = NK.args [] from by decide] at h
      rw [build_args _ _ _ _ h]; decide
    · rw [show kindOfName "FiniteSet" = NK.vec 0 .basic true from by decide] at h
      rw [build_vec _ _ _ _ _ _ h]; decide
    · rw [show kindOfName "Interval" = NK.interval from by decide] at h
      rw [build_interval _ _ _ h]; decide
    · rw [show kindOfName "Complexes" = NK.notImpl from by decide] at h
      exact absurd h (build_notImpl _ _ _)
    · rw [show kindOfName "Reals" = NK.args [] from by decide] at h
      rw [build_args _ _ _ _ h]; decide
    · rw [show kindOfName "Rationals" = NK.args [] from by decide] at h
      rw [build_args _ _ _ _ h]; decide
    · rw [show kindOfName "Integers" = NK.args [] from by decide] at h
      rw [build_args _ _ _ _ h]; decide
    · rw [show kindOfName "Naturals" = NK.notImpl from by decide] at h
      exact absurd h (build_notImpl _ _ _)
    · rw [show kindOfName "Naturals0" = NK.notImpl from by decide] at h
      exact absurd h (build_notImpl _ _ _)
    · rw [show kindOfName "ConditionSet" = NK.args [.basic, .boolean] from by decide] at h
      rw [build_args _ _ _ _ h]; decide
    · rw [show kindOfName "Union" = NK.vec 0 .set true from by decide] at h
      rw [build_vec _ _ _ _ _ _ h]; decide
    · rw [show kindOfName "Intersection" = NK.notImpl from by decide] at h
      exact absurd h (build_notImpl _ _ _)
    · rw [show kindOfName "Complement" = NK.args [.set, .set] from by decide] at h
      rw [build_args _ _ _ _ h]; decide
    · rw [show kindOfName "ImageSet" = NK.args [.basic, .basic, .set] from by decide] at h
      rw [build_args _ _ _ _ h]; decide
    · rw [show kindOfName "UniversalSet" = NK.args [] from by decide] at h
      rw [build_args _ _ _ _ h]; decide

end SymVerif.Codec
