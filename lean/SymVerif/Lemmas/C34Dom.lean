/-
Soundness of IntegerVisitor, RealVisitor, ComplexVisitor and FiniteVisitor (fuel versions).
On the real-valued semantics `is_real / is_complex / is_finite = true` say nothing; the content of these
three visitors is in the `false` answers: an expression declared non-real / non-complex / infinite has no
real value at any assignment.
-/
import SymVerif.Lemmas.C34Sign

namespace SymVerif.C34
open SymVerif SymVerif.Queries

/-! ## heads with a meaning -/

def semHeads : List String :=
  ["Abs", "Sign", "Conjugate", "Floor", "Ceiling", "Sin", "Cos", "Log", "Tan", "Cot", "Csc", "Sec", "Max", "Min"]

theorem appSem_some_head {h : String} {args : Option (List ℝ)} {v : ℝ} (hv : appSem h args = some v) :
    h ∈ semHeads := by
  by_contra hn
  simp only [semHeads, List.mem_cons, List.mem_nil_iff, or_false, not_or] at hn
  obtain ⟨h1, h2, h3, h4, h5, h6, h7, h8, h9, h10, h11, h12, h13, h14⟩ := hn
  unfold appSem at hv
  split at hv
  · simp only [h1, h2, h3, h4, h5, h6, h7, h8, h9, h10, h11, h12, if_false] at hv
    cases hv
  · simp only [h13, h14, if_false] at hv
    cases hv
  · cases hv

theorem isLogic_app_none {ρ : String → ℝ} {h : String} {args : List Expr} (hl : isLogic (.app h args) = true) :
    evalR ρ (.app h args) = none := by
  simp only [evalR]
  cases hs : appSem h (evalArgs ρ args) with
  | none => rfl
  | some v =>
    have := appSem_some_head hs
    simp only [semHeads, List.mem_cons, List.mem_nil_iff, or_false] at this
    rcases this with rfl | rfl | rfl | rfl | rfl | rfl | rfl | rfl | rfl | rfl | rfl | rfl | rfl | rfl <;>
      simp [isLogic, setHeads, relHeads, boolHeads] at hl

theorem appSem_none_args (h : String) : appSem h none = none := by
  simp [appSem]

/-! ## IntegerVisitor -/

theorem rat_not_int {k : ℤ} {d : ℕ} (hd : 1 < d) (hg : Nat.gcd k.natAbs d = 1) :
    ¬ ∃ m : ℤ, (k : ℝ) / (d : ℝ) = (m : ℝ) := by
  rintro ⟨m, hm⟩
  have hd0 : (d : ℝ) ≠ 0 := by
    have : 0 < d := by omega
    exact_mod_cast (Nat.pos_iff_ne_zero.mp this)
  rw [div_eq_iff hd0] at hm
  have hk : k = m * (d : ℤ) := by exact_mod_cast hm
  have hdvd : (d : ℤ) ∣ k := ⟨m, by rw [hk]; ring⟩
  have h1 : d ∣ k.natAbs := by
    have := Int.natAbs_dvd_natAbs.mpr hdvd
    simpa using this
  have h2 : d ∣ Nat.gcd k.natAbs d := Nat.dvd_gcd h1 (dvd_refl d)
  rw [hg] at h2
  have := Nat.le_of_dvd (by norm_num) h2
  omega

theorem allT_map {l : List Expr} {f : Expr → Tri} (h : allT (l.map f) = true) : ∀ a ∈ l, f a = .t := by
  intro a ha
  simp only [allT, List.all_eq_true, List.mem_map, forall_exists_index, and_imp] at h
  simpa using h (f a) a ha rfl

theorem sum_int {l : List ℝ} (h : ∀ x ∈ l, ∃ n : ℤ, x = (n : ℝ)) : ∃ n : ℤ, l.sum = (n : ℝ) := by
  induction l with
  | nil => exact ⟨0, by simp⟩
  | cons a t ih =>
    obtain ⟨n, hn⟩ := h a (by simp)
    obtain ⟨m, hm⟩ := ih (fun x hx => h x (List.mem_cons_of_mem _ hx))
    exact ⟨n + m, by simp [hn, hm]⟩

theorem prod_int {l : List ℝ} (h : ∀ x ∈ l, ∃ n : ℤ, x = (n : ℝ)) : ∃ n : ℤ, l.prod = (n : ℝ) := by
  induction l with
  | nil => exact ⟨1, by simp⟩
  | cons a t ih =>
    obtain ⟨n, hn⟩ := h a (by simp)
    obtain ⟨m, hm⟩ := ih (fun x hx => h x (List.mem_cons_of_mem _ hx))
    exact ⟨n * m, by simp [hn, hm]⟩

theorem isIntegerF_sound {ρ : String → ℝ} {A : Assumptions} (hA : FactsSat ρ A) :
    ∀ (fuel : Nat) (e : Expr) (v : ℝ), wf e = true → evalR ρ e = some v →
      (isIntegerF A fuel e = .t → ∃ n : ℤ, v = (n : ℝ)) ∧ (isIntegerF A fuel e = .f → ¬ ∃ n : ℤ, v = (n : ℝ)) := by
  intro fuel
  induction fuel with
  | zero => intro e v _ _; simp [isIntegerF]
  | succ n ih =>
    intro e v hw hv
    cases e with
    | int k =>
      simp [evalR] at hv; subst hv
      simp only [isIntegerF]
      exact ⟨fun _ => ⟨k, rfl⟩, by simp⟩
    | rat k d =>
      simp only [wf, Bool.and_eq_true, decide_eq_true_eq, beq_iff_eq] at hw
      simp [evalR] at hv
      obtain ⟨_, rfl⟩ := hv
      simp only [isIntegerF, Expr.isNum]
      exact ⟨by simp, fun _ => rat_not_int hw.1 hw.2⟩
    | sym s =>
      simp [evalR] at hv; subst hv
      simp only [isIntegerF]
      exact ⟨fun h => hA.int s (fromSet_t h), fun h => absurd h fromSet_ne_f⟩
    | const c =>
      simp only [evalR] at hv
      simp only [isIntegerF]
      split
      · exact ⟨by simp, fun _ => constVal_not_int hv⟩
      · simp
    | add c ts =>
      simp only [isIntegerF]
      split
      · rename_i hall
        refine ⟨fun _ => ?_, by simp⟩
        rw [evalR_add_args hw] at hv
        cases hs : evalArgs ρ (argsOf (.add c ts)) with
        | none => simp [hs] at hv
        | some vs =>
          simp [hs] at hv
          subst hv
          apply sum_int
          exact evalArgs_forall hs (fun a ha va hva => (ih a va (wf_argsOf hw a ha) hva).1 (allT_map hall a ha))
      · simp
    | mul c fs =>
      simp only [isIntegerF]
      split
      · rename_i hall
        refine ⟨fun _ => ?_, by simp⟩
        rw [evalR_mul_args] at hv
        cases hs : evalArgs ρ (argsOf (.mul c fs)) with
        | none => simp [hs] at hv
        | some vs =>
          simp [hs] at hv
          subst hv
          apply prod_int
          exact evalArgs_forall hs (fun a ha va hva => (ih a va (wf_argsOf hw a ha) hva).1 (allT_map hall a ha))
      · simp
    | app h args =>
      simp only [isIntegerF]
      split
      · rename_i hc
        have hh : h = "Conjugate" := by simpa using hc
        subst hh
        match args with
        | [a] =>
          simp only
          obtain ⟨x, hx, hs⟩ := evalR_app_single hv
          simp [appSem] at hs
          subst hs
          simp only [wf, wfList, Bool.and_eq_true] at hw
          exact ih a x hw.1 hx
        | [] => simp
        | _ :: _ :: _ => simp
      · split
        · rename_i _ hk
          have hh : h = "KroneckerDelta" := by simpa using hk
          subst hh
          have := appSem_some_head (by simpa [evalR] using hv)
          simp [semHeads] at this
        · split
          · rename_i hl
            rw [isLogic_app_none hl] at hv
            cases hv
          · simp
    | _ => first | (simp [evalR] at hv; done) | simp [isIntegerF, Expr.isNum]

/-! ## RealVisitor -/

theorem andwkList_f {l : List Tri} (h : andwkList l = .f) : ∃ r ∈ l, r = .f := by
  induction l with
  | nil => simp [andwkList] at h
  | cons a t ih =>
    simp only [andwkList] at h
    cases a with
    | f => exact ⟨.f, by simp, rfl⟩
    | i => simp [Tri.andwk] at h
    | t =>
      have : andwkList t = .f := by
        cases hh : andwkList t <;> simp [Tri.andwk, hh] at h ⊢
      obtain ⟨r, hr, hrf⟩ := ih this
      exact ⟨r, List.mem_cons_of_mem _ hr, hrf⟩

theorem realMulRes_f {cf : Bool} {rs : List Tri} (h : realMulRes cf rs = .f) : cf = true ∨ ∃ r ∈ rs, r = .f := by
  unfold realMulRes at h
  split at h
  · cases h
  · by_contra hcon
    simp only [not_or, Bool.not_eq_true, not_exists, not_and] at hcon
    obtain ⟨hcf, hno⟩ := hcon
    have h0 : rs.countP (· == .f) = 0 := by
      rw [List.countP_eq_zero]
      intro r hr
      simpa using hno r hr
    simp [hcf, h0] at h

theorem checkPowerWith_f {A : Assumptions} {visit : Expr → Tri} {b x : Expr}
    (h : checkPowerWith A visit b x = .f) : visit b = .f := by
  unfold checkPowerWith at h
  split at h
  · cases h
  · simp only at h
    split at h
    · split at h
      · cases h
      · split at h
        · split at h <;> simp_all
        · cases h
    · split at h
      · rename_i hc
        simp only [Bool.and_eq_true, beq_iff_eq] at hc
        exact hc.1.1
      · cases h

theorem evalFacs_mem_none {ρ : String → ℝ} {fs : List (Expr × Expr)} {p : Expr × Expr} (hp : p ∈ fs)
    (hn : powSem (evalR ρ p.1) p.2 (evalR ρ p.2) = none) : evalFacs ρ fs = none := by
  induction fs with
  | nil => cases hp
  | cons q t ih =>
    obtain ⟨b, x⟩ := q
    simp only [evalFacs]
    rcases List.mem_cons.mp hp with rfl | h
    · simp only at hn; simp [hn]
    · rw [ih h]; cases powSem (evalR ρ b) x (evalR ρ x) <;> simp

theorem wfPairs_mem : ∀ {fs : List (Expr × Expr)}, wfPairs fs = true → ∀ p ∈ fs, wf p.1 = true ∧ wf p.2 = true := by
  intro fs
  induction fs with
  | nil => intro _ p hp; cases hp
  | cons q t ih =>
    obtain ⟨b, x⟩ := q
    intro hw p hp
    simp only [wfPairs, Bool.and_eq_true] at hw
    rcases List.mem_cons.mp hp with rfl | hp
    · exact hw.1
    · exact ih hw.2 p hp

theorem powSem_base_none (x : Expr) (ve : Option ℝ) : powSem none x ve = none := by
  simp [powSem]

theorem powSem_exp_none {ρ : String → ℝ} {x : Expr} (vb : Option ℝ) (h : evalR ρ x = none) :
    powSem vb x (evalR ρ x) = none := by
  cases x <;> first | (simp [evalR] at h; done) | (rw [h]; cases vb <;> simp [powSem])

theorem evalR_mul_none_of_facs {ρ : String → ℝ} {c : Expr} {fs : List (Expr × Expr)} (h : evalFacs ρ fs = none) :
    evalR ρ (.mul c fs) = none := by
  simp only [evalR, h]
  cases evalR ρ c <;> simp

theorem numIsComplexMeth_none {ρ : String → ℝ} {c : Expr} (h : numIsComplexMeth c = true) : evalR ρ c = none := by
  cases c <;> simp [numIsComplexMeth] at h <;> simp [evalR]

/-- an expression declared non-real has no real value -/
theorem isRealF_f_none {ρ : String → ℝ} {A : Assumptions} :
    ∀ (fuel : Nat) (e : Expr), wf e = true → isRealF A fuel e = .f → evalR ρ e = none := by
  intro fuel
  induction fuel with
  | zero => intro e _ h; simp [isRealF] at h
  | succ n ih =>
    intro e hw h
    cases e with
    | sym s => simp only [isRealF] at h; exact absurd h fromSet_ne_f
    | const c => simp only [isRealF] at h; split at h <;> cases h
    | add c ts =>
      simp only [isRealF] at h
      obtain ⟨r, hr, hrf⟩ := andwkList_f h
      obtain ⟨a, ha, rfl⟩ := List.mem_map.mp hr
      have := ih a (wf_argsOf hw a ha) hrf
      rw [evalR_add_args hw, evalArgs_mem_none ha this]; rfl
    | mul c fs =>
      simp only [isRealF] at h
      simp only [wf, Bool.and_eq_true] at hw
      rcases realMulRes_f h with hc | ⟨r, hr, hrf⟩
      · simp [evalR, numIsComplexMeth_none hc]
      · obtain ⟨p, hp, rfl⟩ := List.mem_map.mp hr
        have hb := ih p.1 (wfPairs_mem hw.2 p hp).1 (checkPowerWith_f hrf)
        apply evalR_mul_none_of_facs
        apply evalFacs_mem_none hp
        rw [hb]; exact powSem_base_none _ _
    | pow b x =>
      simp only [isRealF] at h
      simp only [wf, Bool.and_eq_true] at hw
      have hb := ih b hw.1 (checkPowerWith_f h)
      simp only [evalR, hb]; exact powSem_base_none _ _
    | app hd args =>
      simp only [isRealF] at h
      split at h
      · rename_i hl; exact isLogic_app_none hl
      · cases h
    | int k => simp [isRealF, Expr.isNum, numIsComplexCls, isInftyOrNaN] at h
    | rat k d => simp [isRealF, Expr.isNum, numIsComplexCls, isInftyOrNaN] at h
    | _ => simp [evalR]

/-! ## ComplexVisitor -/

theorem firstNonT_f {l : List Tri} (h : firstNonT l = .f) : ∃ r ∈ l, r = .f := by
  induction l with
  | nil => simp [firstNonT] at h
  | cons a t ih =>
    cases a with
    | f => exact ⟨.f, by simp, rfl⟩
    | i => simp [firstNonT] at h
    | t =>
      simp only [firstNonT] at h
      obtain ⟨r, hr, hrf⟩ := ih h
      exact ⟨r, List.mem_cons_of_mem _ hr, hrf⟩

theorem cpowWith_f {visit : Expr → Tri} {b x : Expr} (h : cpowWith visit b x = .f) :
    visit b = .f ∨ visit x = .f := by
  unfold cpowWith at h
  simp only at h
  split at h
  · right; exact h
  · left; exact h

theorem isComplexF_f_none {ρ : String → ℝ} {A : Assumptions} :
    ∀ (fuel : Nat) (e : Expr), wf e = true → isComplexF A fuel e = .f → evalR ρ e = none := by
  intro fuel
  induction fuel with
  | zero => intro e _ h; simp [isComplexF] at h
  | succ n ih =>
    intro e hw h
    cases e with
    | sym s => simp only [isComplexF] at h; exact absurd h fromSet_ne_f
    | const c => simp [isComplexF] at h
    | add c ts =>
      simp only [isComplexF] at h
      obtain ⟨r, hr, hrf⟩ := firstNonT_f h
      obtain ⟨a, ha, rfl⟩ := List.mem_map.mp hr
      have := ih a (wf_argsOf hw a ha) hrf
      rw [evalR_add_args hw, evalArgs_mem_none ha this]; rfl
    | mul c fs =>
      simp only [isComplexF] at h
      simp only [wf, Bool.and_eq_true] at hw
      obtain ⟨r, hr, hrf⟩ := firstNonT_f h
      obtain ⟨p, hp, rfl⟩ := List.mem_map.mp hr
      apply evalR_mul_none_of_facs
      apply evalFacs_mem_none hp
      rcases cpowWith_f hrf with hb | hx
      · rw [ih p.1 (wfPairs_mem hw.2 p hp).1 hb]; exact powSem_base_none _ _
      · exact powSem_exp_none _ (ih p.2 (wfPairs_mem hw.2 p hp).2 hx)
    | pow b x =>
      simp only [isComplexF] at h
      simp only [wf, Bool.and_eq_true] at hw
      simp only [evalR]
      rcases cpowWith_f h with hb | hx
      · rw [ih b hw.1 hb]; exact powSem_base_none _ _
      · exact powSem_exp_none _ (ih x hw.2 hx)
    | app hd args =>
      simp only [isComplexF] at h
      split at h
      · cases h
      · split at h
        · rename_i hl; exact isLogic_app_none hl
        · match args with
          | [a] =>
            simp only [wf, wfList, Bool.and_eq_true] at hw
            simp only at h
            split at h
            · have := ih a hw.1 h
              simp [evalR, evalArgs, this, appSem_none_args]
            · split at h
              · rename_i hnz
                have hh : hd = "Log" ∨ hd = "ASec" ∨ hd = "ASech" ∨ hd = "ACsc" ∨ hd = "ACsch" := by
                  simpa [cplxNotZeroHeads] using hnz
                unfold cplxNotZero at h
                split at h
                · -- the argument is declared zero (without assumptions): log 0 etc. have no value
                  simp only at h
                  split at h
                  · have hz : isZero Assumptions.empty a = .t := by
                      cases hzz : isZero Assumptions.empty a <;> simp [hzz, Tri.not] at h ⊢
                    cases ha : evalR ρ a with
                    | none => simp [evalR, evalArgs, ha, appSem_none_args]
                    | some x =>
                      have hx0 : x = 0 := (isZeroF_sound (factsSat_empty ρ) _ a x ha).1 hz
                      subst hx0
                      rcases hh with rfl | rfl | rfl | rfl | rfl <;> simp [evalR, evalArgs, ha, appSem]
                  · cases h
                · have := ih a hw.1 h
                  simp [evalR, evalArgs, this, appSem_none_args]
              · cases h
          | [] => simp at h
          | _ :: _ :: _ => simp at h
    | int k => simp [isComplexF, Expr.isNum, isInftyOrNaN] at h
    | rat k d => simp [isComplexF, Expr.isNum, isInftyOrNaN] at h
    | _ => simp [evalR]

/-! ## FiniteVisitor -/

theorem isFinite_f_none {ρ : String → ℝ} {A : Assumptions} {e : Expr} (h : isFinite A e = .f) :
    evalR ρ e = none := by
  cases e with
  | sym s => simp only [isFinite] at h; exact absurd h fromSet_ne_f
  | infty d => simp [evalR]
  | _ => first | (simp [evalR]; done) | (simp [isFinite, Expr.isNum] at h)

end SymVerif.C34
