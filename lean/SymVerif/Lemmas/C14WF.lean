/-
C14, SSA well-formedness: every operand of every generated instruction is a constant or the
result of an earlier instruction, and every stored output is defined.
-/
import SymVerif.Lemmas.C14Init

namespace SymVerif.LLVMD
open SymVerif.EvalG

variable {α : Type}

def Instr.operands : Instr α → List (Val α)
  | .load _ => []
  | .fadd a b => [a, b]
  | .fmul a b => [a, b]
  | .call _ _ args => args
  | .powi a _ => [a]
  | .fcmp _ a b => [a, b]
  | .bop _ a b => [a, b]
  | .bnot a => [a]
  | .uitofp a => [a]
  | .condbr c => [c]
  | .phi c a b => [c, a, b]

/-- the instructions `ext`, placed from position `n` on, only use registers defined before them -/
def WFfrom : Nat → Prog α → Prop
  | _, [] => True
  | n, i :: rest => (∀ v ∈ i.operands, v.lt n) ∧ WFfrom (n + 1) rest

/-- SSA well-formedness of a whole program -/
def WF (P : Prog α) : Prop := WFfrom 0 P

theorem WFfrom_append (n : Nat) (A B : Prog α) :
    WFfrom n (A ++ B) ↔ WFfrom n A ∧ WFfrom (n + A.length) B := by
  induction A generalizing n with
  | nil => simp [WFfrom]
  | cons i rest ih =>
    simp only [List.cons_append, WFfrom, ih, List.length_cons]
    have : n + 1 + rest.length = n + (rest.length + 1) := by omega
    rw [this]
    exact and_assoc.symm

/-- a builder step is well formed: it extends the program by instructions that only use the given
operands (or earlier results), and its result is defined afterwards -/
def StepWF (P : Prog α) (res : Val α × Prog α) (ops : List (Val α)) : Prop :=
  ∃ ext, res.2 = P ++ ext ∧ ((∀ v ∈ ops, v.lt P.length) → WFfrom P.length ext ∧ res.1.lt res.2.length)

theorem stepWF_emit (P : Prog α) (i : Instr α) (ops : List (Val α)) (h : ∀ v ∈ i.operands, v ∈ ops) :
    StepWF P (emit P i) ops :=
  ⟨[i], rfl, fun hops => ⟨⟨fun v hv => hops v (h v hv), trivial⟩, by simp [emit, Val.lt]⟩⟩

theorem mkFBin_wf (L : LOps α) (isAdd : Bool) (a b : Val α) (P : Prog α) : StepWF P (mkFBin L isAdd a b P) [a, b] := by
  unfold mkFBin
  split
  · exact ⟨[], by simp, fun _ => ⟨trivial, trivial⟩⟩
  · exact stepWF_emit P _ _ (by cases isAdd <;> simp [Instr.operands])

theorem mkFCmp_wf (L : LOps α) (p : FPred) (a b : Val α) (P : Prog α) : StepWF P (mkFCmp L p a b P) [a, b] := by
  unfold mkFCmp
  split
  · exact ⟨[], by simp, fun _ => ⟨trivial, trivial⟩⟩
  · exact stepWF_emit P _ _ (by simp [Instr.operands])

theorem mkBop_wf (o : BOp) (a b : Val α) (P : Prog α) : StepWF P (mkBop o a b P) [a, b] := by
  unfold mkBop
  split
  · exact ⟨[], by simp, fun _ => ⟨trivial, trivial⟩⟩
  · exact stepWF_emit P _ _ (by simp [Instr.operands])

theorem mkNot_wf (a : Val α) (P : Prog α) : StepWF P (mkNot a P) [a] := by
  unfold mkNot
  split
  · exact ⟨[], by simp, fun _ => ⟨trivial, trivial⟩⟩
  · exact stepWF_emit P _ _ (by simp [Instr.operands])

theorem mkUIToFP_wf (L : LOps α) (a : Val α) (P : Prog α) : StepWF P (mkUIToFP L a P) [a] := by
  unfold mkUIToFP
  split
  · exact ⟨[], by simp, fun _ => ⟨trivial, trivial⟩⟩
  · exact stepWF_emit P _ _ (by simp [Instr.operands])

/-- sequencing two steps: the second may use the operands of the first and its result -/
theorem StepWF.seq {P : Prog α} {r1 : Val α × Prog α} {ops : List (Val α)} {r2 : Val α × Prog α} {ops2 : List (Val α)}
    (h1 : StepWF P r1 ops) (h2 : StepWF r1.2 r2 ops2) (hsub : ∀ v ∈ ops2, v ∈ ops ∨ v = r1.1) :
    StepWF P r2 ops := by
  obtain ⟨e1, he1, w1⟩ := h1
  obtain ⟨e2, he2, w2⟩ := h2
  refine ⟨e1 ++ e2, by rw [he2, he1, List.append_assoc], fun hops => ?_⟩
  obtain ⟨wf1, lt1⟩ := w1 hops
  have hops2 : ∀ v ∈ ops2, v.lt r1.2.length := by
    intro v hv
    rcases hsub v hv with h | h
    · exact Val.lt_mono (by rw [he1]; simp) v (hops v h)
    · rw [h]; exact lt1
  obtain ⟨wf2, lt2⟩ := w2 hops2
  refine ⟨(WFfrom_append _ _ _).2 ⟨wf1, ?_⟩, lt2⟩
  have : P.length + e1.length = r1.2.length := by rw [he1]; simp
  rw [this]; exact wf2

macro "bad_shape_wf" : tactic => `(tactic| (intro h; simp [emitOp] at h))

theorem emitOp_wf (L : LOps α) (k : OpK) (vs : List (Val α)) (P : Prog α) (res : Val α × Prog α)
    (h : emitOp L k vs P = .ok res) : StepWF P res vs := by
  revert h
  cases k with
  | fadd =>
    match vs with
    | [a, b] => intro h; simp only [emitOp] at h; cases h; exact mkFBin_wf L true a b P
    | [] => bad_shape_wf
    | [_] => bad_shape_wf
    | _ :: _ :: _ :: _ => bad_shape_wf
  | fmul =>
    match vs with
    | [a, b] => intro h; simp only [emitOp] at h; cases h; exact mkFBin_wf L false a b P
    | [] => bad_shape_wf
    | [_] => bad_shape_wf
    | _ :: _ :: _ :: _ => bad_shape_wf
  | square =>
    match vs with
    | [a] =>
      intro h; simp only [emitOp] at h; cases h
      obtain ⟨e, he, w⟩ := mkFBin_wf L false a a P
      exact ⟨e, he, fun hops => w (by
        intro v hv
        have hva : v = a := by simpa using hv
        subst hva; exact hops _ (by simp))⟩
    | [] => bad_shape_wf
    | _ :: _ :: _ => bad_shape_wf
  | call intr name =>
    intro h; simp only [emitOp] at h; cases h
    exact stepWF_emit P _ _ (by simp [Instr.operands])
  | powi n =>
    match vs with
    | [a] => intro h; simp only [emitOp] at h; cases h; exact stepWF_emit P _ _ (by simp [Instr.operands])
    | [] => bad_shape_wf
    | _ :: _ :: _ => bad_shape_wf
  | cmpU p =>
    match vs with
    | [a, b] =>
      intro h; simp only [emitOp] at h; cases h
      exact (mkFCmp_wf L p a b P).seq (mkUIToFP_wf L _ _) (by intro v hv; simp at hv; exact Or.inr hv)
    | [] => bad_shape_wf
    | [_] => bad_shape_wf
    | _ :: _ :: _ :: _ => bad_shape_wf
  | truth =>
    match vs with
    | [a] =>
      intro h; simp only [emitOp] at h; cases h
      obtain ⟨e, he, w⟩ := mkFCmp_wf L .one a (.cf (zeroF L)) P
      exact ⟨e, he, fun hops => w (by
        intro v hv; simp at hv
        rcases hv with h | h
        · subst h; exact hops _ (by simp)
        · subst h; trivial)⟩
    | [] => bad_shape_wf
    | _ :: _ :: _ => bad_shape_wf
  | bop o =>
    match vs with
    | [a, b] => intro h; simp only [emitOp] at h; cases h; exact mkBop_wf o a b P
    | [] => bad_shape_wf
    | [_] => bad_shape_wf
    | _ :: _ :: _ :: _ => bad_shape_wf
  | notU =>
    match vs with
    | [a] =>
      intro h; simp only [emitOp] at h; cases h
      exact (mkNot_wf a P).seq (mkUIToFP_wf L _ _) (by intro v hv; simp at hv; exact Or.inr hv)
    | [] => bad_shape_wf
    | _ :: _ :: _ => bad_shape_wf
  | toFP =>
    match vs with
    | [a] => intro h; simp only [emitOp] at h; cases h; exact mkUIToFP_wf L a P
    | [] => bad_shape_wf
    | _ :: _ :: _ => bad_shape_wf
  | contains lo ro =>
    match vs with
    | [x, s, e] =>
      intro h; simp only [emitOp] at h; cases h
      generalize (if lo then FPred.olt else FPred.ole) = p1
      generalize (if ro then FPred.olt else FPred.ole) = p2
      -- four steps; operands of each are among x s e or earlier results
      obtain ⟨e1, he1, w1⟩ := mkFCmp_wf L p1 s x P
      obtain ⟨e2, he2, w2⟩ := mkFCmp_wf L p2 x e (mkFCmp L p1 s x P).2
      obtain ⟨e3, he3, w3⟩ := mkBop_wf .and (mkFCmp L p1 s x P).1 (mkFCmp L p2 x e (mkFCmp L p1 s x P).2).1
        (mkFCmp L p2 x e (mkFCmp L p1 s x P).2).2
      obtain ⟨e4, he4, w4⟩ := mkUIToFP_wf L
        (mkBop .and (mkFCmp L p1 s x P).1 (mkFCmp L p2 x e (mkFCmp L p1 s x P).2).1 (mkFCmp L p2 x e (mkFCmp L p1 s x P).2).2).1
        (mkBop .and (mkFCmp L p1 s x P).1 (mkFCmp L p2 x e (mkFCmp L p1 s x P).2).1 (mkFCmp L p2 x e (mkFCmp L p1 s x P).2).2).2
      refine ⟨e1 ++ (e2 ++ (e3 ++ e4)), by rw [he4, he3, he2, he1]; simp [List.append_assoc], fun hops => ?_⟩
      have hx := hops x (by simp); have hs := hops s (by simp); have he := hops e (by simp)
      obtain ⟨wf1, lt1⟩ := w1 (by intro v hv; simp at hv; rcases hv with h | h <;> (subst h; assumption))
      have l1 : P.length ≤ (mkFCmp L p1 s x P).2.length := by rw [he1]; simp
      obtain ⟨wf2, lt2⟩ := w2 (by
        intro v hv; simp at hv
        rcases hv with h | h <;> (subst h; exact Val.lt_mono l1 _ (by assumption)))
      have l2 : (mkFCmp L p1 s x P).2.length ≤ (mkFCmp L p2 x e (mkFCmp L p1 s x P).2).2.length := by rw [he2]; simp
      obtain ⟨wf3, lt3⟩ := w3 (by
        intro v hv; simp at hv
        rcases hv with h | h
        · subst h; exact Val.lt_mono l2 _ lt1
        · subst h; exact lt2)
      obtain ⟨wf4, lt4⟩ := w4 (by intro v hv; simp at hv; subst hv; exact lt3)
      refine ⟨?_, lt4⟩
      rw [WFfrom_append, WFfrom_append, WFfrom_append]
      have a1 : P.length + e1.length = (mkFCmp L p1 s x P).2.length := by rw [he1]; simp
      have a2 : P.length + e1.length + e2.length = (mkFCmp L p2 x e (mkFCmp L p1 s x P).2).2.length := by
        rw [he2, he1]; simp; omega
      have a3 : P.length + e1.length + e2.length + e3.length
          = (mkBop .and (mkFCmp L p1 s x P).1 (mkFCmp L p2 x e (mkFCmp L p1 s x P).2).1 (mkFCmp L p2 x e (mkFCmp L p1 s x P).2).2).2.length := by
        rw [he3, he2, he1]; simp; omega
      exact ⟨wf1, by rw [a1]; exact wf2, by rw [a2]; exact wf3, by rw [a3]; exact wf4⟩
    | [] => bad_shape_wf
    | [_] => bad_shape_wf
    | [_, _] => bad_shape_wf
    | _ :: _ :: _ :: _ :: _ => bad_shape_wf

/-- environment only hands out defined registers -/
def EnvLt (env : String → Option (Val α)) (n : Nat) : Prop := ∀ name v, env name = some v → v.lt n

theorem EnvLt.mono {env : String → Option (Val α)} {n m : Nat} (h : EnvLt env n) (hnm : n ≤ m) : EnvLt env m :=
  fun name v hv => Val.lt_mono hnm v (h name v hv)

mutual
  theorem compileT_wf (L : LOps α) (env : String → Option (Val α)) :
      ∀ (t : T α) (P : Prog α) (v : Val α) (P' : Prog α), compileT L env t P = .ok (v, P') → EnvLt env P.length →
        ∃ ext, P' = P ++ ext ∧ WFfrom P.length ext ∧ v.lt P'.length
    | .cst x, P, v, P', h, _ => by
      simp only [compileT] at h; cases h
      exact ⟨[], by simp, trivial, trivial⟩
    | .sym n, P, v, P', h, henv => by
      simp only [compileT] at h
      cases hn : env n with
      | none => rw [hn] at h; cases h
      | some w =>
        rw [hn] at h; cases h
        exact ⟨[], by simp, trivial, henv n v hn⟩
    | .op k args, P, v, P', h, henv => by
      simp only [compileT] at h
      cases hc : compileTs L env args P with
      | error e => rw [hc] at h; cases h
      | ok r =>
        obtain ⟨vs, P1⟩ := r
        rw [hc] at h
        simp only at h
        obtain ⟨e1, he1, wf1, lt1⟩ := compileTs_wf L env args P vs P1 hc henv
        obtain ⟨e2, he2, w2⟩ := emitOp_wf L k vs P1 (v, P') h
        simp only at he2 w2
        obtain ⟨wf2, lt2⟩ := w2 lt1
        refine ⟨e1 ++ e2, by rw [he2, he1, List.append_assoc], ?_, lt2⟩
        rw [WFfrom_append]
        have : P.length + e1.length = P1.length := by rw [he1]; simp
        exact ⟨wf1, by rw [this]; exact wf2⟩
    | .pw c a b, P, v, P', h, henv => by
      simp only [compileT] at h
      cases hc : compileT L env c P with
      | error e => rw [hc] at h; cases h
      | ok r =>
        obtain ⟨vc, P1⟩ := r
        rw [hc] at h
        simp only at h
        obtain ⟨e1, he1, wf1, lt1⟩ := compileT_wf L env c P vc P1 hc henv
        obtain ⟨e2, he2, w2⟩ := mkFCmp_wf L .one vc (.cf (zeroF L)) P1
        generalize hic : mkFCmp L .one vc (.cf (zeroF L)) P1 = icP at h he2 w2
        obtain ⟨ic, P2⟩ := icP
        simp only at he2 w2
        obtain ⟨wf2, lt2⟩ := w2 (by
          intro w hw; simp at hw
          rcases hw with hh | hh
          · subst hh; exact lt1
          · subst hh; trivial)
        simp only [emit] at h
        have l1 : P.length ≤ P1.length := by rw [he1]; simp
        have l2 : P1.length ≤ P2.length := by rw [he2]; simp
        cases ha : compileT L env a (P2 ++ [.condbr ic]) with
        | error e => rw [ha] at h; cases h
        | ok ra =>
          obtain ⟨va, P4⟩ := ra
          rw [ha] at h
          simp only at h
          obtain ⟨e4, he4, wf4, lt4⟩ := compileT_wf L env a _ va P4 ha (henv.mono (by simp; omega))
          have l4 : P2.length + 1 ≤ P4.length := by rw [he4]; simp
          cases hb : compileT L env b P4 with
          | error e => rw [hb] at h; cases h
          | ok rb =>
            obtain ⟨vb, P5⟩ := rb
            rw [hb] at h
            simp only [Except.ok.injEq, Prod.mk.injEq] at h
            obtain ⟨hv, hP'⟩ := h
            obtain ⟨e5, he5, wf5, lt5⟩ := compileT_wf L env b P4 vb P5 hb (henv.mono (by omega))
            have l5 : P4.length ≤ P5.length := by rw [he5]; simp
            refine ⟨e1 ++ (e2 ++ ([.condbr ic] ++ (e4 ++ (e5 ++ [.phi ic va vb])))), ?_, ?_, ?_⟩
            · rw [← hP', he5, he4, he2, he1]; simp [List.append_assoc]
            · rw [WFfrom_append, WFfrom_append, WFfrom_append, WFfrom_append, WFfrom_append]
              have a1 : P.length + e1.length = P1.length := by rw [he1]; simp
              have a2 : P.length + e1.length + e2.length = P2.length := by rw [he2, he1]; simp; omega
              have a3 : P.length + e1.length + e2.length + [Instr.condbr ic].length = (P2 ++ [Instr.condbr ic]).length := by
                rw [a2]; simp
              have a4 : P.length + e1.length + e2.length + [Instr.condbr ic].length + e4.length = P4.length := by
                rw [a3, he4]; simp; omega
              have a5 : P.length + e1.length + e2.length + [Instr.condbr ic].length + e4.length + e5.length = P5.length := by
                rw [a4, he5]; simp
              refine ⟨wf1, by rw [a1]; exact wf2, ?_, by rw [a3]; exact wf4, by rw [a4]; exact wf5, ?_⟩
              · rw [a2]
                exact ⟨by intro w hw; simp [Instr.operands] at hw; subst hw; exact lt2, trivial⟩
              · rw [a5]
                refine ⟨?_, trivial⟩
                intro w hw
                simp [Instr.operands] at hw
                rcases hw with hh | hh | hh
                · subst hh; exact Val.lt_mono (by omega) _ lt2
                · subst hh; exact Val.lt_mono l5 _ lt4
                · subst hh; exact lt5
            · rw [← hv, ← hP']; simp [Val.lt]

  theorem compileTs_wf (L : LOps α) (env : String → Option (Val α)) :
      ∀ (ts : List (T α)) (P : Prog α) (vs : List (Val α)) (P' : Prog α), compileTs L env ts P = .ok (vs, P') →
        EnvLt env P.length →
        ∃ ext, P' = P ++ ext ∧ WFfrom P.length ext ∧ ∀ v ∈ vs, v.lt P'.length
    | [], P, vs, P', h, _ => by
      simp only [compileTs] at h; cases h
      exact ⟨[], by simp, trivial, by simp⟩
    | t :: ts, P, vs, P', h, henv => by
      simp only [compileTs] at h
      cases ht : compileT L env t P with
      | error e => rw [ht] at h; cases h
      | ok r =>
        obtain ⟨v, P1⟩ := r
        rw [ht] at h
        simp only at h
        obtain ⟨e1, he1, wf1, lt1⟩ := compileT_wf L env t P v P1 ht henv
        have l1 : P.length ≤ P1.length := by rw [he1]; simp
        cases hts : compileTs L env ts P1 with
        | error e => rw [hts] at h; cases h
        | ok r2 =>
          obtain ⟨vs2, P2⟩ := r2
          rw [hts] at h
          simp only [Except.ok.injEq, Prod.mk.injEq] at h
          obtain ⟨hvs, hP'⟩ := h
          obtain ⟨e2, he2, wf2, lt2⟩ := compileTs_wf L env ts P1 vs2 P2 hts (henv.mono l1)
          have l2 : P1.length ≤ P2.length := by rw [he2]; simp
          refine ⟨e1 ++ e2, by rw [← hP', he2, he1, List.append_assoc], ?_, ?_⟩
          · rw [WFfrom_append]
            have : P.length + e1.length = P1.length := by rw [he1]; simp
            exact ⟨wf1, by rw [this]; exact wf2⟩
          · intro w hw
            rw [← hvs] at hw
            simp at hw
            rcases hw with hh | hh
            · subst hh; rw [← hP']; exact Val.lt_mono l2 _ lt1
            · rw [← hP']; exact lt2 w hh
end

end SymVerif.LLVMD

namespace SymVerif.LLVMD
open SymVerif.EvalG

variable {α : Type}

/-! ### `init` level -/

theorem WFfrom_loads (n i k : Nat) : WFfrom n (loads (α := α) i k) := by
  induction k generalizing n i with
  | zero => trivial
  | succ k ih => exact ⟨by intro v hv; simp [Instr.operands] at hv, ih _ _⟩

/-- every value the symbol table can hand out is defined below `n` -/
def TabLt (tab : SymTab α) (n : Nat) : Prop :=
  tab.inputs.length ≤ n ∧ ∀ p ∈ tab.repl, p.2.lt n

theorem lookup_mem {β : Type} (l : List (String × β)) (k : String) (v : β) (h : l.lookup k = some v) : (k, v) ∈ l := by
  induction l with
  | nil => simp [List.lookup] at h
  | cons a t ih =>
    obtain ⟨k', v'⟩ := a
    simp only [List.lookup] at h
    split at h
    · rename_i heq
      cases h
      have : k = k' := by simpa using heq
      subst this; exact List.mem_cons_self
    · exact List.mem_cons_of_mem _ (ih h)

def inpRes (tab : SymTab α) (name : String) : Option (Res α) :=
  (indexOf? tab.inputs name).map fun i => if i < tab.off then Res.stale else Res.val (Val.reg (i - tab.off))

def repRes (tab : SymTab α) (name : String) : Option (Res α) :=
  match tab.repl.lookup name with
  | some v => some (Res.val v)
  | none => if tab.staleRepl.contains name then some Res.stale else none

def pickRes (b : Bool) (tab : SymTab α) (name : String) : Option (Res α) :=
  if b then inpRes tab name <|> repRes tab name else repRes tab name <|> inpRes tab name

theorem resolve_eq (b : Bool) (tab : SymTab α) (name : String) :
    resolve b tab name = (match pickRes b tab name with
      | some r => r
      | none => Res.unbound) := rfl

theorem inpRes_lt (tab : SymTab α) (name : String) (n : Nat) (h : TabLt tab n) (r : Val α)
    (hr : inpRes tab name = some (Res.val r)) : r.lt n := by
  unfold inpRes at hr
  cases hi : indexOf? tab.inputs name with
  | none => simp [hi] at hr
  | some i =>
    simp only [hi, Option.map_some] at hr
    split at hr
    · cases hr
    · simp only [Option.some.injEq, Res.val.injEq] at hr
      subst hr
      have h1 := indexOf?_lt tab.inputs name i hi
      have h2 := h.1
      simp only [Val.lt]
      omega

theorem repRes_lt (tab : SymTab α) (name : String) (n : Nat) (h : TabLt tab n) (r : Val α)
    (hr : repRes tab name = some (Res.val r)) : r.lt n := by
  unfold repRes at hr
  cases hl : tab.repl.lookup name with
  | none =>
    simp only [hl] at hr
    split at hr <;> cases hr
  | some w =>
    simp only [hl, Option.some.injEq, Res.val.injEq] at hr
    subst hr
    exact h.2 _ (lookup_mem _ _ _ hl)

theorem orElse_some {β : Type} (a b : Option β) (x : β) (h : (a <|> b) = some x) : a = some x ∨ b = some x := by
  cases a with
  | none => right; simpa using h
  | some y => left; simpa using h

theorem envOf_lt (cfg : Cfg α) (tab : SymTab α) (n : Nat) (h : TabLt tab n) : EnvLt (envOf cfg tab) n := by
  intro name v hv
  have hres : resolve cfg.inputsFirst tab name = Res.val v := by
    unfold envOf at hv
    cases hr : resolve cfg.inputsFirst tab name with
    | val w => simp [hr] at hv; subst hv; rfl
    | stale => simp [hr] at hv
    | unbound => simp [hr] at hv
  rw [resolve_eq] at hres
  have hpick : pickRes cfg.inputsFirst tab name = some (Res.val v) := by
    cases hp : pickRes cfg.inputsFirst tab name with
    | none => simp [hp] at hres
    | some r => simp only [hp] at hres; rw [hres]
  unfold pickRes at hpick
  cases hb : cfg.inputsFirst
  · simp only [hb] at hpick
    rcases orElse_some _ _ _ hpick with h1 | h1
    · exact repRes_lt tab name n h v h1
    · exact inpRes_lt tab name n h v h1
  · simp only [hb, if_true] at hpick
    rcases orElse_some _ _ _ hpick with h1 | h1
    · exact inpRes_lt tab name n h v h1
    · exact repRes_lt tab name n h v h1

theorem applyE_wf (cfg : Cfg α) (tab : SymTab α) (e : Expr) (P : Prog α) (v : Val α) (P' : Prog α)
    (h : applyE cfg tab e P = .ok (v, P')) (ht : TabLt tab P.length) :
    ∃ ext, P' = P ++ ext ∧ WFfrom P.length ext ∧ v.lt P'.length := by
  unfold applyE at h
  cases hl : lower (lowCtx cfg tab) cfg.fuel e with
  | error err => rw [hl] at h; cases h
  | ok t =>
    rw [hl] at h
    exact compileT_wf cfg.L (envOf cfg tab) t P v P' h (envOf_lt cfg tab _ ht)

theorem TabLt.mono {tab : SymTab α} {n m : Nat} (h : TabLt tab n) (hnm : n ≤ m) : TabLt tab m :=
  ⟨by have := h.1; omega, fun p hp => Val.lt_mono hnm _ (h.2 p hp)⟩

theorem applyOuts_wf (cfg : Cfg α) (tab : SymTab α) :
    ∀ (outs : List Expr) (P : Prog α) (vs : List (Val α)) (P' : Prog α), applyOuts cfg tab outs P = .ok (vs, P') →
      TabLt tab P.length → ∃ ext, P' = P ++ ext ∧ WFfrom P.length ext ∧ ∀ v ∈ vs, v.lt P'.length
  | [], P, vs, P', h, _ => by
    simp only [applyOuts] at h; cases h
    exact ⟨[], by simp, trivial, by simp⟩
  | e :: rest, P, vs, P', h, ht => by
    simp only [applyOuts] at h
    cases he : applyE cfg tab e P with
    | error err => rw [he] at h; cases h
    | ok r =>
      obtain ⟨v, P1⟩ := r
      rw [he] at h
      simp only at h
      obtain ⟨e1, he1, wf1, lt1⟩ := applyE_wf cfg tab e P v P1 he ht
      have l1 : P.length ≤ P1.length := by rw [he1]; simp
      cases hr : applyOuts cfg tab rest P1 with
      | error err => rw [hr] at h; cases h
      | ok r2 =>
        obtain ⟨vs2, P2⟩ := r2
        rw [hr] at h
        simp only [Except.ok.injEq, Prod.mk.injEq] at h
        obtain ⟨hvs, hP'⟩ := h
        obtain ⟨e2, he2, wf2, lt2⟩ := applyOuts_wf cfg tab rest P1 vs2 P2 hr (ht.mono l1)
        have l2 : P1.length ≤ P2.length := by rw [he2]; simp
        refine ⟨e1 ++ e2, by rw [← hP', he2, he1, List.append_assoc], ?_, ?_⟩
        · rw [WFfrom_append]
          have : P.length + e1.length = P1.length := by rw [he1]; simp
          exact ⟨wf1, by rw [this]; exact wf2⟩
        · intro w hw
          rw [← hvs] at hw
          simp at hw
          rcases hw with hh | hh
          · subst hh; rw [← hP']; exact Val.lt_mono l2 _ lt1
          · rw [← hP']; exact lt2 w hh

theorem applyRepl_wf (cfg : Cfg α) :
    ∀ (repl : List (String × Expr)) (tab : SymTab α) (P : Prog α) (tab' : SymTab α) (P' : Prog α) (tabF : SymTab α),
      applyRepl cfg tab repl P = (.ok (tab', P'), tabF) → TabLt tab P.length →
      ∃ ext, P' = P ++ ext ∧ WFfrom P.length ext ∧ TabLt tab' P'.length
  | [], tab, P, tab', P', tabF, h, ht => by
    simp only [applyRepl, Prod.mk.injEq, Except.ok.injEq] at h
    obtain ⟨⟨h1, h2⟩, _⟩ := h
    subst h1; subst h2
    exact ⟨[], by simp, trivial, ht⟩
  | (name, e) :: rest, tab, P, tab', P', tabF, h, ht => by
    simp only [applyRepl] at h
    cases he : applyE cfg tab e P with
    | error err => rw [he] at h; simp at h
    | ok r =>
      obtain ⟨v, P1⟩ := r
      rw [he] at h
      simp only at h
      obtain ⟨e1, he1, wf1, lt1⟩ := applyE_wf cfg tab e P v P1 he ht
      have l1 : P.length ≤ P1.length := by rw [he1]; simp
      have ht1 : TabLt { tab with repl := (name, v) :: tab.repl.filter (fun p => p.1 != name) } P1.length := by
        refine ⟨by have := ht.1; simp; omega, ?_⟩
        intro p hp
        simp only [List.mem_cons, List.mem_filter] at hp
        rcases hp with hh | hh
        · subst hh; exact lt1
        · exact Val.lt_mono l1 _ (ht.2 p hh.1)
      obtain ⟨e2, he2, wf2, ht2⟩ := applyRepl_wf cfg rest _ P1 tab' P' tabF h ht1
      refine ⟨e1 ++ e2, by rw [he2, he1, List.append_assoc], ?_, ht2⟩
      rw [WFfrom_append]
      have : P.length + e1.length = P1.length := by rw [he1]; simp
      exact ⟨wf1, by rw [this]; exact wf2⟩

/-- **SSA well-formedness of everything `init` generates** (plain and CSE path, any prior state):
every operand of every instruction is a constant or the result of an earlier instruction, and every
stored output is defined. -/
theorem initV_wf (cfg : Cfg α) (S S' : VState) (ins : List String) (outs : List Expr)
    (cse : Option (List (String × Expr) × List Expr)) (C : Compiled α)
    (hinit : initV cfg S ins outs cse = (S', .ok C)) :
    WF C.body ∧ ∀ v ∈ C.outs, v.lt C.body.length := by
  unfold initV at hinit
  have hl : (loads (α := α) 0 ins.length).length = ins.length := loads_length 0 _
  have ht0 : ∀ (off : Nat) (sr : List String),
      TabLt ({ inputs := ins, off := off, repl := [], staleRepl := sr } : SymTab α) (loads (α := α) 0 ins.length).length :=
    fun _ _ => ⟨by simp [hl], by simp⟩
  cases cse with
  | none =>
    simp only at hinit
    split at hinit
    · simp at hinit
    · rename_i vs P1 ha
      simp only [Prod.mk.injEq, Except.ok.injEq] at hinit
      obtain ⟨_, hC⟩ := hinit
      subst hC
      obtain ⟨ext, hext, wf, lt⟩ := applyOuts_wf cfg _ outs _ vs P1 ha (ht0 _ _)
      refine ⟨?_, lt⟩
      simp only [WF, hext]
      rw [WFfrom_append]
      exact ⟨WFfrom_loads 0 0 _, by simpa using wf⟩
  | some p =>
    obtain ⟨repl, reduced⟩ := p
    simp only at hinit
    split at hinit
    · simp at hinit
    · rename_i tab1 P1 tabF hr
      split at hinit
      · simp at hinit
      · rename_i vs P2 ha
        simp only [Prod.mk.injEq, Except.ok.injEq] at hinit
        obtain ⟨_, hC⟩ := hinit
        subst hC
        obtain ⟨e1, he1, wf1, ht1⟩ := applyRepl_wf cfg repl _ _ tab1 P1 tabF hr (ht0 _ _)
        obtain ⟨e2, he2, wf2, lt⟩ := applyOuts_wf cfg tab1 _ P1 vs P2 ha ht1
        refine ⟨?_, lt⟩
        simp only [WF, he2, he1]
        rw [WFfrom_append, WFfrom_append]
        refine ⟨⟨WFfrom_loads 0 0 _, by simpa using wf1⟩, ?_⟩
        have : 0 + (loads (α := α) 0 ins.length ++ e1).length = P1.length := by rw [he1]; simp
        rw [this]; exact wf2

end SymVerif.LLVMD
