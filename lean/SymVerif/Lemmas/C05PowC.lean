import SymVerif.Lemmas.C05PowK
import SymVerif.Lemmas.C05Arith
import Mathlib.Algebra.GroupWithZero.Basic
/-! `Complex::powcomp`: imaginary base via `I ** (e mod 4)`, general base via `pow_number`. -/
namespace SymVerif.C05
open SymVerif.Num

set_option linter.unusedSimpArgs false
set_option linter.unusedVariables false
set_option linter.unusedSectionVars false

variable {F : Type} [FloatOps F]

theorem I_zpow_mod (e : Int) : Complex.I ^ e = Complex.I ^ (e % 4) := by
  have h4 : Complex.I ^ (4 : ℤ) = 1 := by
    rw [show (4 : ℤ) = ((4 : ℕ) : ℤ) from rfl, zpow_natCast, Complex.I_pow_four]
  conv_lhs => rw [← Int.mul_ediv_add_emod e 4]
  rw [zpow_add₀ Complex.I_ne_zero, zpow_mul, h4, one_zpow, one_mul]

theorem gv_I : gv (.ofInt 0) (.ofInt 1) = Complex.I := by
  apply Complex.ext <;> simp [gv]
theorem gv_negI : gv (.ofInt 0) (.ofInt (-1)) = -Complex.I := by
  apply Complex.ext <;> simp [gv]

/-- the table `one, I, minus_one, -I` indexed by `e mod 4` is `I ** e` -/
theorem iPowRes_good (e : Int) : Good (F := F) (iPowRes e) (Complex.I ^ e) := by
  have hm : e % 4 = 0 ∨ e % 4 = 1 ∨ e % 4 = 2 ∨ e % 4 = 3 := by omega
  rw [I_zpow_mod]
  unfold iPowRes
  rcases hm with h | h | h | h <;> rw [h]
  · change Good (Num.int 1) _
    exact ⟨rfl, rfl, by rw [val_int]; simp⟩
  · change Good (Num.cplx (.ofInt 0) (.ofInt 1)) _
    refine ⟨rfl, rfl, ?_⟩
    simp only [val, gv_I]; simp
  · change Good (Num.int (-1)) _
    refine ⟨rfl, rfl, ?_⟩
    rw [val_int]; congr 1
    rw [show (2 : ℤ) = ((2 : ℕ) : ℤ) from rfl, zpow_natCast, Complex.I_sq]; simp
  · change Good (Num.cplx (.ofInt 0) (.ofInt (-1))) _
    refine ⟨rfl, rfl, ?_⟩
    simp only [val, gv_negI]; congr 1
    rw [show (3 : ℤ) = ((3 : ℕ) : ℤ) from rfl, zpow_natCast, pow_succ, Complex.I_sq]; simp

theorem imPow_good (im : Q) (him : im.Canon) (hn : im.num ≠ 0) (e : Int) (hs : e.natAbs ≤ hugeExp) :
    ∃ v, imPow (F := F) im e = .ok v ∧ Good v (gv im (.ofInt 0) ^ e) := by
  unfold imPow
  by_cases hd : im.den = 1
  · have hval : gv im (.ofInt 0) = (im.num : ℂ) := by
      rw [gv_real]; simp [Q.toRat, hd]
    simp only [hd, beq_self_eq_true, if_true, hval]
    by_cases he : 0 ≤ e
    · exact powint_nonneg_good im.num e he hs
    · exact powint_neg_good im.num e hn (not_le.mp he) hs
  · simp only [hd, beq_iff_eq, if_false]
    exact powrat_good im him hn e hs

theorem oneDiv_eq_div (x : Num F) (hx : Exact x) : oneDiv x = Num.div (.int 1) x := by
  cases x <;> simp only [Exact, Num.isExact, Bool.false_eq_true] at hx <;> rfl

theorem slong_bounds (e : Int) (hs : e.natAbs ≤ hugeExp) : ¬ (e > slongMax ∨ e < -slongMax) := by
  have : (hugeExp : Int) < slongMax := by decide
  omega

/-- **`Complex::powcomp`** returns `z ** e` for every Gaussian rational `z` (imaginary part `≠ 0`)
and every integer `e` in the modelled range. -/
theorem powcomp_good (re im : Q) (hre : re.Canon) (him : im.Canon) (hn : im.num ≠ 0) (e : Int)
    (hs : e.natAbs ≤ hugeExp) :
    ∃ r, powcomp (F := F) re im e = .ok r ∧ Good r (gv re im ^ e) := by
  have hz : gv re im ≠ 0 := gv_ne_zero_of_im (toRat_ne_zero him.pos hn)
  unfold powcomp
  by_cases h0 : re.num = 0
  · -- purely imaginary base
    simp only [h0, beq_self_eq_true, if_true]
    obtain ⟨v, hv, gvv⟩ := imPow_good (F := F) im him hn e hs
    rw [hv]
    have gi := iPowRes_good (F := F) e
    obtain ⟨r, hr, gr⟩ := mul_good v (iPowRes e) gvv.exact gi.exact gvv.normal gi.normal _ _
      gvv.value gi.value
    refine ⟨r, hr, ?_⟩
    have : gv re im = gv im (.ofInt 0) * Complex.I := by
      apply Complex.ext <;> simp [gv, Q.toRat, Q.ofInt, h0]
    rw [this, mul_zpow]
    exact gr
  · have hb := slong_bounds e hs
    have hb' : ¬ (decide (e > slongMax) || decide (e < -slongMax)) = true := by simpa using hb
    have h2 : ¬ e.natAbs > hugeExp := by omega
    simp only [h0, beq_iff_eq, if_false, hb', h2]
    by_cases hp : 0 < e
    · simp only [hp, if_true]
      refine ⟨_, rfl, ?_⟩
      have hlt : e.toNat < 2 ^ 64 := by
        have : hugeExp < 2 ^ 64 := by decide
        omega
      have := powNumber_good (F := F) hre him e.toNat hlt
      have he : e = ((e.toNat : ℕ) : ℤ) := by omega
      rw [he, zpow_natCast]
      exact this
    · simp only [hp, if_false]
      have hlt : (-e).toNat < 2 ^ 64 := by
        have : hugeExp < 2 ^ 64 := by decide
        omega
      have g0 := powNumber_good (F := F) hre him (-e).toNat hlt
      rw [oneDiv_eq_div _ g0.exact]
      have hne : powNumber (F := F) re im (-e).toNat ≠ .int 0 := by
        intro h
        have hv := g0.value
        rw [h, val_int] at hv
        have : (0 : ℂ) = gv re im ^ (-e).toNat := by simpa using hv
        exact pow_ne_zero _ hz this.symm
      obtain ⟨r, hr, gr⟩ := div_good (.int 1) _ rfl g0.exact rfl g0.normal _ _ rfl g0.value hne
      refine ⟨r, hr, ?_⟩
      have he : e = -(((-e).toNat : ℕ) : ℤ) := by omega
      conv => rhs; rw [he]
      rw [zpow_neg, zpow_natCast, ← one_div]
      rw [gv_ofInt] at gr
      simpa using gr

end SymVerif.C05
