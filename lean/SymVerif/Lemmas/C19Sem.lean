/-
What load_basic rebuilds from what save_basic wrote (C19): decimal integer strings, names, exact
rationals, dictionaries without duplicate keys, class codes.
-/
import SymVerif.Model.Codec

namespace SymVerif.Codec
open SymVerif.Gen.SerialCodes

/-! ### class codes -/

theorem count_le : count ≤ 256 := by decide

theorem codeOf_toNat {n : String} (h : n ∈ names) : (codeOf n).toNat = names.idxOf n := by
  have hl : names.idxOf n < names.length := List.idxOf_lt_length_iff.2 h
  have hc : names.length ≤ 256 := count_le
  simp only [codeOf, UInt8.toNat_ofNat']
  omega

theorem codeOf_lt {n : String} (h : n ∈ names) : (codeOf n).toNat < count := by
  rw [codeOf_toNat h]; exact List.idxOf_lt_length_iff.2 h

theorem className_codeOf {n : String} (h : n ∈ names) : className (codeOf n) = n := by
  have hl : names.idxOf n < names.length := List.idxOf_lt_length_iff.2 h
  simp only [className, codeOf_toNat h, List.getD_eq_getElem?_getD, List.getElem?_eq_getElem hl,
    Option.getD_some]
  exact List.getElem_idxOf hl

/-! ### integers as decimal strings -/

theorem digitsVal_append (a : Bytes) (b : UInt8) : digitsVal (a ++ [b]) = digitsVal a * 10 + (b.toNat - 48) := by
  simp [digitsVal, List.foldl_append]

theorem digit_toNat {d : Nat} (h : d < 10) : (UInt8.ofNat (48 + d)).toNat = 48 + d := by
  simp [UInt8.toNat_ofNat']; omega

theorem isDigit_ofNat {d : Nat} (h : d < 10) : isDigit (UInt8.ofNat (48 + d)) = true := by
  have := digit_toNat h
  simp only [isDigit, Bool.and_eq_true, decide_eq_true_eq, UInt8.le_iff_toNat_le, this]
  constructor
  · show (48 : UInt8).toNat ≤ 48 + d; simp
  · show 48 + d ≤ (57 : UInt8).toNat; simp; omega

theorem natDecF_spec : ∀ (f n : Nat), n < f →
    digitsVal (natDecF f n) = n ∧ (natDecF f n).all isDigit = true ∧ natDecF f n ≠ []
  | 0, n, h => by omega
  | f + 1, n, h => by
    simp only [natDecF]
    split
    · rename_i h10
      refine ⟨?_, ?_, by simp⟩
      · unfold digitsVal
        simp only [List.foldl_cons, List.foldl_nil, digit_toNat h10]; omega
      · simp only [List.all_cons, List.all_nil, isDigit_ofNat h10, Bool.and_self]
    · rename_i h10
      obtain ⟨h1, h2, h3⟩ := natDecF_spec f (n / 10) (by omega)
      have hm : n % 10 < 10 := Nat.mod_lt _ (by omega)
      refine ⟨?_, ?_, by simp⟩
      · rw [digitsVal_append, h1, digit_toNat hm]; omega
      · rw [List.all_append, h2]
        simp only [List.all_cons, List.all_nil, isDigit_ofNat hm, Bool.and_self]

theorem natDec_spec (n : Nat) : digitsVal (natDec n) = n ∧ (natDec n).all isDigit = true ∧ natDec n ≠ [] :=
  natDecF_spec (n + 1) n (by omega)

theorem natDec_head (n : Nat) : ∃ c t, natDec n = c :: t ∧ isDigit c = true ∧ t.all isDigit = true := by
  obtain ⟨_, h2, h3⟩ := natDec_spec n
  cases hd : natDec n with
  | nil => exact absurd hd h3
  | cons c t =>
    rw [hd] at h2
    simp only [List.all_cons, Bool.and_eq_true] at h2
    exact ⟨c, t, rfl, h2.1, h2.2⟩

theorem isDigit_ne_45 {c : UInt8} (h : isDigit c = true) : c ≠ 45 := by
  intro hc; subst hc; simp [isDigit] at h

theorem validInt_intBytes (n : Int) : validInt (intBytes n) = true := by
  unfold intBytes
  split
  · simp [validInt, (natDec_spec n.natAbs).2.1]
  · obtain ⟨c, t, hd, hc, ht⟩ := natDec_head n.natAbs
    rw [hd]; simp [validInt, hc, ht]

theorem parseInt_intBytes (n : Int) : parseInt (intBytes n) = n := by
  unfold intBytes
  split
  · rename_i h
    simp only [parseInt, (natDec_spec n.natAbs).1]
    omega
  · rename_i h
    obtain ⟨c, t, hd, hc, ht⟩ := natDec_head n.natAbs
    have h45 := isDigit_ne_45 hc
    have hv := (natDec_spec n.natAbs).1
    rw [hd] at hv ⊢
    unfold parseInt
    split
    · rename_i heq; simp at heq; exact absurd heq.1 h45
    · rw [hv]; omega

/-! ### names -/

/-- a name the wire format can carry -/
def nameOK (s : String) : Bool := !s.toList.isEmpty && s.toList.all fun c => plainByte (UInt8.ofNat c.toNat) && c.toNat < 128

theorem nameOfBytes_bytesOfName {s : String} (h : nameOK s = true) : nameOfBytes (bytesOfName s) = some s := by
  simp only [nameOK, Bool.and_eq_true, Bool.not_eq_true', List.all_eq_true, decide_eq_true_eq] at h
  obtain ⟨hne, hall⟩ := h
  unfold nameOfBytes bytesOfName
  have h1 : (List.map (fun c => UInt8.ofNat c.toNat) s.toList).isEmpty = false := by
    cases hs : s.toList with
    | nil => simp [hs] at hne
    | cons a b => simp
  have h2 : (List.map (fun c => UInt8.ofNat c.toNat) s.toList).all plainByte = true := by
    simp only [List.all_map, List.all_eq_true]
    intro c hc; exact (hall c hc).1
  simp only [h1, h2, Bool.not_true, Bool.or_self, Bool.false_eq_true, if_false, List.map_map]
  congr 1
  have h3 : List.map ((fun b : UInt8 => Char.ofNat b.toNat) ∘ fun c : Char => UInt8.ofNat c.toNat) s.toList = s.toList := by
    conv => rhs; rw [← List.map_id s.toList]
    apply List.map_congr_left
    intro c hc
    have hlt := (hall c hc).2
    simp only [Function.comp, UInt8.toNat_ofNat', id]
    rw [Nat.mod_eq_of_lt (by omega)]
    exact Char.ofNat_toNat c
  rw [h3]
  exact String.ofList_toList

/-! ### exact rationals -/

theorem fromTwoInts_canon (n : Int) (d : Nat) (hd : 2 ≤ d) (hg : Nat.gcd n.natAbs d = 1) :
    fromTwoInts n (d : Int) = .rat n d := by
  unfold fromTwoInts
  have h0 : ((d : Int) == 0) = false := by simp; omega
  have hneg : ¬ ((d : Int) < 0) := by omega
  simp only [h0, Bool.false_eq_true, if_false, Int.natAbs_natCast, hg, hneg, Nat.div_one]
  have : (d == 1) = false := by simp; omega
  simp [this]

/-! ### dictionaries -/

theorem dedupPairs_nodup : ∀ (ps : List (Expr × Expr)) (seen : List String),
    (∀ p ∈ ps, Expr.dumpCanon p.1 ∉ seen) → (ps.map fun p => Expr.dumpCanon p.1).Nodup →
    dedupPairs ps seen = ps
  | [], _, _, _ => rfl
  | (k, v) :: t, seen, h1, h2 => by
    have hk : Expr.dumpCanon k ∉ seen := h1 (k, v) (by simp)
    have hk' : seen.contains (Expr.dumpCanon k) = false := by simpa using hk
    simp only [List.map_cons, List.nodup_cons] at h2
    simp only [dedupPairs, hk', Bool.false_eq_true, if_false]
    congr 1
    apply dedupPairs_nodup t _ _ h2.2
    intro p hp
    simp only [List.mem_cons, not_or]
    refine ⟨?_, h1 p (by simp [hp])⟩
    intro heq
    exact h2.1 (by rw [← heq]; exact List.mem_map_of_mem (f := fun p => Expr.dumpCanon p.1) hp)

theorem dedupArgs_nodup : ∀ (l : List Expr) (seen : List String),
    (∀ a ∈ l, Expr.dumpCanon a ∉ seen) → (l.map Expr.dumpCanon).Nodup → dedupArgs l seen = l
  | [], _, _, _ => rfl
  | a :: t, seen, h1, h2 => by
    have hk : Expr.dumpCanon a ∉ seen := h1 a (by simp)
    have hk' : seen.contains (Expr.dumpCanon a) = false := by simpa using hk
    simp only [List.map_cons, List.nodup_cons] at h2
    simp only [dedupArgs, hk', Bool.false_eq_true, if_false]
    congr 1
    apply dedupArgs_nodup t _ _ h2.2
    intro p hp
    simp only [List.mem_cons, not_or]
    refine ⟨?_, h1 p (by simp [hp])⟩
    intro heq
    exact h2.1 (by rw [← heq]; exact List.mem_map_of_mem (f := Expr.dumpCanon) hp)

def flatPairs : List (Expr × Expr) → List Expr
  | [] => []
  | (k, v) :: t => k :: v :: flatPairs t

theorem pairUp_flatPairs : ∀ ps : List (Expr × Expr), pairUp (flatPairs ps) = some ps
  | [] => rfl
  | (k, v) :: t => by simp [flatPairs, pairUp, pairUp_flatPairs t]

theorem flatPairs_length (ps : List (Expr × Expr)) : (flatPairs ps).length = ps.length * 2 := by
  induction ps with
  | nil => rfl
  | cons p t ih => obtain ⟨k, v⟩ := p; simp [flatPairs, ih]; omega

end SymVerif.Codec
