import SymVerif.Lemmas.C33World
/-! Histories: the trace predicate, the ghost iterator log, and how to read `IterRun`. -/
namespace SymVerif.C33
open SymVerif.Sieve

/-- every op of the history has admissible arguments (decidable) -/
def OpsOk (ops : List Op) : Prop := opsOk ops = true

instance (ops : List Op) : Decidable (OpsOk ops) := by unfold OpsOk; infer_instance

theorem OpsOk_cons {op : Op} {ops : List Op} (h : OpsOk (op :: ops)) : opOk op = true ∧ OpsOk ops := by
  unfold OpsOk opsOk at h ⊢; simpa using h

/-- `GoodTrace w ops outs wf`: running `ops` from world `w` prints `outs` and ends in `wf`; every
call succeeded with a correct result (`OutOk`), except that the history may stop at an
`iterNext` call with `Err.range` (an iterator asked for an extension to `≥ 2^31`). -/
def GoodTrace : World → List Op → List (Except Err (List Nat)) → World → Prop
  | w, [], outs, wf => outs = [] ∧ wf = w
  | w, op :: ops, outs, wf =>
    (∃ w' out rest, step w op = .ok (w', out) ∧ outs = .ok out :: rest ∧ OutOk w op out w' ∧
        GoodTrace w' ops rest wf) ∨
    (outs = [.error .range] ∧ wf = w ∧ ∃ slot count, op = .iterNext slot count)

theorem run_spec (w : World) (ops : List Op) (acc : List (Except Err (List Nat)))
    (hw : WInv w) (hops : OpsOk ops) :
    ∃ outs wf, run w ops acc = (wf, acc.reverse ++ outs) ∧ GoodTrace w ops outs wf ∧ WInv wf := by
  induction ops generalizing w acc with
  | nil => exact ⟨[], w, by simp [run], ⟨rfl, rfl⟩, hw⟩
  | cons op ops ih =>
    obtain ⟨h1, h2⟩ := OpsOk_cons hops
    rcases step_spec w op hw h1 with ⟨w', out, e, hw', ho⟩ | ⟨e, hsl⟩
    · obtain ⟨outs, wf, er, gt, hwf⟩ := ih w' (.ok out :: acc) hw' h2
      refine ⟨.ok out :: outs, wf, ?_, Or.inl ⟨w', out, outs, e, rfl, ho, gt⟩, hwf⟩
      unfold run; rw [e]; simp only []; rw [er]; simp
    · refine ⟨[.error .range], w, ?_, Or.inr ⟨rfl, rfl, hsl⟩, hw⟩
      unfold run; rw [e]; simp

theorem GoodTrace.no_ub {w wf : World} {ops : List Op} {outs : List (Except Err (List Nat))}
    (h : GoodTrace w ops outs wf) : ∀ r ∈ outs, r ≠ .error .oob ∧ r ≠ .error .fuel := by
  induction ops generalizing w outs with
  | nil => obtain ⟨rfl, _⟩ := h; simp
  | cons op ops ih =>
    rcases h with ⟨w', out, rest, _, rfl, _, gt⟩ | ⟨rfl, _, _⟩
    · intro r hr
      rcases List.mem_cons.1 hr with rfl | hr
      · exact ⟨by simp, by simp⟩
      · exact ih gt r hr
    · intro r hr
      simp at hr; subst hr; exact ⟨by simp, by simp⟩

theorem GoodTrace.gen {w wf : World} {ops : List Op} {outs : List (Except Err (List Nat))}
    (h : GoodTrace w ops outs wf) (k limit : Nat) (r : Except Err (List Nat))
    (hop : ops[k]? = some (.gen limit)) (hr : outs[k]? = some r) : r = .ok (primesUpTo limit) := by
  induction ops generalizing w outs k with
  | nil => simp at hop
  | cons op ops ih =>
    rcases h with ⟨w', out, rest, _, rfl, ho, gt⟩ | ⟨rfl, _, slot, count, rfl⟩
    · cases k with
      | zero =>
        simp at hop hr; subst hop; subst hr
        rw [ho.1]
      | succ k =>
        simp at hop hr
        exact ih gt k hop hr
    · cases k with
      | zero => simp at hop
      | succ k => simp at hr


theorem IterRun.all_gt {L i j : Nat} {out : List Nat} (h : IterRun L i out j) (hl : L < np i) :
    ∀ v ∈ out, L < v := by
  induction h with
  | nil => simp
  | prime _ ih =>
    intro v hv
    rcases List.mem_cons.1 hv with rfl | hv
    · exact hl
    · exact ih (lt_trans hl (np_lt_np (Nat.lt_succ_self _))) v hv
  | stop _ _ _ ih =>
    intro v hv
    rcases List.mem_cons.1 hv with rfl | hv
    · omega
    · exact ih hl v hv

/-- An unlimited iterator returns exactly the consecutive primes from its position. -/
theorem IterRun.unlimited {i j : Nat} {out : List Nat} (h : IterRun 0 i out j) :
    out = (List.range' i out.length).map np ∧ j = i + out.length := by
  generalize hL : (0 : Nat) = L at h
  induction h with
  | nil => simp
  | prime _ ih =>
    obtain ⟨h1, h2⟩ := ih
    constructor
    · simp only [List.length_cons, List.range'_succ, List.map_cons]
      rw [← h1]
    · simp only [List.length_cons]; omega
  | stop h0 => omega

/-- A limited iterator: what a caller looping `while ((p = next_prime()) <= L)` sees is exactly
the consecutive primes `≤ L` from its position; everything returned afterwards exceeds `L`. -/
theorem IterRun.limited {L i j : Nat} {out : List Nat} (h : IterRun L i out j) :
    ∃ m rest, out = (List.range' i m).map np ++ rest ∧ (∀ k, k < m → np (i + k) ≤ L) ∧
      (∀ v ∈ rest, L < v) ∧ (rest ≠ [] → L < np (i + m)) := by
  induction h with
  | nil => exact ⟨0, [], by simp, by simp, by simp, by simp⟩
  | @prime i' j' out' hrun ih =>
    by_cases hle : np i' ≤ L
    · obtain ⟨m, rest, e, h1, h2, h3⟩ := ih
      refine ⟨m + 1, rest, ?_, ?_, h2, ?_⟩
      · rw [e]; simp [List.range'_succ]
      · intro k hk
        cases k with
        | zero => simpa using hle
        | succ k => have := h1 k (by omega); rwa [show i' + (k + 1) = i' + 1 + k by omega]
      · intro hne; have := h3 hne; rwa [show i' + (m + 1) = i' + 1 + m by omega]
    · refine ⟨0, np i' :: out', by simp, by simp, ?_, by intro _; simpa using hle⟩
      exact IterRun.all_gt (IterRun.prime hrun) (by omega)
  | @stop i' j' out' h0 hl hrun _ =>
    refine ⟨0, (L + 1) :: out', by simp, by simp, ?_, by intro _; simpa using hl⟩
    exact IterRun.all_gt (IterRun.stop h0 hl hrun) hl

/-- Ghost log: everything the iterator currently living in `slot` has returned since it was
created, computed from the history and its printed outputs alone. -/
def iterLog (slot : Nat) : List Op → List (Except Err (List Nat)) → List Nat → List Nat
  | op :: ops, .ok out :: outs, acc =>
    iterLog slot ops outs (match op with
      | .iterNew k _ => if k = slot then [] else acc
      | .iterDel k => if k = slot then [] else acc
      | .iterNext k _ => if k = slot then acc ++ out else acc
      | _ => acc)
  | _, _, acc => acc

theorem GoodTrace.iter_log {w wf : World} {ops : List Op} {outs : List (Except Err (List Nat))}
    (h : GoodTrace w ops outs wf) (slot : Nat) (acc : List Nat)
    (hacc : ∀ it, lookupIter w.iters slot = some it → IterRun it.limit 0 acc it.index) :
    ∀ it, lookupIter wf.iters slot = some it →
      IterRun it.limit 0 (iterLog slot ops outs acc) it.index := by
  induction ops generalizing w outs acc with
  | nil => obtain ⟨rfl, rfl⟩ := h; simpa [iterLog] using hacc
  | cons op ops ih =>
    rcases h with ⟨w', out, rest, _, rfl, ho, gt⟩ | ⟨rfl, rfl, _⟩
    · simp only [iterLog]
      apply ih gt
      cases op with
      | gen limit => simp only [OutOk] at ho; rw [ho.2]; exact hacc
      | clear => simp only [OutOk] at ho; rw [ho.2]; exact hacc
      | setClear b => simp only [OutOk] at ho; rw [ho.2]; exact hacc
      | setSize k => simp only [OutOk] at ho; rw [ho.2]; exact hacc
      | setBits b => simp only [OutOk] at ho; rw [ho.2]; exact hacc
      | iterNew k lim =>
        simp only [OutOk] at ho
        obtain ⟨_, h1, h2⟩ := ho
        by_cases hk : k = slot
        · subst hk
          intro it hit
          rw [h1] at hit
          simp only [Option.some.injEq] at hit
          subst hit
          simpa using IterRun.nil 0
        · simp only [hk, if_false]
          rw [h2 slot (fun h => hk h.symm)]; exact hacc
      | iterDel k =>
        simp only [OutOk] at ho
        obtain ⟨_, h1, h2⟩ := ho
        by_cases hk : k = slot
        · subst hk
          intro it hit
          rw [h1] at hit; simp at hit
        · simp only [hk, if_false]
          rw [h2 slot (fun h => hk h.symm)]; exact hacc
      | iterNext k c =>
        simp only [OutOk] at ho
        obtain ⟨h2, h1⟩ := ho
        by_cases hk : k = slot
        · subst hk
          simp only [if_true]
          cases hlk : lookupIter w.iters k with
          | none =>
            rw [hlk] at h1
            intro it hit
            rw [h1.2] at hit; simp at hit
          | some it0 =>
            rw [hlk] at h1
            obtain ⟨_, it', e', lim, run⟩ := h1
            intro it hit
            rw [e'] at hit
            simp only [Option.some.injEq] at hit
            subst hit
            rw [lim]
            exact IterRun.append (hacc it0 hlk) run
        · simp only [hk, if_false]
          rw [h2 slot (fun h => hk h.symm)]; exact hacc
    · simpa [iterLog] using hacc

end SymVerif.C33
