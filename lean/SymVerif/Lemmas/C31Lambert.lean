/-
C31 helper lemmas, part 9: series_lambertw — Newton iteration on `w·e^w = s`.
-/
import SymVerif.Lemmas.C31Tan

namespace SymVerif.C31
open SymVerif.Series PowerSeries

theorem fexp_add {S T : ℚ⟦X⟧} (hS : constantCoeff S = 0) (hT : constantCoeff T = 0) :
    fexp (S + T) = fexp S * fexp T := by
  have hST : constantCoeff (S + T) = 0 := by rw [map_add, hS, hT]; simp
  apply isExpOf_unique (isExpOf_fexp hST)
  refine ⟨by rw [map_mul, constantCoeff_fexp hS, constantCoeff_fexp hT]; simp, ?_⟩
  rw [Derivation.leibniz, (isExpOf_fexp hS).2, (isExpOf_fexp hT).2, map_add]
  simp only [smul_eq_mul]
  ring

theorem fexp_zero : fexp 0 = 1 := by
  symm
  apply isExpOf_unique (S := 0)
  · exact ⟨by simp, by simp⟩
  · exact isExpOf_fexp (by simp)

/-- `exp(d) ≡ 1 + d` modulo `X^(2k)` when `d ≡ 0` modulo `X^k` -/
theorem fexp_small {k : ℕ} (hk : 1 ≤ k) {d : ℚ⟦X⟧} (hd : EqMod k d 0) : EqMod (2 * k) (fexp d) (1 + d) := by
  have hd0 : constantCoeff d = 0 := by
    have := hd 0 (by omega)
    rwa [coeff_zero_eq_constantCoeff_apply, map_zero] at this
  obtain ⟨n, rfl⟩ : ∃ n, k = n + 1 := ⟨k - 1, by omega⟩
  have : 2 * (n + 1) = (n + (n + 1)) + 1 := by ring
  rw [this]
  apply eqMod_of_derivative
  · rw [coeff_zero_eq_constantCoeff_apply, coeff_zero_eq_constantCoeff_apply, constantCoeff_fexp hd0,
      map_add, hd0]; simp
  · rw [(isExpOf_fexp hd0).2, map_add, derivative_one, zero_add]
    -- (fexp d - 1)·d' ≡ 0
    have h1 : EqMod (n + 1) (fexp d - 1) 0 := by
      have := (fexp_congr hd hd0 (by simp)).sub (EqMod.refl (n + 1) (1 : ℚ⟦X⟧))
      rwa [fexp_zero, sub_self] at this
    have h2 : EqMod n (d⁄dX ℚ d) 0 := by
      have := hd.derivative
      simpa using this
    have h3 := eqMod_mul_zero h2 h1
    intro j hj
    have := h3 j hj
    have e : fexp d * d⁄dX ℚ d = d⁄dX ℚ d * (fexp d - 1) + d⁄dX ℚ d := by ring
    rw [e, map_add, this]; simp

/-- one exact Newton step for `w e^w = s` -/
theorem lambert_newton {k : ℕ} (hk : 1 ≤ k) {W S : ℚ⟦X⟧} (hW : constantCoeff W = 0)
    (hS : constantCoeff S = 0) (h : EqMod k (W * fexp W) S) :
    let Y := W - (W * fexp W - S) * (fexp W * (1 + W))⁻¹
    constantCoeff Y = 0 ∧ EqMod (2 * k) (Y * fexp Y) S := by
  intro Y
  set E := fexp W with hE
  set U := E * (1 + W) with hU
  set η := W * E - S with hη
  set d := -(η * U⁻¹) with hd
  have hY : Y = W + d := by
    show W - (W * fexp W - S) * (fexp W * (1 + W))⁻¹ = W + d
    rw [hd]; ring
  have hEc : constantCoeff E = 1 := constantCoeff_fexp hW
  have hUc : constantCoeff U ≠ 0 := by rw [hU, map_mul, hEc, map_add, hW]; simp
  have hηk : EqMod k η 0 := by
    have := h.sub (EqMod.refl k S)
    simpa [hη] using this
  have hdk : EqMod k d 0 := by
    have := (hηk.mul_right U⁻¹).neg
    simpa [hd] using this
  have hd0 : constantCoeff d = 0 := by
    have := hdk 0 (by omega)
    rwa [coeff_zero_eq_constantCoeff_apply, map_zero] at this
  have hYc : constantCoeff Y = 0 := by rw [hY, map_add, hW, hd0]; simp
  refine ⟨hYc, ?_⟩
  rw [hY, fexp_add hW hd0]
  have hdd : EqMod (2 * k) (d * d) 0 := eqMod_sq_of_eqMod hdk
  have hUd : U * d = -η := by
    rw [hd, mul_neg, ← mul_assoc, mul_comm U η, mul_assoc, PowerSeries.mul_inv_cancel U hUc, mul_one]
  -- (W + d)·E·(1 + d) = W E + U d + E (1 + W)·0 + d² E (1 + W)… exact identity below
  have hid : (W + d) * (E * (1 + d)) = S + (η + U * d) + d * d * E := by
    rw [hη, hU]; ring
  have h1 : EqMod (2 * k) ((W + d) * (E * fexp d)) ((W + d) * (E * (1 + d))) :=
    EqMod.mul_left _ (EqMod.mul_left _ (fexp_small hk hdk))
  refine h1.trans ?_
  rw [hid, hUd, add_neg_cancel, add_zero]
  have := (EqMod.refl (2 * k) S).add (hdd.mul_right E)
  simpa using this

/-- **series_lambertw**: `g·exp(g) ≡ s` modulo `X^prec`, `g(0) = 0` -/
theorem lambertw_spec (s g : Poly) (prec : ℕ) (hp : 1 ≤ prec) (h : seriesLambertw s prec = .ok g) :
    constantCoeff (toPS s) = 0 ∧ constantCoeff (toPS g) = 0 ∧
      EqMod prec (toPS g * fexp (toPS g)) (toPS s) := by
  unfold seriesLambertw at h
  split at h
  · cases h
  · next hc =>
    have hc0 : Series.coeff s 0 = 0 := by simpa using hc
    have hS : constantCoeff (toPS s) = 0 := by rw [constantCoeff_toPS, hc0]
    set S := toPS s
    let P : ℕ → Poly → Prop := fun k r =>
      (1 ≤ k → constantCoeff (toPS r) = 0) ∧ EqMod k (toPS r * fexp (toPS r)) S
    have hinit : P 1 [] := by
      refine ⟨fun _ => by simp, ?_⟩
      intro k hk
      have : k = 0 := by omega
      subst this
      rw [toPS_nil, zero_mul, coeff_zero_eq_constantCoeff_apply, coeff_zero_eq_constantCoeff_apply, hS]
      simp
    have := newton_foldlM P _
      (fun k st a b hk ha hst hb => by
        simp only [bind, Except.bind] at hb
        split at hb
        · cases hb
        · next e he =>
          split at hb
          · cases hb
          · next p3 hp3 =>
            simp only [pure, Except.pure, Except.ok.injEq] at hb
            subst hb
            have hW := ha.1 hk
            set W := toPS a
            obtain ⟨hYc, hY2⟩ := lambert_newton hk hW hS ha.2
            set Y := W - (W * fexp W - S) * (fexp W * (1 + W))⁻¹
            by_cases h0 : st = 0
            · subst h0
              exact ⟨fun h => absurd h (by omega), eqMod_zero _ _⟩
            have hst1 : 1 ≤ st := by omega
            have hE : EqMod st (toPS e) (fexp W) := (exp_specC a e st hst1 he (EqMod.refl _ _)).2
            have hUc : constantCoeff (fexp W * (1 + W)) ≠ 0 := by
              rw [map_mul, constantCoeff_fexp hW, map_add, hW]; simp
            have hp3' : EqMod st (toPS p3) (fexp W * (1 + W))⁻¹ := by
              apply eqMod_inv_of_mul (invert_spec _ p3 st hp3) _ hUc
              refine (toPS_mulTrunc _ _ _).trans ?_
              rw [toPS_padd, toPS_one, add_comm W 1]
              exact hE.mul_right _
            have hnew : EqMod st (toPS (psub a (mulTrunc (psub (mulTrunc e a st) s) p3 st))) Y := by
              rw [toPS_psub]
              apply (EqMod.refl _ _).sub
              refine (toPS_mulTrunc _ _ _).trans ?_
              apply EqMod.mul _ hp3'
              rw [toPS_psub]
              apply EqMod.sub _ (EqMod.refl _ _)
              refine (toPS_mulTrunc _ _ _).trans ?_
              rw [mul_comm W]
              exact hE.mul_right _
            have hc' : constantCoeff (toPS (psub a (mulTrunc (psub (mulTrunc e a st) s) p3 st))) = 0 := by
              rw [constantCoeff_eq_of_eqMod hst1 hnew, hYc]
            refine ⟨fun _ => hc', ?_⟩
            exact ((hnew.mul (fexp_congr hnew hc' hYc))).trans (hY2.mono hst))
      (stepList prec) 1 [] g (stepList_pos prec hp) le_rfl (chain_stepList prec) hinit h
    rw [lastD_stepList] at this
    exact ⟨hS, this.1 hp, this.2⟩

end SymVerif.C31
