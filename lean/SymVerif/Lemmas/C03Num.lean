/-
C03 helper lemmas: arithmetic on canonical numeric leaves yields canonical numeric leaves.
-/
import SymVerif.Lemmas.C03Dict

namespace SymVerif.Arith

/-! ### rational_class -/

theorem Q.canon_iff {q : Q} : Q.canon q = true ↔ q.den ≠ 0 ∧ Nat.gcd q.num.natAbs q.den = 1 := by
  simp [Q.canon]

theorem natAbs_ediv_of_dvd (a : Int) (g : Nat) (hg : 0 < g) (h : g ∣ a.natAbs) :
    (a / (g : Int)).natAbs = a.natAbs / g := by
  have hd : (g : Int) ∣ a := Int.ofNat_dvd_left.mpr h
  obtain ⟨c, rfl⟩ := hd
  have hg' : (g : Int) ≠ 0 := by omega
  rw [Int.mul_ediv_cancel_left _ hg', Int.natAbs_mul, Int.natAbs_natCast,
    Nat.mul_div_cancel_left _ hg]

theorem Q.norm_canon (n : Int) (d : Nat) (hd : d ≠ 0) : Q.canon (Q.norm n d) = true := by
  have hg : 0 < Nat.gcd n.natAbs d := Nat.gcd_pos_of_pos_right _ (Nat.pos_of_ne_zero hd)
  have hg0 : (Nat.gcd n.natAbs d == 0) = false := by
    simp; omega
  simp only [Q.norm, hg0]
  rw [Q.canon_iff]
  simp only [Bool.false_eq_true, ↓reduceIte]
  constructor
  · have : Nat.gcd n.natAbs d ≤ d := Nat.gcd_le_right _ (Nat.pos_of_ne_zero hd)
    have := Nat.div_pos this hg
    omega
  · rw [natAbs_ediv_of_dvd n _ hg (Nat.gcd_dvd_left _ _)]
    exact Nat.coprime_div_gcd_div_gcd hg

theorem Q.add_canon {a b : Q} (ha : Q.canon a = true) (hb : Q.canon b = true) :
    Q.canon (Q.add a b) = true := by
  rw [Q.canon_iff] at ha hb
  exact Q.norm_canon _ _ (Nat.mul_ne_zero ha.1 hb.1)

theorem Q.mul_canon {a b : Q} (ha : Q.canon a = true) (hb : Q.canon b = true) :
    Q.canon (Q.mul a b) = true := by
  rw [Q.canon_iff] at ha hb
  exact Q.norm_canon _ _ (Nat.mul_ne_zero ha.1 hb.1)

theorem Q.neg_canon {a : Q} (ha : Q.canon a = true) : Q.canon (Q.neg a) = true := by
  rw [Q.canon_iff] at ha ⊢
  simpa [Q.neg] using ha

theorem Q.sub_canon {a b : Q} (ha : Q.canon a = true) (hb : Q.canon b = true) :
    Q.canon (Q.sub a b) = true := Q.add_canon ha (Q.neg_canon hb)

theorem Q.zero_canon : Q.canon Q.zero = true := by decide
theorem Q.one_canon : Q.canon Q.one = true := by decide
theorem Q.ofInt_canon (n : Int) : Q.canon (Q.ofInt n) = true := by
  simp [Q.canon, Q.ofInt]

theorem Q.inv_canon {a : Q} (ha : Q.canon a = true) (hn : a.num ≠ 0) : Q.canon (Q.inv a) = true := by
  rw [Q.canon_iff] at ha ⊢
  unfold Q.inv
  split
  · refine ⟨by simp; omega, ?_⟩
    simp only [Int.natAbs_neg, Int.natAbs_natCast]
    rw [Nat.gcd_comm]; exact ha.2
  · refine ⟨by simp; omega, ?_⟩
    simp only [Int.natAbs_natCast]
    rw [Nat.gcd_comm]; exact ha.2

theorem Q.powNat_canon {a : Q} (ha : Q.canon a = true) (k : Nat) : Q.canon (Q.powNat a k) = true := by
  rw [Q.canon_iff] at ha ⊢
  refine ⟨?_, ?_⟩
  · simp only [Q.powNat]
    exact Nat.pos_iff_ne_zero.mp (Nat.pow_pos (Nat.pos_of_ne_zero ha.1))
  · simp only [Q.powNat, Int.natAbs_pow]
    exact Nat.pow_gcd_pow_of_gcd_eq_one ha.2

/-! ### canonical numeric leaves -/

/-- a canonical Number leaf -/
def NumOK (e : Expr) : Prop := e.isNum = true ∧ canon e = true

/-- a canonical exact Number leaf -/
def ExOK (e : Expr) : Prop := isExactNum e = true ∧ canon e = true

theorem ExOK.numOK {e : Expr} (h : ExOK e) : NumOK e := by
  refine ⟨?_, h.2⟩
  have := h.1
  cases e <;> simp_all [isExactNum, Expr.isNum]

theorem canon_int (n : Int) : canon (.int n) = true := by simp [canon, canonTop]
theorem canon_rat (n : Int) (d : Nat) : canon (.rat n d) = ratCanon n d := by simp [canon, canonTop]
theorem canon_cplx (re im : Q) : canon (.cplx re im) = cplxCanon re im := by simp [canon, canonTop]
theorem canon_nan : canon .nan = true := by simp [canon, canonTop]
theorem canon_infty (d : Int) : canon (.infty d) = (d == 1 || d == 0 || d == -1) := by
  simp [canon, canonTop]

theorem ofQ_exOK {q : Q} (h : Q.canon q = true) : ExOK (ofQ q) := by
  rw [Q.canon_iff] at h
  unfold ofQ
  split
  · exact ⟨rfl, canon_int _⟩
  · rename_i h1
    refine ⟨rfl, ?_⟩
    rw [canon_rat]
    simp [ratCanon, h.1, h.2]
    simpa using h1

theorem ofGQ_exOK {re im : Q} (hr : Q.canon re = true) (hi : Q.canon im = true) :
    ExOK (ofGQ re im) := by
  unfold ofGQ
  split
  · exact ofQ_exOK hr
  · rename_i h1
    refine ⟨rfl, ?_⟩
    rw [canon_cplx]
    simp [cplxCanon, hr, hi]
    simpa using h1

theorem toGQ_canon {e : Expr} {re im : Q} (h : canon e = true) (hg : toGQ e = some (re, im)) :
    Q.canon re = true ∧ Q.canon im = true := by
  cases e <;> simp [toGQ] at hg
  · obtain ⟨rfl, rfl⟩ := hg
    exact ⟨Q.ofInt_canon _, Q.zero_canon⟩
  · obtain ⟨rfl, rfl⟩ := hg
    rw [canon_rat] at h
    simp [ratCanon] at h
    exact ⟨by simp [Q.canon, h.1.1, h.2], Q.zero_canon⟩
  · obtain ⟨rfl, rfl⟩ := hg
    rw [canon_cplx] at h
    simp [cplxCanon] at h
    exact ⟨h.1.2, h.2⟩

theorem toGQ_isSome_iff (e : Expr) : (toGQ e).isSome = isExactNum e := by
  cases e <;> simp [toGQ, isExactNum]

theorem exOK_toGQ {e : Expr} (h : ExOK e) :
    ∃ re im, toGQ e = some (re, im) ∧ Q.canon re = true ∧ Q.canon im = true := by
  have h1 := h.1
  rw [← toGQ_isSome_iff] at h1
  obtain ⟨⟨re, im⟩, hg⟩ := Option.isSome_iff_exists.mp h1
  exact ⟨re, im, hg, toGQ_canon h.2 hg⟩

theorem numOK_nan : NumOK .nan := ⟨rfl, canon_nan⟩

theorem inftyMulExact_ok {d : Int} {x r : Expr} (hd : canon (.infty d) = true)
    (h : inftyMulExact d x = .ok r) : NumOK r := by
  unfold inftyMulExact at h
  split at h
  · simp at h
  · split at h
    · simp at h; subst h; exact ⟨rfl, hd⟩
    · split at h
      · simp at h; subst h
        refine ⟨rfl, ?_⟩
        rw [canon_infty] at hd ⊢
        simp at hd ⊢
        omega
      · simp at h; subst h; exact numOK_nan

theorem numAdd_ok {a b r : Expr} (ha : NumOK a) (hb : NumOK b) (h : numAdd a b = .ok r) :
    NumOK r := by
  unfold numAdd at h
  split at h
  · rename_i ar ai br bi hga hgb
    simp at h; subst h
    have ca := toGQ_canon ha.2 hga
    have cb := toGQ_canon hb.2 hgb
    exact (ofGQ_exOK (Q.add_canon ca.1 cb.1) (Q.add_canon ca.2 cb.2)).numOK
  · split at h
    · simp at h
    · split at h
      · split at h <;> simp at h
        subst h; exact numOK_nan
      · split at h <;> simp at h
        subst h; exact numOK_nan
      · split at h <;> simp at h
        subst h; exact ha
      · split at h <;> simp at h
        subst h; exact hb
      · simp at h

theorem numMul_ok {a b r : Expr} (ha : NumOK a) (hb : NumOK b) (h : numMul a b = .ok r) :
    NumOK r := by
  unfold numMul at h
  split at h
  · rename_i ar ai br bi hga hgb
    simp at h; subst h
    have ca := toGQ_canon ha.2 hga
    have cb := toGQ_canon hb.2 hgb
    exact (ofGQ_exOK (Q.sub_canon (Q.mul_canon ca.1 cb.1) (Q.mul_canon ca.2 cb.2))
      (Q.add_canon (Q.mul_canon ca.1 cb.2) (Q.mul_canon ca.2 cb.1))).numOK
  · split at h
    · simp at h
    · split at h
      · split at h <;> simp at h
        subst h; exact numOK_nan
      · split at h <;> simp at h
        subst h; exact numOK_nan
      · split at h
        · exact inftyMulExact_ok ha.2 h
        · simp at h
      · split at h
        · exact inftyMulExact_ok hb.2 h
        · simp at h
      · simp at h

theorem gqPowNat_canon : ∀ (fuel k : Nat) (re im : Q), Q.canon re = true → Q.canon im = true →
    Q.canon (gqPowNat re im fuel k).1 = true ∧ Q.canon (gqPowNat re im fuel k).2 = true
  | 0, _, _, _, _, _ => ⟨Q.one_canon, Q.zero_canon⟩
  | fuel + 1, k, re, im, hr, hi => by
    simp only [gqPowNat]
    split
    · exact ⟨Q.one_canon, Q.zero_canon⟩
    · have ih := gqPowNat_canon fuel (k / 2) (Q.sub (Q.mul re re) (Q.mul im im))
        (Q.mul (Q.ofInt 2) (Q.mul re im))
        (Q.sub_canon (Q.mul_canon hr hr) (Q.mul_canon hi hi))
        (Q.mul_canon (Q.ofInt_canon 2) (Q.mul_canon hr hi))
      generalize gqPowNat (Q.sub (Q.mul re re) (Q.mul im im)) (Q.mul (Q.ofInt 2) (Q.mul re im))
        fuel (k / 2) = p at ih
      obtain ⟨hr', hi'⟩ := p
      simp only at ih ⊢
      split
      · exact ⟨Q.sub_canon (Q.mul_canon ih.1 hr) (Q.mul_canon ih.2 hi),
          Q.add_canon (Q.mul_canon ih.1 hi) (Q.mul_canon ih.2 hr)⟩
      · exact ih

theorem sign_natAbs_canon {j : Int} (hj : j ≠ 0) : Q.canon ⟨Int.sign j, j.natAbs⟩ = true := by
  rw [Q.canon_iff]
  refine ⟨by simp; omega, ?_⟩
  simp only
  have : (Int.sign j).natAbs = 1 := by
    rcases Int.lt_trichotomy j 0 with h | h | h
    · simp [Int.sign_eq_neg_one_of_neg h]
    · exact absurd h hj
    · simp [Int.sign_eq_one_of_pos h]
  rw [this]; simp

theorem numPowInt_ok {a r : Expr} {n : Int} (ha : ExOK a) (h : numPowInt a n = .ok r) : NumOK r := by
  unfold numPowInt at h
  split at h
  · simp at h
  · split at h
    · -- Integer
      split at h
      · simp at h; subst h; exact ⟨rfl, canon_int _⟩
      · dsimp only at h
        split at h
        · simp at h; subst h; exact ⟨rfl, by rw [canon_infty]; simp⟩
        · rename_i hj
          simp only [Except.ok.injEq] at h; subst h
          exact (ofQ_exOK (sign_natAbs_canon (by simpa using hj))).numOK
    · -- Rational
      rename_i p q
      have hc : Q.canon ⟨p, q⟩ = true := by
        have := ha.2
        rw [canon_rat] at this
        simp [ratCanon] at this
        simp [Q.canon, this.1.1, this.2]
      have hp := Q.powNat_canon hc n.natAbs
      split at h
      · simp at h; subst h; exact (ofQ_exOK hp).numOK
      · simp at h; subst h
        refine (ofQ_exOK (Q.inv_canon hp ?_)).numOK
        simp only [Q.powNat]
        have hp0 : p ≠ 0 := by
          intro e
          have := ha.2
          rw [canon_rat] at this
          simp [ratCanon, e] at this
          omega
        exact Int.pow_ne_zero hp0
    · -- Complex
      rename_i re im
      have hc := ha.2
      rw [canon_cplx] at hc
      simp [cplxCanon] at hc
      have hp := gqPowNat_canon 64 n.natAbs re im hc.1.2 hc.2
      generalize gqPowNat re im 64 n.natAbs = pp at hp h
      obtain ⟨pr, pi⟩ := pp
      simp only at hp h
      split at h
      · simp at h; subst h; exact (ofGQ_exOK hp.1 hp.2).numOK
      · split at h
        · simp at h
        · rename_i hm
          simp at h; subst h
          have hmc := Q.add_canon (Q.mul_canon hp.1 hp.1) (Q.mul_canon hp.2 hp.2)
          have hm0 : (Q.add (Q.mul pr pr) (Q.mul pi pi)).num ≠ 0 := by
            simpa [Q.isZero] using hm
          have hinv := Q.inv_canon hmc hm0
          exact (ofGQ_exOK (Q.mul_canon hp.1 hinv) (Q.mul_canon (Q.neg_canon hp.2) hinv)).numOK
    · split at h <;> simp at h

theorem numPow_ok {a e r : Expr} (ha : ExOK a) (h : numPow a e = .ok r) : NumOK r := by
  unfold numPow at h
  split at h
  · exact numPowInt_ok ha h
  · simp at h

/-- a canonical number that `is_one()` is the Integer 1 -/
theorem numIsOne_canon {v : Expr} (hc : canon v = true) (h : numIsOne v = true) : v = .int 1 := by
  cases v <;> simp [numIsOne] at h
  · subst h; rfl
  · rename_i n d
    rw [canon_rat] at hc
    simp [ratCanon] at hc
    subst h
    simp at hc
    omega

theorem numOK_one : NumOK one := ⟨rfl, canon_int _⟩
theorem numOK_zero : NumOK zero := ⟨rfl, canon_int _⟩
theorem numOK_minusOne : NumOK minusOne := ⟨rfl, canon_int _⟩
theorem exOK_int (n : Int) : ExOK (.int n) := ⟨rfl, canon_int _⟩

theorem strong_of_isNum {e : Expr} (h : e.isNum = true) : strong e = true := by
  cases e <;> simp [Expr.isNum] at h <;> simp [strong]

theorem NumOK.inv {e : Expr} (h : NumOK e) : inv e = true := by
  simp [Arith.inv, h.2, strong_of_isNum h.1]

end SymVerif.Arith
