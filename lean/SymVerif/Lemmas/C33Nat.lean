import Mathlib.Data.Nat.Prime.Basic
import Mathlib.Data.Nat.Sqrt
import Mathlib.NumberTheory.PrimeCounting
import SymVerif.Model.Sieve
/-! Number-theoretic helper lemmas for C33 (prime sieve): the prime counting function `cnt`,
the prime enumeration `np`, and the arithmetic of "first odd multiple above `start`". -/
namespace SymVerif.C33
open SymVerif.Sieve

/-- number of primes `< n` -/
noncomputable abbrev cnt (n : Nat) : Nat := Nat.count Nat.Prime n
/-- the `i`-th prime (`np 0 = 2`) -/
noncomputable abbrev np (i : Nat) : Nat := Nat.nth Nat.Prime i

theorem np_cnt {p : Nat} (hp : p.Prime) : np (cnt p) = p := Nat.nth_count hp
theorem cnt_np (i : Nat) : cnt (np i) = i := Nat.primeCounting'_nth_eq i
theorem prime_np (i : Nat) : (np i).Prime := Nat.prime_nth_prime i
theorem np_lt_np {i j : Nat} (h : i < j) : np i < np j :=
  Nat.nth_strictMono Nat.infinite_setOfPred_prime h
theorem np_le_np {i j : Nat} (h : i ≤ j) : np i ≤ np j :=
  (Nat.nth_strictMono Nat.infinite_setOfPred_prime).monotone h
theorem cnt_mono {a b : Nat} (h : a ≤ b) : cnt a ≤ cnt b := Nat.count_monotone _ h
theorem cnt_succ_prime {n : Nat} (h : n.Prime) : cnt (n + 1) = cnt n + 1 := by
  simp [cnt, Nat.count_succ, h]
theorem cnt_succ_not_prime {n : Nat} (h : ¬ n.Prime) : cnt (n + 1) = cnt n := by
  simp [cnt, Nat.count_succ, h]
theorem cnt_np_succ (i : Nat) : cnt (np i + 1) = i + 1 := by
  rw [cnt_succ_prime (prime_np i), cnt_np]

theorem not_prime_even {n : Nat} (h2 : n % 2 = 0) (h : 2 < n) : ¬ n.Prime := by
  intro hp
  have := (Nat.Prime.eq_one_or_self_of_dvd hp 2 (Nat.dvd_of_mod_eq_zero h2))
  omega

theorem prime_lt_of_cnt_lt {q m : Nat} (_hq : q.Prime) (h : cnt q < cnt m) : q < m :=
  Nat.lt_of_count_lt_count h

theorem cnt_lt_of_prime_lt {q m : Nat} (hq : q.Prime) (h : q < m) : cnt q < cnt m :=
  Nat.count_strict_mono hq h

theorem np_zero : np 0 = 2 := Nat.nth_prime_zero_eq_two
theorem np_odd {i : Nat} (h : 1 ≤ i) : np i % 2 = 1 := by
  have h2 : np 0 < np i := np_lt_np (by omega)
  rw [np_zero] at h2
  rcases Nat.Prime.eq_two_or_odd (prime_np i) with h' | h'
  · omega
  · exact h'


theorem fom_props {start n : Nat} (hn : n % 2 = 1) :
    n ∣ firstOddMultiple start n ∧ firstOddMultiple start n % 2 = 1 ∧
    start < firstOddMultiple start n ∧ firstOddMultiple start n ≤ start + 2 * n := by
  have hdm := Nat.div_add_mod start n
  have hlt : start % n < n := Nat.mod_lt _ (by omega)
  have e : (start / n + 1) * n = n * (start / n) + n := by ring
  unfold firstOddMultiple
  simp only [e]
  split
  · rename_i h
    have h' : (n * (start / n) + n) % 2 = 0 := by simpa using h
    refine ⟨?_, by omega, by omega, by omega⟩
    exact Dvd.dvd.add (Dvd.dvd.add (Nat.dvd_mul_right _ _) (dvd_refl _)) (dvd_refl _)
  · rename_i h
    have h' : ¬ (n * (start / n) + n) % 2 = 0 := by simpa using h
    refine ⟨?_, by omega, by omega, by omega⟩
    exact Dvd.dvd.add (Nat.dvd_mul_right _ _) (dvd_refl _)

theorem fom_least {start n m : Nat} (hn : n % 2 = 1) (hm : m % 2 = 1) (hd : n ∣ m) (hs : start < m) :
    ∃ t, m = firstOddMultiple start n + 2 * (t * n) := by
  obtain ⟨h1, h2, h3, h4⟩ := fom_props (start := start) hn
  generalize firstOddMultiple start n = f at *
  have hcop : Nat.Coprime 2 n := by
    exact Nat.coprime_two_left.2 (Nat.odd_iff.2 hn)
  rcases Nat.le_total f m with hle | hle
  · have d1 : n ∣ m - f := Nat.dvd_sub hd h1
    have d2 : 2 ∣ m - f := by omega
    obtain ⟨t, ht⟩ := Nat.Coprime.mul_dvd_of_dvd_of_dvd hcop d2 d1
    refine ⟨t, ?_⟩
    have : 2 * n * t = 2 * (t * n) := by ring
    omega
  · have d1 : n ∣ f - m := Nat.dvd_sub h1 hd
    have d2 : 2 ∣ f - m := by omega
    obtain ⟨t, ht⟩ := Nat.Coprime.mul_dvd_of_dvd_of_dvd hcop d2 d1
    rcases Nat.eq_zero_or_pos t with h0 | hpos
    · subst h0; exact ⟨0, by omega⟩
    · exfalso
      have : 2 * n * 1 ≤ 2 * n * t := Nat.mul_le_mul_left _ hpos
      omega


theorem filter_range_prime (n : Nat) :
    (List.range n).filter (fun k => decide k.Prime) = (List.range (cnt n)).map np := by
  induction n with
  | zero => simp [cnt]
  | succ n ih =>
    rw [List.range_succ, List.filter_append, ih]
    by_cases hp : n.Prime
    · rw [cnt_succ_prime hp, List.range_succ, List.map_append]
      simp [hp, np_cnt hp]
    · rw [cnt_succ_not_prime hp]
      simp [hp]

/-- Core sieve lemma: an odd `n` in `(start, finish]` is prime iff none of the odd primes below
`start` whose square is at most `finish` divides it, provided every prime `q` with `q² ≤ finish`
is below `start`. -/
theorem sieve_core {start finish n : Nat} (hs : 2 ≤ start)
    (hq : ∀ q, q.Prime → q * q ≤ finish → q < start)
    (hodd : n % 2 = 1) (h1 : start < n) (h2 : n ≤ finish) :
    (∀ i, 1 ≤ i → i < cnt start → np i * np i ≤ finish → ¬ np i ∣ n) ↔ n.Prime := by
  constructor
  · intro h
    by_contra hnp
    have hn1 : n ≠ 1 := by omega
    have hqp := Nat.minFac_prime hn1
    have hqd := Nat.minFac_dvd n
    have hsq : n.minFac * n.minFac ≤ n := by
      have := Nat.minFac_sq_le_self (by omega : 0 < n) hnp
      simpa [pow_two] using this
    have hlt := hq _ hqp (le_trans hsq h2)
    have hne2 : n.minFac ≠ 2 := by
      intro h2'
      rw [h2'] at hqd
      omega
    have hgt : 2 < n.minFac := lt_of_le_of_ne hqp.two_le (Ne.symm hne2)
    have hi1 : 1 ≤ cnt n.minFac := by
      have := cnt_lt_of_prime_lt Nat.prime_two hgt
      omega
    have hi2 := cnt_lt_of_prime_lt hqp hlt
    have := h _ hi1 hi2
    rw [np_cnt hqp] at this
    exact this (le_trans hsq h2) hqd
  · intro hp i _ hi _ hd
    rcases Nat.Prime.eq_one_or_self_of_dvd hp _ hd with h | h
    · exact (prime_np i).one_lt.ne' h
    · have : cnt n = i := by rw [← h, cnt_np]
      have := cnt_mono (le_of_lt h1)
      omega

theorem cnt_30 : cnt 30 = 10 := by
  simp only [cnt]
  decide
theorem np_table : ∀ i, i < 10 → np i = #[2, 3, 5, 7, 11, 13, 17, 19, 23, 29][i]! := by
  intro i hi
  have h : ∀ p : Nat, p.Prime → ∀ k, cnt p = k → np k = p := fun p hp k hk => hk ▸ np_cnt hp
  have c : ∀ p k, Nat.count Nat.Prime p = k → cnt p = k := fun _ _ h => h
  have : i = 0 ∨ i = 1 ∨ i = 2 ∨ i = 3 ∨ i = 4 ∨ i = 5 ∨ i = 6 ∨ i = 7 ∨ i = 8 ∨ i = 9 := by omega
  rcases this with rfl | rfl | rfl | rfl | rfl | rfl | rfl | rfl | rfl | rfl
  · exact h 2 (by decide) 0 (c _ _ (by decide))
  · exact h 3 (by decide) 1 (c _ _ (by decide))
  · exact h 5 (by decide) 2 (c _ _ (by decide))
  · exact h 7 (by decide) 3 (c _ _ (by decide))
  · exact h 11 (by decide) 4 (c _ _ (by decide))
  · exact h 13 (by decide) 5 (c _ _ (by decide))
  · exact h 17 (by decide) 6 (c _ _ (by decide))
  · exact h 19 (by decide) 7 (c _ _ (by decide))
  · exact h 23 (by decide) 8 (c _ _ (by decide))
  · exact h 29 (by decide) 9 (c _ _ (by decide))
end SymVerif.C33
