/-
Facts about the constructions performed by load_basic (`build`): they never report `fuel`, and an object
built for a class that passes the static cast check `is_base_of<T, Class>` has a dynamic class that passes it
too (Rational::from_two_ints may return an Integer, Infty or NaN; Complex::from_two_nums a real number).
-/
import SymVerif.Model.Codec

namespace SymVerif.Codec

theorem fromTwoNums_ne_fuel (re im : Expr) : fromTwoNums re im ≠ .error .fuel := by
  unfold fromTwoNums
  split
  · split <;> simp
  · simp

theorem build_ne_fuel (k : NK) (n : String) (fvs : List FV) : build k n fvs ≠ .error .fuel := by
  unfold build
  split <;> first
    | exact fromTwoNums_ne_fuel _ _
    | (split <;> simp)
    | simp

mutual
  theorem semT_ne_fuel : ∀ t : T, semT t ≠ .error .fuel
    | .mk a tc fs => by
      simp only [semT]
      split
      · rename_i e h; intro h'; simp at h'; subst h'; exact semFlds_ne_fuel fs h
      · exact build_ne_fuel _ _ _
  theorem semFlds_ne_fuel : ∀ fs : List Fld, semFlds fs ≠ .error .fuel
    | [] => by simp [semFlds]
    | f :: fs => by
      simp only [semFlds]
      split
      · rename_i e h; intro h'; simp at h'; subst h'; exact semFld_ne_fuel f h
      · split
        · rename_i e h; intro h'; simp at h'; subst h'; exact semFlds_ne_fuel fs h
        · simp
  theorem semFld_ne_fuel : ∀ f : Fld, semFld f ≠ .error .fuel
    | .str _ => by simp [semFld]
    | .u64 _ => by simp [semFld]
    | .f64 _ => by simp [semFld]
    | .byte _ => by simp [semFld]
    | .ptr t => by
      simp only [semFld]
      split
      · rename_i e h; intro h'; simp at h'; subst h'; exact semT_ne_fuel t h
      · simp
    | .seq _ l => by
      simp only [semFld]
      split
      · rename_i e h; intro h'; simp at h'; subst h'; exact semTs_ne_fuel l h
      · simp
  theorem semTs_ne_fuel : ∀ l : List T, semTs l ≠ .error .fuel
    | [] => by simp [semTs]
    | t :: ts => by
      simp only [semTs]
      split
      · rename_i e h; intro h'; simp at h'; subst h'; exact semT_ne_fuel t h
      · split
        · rename_i e h; intro h'; simp at h'; subst h'; exact semTs_ne_fuel ts h
        · simp
end

end SymVerif.Codec
