import Mathlib.FieldTheory.Finite.Basic
import Mathlib.RingTheory.IntegralDomain
import SymVerif.Lemmas.C32Order
/-! `primitive_root` for a prime modulus. -/
namespace SymVerif.C32
open SymVerif.NTheory

theorem noDivisorFrom_iff (n : Nat) : ∀ (f d : Nat),
    noDivisorFrom n f d = true ↔ ∀ k, d ≤ k → k < d + f → k * k ≤ n → n % k ≠ 0 := by
  intro f
  induction f with
  | zero => intro d; simp [noDivisorFrom]; intro k h1 h2; omega
  | succ f ih =>
    intro d
    unfold noDivisorFrom
    by_cases h1 : d * d > n
    · simp only [h1, if_true, true_iff]
      intro k hk _ hkk
      have : d * d ≤ k * k := Nat.mul_le_mul hk hk
      omega
    · simp only [h1, if_false]
      by_cases h2 : n % d = 0
      · have : (n % d == 0) = true := by simpa using h2
        simp only [this, if_true]
        constructor
        · intro h; exact absurd h (by simp)
        · intro h; exact absurd h2 (h d (le_refl _) (by omega) (by omega))
      · have : (n % d == 0) = false := by simpa using h2
        simp only [this, Bool.false_eq_true, if_false]
        rw [ih (d + 1)]
        constructor
        · intro h k hk1 hk2 hk3
          rcases Nat.eq_or_lt_of_le hk1 with heq | hlt
          · subst heq; exact h2
          · exact h k (by omega) (by omega) hk3
        · intro h k hk1 hk2 hk3
          exact h k (by omega) (by omega) hk3

/-- the primality specification used for `mpz_probab_prime_p` is exact primality -/
theorem isPrime_iff (n : Nat) : isPrime n = true ↔ n.Prime := by
  unfold isPrime
  rw [Bool.and_eq_true, noDivisorFrom_iff, Nat.prime_def_le_sqrt]
  simp only [decide_eq_true_eq, ge_iff_le]
  constructor
  · rintro ⟨h2, h⟩
    refine ⟨h2, fun m hm1 hm2 hd => ?_⟩
    have hmm : m * m ≤ n := Nat.le_sqrt.mp hm2
    exact h m hm1 (by omega) hmm (Nat.mod_eq_zero_of_dvd hd)
  · rintro ⟨h2, h⟩
    refine ⟨h2, fun k hk1 _ hk3 hmod => ?_⟩
    exact h k hk1 (Nat.le_sqrt.mpr hk3) (Nat.dvd_of_mod_eq_zero hmod)

theorem perfectPowerP_prime {p : Nat} (hp : p.Prime) : perfectPowerP p = false := by
  unfold perfectPowerP
  have h1 : ¬ p ≤ 1 := by have := hp.two_le; omega
  simp only [h1, decide_false, Bool.false_or]
  rw [Bool.eq_false_iff]
  intro h
  rw [List.any_eq_true] at h
  obtain ⟨i, _, hi⟩ := h
  unfold rootExact at hi
  have heq : (iroot p (i + 2)) ^ (i + 2) = p := by simpa using hi
  have : ¬ p.Prime := by
    rw [← heq]
    exact Nat.Prime.not_prime_pow (by omega)
  exact this hp

theorem primePower_prime {p : Nat} (hp : p.Prime) : primePower p = some (p, 1) := by
  unfold primePower
  have h1 : ¬ p < 2 := by have := hp.two_le; omega
  simp only [h1, if_false]
  have : primePowerLoop (2 * p.log2 + 4) p 1 2 = (p, 1) := by
    show primePowerLoop (2 * p.log2 + 3 + 1) p 1 2 = (p, 1)
    unfold primePowerLoop
    simp [perfectPowerP_prime hp]
  rw [this]
  simp [(isPrime_iff p).mpr hp]

section
variable {p : Nat} (hp : p.Prime)
include hp

theorem powModNat_eq_one_iff (g e : Nat) : (powModNat g e p == 1) = true ↔ ((g : ZMod p)) ^ e = 1 := by
  have h2 : 2 ≤ p := hp.two_le
  rw [powModNat_eq, beq_iff_eq, ← natCast_eq_one_iff h2 (Nat.mod_lt _ (by omega)), ZMod.natCast_mod,
    Nat.cast_pow]

theorem isRootCheck_iff (g : Nat) (hg1 : 1 ≤ g) (hgp : g < p) (primes : List Nat)
    (hprimes : ∀ q, q ∈ primes ↔ q.Prime ∧ q ∣ p - 1) :
    isRootCheck p g primes = true ↔ orderOf ((g : ZMod p)) = p - 1 := by
  haveI : Fact p.Prime := ⟨hp⟩
  have hg0 : (g : ZMod p) ≠ 0 := by
    intro h
    rw [ZMod.natCast_eq_zero_iff] at h
    have := Nat.le_of_dvd (by omega) h; omega
  have hall : ∀ (l : List Nat), isRootCheck p g l = true ↔ ∀ q ∈ l, ((g : ZMod p)) ^ ((p - 1) / q) ≠ 1 := by
    intro l
    induction l with
    | nil => simp [isRootCheck]
    | cons q qs ih =>
      unfold isRootCheck
      by_cases hq : (powModNat g ((p - 1) / q) p == 1) = true
      · simp only [hq, if_true]
        constructor
        · intro h; exact absurd h (by simp)
        · intro h; exact absurd ((powModNat_eq_one_iff hp g _).mp hq) (h q (by simp))
      · simp only [hq, if_false, Bool.false_eq_true]
        rw [ih]
        constructor
        · intro h q' hq'
          rcases List.mem_cons.mp hq' with rfl | hmem
          · exact fun hc => hq ((powModNat_eq_one_iff hp g _).mpr hc)
          · exact h q' hmem
        · intro h q' hq'; exact h q' (List.mem_cons_of_mem _ hq')
  rw [hall]
  have hp1 : 0 < p - 1 := by have := hp.two_le; omega
  constructor
  · intro h
    apply orderOf_eq_of_pow_and_pow_div_prime hp1 (ZMod.pow_card_sub_one_eq_one hg0)
    intro q hq hd
    exact h q ((hprimes q).mpr ⟨hq, hd⟩)
  · intro h q hq
    obtain ⟨hqp, hqd⟩ := (hprimes q).mp hq
    apply pow_ne_one_of_lt_orderOf
    · exact (Nat.div_pos (Nat.le_of_dvd hp1 hqd) hqp.pos).ne'
    · rw [h]; exact Nat.div_lt_self hp1 hqp.one_lt

/-- the search loop returns the least `g' ≥ g` passing the check, if one exists below `p` -/
theorem findRootLoop_spec (primes : List Nat) : ∀ (f g g0 : Nat), g ≤ g0 → g0 < p → g0 < g + f →
    isRootCheck p g0 primes = true →
    let r := findRootLoop p primes f g
    g ≤ r ∧ r ≤ g0 ∧ isRootCheck p r primes = true ∧ ∀ j, g ≤ j → j < r → isRootCheck p j primes = false := by
  intro f
  induction f with
  | zero => intro g g0 h1 _ h3 _; omega
  | succ f ih =>
    intro g g0 h1 h2 h3 h4
    unfold findRootLoop
    have hgp : g < p := by omega
    simp only [hgp, if_true]
    by_cases hc : isRootCheck p g primes = true
    · simp only [hc, if_true]
      exact ⟨le_refl _, h1, trivial, fun j hj1 hj2 => by omega⟩
    · simp only [hc, if_false, Bool.false_eq_true]
      have hne : g ≠ g0 := fun h => hc (h ▸ h4)
      obtain ⟨a, b, c, d⟩ := ih (g + 1) g0 (by omega) h2 (by omega) h4
      refine ⟨by omega, b, c, ?_⟩
      intro j hj1 hj2
      rcases Nat.eq_or_lt_of_le hj1 with heq | hlt
      · subst heq; simpa using hc
      · exact d j (by omega) hj2

/-- a primitive root modulo the prime `p ≥ 3` exists among `2..p-1` -/
theorem exists_primitive_root (hp3 : 3 ≤ p) : ∃ g0 : Nat, 2 ≤ g0 ∧ g0 < p ∧ orderOf ((g0 : ZMod p)) = p - 1 := by
  haveI : Fact p.Prime := ⟨hp⟩
  obtain ⟨u, hu⟩ := IsCyclic.exists_generator (α := (ZMod p)ˣ)
  have hord : orderOf u = p - 1 := by
    rw [orderOf_eq_card_of_forall_mem_zpowers hu, Nat.card_eq_fintype_card, ZMod.card_units]
  have hval : orderOf ((u : ZMod p)) = p - 1 := by rw [orderOf_units]; exact hord
  refine ⟨(u : ZMod p).val, ?_, ZMod.val_lt _, ?_⟩
  · by_contra hlt
    have hv : (u : ZMod p).val = 0 ∨ (u : ZMod p).val = 1 := by omega
    rcases hv with h0 | h1
    · have : (u : ZMod p) = 0 := (ZMod.val_eq_zero _).mp h0
      exact (Units.ne_zero u) this
    · have : (u : ZMod p) = 1 := by
        have := ZMod.natCast_zmod_val (u : ZMod p)
        rw [h1] at this; simpa using this.symm
      rw [this, orderOf_one] at hval
      omega
  · rw [ZMod.natCast_zmod_val]; exact hval

end

end SymVerif.C32
