/-
C10, "exactly zero when x does not occur" for the model: if the symbol `x` does not occur in `e`
then the numerator of the normal form of `Diff.diffE x e` is the zero polynomial — for every tree,
whatever node kinds it contains.  (The library returns the integer 0 itself; the driver checks that.)
-/
import SymVerif.Model.Diff

namespace SymVerif
namespace Diff
open Expr NF

/-- the fraction has the zero polynomial as numerator -/
def ZN (f : Frac) : Prop := f.num = []

theorem pmul_nil_right : ∀ (p : Poly), pmul p [] = []
  | [] => rfl
  | (m, c) :: s => by simp [pmul, pmulTerm, pmul_nil_right s, padd]

theorem zn_zero : ZN (normT (.int 0)) := by
  simp [ZN, normT, constF, pconst, GI.ofInt, GI.isZero]

theorem zn_mulF_left {f g : Frac} (h : ZN f) : ZN (mulF f g) := by
  simp [ZN, mulF, h, pmul] at *
  simp [h, pmul]

theorem zn_mulF_right {f g : Frac} (h : ZN g) : ZN (mulF f g) := by
  unfold ZN at *
  simp [mulF, h, pmul_nil_right]

theorem zn_addF {f g : Frac} (hf : ZN f) (hg : ZN g) : ZN (addF f g) := by
  unfold ZN at *
  unfold addF
  split <;> simp [hf, hg, pmul, padd]

theorem zn_powF_one {f : Frac} (h : ZN f) : ZN (powF f 1) := by
  unfold ZN at *
  simp [powF, npowF, ppow, h, pmul]

/-- a product with a vanishing factor of exponent 1 vanishes -/
theorem zn_normFacs (d : Expr) (hd : ZN (normT d)) (t : List (Expr × Expr)) :
    ∀ (pre : List (Expr × Expr)), ZN (normFacs (pre ++ (d, .int 1) :: t))
  | [] => by
    simp only [List.nil_append, normFacs, intLit?]
    exact zn_mulF_left (zn_powF_one hd)
  | (b, e) :: pre => by
    simp only [List.cons_append, normFacs]
    split <;> exact zn_mulF_right (zn_normFacs d hd t pre)

theorem zn_mul (c d : Expr) (hd : ZN (normT d)) (pre t : List (Expr × Expr)) :
    ZN (normT (.mul c (pre ++ (d, .int 1) :: t))) := by
  simp only [normT]
  exact zn_mulF_right (zn_normFacs d hd t pre)

theorem zn_prod2 (f d : Expr) (hd : ZN (normT d)) : ZN (normT (prod [f, d])) := by
  have := zn_mul (.int 1) d hd [(f, .int 1)] []
  simpa [prod] using this

theorem zn_prod2_left (d g : Expr) (hd : ZN (normT d)) : ZN (normT (prod [d, g])) := by
  have := zn_mul (.int 1) d hd [] [(g, .int 1)]
  simpa [prod] using this

/-- a sum all of whose keys vanish vanishes -/
theorem zn_normTerms : ∀ (l : List (Expr × Expr)), (∀ p ∈ l, ZN (normT p.1)) → ZN (normTerms l)
  | [], _ => by simp [ZN, normTerms, zeroF, pzero]
  | (k, v) :: t, h => by
    simp only [normTerms]
    exact zn_addF (zn_mulF_left (h (k, v) (List.mem_cons_self ..)))
      (zn_normTerms t (fun p hp => h p (List.mem_cons_of_mem _ hp)))

theorem zn_add0 (l : List (Expr × Expr)) (h : ∀ p ∈ l, ZN (normT p.1)) : ZN (normT (.add (.int 0) l)) := by
  simp only [normT]
  exact zn_addF zn_zero (zn_normTerms l h)

theorem occurs_getD {x : String} : ∀ (l : List Expr) (i : Nat), occursList x l = false →
    occurs x (l.getD i zero) = false
  | [], i, _ => by simp [zero, occurs]
  | a :: t, 0, h => by
    simp only [occursList, Bool.or_eq_false_iff] at h
    simpa using h.1
  | a :: t, i + 1, h => by
    simp only [occursList, Bool.or_eq_false_iff] at h
    simpa using occurs_getD t i h.2

theorem fdiffE_absent (x : String) (self : Expr) (mk : List Expr → Expr) (known : Nat → Option Expr)
    (args dargs : List Expr) (h : occursList x args = false) :
    fdiffE x self mk known args dargs = .int 0 := by
  have hidx : (List.range args.length).filter (fun i => occurs x (args.getD i zero)) = [] := by
    rw [List.filter_eq_nil_iff]
    intro i _
    have := occurs_getD args i h
    simpa using this
  unfold fdiffE
  simp only [hidx]

theorem powRule_absent (b e db de : Expr) (hb : ZN (normT db)) (he : ZN (normT de)) :
    ZN (normT (powRule b e db de)) := by
  unfold powRule
  split
  · exact hb
  · split
    · exact zn_mul e db hb [(b, decExp e)] []
    · split
      · exact zn_mul (.int 1) de he [_] []
      · refine zn_mul (.int 1) _ ?_ [_] []
        refine zn_add0 _ ?_
        intro p hp
        simp only [List.mem_cons, List.mem_nil_iff, or_false] at hp
        rcases hp with rfl | rfl
        · exact zn_prod2_left de _ he
        · exact zn_mul (.int 1) db hb [(e, .int 1), (b, .int (-1))] []

theorem appRule_absent (x h : String) (args dargs : List Expr) (hocc : occursList x args = false)
    (hd : ∀ d ∈ dargs, ZN (normT d)) : ZN (normT (appRule x h args dargs)) := by
  unfold appRule
  split
  · -- Abs
    simp only [occursList, Bool.or_false] at hocc
    simp [hocc, zn_zero]
  · -- ATan2
    refine zn_mul (.int 1) _ ?_ [_, _] []
    refine zn_add0 _ ?_
    intro p hp
    simp only [List.mem_cons, List.mem_nil_iff, or_false] at hp
    rcases hp with rfl | rfl
    · exact zn_mul (.int 1) _ (hd _ (by simp)) [] [_]
    · exact zn_mul (.int (-1)) _ (hd _ (by simp)) [_, _] []
  · -- Beta
    refine zn_mul (.int 1) _ ?_ [_] []
    refine zn_add0 _ ?_
    intro p hp
    simp only [List.mem_cons, List.mem_nil_iff, or_false] at hp
    rcases hp with rfl | rfl | rfl
    · exact zn_prod2 _ _ (hd _ (by simp))
    · exact zn_prod2 _ _ (hd _ (by simp))
    · refine zn_prod2 _ _ (zn_add0 _ ?_)
      intro p hp
      simp only [List.mem_cons, List.mem_nil_iff, or_false] at hp
      rcases hp with rfl | rfl
      · exact hd _ (by simp)
      · exact hd _ (by simp)
  · -- one argument
    split
    · exact zn_prod2 _ _ (hd _ (by simp))
    · simp only [occursList, Bool.or_false] at hocc
      simp [hocc, zn_zero]
  · -- two arguments
    split
    · rw [fdiffE_absent x _ _ _ _ _ hocc]; exact zn_zero
    · simp [hocc, zn_zero]
  · simp [hocc, zn_zero]

mutual
  theorem diffE_absent (x : String) : ∀ (e : Expr), occurs x e = false → ZN (normT (diffE x e))
    | .sym n, h => by
      simp only [occurs] at h
      simp [diffE, h, zn_zero]
    | .add c ts, h => by
      simp only [occurs, Bool.or_eq_false_iff] at h
      simp only [diffE]
      exact zn_add0 _ (diffTerms_absent x ts h.2)
    | .mul c fs, h => by
      simp only [occurs, Bool.or_eq_false_iff] at h
      simp only [diffE]
      exact zn_add0 _ (diffFacs_absent x c fs h.2 [])
    | .pow b e, h => by
      simp only [occurs, Bool.or_eq_false_iff] at h
      simp only [diffE]
      exact powRule_absent b e _ _ (diffE_absent x b h.1) (diffE_absent x e h.2)
    | .fsym f args, h => by
      simp only [occurs] at h
      simp only [diffE]
      rw [fdiffE_absent x _ _ _ _ _ h]; exact zn_zero
    | .app hd args, h => by
      simp only [occurs] at h
      simp only [diffE]
      exact appRule_absent x hd args _ h (diffList_absent x args h)
    | .int _, _ => by simp [diffE, zn_zero]
    | .rat _ _, _ => by simp [diffE, zn_zero]
    | .cplx _ _, _ => by simp [diffE, zn_zero]
    | .dbl _, _ => by simp [diffE, zn_zero]
    | .cdbl _ _, _ => by simp [diffE, zn_zero]
    | .infty _, _ => by simp [diffE, zn_zero]
    | .nan, _ => by simp [diffE, zn_zero]
    | .dummy _ _, _ => by simp [diffE, zn_zero]
    | .const _, _ => by simp [diffE, zn_zero]
    | .bool _, _ => by simp [diffE, zn_zero]
  theorem diffList_absent (x : String) : ∀ (l : List Expr), occursList x l = false →
      ∀ d ∈ diffList x l, ZN (normT d)
    | [], _ => by simp [diffList]
    | a :: t, h => by
      simp only [occursList, Bool.or_eq_false_iff] at h
      intro d hd
      simp only [diffList, List.mem_cons] at hd
      rcases hd with rfl | hd
      · exact diffE_absent x a h.1
      · exact diffList_absent x t h.2 d hd
  theorem diffTerms_absent (x : String) : ∀ (l : List (Expr × Expr)), occursPairs x l = false →
      ∀ p ∈ diffTerms x l, ZN (normT p.1)
    | [], _ => by simp [diffTerms]
    | (k, c) :: t, h => by
      simp only [occursPairs, Bool.or_eq_false_iff] at h
      intro p hp
      simp only [diffTerms, List.mem_cons] at hp
      rcases hp with rfl | hp
      · exact diffE_absent x k h.1.1
      · exact diffTerms_absent x t h.2 p hp
  theorem diffFacs_absent (x : String) (c : Expr) : ∀ (l : List (Expr × Expr)), occursPairs x l = false →
      ∀ (pre : List (Expr × Expr)), ∀ p ∈ diffFacs x c pre l, ZN (normT p.1)
    | [], _, _ => by simp [diffFacs]
    | (b, e) :: t, h, pre => by
      simp only [occursPairs, Bool.or_eq_false_iff] at h
      intro p hp
      simp only [diffFacs, List.mem_cons] at hp
      rcases hp with rfl | hp
      · exact zn_mul c _ (powRule_absent b e _ _ (diffE_absent x b h.1.1) (diffE_absent x e h.1.2)) pre t
      · exact diffFacs_absent x c t h.2 _ p hp
end

/-- **Zero when the symbol is absent (model)**: the derivative normalises to the zero fraction. -/
theorem diff_absent (x : String) (e : Expr) (h : occurs x e = false) :
    (normT (diffE x e)).num = [] := diffE_absent x e h

theorem diff_absent_equiv (x : String) (e : Expr) (h : occurs x e = false) :
    equivF (normT (diffE x e)) zeroF = true := by
  simp [equivF, diff_absent x e h, zeroF, pzero, pmul]

end Diff
end SymVerif
