import Mathlib.Tactic.Ring
import Mathlib.Tactic.Linarith
import Mathlib.Tactic.LinearCombination
import SymVerif.Lemmas.C43Gcd
/-! C43, `mp_gcdext`: the cofactor `s` returned by the Euclidean loop of mp_boost.cpp lies in the window GMP
documents (`2|s| ≤ |b|/g`, with the sign of `a` when equality holds), hence `mp_gcdext` returns exactly
the cofactors of the specification. -/
namespace SymVerif.C43
open SymVerif

/-! ### truncated division facts -/

theorem tdiv_natAbs_decomp (r0 r1 : Int) :
    r0.natAbs = (r0.tdiv r1).natAbs * r1.natAbs + (r0.tmod r1).natAbs := by
  rw [Int.natAbs_tdiv, Int.natAbs_tmod]
  exact (Nat.div_add_mod' r0.natAbs r1.natAbs).symm

theorem tmod_natAbs_lt (r0 r1 : Int) (h : r1 ≠ 0) : (r0.tmod r1).natAbs < r1.natAbs := by
  rw [Int.natAbs_tmod]; exact Nat.mod_lt _ (Int.natAbs_pos.mpr h)

theorem tmod_mul_self_nonneg (r0 r1 : Int) : 0 ≤ r0.tmod r1 * r0 := by
  rcases Int.le_total 0 r0 with h | h
  · exact Int.mul_nonneg (Int.tmod_nonneg r1 h) h
  · have := tmod_sign_nonpos r1 h
    nlinarith

theorem tdiv_sign (r0 r1 : Int) : 0 ≤ r0.tdiv r1 * (r0 * r1) := by
  rcases Int.le_total 0 r0 with h0 | h0 <;> rcases Int.le_total 0 r1 with h1 | h1
  · have := Int.tdiv_nonneg h0 h1; positivity
  · have : r0.tdiv r1 ≤ 0 := by
      have h := Int.tdiv_nonneg h0 (show 0 ≤ -r1 by omega)
      rw [Int.tdiv_neg] at h; omega
    nlinarith [mul_nonneg h0 (show 0 ≤ -r1 by omega)]
  · have : r0.tdiv r1 ≤ 0 := by
      have h := Int.tdiv_nonneg (show 0 ≤ -r0 by omega) h1
      rw [Int.neg_tdiv] at h; omega
    nlinarith [mul_nonneg (show 0 ≤ -r0 by omega) h1]
  · have : 0 ≤ r0.tdiv r1 := by
      have h := Int.tdiv_nonneg (show 0 ≤ -r0 by omega) (show 0 ≤ -r1 by omega)
      rw [Int.neg_tdiv, Int.tdiv_neg] at h; omega
    nlinarith [mul_nonneg (show 0 ≤ -r0 by omega) (show 0 ≤ -r1 by omega)]

theorem tdiv_ne_zero_of_lt (r0 r1 : Int) (h1 : r1 ≠ 0) (h : r1.natAbs < r0.natAbs) : r0.tdiv r1 ≠ 0 := by
  intro hq
  have := tdiv_natAbs_decomp r0 r1
  have := tmod_natAbs_lt r0 r1 h1
  rw [hq] at *
  simp at *
  omega


theorem natAbs_sub_of_mul_nonpos {x y : Int} (h : x * y ≤ 0) : (x - y).natAbs = x.natAbs + y.natAbs := by
  rcases mul_nonpos_iff.mp h with ⟨h1, h2⟩ | ⟨h1, h2⟩ <;> omega

theorem nonpos_of_mul_sq {A r : Int} (hr : r ≠ 0) (h : A * (r * r) ≤ 0) : A ≤ 0 := by
  by_contra hc
  have hA : 0 < A := by omega
  have : 0 < r * r := mul_self_pos.mpr hr
  have := mul_pos hA this
  omega

/-! ### invariant of the Euclidean loop (cofactor `s` only) -/

structure GInv (a b s0 s1 r0 r1 : Int) : Prop where
  i1 : s0.natAbs * r1.natAbs + s1.natAbs * r0.natAbs = b.natAbs
  i2 : s0 * s1 * (r0 * r1) ≤ 0
  i3 : (s0 = 1 ∧ s1 = 0 ∧ r0 = a ∧ r1 = b) ∨ r1.natAbs < r0.natAbs
  i4 : s0 = 0 → s1 = 1 ∧ r1 = a.tmod b
  i5 : s1 = 0 → s0 = 1 ∧ r0 = a ∧ r1 = b
  /-- at termination the returned cofactor lies in GMP's window -/
  i6 : r1 = 0 → (s0 = 0 ∨ 2 * s0.natAbs < s1.natAbs ∨ (2 * s0.natAbs = s1.natAbs ∧ s0 = 1 ∧ 0 < r0 * a))

theorem GInv.init (a b : Int) (hb : b ≠ 0) : GInv a b 1 0 a b :=
  ⟨by simp, by simp, Or.inl ⟨rfl, rfl, rfl, rfl⟩, by omega, fun _ => ⟨rfl, rfl, rfl⟩, fun h => absurd h hb⟩

theorem GInv.step {a b s0 s1 r0 r1 : Int} (h : GInv a b s0 s1 r0 r1) (hr1 : r1 ≠ 0) :
    GInv a b s1 (s0 - r0.tdiv r1 * s1) r1 (r0.tmod r1) := by
  obtain ⟨i1, i2, i3, i4, i5, _⟩ := h
  set q := r0.tdiv r1 with hq
  set r2 := r0.tmod r1 with hr2
  have hdec := tdiv_natAbs_decomp r0 r1
  have hlt := tmod_natAbs_lt r0 r1 hr1
  have hsq := tdiv_sign r0 r1
  have hsr := tmod_mul_self_nonneg r0 r1
  rw [← hq] at hdec hsq
  rw [← hr2] at hdec hlt hsr
  -- sign condition: s0 and q*s1 have opposite signs
  have hC : s0 * (q * s1) ≤ 0 := by
    by_cases hr0 : r0 = 0
    · have : q = 0 := by rw [hq, hr0]; exact Int.zero_tdiv r1
      rw [this]; simp
    · have hne : r0 * r1 ≠ 0 := mul_ne_zero hr0 hr1
      have hprod : (s0 * (q * s1)) * ((r0 * r1) * (r0 * r1)) ≤ 0 := by
        have : (s0 * (q * s1)) * ((r0 * r1) * (r0 * r1)) = (s0 * s1 * (r0 * r1)) * (q * (r0 * r1)) := by ring
        rw [this]
        exact mul_nonpos_of_nonpos_of_nonneg i2 hsq
      exact nonpos_of_mul_sq hne hprod
  have hs2 : (s0 - q * s1).natAbs = s0.natAbs + q.natAbs * s1.natAbs := by
    rw [natAbs_sub_of_mul_nonpos hC, Int.natAbs_mul]
  refine ⟨?_, ?_, Or.inr hlt, ?_, ?_, ?_⟩
  · -- i1
    rw [hs2]
    calc s1.natAbs * r2.natAbs + (s0.natAbs + q.natAbs * s1.natAbs) * r1.natAbs
        = s0.natAbs * r1.natAbs + s1.natAbs * (q.natAbs * r1.natAbs + r2.natAbs) := by ring
      _ = s0.natAbs * r1.natAbs + s1.natAbs * r0.natAbs := by rw [← hdec]
      _ = b.natAbs := i1
  · -- i2
    by_cases hr0 : r0 = 0
    · have : r2 = 0 := by rw [hr2, hr0]; exact Int.zero_tmod r1
      rw [this]; simp
    · have t1 : s0 * s1 * (r1 * r2) ≤ 0 := by
        apply nonpos_of_mul_sq hr0
        have : s0 * s1 * (r1 * r2) * (r0 * r0) = (s0 * s1 * (r0 * r1)) * (r2 * r0) := by ring
        rw [this]
        exact mul_nonpos_of_nonpos_of_nonneg i2 hsr
      have t2 : -(q * (r1 * r2)) ≤ 0 := by
        apply nonpos_of_mul_sq hr0
        have : -(q * (r1 * r2)) * (r0 * r0) = -((q * (r0 * r1)) * (r2 * r0)) := by ring
        rw [this]
        have := mul_nonneg hsq hsr
        omega
      have e : s1 * (s0 - q * s1) * (r1 * r2) = s0 * s1 * (r1 * r2) + (s1 * s1) * (-(q * (r1 * r2))) := by ring
      rw [e]
      have : (s1 * s1) * (-(q * (r1 * r2))) ≤ 0 := mul_nonpos_of_nonneg_of_nonpos (mul_self_nonneg s1) t2
      omega
  · -- i4
    intro hs1
    obtain ⟨e0, ea, eb⟩ := i5 hs1
    refine ⟨by rw [hs1, e0]; ring, by rw [hr2, ea, eb]⟩
  · -- i5 : the new s1 cannot vanish
    intro hz
    exfalso
    have hz' : (s0 - q * s1).natAbs = 0 := by rw [hz]; rfl
    rw [hs2] at hz'
    have hs0 : s0 = 0 := by omega
    obtain ⟨e1, _⟩ := i4 hs0
    have hq0 : q = 0 := by
      rw [e1] at hz'
      simp at hz'
      omega
    rcases i3 with ⟨c, _⟩ | c
    · omega
    · exact tdiv_ne_zero_of_lt r0 r1 hr1 c (hq ▸ hq0)
  · -- i6
    intro hr20
    rcases i3 with ⟨_, c1, _, _⟩ | c
    · left; exact c1
    · -- |q| ≥ 2
      have hr2n : r2.natAbs = 0 := by rw [hr20]; rfl
      have hq2 : 2 ≤ q.natAbs := by
        rw [hr2n] at hdec
        by_contra hcon
        have : q.natAbs = 0 ∨ q.natAbs = 1 := by omega
        rcases this with e | e <;> rw [e] at hdec <;> omega
      rw [hs2]
      by_cases hs0 : s0 = 0
      · obtain ⟨e1, e2⟩ := i4 hs0
        by_cases hq' : q.natAbs = 2
        · right; right
          refine ⟨by rw [hs0, e1, hq']; simp, e1, ?_⟩
          -- r1 = a.tmod b ≠ 0 has the sign of a
          have hnn := tmod_mul_self_nonneg a b
          rw [← e2] at hnn
          have ha : a ≠ 0 := by
            intro h0; rw [h0, Int.zero_tmod] at e2; exact hr1 e2
          have : r1 * a ≠ 0 := mul_ne_zero hr1 ha
          omega
        · right; left
          rw [hs0, e1]; simp; omega
      · by_cases hs1 : s1 = 0
        · left; exact hs1
        · right; left
          have p0 : 0 < s0.natAbs := Int.natAbs_pos.mpr hs0
          have p1 : 0 < s1.natAbs := Int.natAbs_pos.mpr hs1
          nlinarith


theorem gcdextLoop_final (a b : Int) (s0 t0 s1 t1 r0 r1 : Int) (h : GInv a b s0 s1 r0 r1) :
    ∃ sF, GInv a b (MpBoost.gcdextLoop s0 t0 s1 t1 r0 r1).2.1 sF (MpBoost.gcdextLoop s0 t0 s1 t1 r0 r1).1 0 := by
  fun_induction MpBoost.gcdextLoop s0 t0 s1 t1 r0 r1 with
  | case1 s0 t0 s1 t1 r0 => exact ⟨s1, h⟩
  | case2 s0 t0 s1 t1 r0 r1 hne qr ih => exact ih (h.step hne)

/-- GMP's documented window for the first cofactor, `bg = |b| / gcd(a,b)` -/
def Window (bg : Nat) (a s : Int) : Prop := 2 * s.natAbs < bg ∨ (2 * s.natAbs = bg ∧ 0 < s * a)

theorem window_unique {bg : Nat} {a s s' k : Int} {b' : Int} (hb' : b'.natAbs = bg) (hbg : 0 < bg)
    (h1 : Window bg a s) (h2 : Window bg a s') (hd : s - s' = b' * k) : s = s' := by
  by_cases hk : k = 0
  · rw [hk] at hd; omega
  · exfalso
    have hkabs : 1 ≤ k.natAbs := Int.natAbs_pos.mpr hk
    have hdabs : (s - s').natAbs = bg * k.natAbs := by rw [hd, Int.natAbs_mul, hb']
    have hge : bg ≤ (s - s').natAbs := by rw [hdabs]; exact Nat.le_mul_of_pos_right bg hkabs
    unfold Window at h1 h2
    rcases h1 with h1 | ⟨h1, p1⟩ <;> rcases h2 with h2 | ⟨h2, p2⟩
    · omega
    · omega
    · omega
    · -- both ties: s and s' have the sign of a
      rcases mul_pos_iff.mp p1 with ⟨q1, q2⟩ | ⟨q1, q2⟩ <;> rcases mul_pos_iff.mp p2 with ⟨q3, q4⟩ | ⟨q3, q4⟩ <;> omega

/-- the specification's cofactor lies in the window -/
theorem spec_window (a b : Int) (hb : b ≠ 0) :
    Window (b.natAbs / Int.gcd a b) a (MpSpec.gcdext a b).2.1 := by
  unfold MpSpec.gcdext
  simp only [hb, if_false]
  obtain ⟨x1, _⟩ := natXgcd_spec a.natAbs b.natAbs
  have hg : (MpSpec.natXgcd a.natAbs b.natAbs).1 = Int.gcd a b := x1
  rw [hg]
  have hgpos : 0 < Int.gcd a b := Int.gcd_pos_of_ne_zero_right a hb
  have hdvd : Int.gcd a b ∣ b.natAbs := by
    have : Int.gcd a b = Nat.gcd a.natAbs b.natAbs := rfl
    rw [this]; exact Nat.gcd_dvd_right _ _
  have hbgpos : 0 < b.natAbs / Int.gcd a b :=
    Nat.div_pos (Nat.le_of_dvd (Int.natAbs_pos.mpr hb) hdvd) hgpos
  have hcast : ((b.natAbs : Int) / ((Int.gcd a b : Nat) : Int)) = ((b.natAbs / Int.gcd a b : Nat) : Int) := by
    simp
  rw [hcast]
  set bg := b.natAbs / Int.gcd a b with hbg
  set s0 := (a.sign * (MpSpec.natXgcd a.natAbs b.natAbs).2.1) % (bg : Int) with hs0
  have h0 : 0 ≤ s0 := Int.emod_nonneg _ (by omega)
  have h1 : s0 < bg := Int.emod_lt_of_pos _ (by omega)
  unfold Window
  by_cases c1 : 2 * s0 < bg ∨ (2 * s0 = bg ∧ a > 0)
  · rw [if_pos c1]
    rcases c1 with c | ⟨c, ca⟩
    · left; omega
    · right
      refine ⟨by omega, ?_⟩
      have : 0 < s0 := by omega
      exact mul_pos this ca
  · rw [if_neg c1]
    by_cases c2 : 2 * s0 = bg
    · right
      have ha : ¬ a > 0 := fun h => c1 (Or.inr ⟨c2, h⟩)
      have hane : a ≠ 0 := by
        intro h0'
        have : s0 = 0 := by rw [hs0, h0']; simp
        omega
      refine ⟨by omega, ?_⟩
      have : s0 - (bg : Int) < 0 := by omega
      exact mul_pos_of_neg_of_neg this (by omega)
    · left
      have : ¬ 2 * s0 < bg := fun h => c1 (Or.inl h)
      omega


/-- the cofactor returned by `mp_gcdext` lies in the window -/
theorem boost_window (a b : Int) (hb : b ≠ 0) :
    Window (b.natAbs / Int.gcd a b) a (MpBoost.gcdext a b).2.1 := by
  obtain ⟨sF, hF⟩ := gcdextLoop_final a b 1 0 0 1 a b (GInv.init a b hb)
  obtain ⟨_, hgcd⟩ := gcdextLoop_spec a b 1 0 0 1 a b (by ring) (by ring)
  have hgpos : 0 < Int.gcd a b := Int.gcd_pos_of_ne_zero_right a hb
  unfold MpBoost.gcdext
  generalize MpBoost.gcdextLoop 1 0 0 1 a b = r at hF hgcd
  obtain ⟨g', sL, tL⟩ := r
  simp only at hF hgcd ⊢
  have hg0 : g' ≠ 0 := by
    intro h; rw [h] at hgcd; simp at hgcd; omega
  have hbg : b.natAbs / Int.gcd a b = sF.natAbs := by
    have := hF.i1
    simp only [Int.natAbs_zero, Nat.mul_zero, Nat.zero_add] at this
    rw [← this, hgcd]
    exact Nat.mul_div_cancel _ hgpos
  have h6 := hF.i6 rfl
  rw [hbg]
  unfold Window
  by_cases hneg : g' < 0
  · have hne : ¬ (g' * -1 = 0) := by omega
    simp only [hneg, if_true, hne, if_false]
    rcases h6 with h | h | ⟨h1, h2, h3⟩
    · left; rw [h]; simp
      have := hF.i1
      simp only [Int.natAbs_zero, Nat.mul_zero, Nat.zero_add] at this
      have hbpos : 0 < b.natAbs := Int.natAbs_pos.mpr hb
      rcases Nat.eq_zero_or_pos sF.natAbs with h0 | h0
      · rw [h0] at this; omega
      · exact Int.natAbs_pos.mp h0
    · left
      have : (sL * -1).natAbs = sL.natAbs := by rw [Int.natAbs_mul]; simp
      rw [this]; exact h
    · right
      have : (sL * -1).natAbs = sL.natAbs := by rw [Int.natAbs_mul]; simp
      rw [this]
      refine ⟨h1, ?_⟩
      rw [h2]
      have ha : a < 0 := by
        by_contra hc
        have : g' * a ≤ 0 := mul_nonpos_of_nonpos_of_nonneg (by omega) (by omega)
        omega
      simp; exact ha
  · have hne : ¬ (g' = 0) := hg0
    simp only [hneg, if_false, hne]
    rcases h6 with h | h | ⟨h1, h2, h3⟩
    · left; rw [h]; simp
      have := hF.i1
      simp only [Int.natAbs_zero, Nat.mul_zero, Nat.zero_add] at this
      have hbpos : 0 < b.natAbs := Int.natAbs_pos.mpr hb
      rcases Nat.eq_zero_or_pos sF.natAbs with h0 | h0
      · rw [h0] at this; omega
      · exact Int.natAbs_pos.mp h0
    · left; exact h
    · right
      refine ⟨h1, ?_⟩
      rw [h2]
      have ha : 0 < a := by
        by_contra hc
        have : g' * a ≤ 0 := mul_nonpos_of_nonneg_of_nonpos (by omega) (by omega)
        omega
      simp; exact ha

/-- **`mp_gcdext` (mp_boost.cpp) returns exactly the cofactors GMP documents** (= the specification) -/
theorem boost_gcdext_full (a b : Int) : MpBoost.gcdext a b = MpSpec.gcdext a b := by
  by_cases hb : b = 0
  · subst hb
    unfold MpBoost.gcdext MpSpec.gcdext
    rw [MpBoost.gcdextLoop]
    simp only [if_true, dite_true]
    rcases Int.lt_trichotomy a 0 with h | h | h
    · have hs : a.sign = -1 := Int.sign_eq_neg_one_of_neg h
      have h1 : ¬ (a * -1 = 0) := by omega
      simp only [h, if_true, h1, if_false, hs]
      refine Prod.ext ?_ (Prod.ext ?_ ?_) <;> simp only [] <;> omega
    · subst h; simp
    · have hs : a.sign = 1 := Int.sign_eq_one_of_pos h
      have h0 : ¬ a < 0 := by omega
      have h1 : ¬ a = 0 := by omega
      simp only [h0, if_false, h1, hs]
      refine Prod.ext ?_ (Prod.ext ?_ ?_) <;> simp only [] <;> omega
  · obtain ⟨g1, z1⟩ := boost_gcdext_bezout a b
    obtain ⟨g2, z2⟩ := spec_gcdext_bezout a b
    have w1 := boost_window a b hb
    have w2 := spec_window a b hb
    have hgpos : 0 < Int.gcd a b := Int.gcd_pos_of_ne_zero_right a hb
    -- b = g * b'
    obtain ⟨b', hb'⟩ : ((Int.gcd a b : Nat) : Int) ∣ b := Int.gcd_dvd_right a b
    have hbabs : b'.natAbs = b.natAbs / Int.gcd a b := by
      have : b.natAbs = Int.gcd a b * b'.natAbs := by
        conv_lhs => rw [hb']
        rw [Int.natAbs_mul]; simp
      rw [this, Nat.mul_div_cancel_left _ hgpos]
    have hbgpos : 0 < b.natAbs / Int.gcd a b := by
      rw [← hbabs]
      apply Int.natAbs_pos.mpr
      intro h0; rw [h0] at hb'; simp at hb'; exact hb hb'
    set S := (MpBoost.gcdext a b).2.1
    set T := (MpBoost.gcdext a b).2.2
    set S' := (MpSpec.gcdext a b).2.1
    set T' := (MpSpec.gcdext a b).2.2
    rw [g1] at z1
    rw [g2] at z2
    set g : Int := ((Int.gcd a b : Nat) : Int) with hgdef
    have hg0 : g ≠ 0 := by omega
    -- congruence: S - S' is a multiple of b'
    have hcong : S - S' = b' * ((T' - T) * S + (S - S') * T) := by
      have e1 : a * (S - S') = b * (T' - T) := by linear_combination z1 - z2
      have e2 : g * (S - S') = g * (b' * ((T' - T) * S + (S - S') * T)) := by
        have : g * (S - S') = (a * S + b * T) * (S - S') := by rw [z1]
        rw [this]
        have : (a * S + b * T) * (S - S') = a * (S - S') * S + b * T * (S - S') := by ring
        rw [this, e1]
        conv_lhs => rw [hb']
        ring
      exact mul_left_cancel₀ hg0 e2
    have hS : S = S' := window_unique hbabs hbgpos w1 w2 hcong
    have hT : T = T' := by
      have : b * T = b * T' := by
        have e1 : a * S + b * T = a * S' + b * T' := by rw [z1, z2]
        rw [hS] at e1; linarith
      exact mul_left_cancel₀ hb this
    refine Prod.ext (by rw [g1, g2]) (Prod.ext hS hT)

end SymVerif.C43
