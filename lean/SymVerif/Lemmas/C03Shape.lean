/-
C03: `RadShape` — a Number ** Rational evaluates to a Number, a Mul or a Pow.
Proved through the invariant "all keys and exponents are Numbers" of the numeric sub-computation.
-/
import SymVerif.Lemmas.C03MulH

namespace SymVerif.Arith

/-! ### results of number arithmetic are Numbers -/

theorem ofQ_isNum (q : Q) : (ofQ q).isNum = true := by
  unfold ofQ; split <;> rfl

theorem ofGQ_isNum (re im : Q) : (ofGQ re im).isNum = true := by
  unfold ofGQ; split
  · exact ofQ_isNum _
  · rfl

theorem inftyMulExact_isNum {d : Int} {x r : Expr} (h : inftyMulExact d x = .ok r) : r.isNum = true := by
  unfold inftyMulExact at h
  split at h
  · simp at h
  · split at h
    · simp at h; subst h; rfl
    · split at h <;> (simp at h; subst h; rfl)

theorem numMul_isNum {a b r : Expr} (h : numMul a b = .ok r) : r.isNum = true := by
  unfold numMul at h
  split at h
  · simp at h; subst h; exact ofGQ_isNum _ _
  · split at h
    · simp at h
    · split at h
      · split at h <;> simp at h
        subst h; rfl
      · split at h <;> simp at h
        subst h; rfl
      · split at h
        · exact inftyMulExact_isNum h
        · simp at h
      · split at h
        · exact inftyMulExact_isNum h
        · simp at h
      · simp at h

theorem numAdd_isNum {a b r : Expr} (h : numAdd a b = .ok r) : r.isNum = true := by
  unfold numAdd at h
  split at h
  · simp at h; subst h; exact ofGQ_isNum _ _
  · split at h
    · simp at h
    · split at h
      · split at h <;> simp at h
        subst h; rfl
      · split at h <;> simp at h
        subst h; rfl
      · split at h <;> simp at h
        subst h; rfl
      · split at h <;> simp at h
        subst h; rfl
      · simp at h

theorem numPowInt_isNum {a r : Expr} {n : Int} (h : numPowInt a n = .ok r) : r.isNum = true := by
  unfold numPowInt at h
  split at h
  · simp at h
  · split at h
    · split at h
      · simp at h; subst h; rfl
      · dsimp only at h
        split at h
        · simp at h; subst h; rfl
        · simp only [Except.ok.injEq] at h; subst h; exact ofQ_isNum _
    · split at h <;> (simp at h; subst h; exact ofQ_isNum _)
    · generalize gqPowNat _ _ 64 n.natAbs = pp at h
      obtain ⟨pr, pi⟩ := pp
      simp only at h
      split at h
      · simp at h; subst h; exact ofGQ_isNum _ _
      · split at h
        · simp at h
        · simp at h; subst h; exact ofGQ_isNum _ _
    · split at h <;> simp at h

theorem numPow_isNum {a e r : Expr} (h : numPow a e = .ok r) : r.isNum = true := by
  unfold numPow at h
  split at h
  · exact numPowInt_isNum h
  · simp at h

/-! ### numeric-keyed dictionaries and terms -/

/-- every key and every exponent is a Number -/
def NKd (d : Dict) : Prop := ∀ p ∈ d, p.1.isNum = true ∧ p.2.isNum = true

/-- a Number, a Pow of Numbers or a Mul over Numbers -/
def NK (r : Expr) : Prop :=
  r.isNum = true ∨ (∃ b e, r = .pow b e ∧ b.isNum = true ∧ e.isNum = true)
    ∨ (∃ c fs, r = .mul c fs ∧ c.isNum = true ∧ NKd fs)

theorem NK.shape {r : Expr} (h : NK r) : r.isNum = true ∨ isMul r = true ∨ isPow r = true := by
  rcases h with h | ⟨b, e, rfl, _, _⟩ | ⟨c, fs, rfl, _, _⟩
  · exact Or.inl h
  · exact Or.inr (Or.inr rfl)
  · exact Or.inr (Or.inl rfl)

theorem NK.ofNum {r : Expr} (h : r.isNum = true) : NK r := Or.inl h

theorem NKd.nil : NKd [] := by intro p hp; simp at hp

theorem NKd.insert {d : Dict} {t e : Expr} (hd : NKd d) (ht : t.isNum = true) (he : e.isNum = true) :
    NKd (dinsert d t e) := by
  intro p hp
  rcases mem_dinsert hp with rfl | hp
  · exact ⟨ht, he⟩
  · exact hd p hp

theorem NKd.erase {d : Dict} {t : Expr} (hd : NKd d) : NKd (derase d t) :=
  fun p hp => hd p (mem_derase hp)

theorem NKd.set {d : Dict} {t v : Expr} (hd : NKd d) (ht : t.isNum = true) (hv : v.isNum = true) :
    NKd (dset d t v) := by
  intro p hp
  rcases mem_dset hp with rfl | hp
  · exact ⟨ht, hv⟩
  · exact hd p hp

theorem NKd.iter {rv : Bool} {d : Dict} (hd : NKd d) : NKd (iterOrder rv d) :=
  fun p hp => hd p (iterOrder_mem hp)

theorem mulFromDict_NK {c : Expr} {d : Dict} (hc : c.isNum = true) (hd : NKd d) :
    NK (mulFromDict c d) := by
  unfold mulFromDict
  split
  · exact .ofNum hc
  · split
    · exact .ofNum hc
    · rename_i b e
      have := hd (b, e) (by simp)
      split
      · split
        · exact .ofNum this.1
        · exact Or.inr (Or.inl ⟨b, e, rfl, this.1, this.2⟩)
      · exact Or.inr (Or.inr ⟨c, _, rfl, hc, hd⟩)
    · exact Or.inr (Or.inr ⟨c, _, rfl, hc, hd⟩)

/-- state: the coefficient is a Number, the dictionary is numeric-keyed -/
def StN (c : Expr) (d : Dict) : Prop := c.isNum = true ∧ NKd d

structure SpecN (n : Nat) : Prop where
  mulF : ∀ rv a b r, NK a → NK b → mulF n rv a b = .ok r → NK r
  mulOnto : ∀ rv c d b r, StN c d → NK b → mulOnto n rv c d b = .ok r → NK r
  mulStep : ∀ rv c d b c' d', StN c d → NK b → mulStep n rv c d b = .ok (c', d') → StN c' d'
  datLoop : ∀ rv c d l c' d', StN c d → NKd l → datLoop n rv c d l = .ok (c', d') → StN c' d'
  absorb : ∀ rv c d res c' d', StN c d → NK res → absorb n rv c d res = .ok (some (c', d')) → StN c' d'
  mulInto : ∀ rv c d r c' d', StN c d → NK r → mulInto n rv c d r = .ok (c', d') → StN c' d'
  datNew : ∀ rv c d e t c' d', StN c d → t.isNum = true → e.isNum = true →
    datNew n rv c d e t = .ok (c', d') → StN c' d'
  datFound : ∀ rv c d t v c' d', StN c d → t.isNum = true → v.isNum = true →
    datFound n rv c d t v = .ok (c', d') → StN c' d'
  powNumRat : ∀ rv t e r, powNumRat n rv t e = .ok r → NK r
  powrat : ∀ rv p q nn d r, powrat n rv p q nn d = .ok r → NK r
  rpowrat : ∀ rv nn d o r, rpowrat n rv nn d o = .ok r → NK r
  powF : ∀ rv a b r, a.isNum = true → b.isNum = true → powF n rv a b = .ok r → NK r

theorem specN_zero : SpecN 0 := by
  constructor <;> intros <;> simp_all [mulF, mulOnto, mulStep, datLoop, absorb, mulInto, datNew,
    datFound, powNumRat, powrat, rpowrat, powF]

variable {n : Nat}

theorem NK_mul_parts {c : Expr} {fs : Dict} (h : NK (.mul c fs)) : c.isNum = true ∧ NKd fs := by
  rcases h with h | ⟨b, e, he, _, _⟩ | ⟨c', fs', he, hc, hd⟩
  · simp [Expr.isNum] at h
  · simp at he
  · simp at he; obtain ⟨rfl, rfl⟩ := he; exact ⟨hc, hd⟩

theorem NK_pow_parts {b e : Expr} (h : NK (.pow b e)) : b.isNum = true ∧ e.isNum = true := by
  rcases h with h | ⟨b', e', he, hb, hee⟩ | ⟨c', fs', he, _, _⟩
  · simp [Expr.isNum] at h
  · simp at he; obtain ⟨rfl, rfl⟩ := he; exact ⟨hb, hee⟩
  · simp at he

theorem stepN_mulStep (ih : SpecN n) : ∀ rv c d b c' d', StN c d → NK b →
    mulStep (n + 1) rv c d b = .ok (c', d') → StN c' d' := by
  intro rv c d b c' d' hs hb h
  simp only [mulStep] at h
  split at h
  · cases hm : numMul c b with
    | error e => simp [hm, bind, Except.bind] at h
    | ok c1 =>
      simp [hm, bind, Except.bind, pure, Except.pure] at h
      obtain ⟨rfl, rfl⟩ := h
      exact ⟨numMul_isNum hm, hs.2⟩
  · rename_i hn
    cases ha : asBaseExp b with
    | error e => simp [ha, bind, Except.bind] at h
    | ok et =>
      obtain ⟨e, t⟩ := et
      simp [ha, bind, Except.bind] at h
      -- b is a Pow of Numbers (a Mul makes as_base_exp fail)
      rcases hb with hb | ⟨x, y, rfl, hx, hy⟩ | ⟨c0, fs, rfl, _, _⟩
      · exact absurd hb hn
      · simp [asBaseExp] at ha
        obtain ⟨rfl, rfl⟩ := ha
        exact ih.datNew rv c d y x c' d' hs hx hy h
      · simp [asBaseExp] at ha

theorem stepN_mulOnto (ih : SpecN n) : ∀ rv c d b r, StN c d → NK b →
    mulOnto (n + 1) rv c d b = .ok r → NK r := by
  intro rv c d b r hs hb h
  simp only [mulOnto] at h
  cases hm : mulStep n rv c d b with
  | error e => simp [hm, bind, Except.bind] at h
  | ok cd =>
    obtain ⟨c1, d1⟩ := cd
    simp [hm, bind, Except.bind, pure, Except.pure] at h
    subst h
    have := ih.mulStep rv c d b c1 d1 hs hb hm
    exact mulFromDict_NK this.1 this.2

theorem stepN_mulF (ih : SpecN n) : ∀ rv a b r, NK a → NK b → mulF (n + 1) rv a b = .ok r → NK r := by
  intro rv a b r ha hb h
  simp only [mulF] at h
  split at h
  · rename_i ac ad bc bd
    obtain ⟨hac, had⟩ := NK_mul_parts ha
    obtain ⟨hbc, hbd⟩ := NK_mul_parts hb
    have fin : ∀ c0, c0.isNum = true → ∀ cd, datLoop n rv c0 ad (iterOrder rv bd) = .ok cd →
        NK (mulFromDict cd.1 cd.2) := by
      intro c0 hc0 cd hl
      obtain ⟨c1, d1⟩ := cd
      have := ih.datLoop rv c0 ad (iterOrder rv bd) c1 d1 ⟨hc0, had⟩ hbd.iter hl
      exact mulFromDict_NK this.1 this.2
    by_cases hone : (!numIsOne ac || !numIsOne bc) = true
    · simp only [hone, if_true] at h
      cases hm : numMul ac bc with
      | error e => simp [hm, bind, Except.bind] at h
      | ok c0 =>
        simp only [hm, bind, Except.bind] at h
        cases hl : datLoop n rv c0 ad (iterOrder rv bd) with
        | error e => simp [hl] at h
        | ok cd =>
          simp [hl, pure, Except.pure] at h
          subst h
          exact fin c0 (numMul_isNum hm) cd hl
    · simp only [hone, if_false, bind, Except.bind, pure, Except.pure] at h
      cases hl : datLoop n rv one ad (iterOrder rv bd) with
      | error e => simp [hl] at h
      | ok cd =>
        simp [hl] at h
        subst h
        exact fin one rfl cd hl
  · rename_i ac ad _
    exact ih.mulOnto rv ac ad b r (NK_mul_parts ha) hb h
  · rename_i bc bd _
    exact ih.mulOnto rv bc bd a r (NK_mul_parts hb) ha h
  · cases h1 : mulStep n rv one [] a with
    | error e => simp [h1, bind, Except.bind] at h
    | ok cd =>
      obtain ⟨c1, d1⟩ := cd
      simp [h1, bind, Except.bind] at h
      have s1 := ih.mulStep rv one [] a c1 d1 ⟨rfl, NKd.nil⟩ ha h1
      cases h2 : mulStep n rv c1 d1 b with
      | error e => simp [h2] at h
      | ok cd2 =>
        obtain ⟨c2, d2⟩ := cd2
        simp [h2, pure, Except.pure] at h
        subst h
        have s2 := ih.mulStep rv c1 d1 b c2 d2 s1 hb h2
        exact mulFromDict_NK s2.1 s2.2

theorem stepN_datLoop (ih : SpecN n) : ∀ rv c d l c' d', StN c d → NKd l →
    datLoop (n + 1) rv c d l = .ok (c', d') → StN c' d' := by
  intro rv c d l c' d' hs hl h
  cases l with
  | nil =>
    simp [datLoop] at h
    obtain ⟨rfl, rfl⟩ := h
    exact hs
  | cons p r =>
    obtain ⟨k, v⟩ := p
    simp only [datLoop] at h
    cases h1 : datNew n rv c d v k with
    | error e => simp [h1, bind, Except.bind] at h
    | ok cd =>
      obtain ⟨c1, d1⟩ := cd
      simp [h1, bind, Except.bind] at h
      have hk := hl (k, v) (by simp)
      have s1 := ih.datNew rv c d v k c1 d1 hs hk.1 hk.2 h1
      exact ih.datLoop rv c1 d1 r c' d' s1 (fun p hp => hl p (by simp [hp])) h

theorem stepN_absorb (ih : SpecN n) : ∀ rv c d res c' d', StN c d → NK res →
    absorb (n + 1) rv c d res = .ok (some (c', d')) → StN c' d' := by
  intro rv c d res c' d' hs hr h
  simp only [absorb] at h
  split at h
  · cases hm : numMul c res with
    | error e => simp [hm, bind, Except.bind] at h
    | ok c1 =>
      simp [hm, bind, Except.bind, pure, Except.pure] at h
      obtain ⟨rfl, rfl⟩ := h
      exact ⟨numMul_isNum hm, hs.2⟩
  · split at h
    · rename_i mc mfs hnn
      cases hm : numMul c mc with
      | error e => simp [hm, bind, Except.bind] at h
      | ok c1 =>
        simp only [hm, bind, Except.bind] at h
        cases hl : datLoop n rv c1 d (iterOrder rv mfs) with
        | error e => simp [hl] at h
        | ok cd =>
          simp [hl, pure, Except.pure] at h
          subst h
          exact ih.datLoop rv c1 d (iterOrder rv mfs) c' d' ⟨numMul_isNum hm, hs.2⟩
            (NK_mul_parts hr).2.iter hl
    · simp [pure, Except.pure] at h

theorem stepN_mulInto (ih : SpecN n) : ∀ rv c d r c' d', StN c d → NK r →
    mulInto (n + 1) rv c d r = .ok (c', d') → StN c' d' := by
  intro rv c d r c' d' hs hr h
  simp only [mulInto] at h
  cases ha : absorb n rv c d r with
  | error e => simp [ha, bind, Except.bind] at h
  | ok o =>
    cases o with
    | some x =>
      obtain ⟨c1, d1⟩ := x
      simp [ha, bind, Except.bind, pure, Except.pure] at h
      obtain ⟨rfl, rfl⟩ := h
      exact ih.absorb rv c d r c1 d1 hs hr ha
    | none =>
      simp [ha, bind, Except.bind] at h
      cases n with
      | zero => simp [absorb] at ha
      | succ m =>
        have hnn := absorb_none ha
        rcases hr with hr | ⟨x, y, rfl, hx, hy⟩ | ⟨c0, fs, rfl, _, _⟩
        · simp [hnn.1] at hr
        · simp [asBaseExp] at h
          exact ih.datNew rv c d y x c' d' hs hx hy h
        · simp [isMul] at hnn

theorem stepN_powNumRat (ih : SpecN n) : ∀ rv t e r, powNumRat (n + 1) rv t e = .ok r → NK r := by
  intro rv t e r h
  simp only [powNumRat] at h
  split at h
  · exact ih.rpowrat rv _ _ _ r h
  · exact ih.powrat rv _ _ _ _ r h
  · simp at h

theorem stepN_powrat (ih : SpecN n) : ∀ rv p q nn d r, powrat (n + 1) rv p q nn d = .ok r → NK r := by
  intro rv p q nn d r h
  simp only [powrat] at h
  cases h1 : rpowrat n rv nn d p with
  | error e => simp [h1, bind, Except.bind] at h
  | ok x =>
    simp [h1, bind, Except.bind] at h
    cases h2 : rpowrat n rv (-nn) d (q : Int) with
    | error e => simp [h2] at h
    | ok y =>
      simp [h2] at h
      exact ih.mulF rv x y r (ih.rpowrat rv nn d p x h1) (ih.rpowrat rv (-nn) d q y h2) h

theorem stepN_rpowrat (ih : SpecN n) : ∀ rv nn d o r, rpowrat (n + 1) rv nn d o = .ok r → NK r := by
  intro rv nn d other r h
  simp only [rpowrat, bind, Except.bind, pure, Except.pure] at h
  split at h
  · simp at h; subst h; exact .ofNum rfl
  · split at h
    · simp at h; subst h
      split <;> exact .ofNum rfl
    · split at h
      · simp at h
      · rename_i o hearly
        cases o with
        | some x =>
          simp at h; subst h
          split at hearly
          · split at hearly
            · split at hearly
              · split at hearly
                · rename_i rt hroot
                  cases hs : rpowrat n rv nn d (-1) with
                  | error e => simp [hs] at hearly
                  | ok s =>
                    simp only [hs] at hearly
                    cases hp : numPowInt (.int rt) nn with
                    | error e => simp [hp] at hearly
                    | ok p =>
                      simp only [hp] at hearly
                      cases hm : mulF n rv s p with
                      | error e => simp [hm] at hearly
                      | ok m =>
                        simp [hm] at hearly
                        subst hearly
                        exact ih.mulF rv s p m (ih.rpowrat rv nn d (-1) s hs)
                          (.ofNum (numPowInt_isNum hp)) hm
                · simp at hearly
              · simp at hearly
            · split at hearly
              · rename_i rt hroot
                cases hp : numPowInt (.int rt) nn with
                | error e => simp [hp] at hearly
                | ok p =>
                  simp [hp] at hearly
                  subst hearly
                  exact .ofNum (numPowInt_isNum hp)
              · simp at hearly
          · simp at hearly
        | none =>
          clear hearly
          simp only at h
          cases hp : numPowInt (.int other) (fdivmod nn d).1 with
          | error e => simp [hp] at h
          | ok coef =>
            simp only [hp] at h
            have hcn := numPowInt_isNum hp
            have hsurd : ∀ b : Int, NKd (dinsert [] (.int b) (ofQ ⟨(fdivmod nn d).2, d⟩)) :=
              fun b => NKd.nil.insert rfl (ofQ_isNum _)
            split at h
            · cases hm : numMul coef imagUnit with
              | error e => simp [hm] at h
              | ok c2 =>
                simp [hm] at h
                subst h
                refine mulFromDict_NK (numMul_isNum hm) ?_
                split
                · exact NKd.nil
                · exact hsurd _
            · simp at h
              subst h
              exact mulFromDict_NK hcn (hsurd _)

theorem stepN_datNew (ih : SpecN n) : ∀ rv c d e t c' d', StN c d → t.isNum = true →
    e.isNum = true → datNew (n + 1) rv c d e t = .ok (c', d') → StN c' d' := by
  intro rv c d exp t c' d' hs ht he h
  cases hf : dfind d t with
  | none =>
    simp only [datNew, hf] at h
    split at h
    · split at h
      · cases hpw : numPow t exp with
        | error e => simp [hpw, bind, Except.bind] at h
        | ok p =>
          simp only [hpw, bind, Except.bind] at h
          cases hm : numMul c p with
          | error e => simp [hm] at h
          | ok c1 =>
            simp [hm, pure, Except.pure] at h
            obtain ⟨rfl, rfl⟩ := h
            exact ⟨numMul_isNum hm, hs.2⟩
      · split at h
        · cases hres : powNumRat n rv t exp with
          | error e => simp [hres, bind, Except.bind] at h
          | ok res =>
            simp only [hres, bind, Except.bind] at h
            have hrk := ih.powNumRat rv t exp res hres
            cases habs : absorb n rv c d res with
            | error e => simp [habs] at h
            | ok o =>
              cases o with
              | some x =>
                obtain ⟨c1, d1⟩ := x
                simp [habs, pure, Except.pure] at h
                obtain ⟨rfl, rfl⟩ := h
                exact ih.absorb rv c d res c1 d1 hs hrk habs
              | none =>
                simp only [habs] at h
                split at h
                · rename_i rb re
                  obtain ⟨hb, hee⟩ := NK_pow_parts hrk
                  split at h
                  · exact ih.datNew rv c d re rb c' d' hs hb hee h
                  · simp [pure, Except.pure] at h
                    obtain ⟨rfl, rfl⟩ := h
                    exact ⟨hs.1, hs.2.insert ht he⟩
                · simp [pure, Except.pure] at h
                  obtain ⟨rfl, rfl⟩ := h
                  exact ⟨hs.1, hs.2.insert ht he⟩
        · simp at h
          obtain ⟨rfl, rfl⟩ := h
          exact ⟨hs.1, hs.2.insert ht he⟩
    · split at h
      · rename_i hpi
        simp only [Bool.and_eq_true] at hpi
        cases t <;> simp_all [isPow, Expr.isNum]
      · simp at h
        obtain ⟨rfl, rfl⟩ := h
        exact ⟨hs.1, hs.2.insert ht he⟩
  | some old =>
    simp only [datNew, hf] at h
    have hold := hs.2 _ (dfind_some hf)
    have hc : (exp.isNum && old.isNum) = true := by simp [he, hold.2]
    simp only [hc, if_true, bind, Except.bind] at h
    cases hv : numAdd old exp with
    | error e => simp [hv] at h
    | ok v =>
      simp only [hv] at h
      exact ih.datFound rv c _ t v c' d' ⟨hs.1, hs.2.set ht (numAdd_isNum hv)⟩ ht (numAdd_isNum hv) h

theorem stepN_datFound (ih : SpecN n) : ∀ rv c d t v c' d', StN c d → t.isNum = true →
    v.isNum = true → datFound (n + 1) rv c d t v = .ok (c', d') → StN c' d' := by
  intro rv c d t v c' d' hs ht hv h
  have hE : StN c (derase d t) := ⟨hs.1, hs.2.erase⟩
  have hnp : isPow t = false := by cases t <;> simp_all [isPow, Expr.isNum]
  simp only [datFound, bind, Except.bind, pure, Except.pure] at h
  split at h
  · split at h
    · cases hpw : numPow t v with
      | error e => simp [hpw] at h
      | ok p =>
        simp only [hpw] at h
        cases hmu : numMul c p with
        | error e => simp [hmu] at h
        | ok c1 =>
          simp [hmu] at h
          obtain ⟨rfl, rfl⟩ := h
          exact ⟨numMul_isNum hmu, hE.2⟩
    · simp at h
      obtain ⟨rfl, rfl⟩ := h
      exact hE
  · split at h
    · simp at h
      obtain ⟨rfl, rfl⟩ := h
      exact hE
    · split at h
      · rename_i hc
        simp [hnp] at hc
      · split at h
        · simp at h
        · rename_i o hearly
          have hsome : ∀ x, o = some x → StN x.1 x.2 := by
            intro x ho
            subst ho
            split at hearly
            · cases hres : powNumRat n rv t v with
              | error e => simp [hres] at hearly
              | ok res =>
                simp only [hres] at hearly
                have hrk := ih.powNumRat rv t v res hres
                split at hearly
                · exact ih.absorb rv c _ res x.1 x.2 hE hrk hearly
                · rename_i hnm
                  split at hearly
                  · rename_i rb re
                    obtain ⟨hb, hee⟩ := NK_pow_parts hrk
                    split at hearly
                    · cases hdn : datNew n rv c (derase d t) re rb with
                      | error e => simp [hdn] at hearly
                      | ok y =>
                        simp only [hdn, Except.ok.injEq, Option.some.injEq] at hearly
                        subst hearly
                        exact ih.datNew rv c _ re rb y.1 y.2 hE hb hee hdn
                    · simp at hearly
                  · simp at hearly
            · simp at hearly
          clear hearly
          cases o with
          | some x =>
            simp at h
            subst h
            exact hsome (c', d') rfl
          | none =>
            simp only [hv, if_true] at h
            split at h
            · cases hp : numPow v zero with
              | error e => simp [hp] at h
              | ok p =>
                simp only [hp] at h
                cases hmu : numMul c p with
                | error e => simp [hmu] at h
                | ok c1 =>
                  simp [hmu] at h
                  obtain ⟨rfl, rfl⟩ := h
                  exact ⟨numMul_isNum hmu, hE.2⟩
            · split at h
              · cases hr : powF n rv t v with
                | error e => simp [hr] at h
                | ok r =>
                  simp only [hr] at h
                  exact ih.mulInto rv c _ r c' d' hE (ih.powF rv t v r ht hv hr) h
              · split at h
                · rename_i mc mfs
                  simp [Expr.isNum] at ht
                · simp at h
                  obtain ⟨rfl, rfl⟩ := h
                  exact hs

theorem stepN_powF (ih : SpecN n) : ∀ rv a b r, a.isNum = true → b.isNum = true →
    powF (n + 1) rv a b = .ok r → NK r := by
  intro rv a b r ha hb h
  simp only [powF, bind, Except.bind, pure, Except.pure] at h
  split at h
  · exact .ofNum (numAdd_isNum h)
  · split at h
    · simp at h; subst h; exact .ofNum ha
    · split at h
      · split at h
        · simp at h; subst h; exact .ofNum rfl
        · split at h
          · simp at h; subst h; exact .ofNum rfl
          · split at h
            · split at h
              · simp at h; subst h; exact .ofNum rfl
              · split at h
                · simp at h; subst h; exact .ofNum rfl
                · simp at h; subst h; exact .ofNum rfl
            · simp at h; subst h; exact .ofNum rfl
      · split at h
        · simp at h; subst h; exact .ofNum rfl
        · split at h
          · rename_i rr hm1
            simp at h; subst h
            split at hm1
            · split at hm1
              · simp at hm1; subst hm1
                split <;> exact .ofNum rfl
              · simp at hm1; subst hm1; exact .ofNum rfl
              · cases hm1
            · cases hm1
          · split at h
            · exact .ofNum (numPow_isNum h)
            · split at h
              · split at h
                · exact ih.powNumRat rv a b r h
                · split at h
                  · simp at h; subst h
                    exact Or.inr (Or.inl ⟨a, b, rfl, ha, hb⟩)
                  · simp at h
              · split at h
                · split at h
                  · simp at h; subst h
                    exact Or.inr (Or.inl ⟨a, b, rfl, ha, hb⟩)
                  · simp at h
                · simp at h

theorem specN_all : ∀ n, SpecN n
  | 0 => specN_zero
  | n + 1 =>
    have ih := specN_all n
    { mulF := stepN_mulF ih
      mulOnto := stepN_mulOnto ih
      mulStep := stepN_mulStep ih
      datLoop := stepN_datLoop ih
      absorb := stepN_absorb ih
      mulInto := stepN_mulInto ih
      datNew := stepN_datNew ih
      datFound := stepN_datFound ih
      powNumRat := stepN_powNumRat ih
      powrat := stepN_powrat ih
      rpowrat := stepN_rpowrat ih
      powF := stepN_powF ih }

/-- `RadShape` holds -/
theorem radShape : RadShape :=
  fun fuel rv t e r h => ((specN_all fuel).powNumRat rv t e r h).shape

end SymVerif.Arith
