import SymVerif.Lemmas.C08Surd
import SymVerif.Gen.TrigTables
import Mathlib.Analysis.SpecialFunctions.Trigonometric.Basic
import Mathlib.Analysis.SpecialFunctions.Trigonometric.Inverse
import Mathlib.Analysis.SpecialFunctions.Trigonometric.Arctan
import Mathlib.Tactic.IntervalCases
/-!
C08: every entry of the generated special-angle tables has the value the code uses it for
(`sin_table()[n] = sin(pi*n/12)`, `asin(key) = pi/value`, `atan(key) = pi/value`) - and the four
rows of `inverse_cst` for which this is false.
-/
set_option linter.unusedSimpArgs false
namespace SymVerif.Funcs
open Real Gen.TrigTables

theorem sqrt5_sq : (√5 : ℝ) * √5 = 5 := Real.mul_self_sqrt (by norm_num)

/-- real value of `sin_table()[i]` -/
noncomputable def tabR (i : Nat) : ℝ := ((sinTable[i]?).map Recipe.evalR).getD 0

theorem sin_pi_div_twelve : sin (π / 12) = (√3 - 1) / (2 * √2) := by
  rw [show π / 12 = π / 3 - π / 4 by ring, sin_sub, sin_pi_div_three, cos_pi_div_four, cos_pi_div_three,
    sin_pi_div_four, eq_div_iff (by positivity)]
  linear_combination ((√3 - 1) / 2) * sqrt2_sq

theorem sin_five_pi_div_twelve : sin (5 * π / 12) = (√3 + 1) / (2 * √2) := by
  rw [show 5 * π / 12 = π / 4 + π / 6 by ring, sin_add, sin_pi_div_four, cos_pi_div_six, cos_pi_div_four,
    sin_pi_div_six, eq_div_iff (by positivity)]
  linear_combination ((√3 + 1) / 2) * sqrt2_sq

theorem tabR_0 : tabR 0 = sin (π * 0 / 12) := by
  have hS1 := sin_pi_div_twelve
  have hS5 := sin_five_pi_div_twelve
  simp only [tabR, sinTable, List.getElem?_cons_succ, List.getElem?_cons_zero, Option.map_some, Option.getD_some,
    Recipe.evalR, Int.cast_ofNat, Int.cast_one, Int.cast_zero, Int.cast_neg]
  simp

theorem tabR_1 : tabR 1 = sin (π * 1 / 12) := by
  have hS1 := sin_pi_div_twelve
  have hS5 := sin_five_pi_div_twelve
  simp only [tabR, sinTable, List.getElem?_cons_succ, List.getElem?_cons_zero, Option.map_some, Option.getD_some,
    Recipe.evalR, Int.cast_ofNat, Int.cast_one, Int.cast_zero, Int.cast_neg]
  rw [show π * 1 / 12 = π / 12 by ring, hS1]

theorem tabR_2 : tabR 2 = sin (π * 2 / 12) := by
  have hS1 := sin_pi_div_twelve
  have hS5 := sin_five_pi_div_twelve
  simp only [tabR, sinTable, List.getElem?_cons_succ, List.getElem?_cons_zero, Option.map_some, Option.getD_some,
    Recipe.evalR, Int.cast_ofNat, Int.cast_one, Int.cast_zero, Int.cast_neg]
  rw [show π * 2 / 12 = π / 6 by ring, sin_pi_div_six]

theorem tabR_3 : tabR 3 = sin (π * 3 / 12) := by
  have hS1 := sin_pi_div_twelve
  have hS5 := sin_five_pi_div_twelve
  simp only [tabR, sinTable, List.getElem?_cons_succ, List.getElem?_cons_zero, Option.map_some, Option.getD_some,
    Recipe.evalR, Int.cast_ofNat, Int.cast_one, Int.cast_zero, Int.cast_neg]
  rw [show π * 3 / 12 = π / 4 by ring, sin_pi_div_four]

theorem tabR_4 : tabR 4 = sin (π * 4 / 12) := by
  have hS1 := sin_pi_div_twelve
  have hS5 := sin_five_pi_div_twelve
  simp only [tabR, sinTable, List.getElem?_cons_succ, List.getElem?_cons_zero, Option.map_some, Option.getD_some,
    Recipe.evalR, Int.cast_ofNat, Int.cast_one, Int.cast_zero, Int.cast_neg]
  rw [show π * 4 / 12 = π / 3 by ring, sin_pi_div_three]

theorem tabR_5 : tabR 5 = sin (π * 5 / 12) := by
  have hS1 := sin_pi_div_twelve
  have hS5 := sin_five_pi_div_twelve
  simp only [tabR, sinTable, List.getElem?_cons_succ, List.getElem?_cons_zero, Option.map_some, Option.getD_some,
    Recipe.evalR, Int.cast_ofNat, Int.cast_one, Int.cast_zero, Int.cast_neg]
  rw [show π * 5 / 12 = 5 * π / 12 by ring, hS5]

theorem tabR_6 : tabR 6 = sin (π * 6 / 12) := by
  have hS1 := sin_pi_div_twelve
  have hS5 := sin_five_pi_div_twelve
  simp only [tabR, sinTable, List.getElem?_cons_succ, List.getElem?_cons_zero, Option.map_some, Option.getD_some,
    Recipe.evalR, Int.cast_ofNat, Int.cast_one, Int.cast_zero, Int.cast_neg]
  rw [show π * 6 / 12 = π / 2 by ring, sin_pi_div_two]

theorem tabR_7 : tabR 7 = sin (π * 7 / 12) := by
  have hS1 := sin_pi_div_twelve
  have hS5 := sin_five_pi_div_twelve
  simp only [tabR, sinTable, List.getElem?_cons_succ, List.getElem?_cons_zero, Option.map_some, Option.getD_some,
    Recipe.evalR, Int.cast_ofNat, Int.cast_one, Int.cast_zero, Int.cast_neg]
  rw [show π * 7 / 12 = π - 5 * π / 12 by ring, sin_pi_sub, hS5]

theorem tabR_8 : tabR 8 = sin (π * 8 / 12) := by
  have hS1 := sin_pi_div_twelve
  have hS5 := sin_five_pi_div_twelve
  simp only [tabR, sinTable, List.getElem?_cons_succ, List.getElem?_cons_zero, Option.map_some, Option.getD_some,
    Recipe.evalR, Int.cast_ofNat, Int.cast_one, Int.cast_zero, Int.cast_neg]
  rw [show π * 8 / 12 = π - π / 3 by ring, sin_pi_sub, sin_pi_div_three]

theorem tabR_9 : tabR 9 = sin (π * 9 / 12) := by
  have hS1 := sin_pi_div_twelve
  have hS5 := sin_five_pi_div_twelve
  simp only [tabR, sinTable, List.getElem?_cons_succ, List.getElem?_cons_zero, Option.map_some, Option.getD_some,
    Recipe.evalR, Int.cast_ofNat, Int.cast_one, Int.cast_zero, Int.cast_neg]
  rw [show π * 9 / 12 = π - π / 4 by ring, sin_pi_sub, sin_pi_div_four]

theorem tabR_10 : tabR 10 = sin (π * 10 / 12) := by
  have hS1 := sin_pi_div_twelve
  have hS5 := sin_five_pi_div_twelve
  simp only [tabR, sinTable, List.getElem?_cons_succ, List.getElem?_cons_zero, Option.map_some, Option.getD_some,
    Recipe.evalR, Int.cast_ofNat, Int.cast_one, Int.cast_zero, Int.cast_neg]
  rw [show π * 10 / 12 = π - π / 6 by ring, sin_pi_sub, sin_pi_div_six]

theorem tabR_11 : tabR 11 = sin (π * 11 / 12) := by
  have hS1 := sin_pi_div_twelve
  have hS5 := sin_five_pi_div_twelve
  simp only [tabR, sinTable, List.getElem?_cons_succ, List.getElem?_cons_zero, Option.map_some, Option.getD_some,
    Recipe.evalR, Int.cast_ofNat, Int.cast_one, Int.cast_zero, Int.cast_neg]
  rw [show π * 11 / 12 = π - π / 12 by ring, sin_pi_sub, hS1]

theorem tabR_12 : tabR 12 = sin (π * 12 / 12) := by
  have hS1 := sin_pi_div_twelve
  have hS5 := sin_five_pi_div_twelve
  simp only [tabR, sinTable, List.getElem?_cons_succ, List.getElem?_cons_zero, Option.map_some, Option.getD_some,
    Recipe.evalR, Int.cast_ofNat, Int.cast_one, Int.cast_zero, Int.cast_neg]
  rw [show π * 12 / 12 = π by ring, sin_pi]

theorem tabR_13 : tabR 13 = sin (π * 13 / 12) := by
  have hS1 := sin_pi_div_twelve
  have hS5 := sin_five_pi_div_twelve
  simp only [tabR, sinTable, List.getElem?_cons_succ, List.getElem?_cons_zero, Option.map_some, Option.getD_some,
    Recipe.evalR, Int.cast_ofNat, Int.cast_one, Int.cast_zero, Int.cast_neg]
  rw [show π * 13 / 12 = π / 12 + π by ring, sin_add_pi, hS1]; ring

theorem tabR_14 : tabR 14 = sin (π * 14 / 12) := by
  have hS1 := sin_pi_div_twelve
  have hS5 := sin_five_pi_div_twelve
  simp only [tabR, sinTable, List.getElem?_cons_succ, List.getElem?_cons_zero, Option.map_some, Option.getD_some,
    Recipe.evalR, Int.cast_ofNat, Int.cast_one, Int.cast_zero, Int.cast_neg]
  rw [show π * 14 / 12 = π / 6 + π by ring, sin_add_pi, sin_pi_div_six]; ring

theorem tabR_15 : tabR 15 = sin (π * 15 / 12) := by
  have hS1 := sin_pi_div_twelve
  have hS5 := sin_five_pi_div_twelve
  simp only [tabR, sinTable, List.getElem?_cons_succ, List.getElem?_cons_zero, Option.map_some, Option.getD_some,
    Recipe.evalR, Int.cast_ofNat, Int.cast_one, Int.cast_zero, Int.cast_neg]
  rw [show π * 15 / 12 = π / 4 + π by ring, sin_add_pi, sin_pi_div_four]; ring

theorem tabR_16 : tabR 16 = sin (π * 16 / 12) := by
  have hS1 := sin_pi_div_twelve
  have hS5 := sin_five_pi_div_twelve
  simp only [tabR, sinTable, List.getElem?_cons_succ, List.getElem?_cons_zero, Option.map_some, Option.getD_some,
    Recipe.evalR, Int.cast_ofNat, Int.cast_one, Int.cast_zero, Int.cast_neg]
  rw [show π * 16 / 12 = π / 3 + π by ring, sin_add_pi, sin_pi_div_three]; ring

theorem tabR_17 : tabR 17 = sin (π * 17 / 12) := by
  have hS1 := sin_pi_div_twelve
  have hS5 := sin_five_pi_div_twelve
  simp only [tabR, sinTable, List.getElem?_cons_succ, List.getElem?_cons_zero, Option.map_some, Option.getD_some,
    Recipe.evalR, Int.cast_ofNat, Int.cast_one, Int.cast_zero, Int.cast_neg]
  rw [show π * 17 / 12 = 5 * π / 12 + π by ring, sin_add_pi, hS5]; ring

theorem tabR_18 : tabR 18 = sin (π * 18 / 12) := by
  have hS1 := sin_pi_div_twelve
  have hS5 := sin_five_pi_div_twelve
  simp only [tabR, sinTable, List.getElem?_cons_succ, List.getElem?_cons_zero, Option.map_some, Option.getD_some,
    Recipe.evalR, Int.cast_ofNat, Int.cast_one, Int.cast_zero, Int.cast_neg]
  rw [show π * 18 / 12 = π / 2 + π by ring, sin_add_pi, sin_pi_div_two]

theorem tabR_19 : tabR 19 = sin (π * 19 / 12) := by
  have hS1 := sin_pi_div_twelve
  have hS5 := sin_five_pi_div_twelve
  simp only [tabR, sinTable, List.getElem?_cons_succ, List.getElem?_cons_zero, Option.map_some, Option.getD_some,
    Recipe.evalR, Int.cast_ofNat, Int.cast_one, Int.cast_zero, Int.cast_neg]
  rw [show π * 19 / 12 = 2 * π - 5 * π / 12 by ring, sin_two_pi_sub, hS5]; ring

theorem tabR_20 : tabR 20 = sin (π * 20 / 12) := by
  have hS1 := sin_pi_div_twelve
  have hS5 := sin_five_pi_div_twelve
  simp only [tabR, sinTable, List.getElem?_cons_succ, List.getElem?_cons_zero, Option.map_some, Option.getD_some,
    Recipe.evalR, Int.cast_ofNat, Int.cast_one, Int.cast_zero, Int.cast_neg]
  rw [show π * 20 / 12 = 2 * π - π / 3 by ring, sin_two_pi_sub, sin_pi_div_three]; ring

theorem tabR_21 : tabR 21 = sin (π * 21 / 12) := by
  have hS1 := sin_pi_div_twelve
  have hS5 := sin_five_pi_div_twelve
  simp only [tabR, sinTable, List.getElem?_cons_succ, List.getElem?_cons_zero, Option.map_some, Option.getD_some,
    Recipe.evalR, Int.cast_ofNat, Int.cast_one, Int.cast_zero, Int.cast_neg]
  rw [show π * 21 / 12 = 2 * π - π / 4 by ring, sin_two_pi_sub, sin_pi_div_four]; ring

theorem tabR_22 : tabR 22 = sin (π * 22 / 12) := by
  have hS1 := sin_pi_div_twelve
  have hS5 := sin_five_pi_div_twelve
  simp only [tabR, sinTable, List.getElem?_cons_succ, List.getElem?_cons_zero, Option.map_some, Option.getD_some,
    Recipe.evalR, Int.cast_ofNat, Int.cast_one, Int.cast_zero, Int.cast_neg]
  rw [show π * 22 / 12 = 2 * π - π / 6 by ring, sin_two_pi_sub, sin_pi_div_six]; ring

theorem tabR_23 : tabR 23 = sin (π * 23 / 12) := by
  have hS1 := sin_pi_div_twelve
  have hS5 := sin_five_pi_div_twelve
  simp only [tabR, sinTable, List.getElem?_cons_succ, List.getElem?_cons_zero, Option.map_some, Option.getD_some,
    Recipe.evalR, Int.cast_ofNat, Int.cast_one, Int.cast_zero, Int.cast_neg]
  rw [show π * 23 / 12 = 2 * π - π / 12 by ring, sin_two_pi_sub, hS1]; ring


/-- **the sin table is correct**: entry `i` of the generated `sinTable` is `sin(pi·i/12)` -/
theorem sinTable_value (i : Nat) (hi : i < 24) : tabR i = sin (π * (i : ℝ) / 12) := by
  interval_cases i
  · exact_mod_cast tabR_0
  · exact_mod_cast tabR_1
  · exact_mod_cast tabR_2
  · exact_mod_cast tabR_3
  · exact_mod_cast tabR_4
  · exact_mod_cast tabR_5
  · exact_mod_cast tabR_6
  · exact_mod_cast tabR_7
  · exact_mod_cast tabR_8
  · exact_mod_cast tabR_9
  · exact_mod_cast tabR_10
  · exact_mod_cast tabR_11
  · exact_mod_cast tabR_12
  · exact_mod_cast tabR_13
  · exact_mod_cast tabR_14
  · exact_mod_cast tabR_15
  · exact_mod_cast tabR_16
  · exact_mod_cast tabR_17
  · exact_mod_cast tabR_18
  · exact_mod_cast tabR_19
  · exact_mod_cast tabR_20
  · exact_mod_cast tabR_21
  · exact_mod_cast tabR_22
  · exact_mod_cast tabR_23

/-! ### inverse tables -/

/-- real value of the key / the value of row `i` of `inverse_cst` -/
noncomputable def cstKey (i : Nat) : ℝ := ((inverseCst[i]?).map (fun p => p.1.evalR)).getD 0
noncomputable def cstVal (i : Nat) : ℝ := ((inverseCst[i]?).map (fun p => p.2.evalR)).getD 1
noncomputable def tctKey (i : Nat) : ℝ := ((inverseTct[i]?).map (fun p => p.1.evalR)).getD 0
noncomputable def tctVal (i : Nat) : ℝ := ((inverseTct[i]?).map (fun p => p.2.evalR)).getD 1

theorem sin_pi_div_ten : sin (π / 10) = (√5 - 1) / 4 := by
  rw [← cos_pi_div_two_sub, show π / 2 - π / 10 = 2 * (π / 5) by ring, cos_two_mul, cos_pi_div_five]
  linear_combination (1 / 8 : ℝ) * sqrt5_sq

theorem arcsin_of {x y : ℝ} (h : sin x = y) (h1 : -(π / 2) ≤ x) (h2 : x ≤ π / 2) : arcsin y = x :=
  arcsin_eq_of_sin_eq h ⟨h1, h2⟩

macro "cst_simp" : tactic => `(tactic|
  simp only [cstKey, cstVal, inverseCst, List.getElem?_cons_succ, List.getElem?_cons_zero, Option.map_some,
    Option.getD_some, Recipe.evalR, Int.cast_ofNat, Int.cast_one, Int.cast_zero, Int.cast_neg])

theorem cst_0 : arcsin (cstKey 0) = π / cstVal 0 := by
  cst_simp
  exact arcsin_of sin_pi_div_three (by linarith [pi_pos]) (by linarith [pi_pos])
theorem cst_1 : arcsin (cstKey 1) = π / cstVal 1 := by
  cst_simp
  rw [neg_one_mul, arcsin_neg, arcsin_of sin_pi_div_three (by linarith [pi_pos]) (by linarith [pi_pos])]; ring
theorem cst_2 : arcsin (cstKey 2) = π / cstVal 2 := by
  cst_simp
  rw [arcsin_of sin_pi_div_four (by linarith [pi_pos]) (by linarith [pi_pos])]; ring
theorem cst_3 : arcsin (cstKey 3) = π / cstVal 3 := by
  cst_simp
  rw [neg_one_mul, arcsin_neg, arcsin_of sin_pi_div_four (by linarith [pi_pos]) (by linarith [pi_pos])]; ring
theorem cst_8 : arcsin (cstKey 8) = π / cstVal 8 := by
  cst_simp
  exact arcsin_of sin_pi_div_ten (by linarith [pi_pos]) (by linarith [pi_pos])
theorem cst_9 : arcsin (cstKey 9) = π / cstVal 9 := by
  cst_simp
  rw [neg_one_mul, arcsin_neg, arcsin_of sin_pi_div_ten (by linarith [pi_pos]) (by linarith [pi_pos])]; ring
theorem cst_10 : arcsin (cstKey 10) = π / cstVal 10 := by
  cst_simp
  exact arcsin_of sin_pi_div_six (by linarith [pi_pos]) (by linarith [pi_pos])
theorem cst_11 : arcsin (cstKey 11) = π / cstVal 11 := by
  cst_simp
  rw [show (-1 : ℝ) / 2 = -(1 / 2) by ring, arcsin_neg,
    arcsin_of sin_pi_div_six (by linarith [pi_pos]) (by linarith [pi_pos])]; ring

/-- rows of `inverse_cst` whose value is right: `asin(key) = pi/value` -/
def cstGood (i : Nat) : Bool := i < 12 && !(i == 4 || i == 5 || i == 6 || i == 7)

/-- **inverse_cst, correct rows** -/
theorem inverseCst_value_partial (i : Nat) (h : cstGood i = true) : arcsin (cstKey i) = π / cstVal i := by
  have hi : i < 12 := by simp [cstGood] at h; omega
  interval_cases i <;> first
    | exact cst_0 | exact cst_1 | exact cst_2 | exact cst_3 | exact cst_8 | exact cst_9
    | exact cst_10 | exact cst_11 | (simp [cstGood] at h)

/-- **defect**: row 4 says `asin((√3+1)/(2√2)) = pi/12`; the true value is `5·pi/12` -/
theorem inverseCst_row4_wrong : arcsin (cstKey 4) = 5 * π / 12 ∧ arcsin (cstKey 4) ≠ π / cstVal 4 := by
  have h : arcsin (cstKey 4) = 5 * π / 12 := by
    cst_simp
    exact arcsin_of sin_five_pi_div_twelve (by linarith [pi_pos]) (by linarith [pi_pos])
  refine ⟨h, ?_⟩
  rw [h]
  cst_simp
  intro hc
  linarith [pi_pos]

theorem inverseCst_row5_wrong : arcsin (cstKey 5) ≠ π / cstVal 5 := by
  have h : arcsin (cstKey 5) = -(5 * π / 12) := by
    cst_simp
    rw [neg_one_mul, arcsin_neg,
      arcsin_of sin_five_pi_div_twelve (by linarith [pi_pos]) (by linarith [pi_pos])]
  rw [h]
  cst_simp
  intro hc
  have : π / (-12) = -(π / 12) := by ring
  rw [this] at hc
  linarith [pi_pos]

/-- `C5` of constants.cpp is `sqrt(5 - sqrt 5)/8`; `sin(pi/5)` is `sqrt((5 - sqrt 5)/8)` -/
theorem sin_sq_pi_div_five : sin (π / 5) ^ 2 = (5 - √5) / 8 := by
  rw [sin_sq, cos_pi_div_five]
  linear_combination (-1 / 16 : ℝ) * sqrt5_sq

theorem sqrt5_lt : (√5 : ℝ) < 5 := by
  have : (√5 : ℝ) < √25 := Real.sqrt_lt_sqrt (by norm_num) (by norm_num)
  have h25 : (√25 : ℝ) = 5 := by
    rw [show (25 : ℝ) = 5 * 5 by norm_num]; exact Real.sqrt_mul_self (by norm_num)
  linarith

/-- **defect**: row 6 says `asin(sqrt(5 - sqrt 5)/8) = pi/5` -/
theorem inverseCst_row6_wrong : arcsin (cstKey 6) ≠ π / cstVal 6 := by
  cst_simp
  intro hc
  have hpos : (0 : ℝ) ≤ 5 - √5 := by linarith [sqrt5_lt]
  have hk0 : 0 ≤ √(5 - √5) / 8 := by positivity
  have hk1 : √(5 - √5) / 8 ≤ 1 := by
    have : √(5 - √5) ≤ √25 := Real.sqrt_le_sqrt (by linarith [Real.sqrt_nonneg (5 : ℝ)])
    have h25 : (√25 : ℝ) = 5 := by
      rw [show (25 : ℝ) = 5 * 5 by norm_num]; exact Real.sqrt_mul_self (by norm_num)
    linarith
  have hs : sin (π / 5) = √(5 - √5) / 8 := by
    rw [← hc]; exact sin_arcsin (by linarith) hk1
  have h2 := sin_sq_pi_div_five
  rw [hs, div_pow, Real.sq_sqrt hpos] at h2
  have : (5 - √5 : ℝ) = 0 := by linarith
  linarith [sqrt5_lt]

theorem inverseCst_row7_wrong : arcsin (cstKey 7) ≠ π / cstVal 7 := by
  intro hc
  apply inverseCst_row6_wrong
  have e7 : cstKey 7 = -cstKey 6 := by cst_simp; ring
  have v7 : cstVal 7 = -cstVal 6 := by cst_simp
  rw [e7, v7, arcsin_neg, div_neg] at hc
  linarith

/-! #### inverse_tct -/

macro "tct_simp" : tactic => `(tactic|
  simp only [tctKey, tctVal, inverseTct, List.getElem?_cons_succ, List.getElem?_cons_zero, Option.map_some,
    Option.getD_some, Recipe.evalR, Int.cast_ofNat, Int.cast_one, Int.cast_zero, Int.cast_neg])

theorem arctan_of {x y : ℝ} (h : tan x = y) (h1 : -(π / 2) < x) (h2 : x < π / 2) : arctan y = x :=
  arctan_eq_of_tan_eq h ⟨h1, h2⟩

theorem rpow_two_two : (2 : ℝ) ^ (2 : ℝ) = 4 := by rw [Real.rpow_two]; norm_num
theorem rpow_two_three : (2 : ℝ) ^ (3 : ℝ) = 8 := by
  rw [show (3 : ℝ) = ((3 : ℕ) : ℝ) by norm_num, Real.rpow_natCast]; norm_num
theorem rpow_neg_two_three : (-2 : ℝ) ^ (3 : ℝ) = -8 := by
  rw [show (3 : ℝ) = ((3 : ℕ) : ℝ) by norm_num, Real.rpow_natCast]; norm_num

theorem cos_pi_div_twelve : cos (π / 12) = (√3 + 1) / (2 * √2) := by
  rw [← sin_pi_div_two_sub, show π / 2 - π / 12 = 5 * π / 12 by ring, sin_five_pi_div_twelve]

theorem tan_pi_div_twelve : tan (π / 12) = 2 - √3 := by
  have h3 : (0 : ℝ) < √3 := Real.sqrt_pos.mpr (by norm_num)
  have h2 : (0 : ℝ) < √2 := Real.sqrt_pos.mpr (by norm_num)
  rw [tan_eq_sin_div_cos, sin_pi_div_twelve, cos_pi_div_twelve, div_div_div_cancel_right₀ (by positivity),
    div_eq_iff (by positivity)]
  linear_combination (1 : ℝ) * sqrt3_sq

theorem tct_0 : arctan (tctKey 0) = π / tctVal 0 := by
  tct_simp
  rw [arctan_of tan_pi_div_six (by linarith [pi_pos]) (by linarith [pi_pos])]; ring
theorem tct_1 : arctan (tctKey 1) = π / tctVal 1 := by
  tct_simp
  rw [show (-1 : ℝ) / √3 = -(1 / √3) by ring, arctan_neg,
    arctan_of tan_pi_div_six (by linarith [pi_pos]) (by linarith [pi_pos])]; ring
theorem tct_2 : arctan (tctKey 2) = π / tctVal 2 := by
  tct_simp
  exact arctan_of tan_pi_div_three (by linarith [pi_pos]) (by linarith [pi_pos])
theorem tct_3 : arctan (tctKey 3) = π / tctVal 3 := by
  tct_simp
  rw [neg_one_mul, arctan_neg, arctan_of tan_pi_div_three (by linarith [pi_pos]) (by linarith [pi_pos])]; ring
theorem tct_8 : arctan (tctKey 8) = π / tctVal 8 := by
  tct_simp
  rw [arctan_of tan_pi_div_twelve (by linarith [pi_pos]) (by linarith [pi_pos])]; ring
theorem tct_9 : arctan (tctKey 9) = π / tctVal 9 := by
  tct_simp
  rw [show (√3 : ℝ) - 2 = -(2 - √3) by ring, arctan_neg,
    arctan_of tan_pi_div_twelve (by linarith [pi_pos]) (by linarith [pi_pos])]; ring
theorem tct_12 : arctan (tctKey 12) = π / tctVal 12 := by
  tct_simp
  rw [arctan_one, rpow_two_two]
theorem tct_13 : arctan (tctKey 13) = π / tctVal 13 := by
  tct_simp
  rw [arctan_neg, arctan_one, rpow_two_two]; ring

/-- rows of `inverse_tct` proved here (the other six - pi/8, 3pi/8, 2pi/5 and their negatives - are
checked numerically by the harness only) -/
def tctProved (i : Nat) : Bool := i == 0 || i == 1 || i == 2 || i == 3 || i == 8 || i == 9 || i == 12 || i == 13

/-- **inverse_tct, proved rows**: `atan(key) = pi/value` -/
theorem inverseTct_value_partial (i : Nat) (h : tctProved i = true) : arctan (tctKey i) = π / tctVal i := by
  have hi : i < 14 := by simp [tctProved] at h; omega
  interval_cases i <;> first
    | exact tct_0 | exact tct_1 | exact tct_2 | exact tct_3 | exact tct_8 | exact tct_9
    | exact tct_12 | exact tct_13 | (simp [tctProved] at h)

end SymVerif.Funcs
