import SymVerif.Lemmas.C26Sem
/-!
Value preservation of `transpose` and `conjugate_matrix`, and general congruence lemmas for
entrywise sums and products of lists of matrices.
-/
namespace SymVerif.MatExpr
open MExpr

namespace GQ
@[simp] theorem conj_re (a : GQ) : a.conj.re = a.re := rfl
@[simp] theorem conj_im (a : GQ) : a.conj.im = -a.im := rfl
@[simp] theorem conj_zero : (0 : GQ).conj = 0 := by ext <;> simp
@[simp] theorem conj_one : (1 : GQ).conj = 1 := by ext <;> simp
theorem conj_add (a b : GQ) : (a + b).conj = a.conj + b.conj := by ext <;> simp; ring
theorem conj_mul (a b : GQ) : (a * b).conj = a.conj * b.conj := by ext <;> simp <;> ring
theorem conj_listSum (l : List GQ) : l.sum.conj = (l.map conj).sum := by
  induction l with
  | nil => simp
  | cons a t ih => simp [conj_add, ih]
theorem conj_listProd (l : List GQ) : l.prod.conj = (l.map conj).prod := by
  induction l with
  | nil => simp
  | cons a t ih => simp [conj_mul, ih]
end GQ

/-! ### congruences -/

theorem Val.Eqv.transpose {a b : Val} (h : a ≃ b) : a.transpose ≃ b.transpose :=
  ⟨h.2.1, h.1, fun i j hi hj => h.2.2 j i hj hi⟩

theorem Val.Eqv.conj {a b : Val} (h : a ≃ b) : a.conj ≃ b.conj :=
  ⟨h.1, h.2.1, fun i j hi hj => by simp only [Val.conj]; rw [h.2.2 i j hi hj]⟩

theorem Val.conj_transpose (a : Val) : a.conj.transpose = a.transpose.conj := rfl

/-- all matrices of the list have the shape `R × C` -/
def AllDims (R C : Nat) (vs : List Val) : Prop := ∀ v ∈ vs, v.r = R ∧ v.c = C

theorem allDims_cons {R C : Nat} {v : Val} {vs : List Val} :
    AllDims R C (v :: vs) ↔ (v.r = R ∧ v.c = C) ∧ AllDims R C vs := by
  simp [AllDims]

theorem allDims_append {R C : Nat} {vs ws : List Val} :
    AllDims R C (vs ++ ws) ↔ AllDims R C vs ∧ AllDims R C ws := by
  simp only [AllDims, List.mem_append]
  constructor
  · intro h; exact ⟨fun v hv => h v (Or.inl hv), fun v hv => h v (Or.inr hv)⟩
  · rintro ⟨h1, h2⟩ v (hv | hv); exact h1 v hv; exact h2 v hv

theorem sameDims_of_allDims {R C : Nat} {vs : List Val} (h : AllDims R C vs) : SameDims vs := by
  intro a ha b hb
  exact ⟨(h a ha).1.trans (h b hb).1.symm, (h a ha).2.trans (h b hb).2.symm⟩

theorem allDims_of_sameDims {v : Val} {vs : List Val} (h : SameDims (v :: vs)) :
    AllDims v.r v.c (v :: vs) := by
  intro a ha
  exact h a ha v (by simp)

theorem sumV_r_c {R C : Nat} {vs : List Val} (hne : vs ≠ []) (h : AllDims R C vs) :
    (sumV vs).r = R ∧ (sumV vs).c = C := by
  cases vs with
  | nil => exact absurd rfl hne
  | cons v t => exact h v (by simp)

theorem hadV_r_c {R C : Nat} {vs : List Val} (hne : vs ≠ []) (h : AllDims R C vs) :
    (hadV vs).r = R ∧ (hadV vs).c = C := by
  cases vs with
  | nil => exact absurd rfl hne
  | cons v t => exact h v (by simp)

theorem sumV_f' {vs : List Val} (hne : vs ≠ []) (i j : Nat) :
    (sumV vs).f i j = (vs.map fun w => w.f i j).sum := by
  cases vs with
  | nil => exact absurd rfl hne
  | cons v t => rfl

theorem hadV_f' {vs : List Val} (hne : vs ≠ []) (i j : Nat) :
    (hadV vs).f i j = (vs.map fun w => w.f i j).prod := by
  cases vs with
  | nil => exact absurd rfl hne
  | cons v t => rfl

/-- a value with the right shape and the entrywise sums of the list is the sum -/
theorem eqv_sumV {R C : Nat} {vs : List Val} (hne : vs ≠ []) (h : AllDims R C vs) (w : Val)
    (hr : w.r = R) (hc : w.c = C)
    (hf : ∀ i j, i < R → j < C → w.f i j = (vs.map fun v => v.f i j).sum) : w ≃ sumV vs := by
  obtain ⟨h1, h2⟩ := sumV_r_c hne h
  refine ⟨hr.trans h1.symm, hc.trans h2.symm, fun i j hi hj => ?_⟩
  rw [sumV_f' hne, hf i j (hr ▸ hi) (hc ▸ hj)]

theorem eqv_hadV {R C : Nat} {vs : List Val} (hne : vs ≠ []) (h : AllDims R C vs) (w : Val)
    (hr : w.r = R) (hc : w.c = C)
    (hf : ∀ i j, i < R → j < C → w.f i j = (vs.map fun v => v.f i j).prod) : w ≃ hadV vs := by
  obtain ⟨h1, h2⟩ := hadV_r_c hne h
  refine ⟨hr.trans h1.symm, hc.trans h2.symm, fun i j hi hj => ?_⟩
  rw [hadV_f' hne, hf i j (hr ▸ hi) (hc ▸ hj)]

/-- elementwise relation between two lists of values -/
def RelL (R : Val → Val → Prop) : List Val → List Val → Prop
  | [], [] => True
  | a :: as, b :: bs => R a b ∧ RelL R as bs
  | _, _ => False

theorem relL_entries {T : Val → Val} {vs ws : List Val} (h : RelL (fun a b => b ≃ T a) vs ws)
    {R C : Nat} (hd : AllDims R C (vs.map T)) :
    AllDims R C ws ∧ ∀ i j, i < R → j < C →
      (ws.map fun w => w.f i j) = ((vs.map T).map fun w => w.f i j) := by
  induction vs generalizing ws with
  | nil =>
    cases ws with
    | nil => simp [AllDims]
    | cons b bs => simp [RelL] at h
  | cons a as ih =>
    cases ws with
    | nil => simp [RelL] at h
    | cons b bs =>
      simp only [RelL] at h
      simp only [List.map_cons, allDims_cons] at hd
      obtain ⟨hab, hrest⟩ := h
      obtain ⟨hda, hdas⟩ := hd
      obtain ⟨ih1, ih2⟩ := ih hrest hdas
      refine ⟨allDims_cons.2 ⟨⟨hab.1.trans hda.1, hab.2.1.trans hda.2⟩, ih1⟩, fun i j hi hj => ?_⟩
      simp only [List.map_cons]
      rw [ih2 i j hi hj, hab.2.2 i j (by rw [hab.1, hda.1]; exact hi) (by rw [hab.2.1, hda.2]; exact hj)]

theorem relL_length {R : Val → Val → Prop} {vs ws : List Val} (h : RelL R vs ws) :
    vs.length = ws.length := by
  induction vs generalizing ws with
  | nil => cases ws <;> simp [RelL] at h ⊢
  | cons a as ih =>
    cases ws with
    | nil => simp [RelL] at h
    | cons b bs => simp only [RelL] at h; simp [ih h.2]

/-- entrywise sums / products commute with an entrywise-and-shape transformation -/
theorem relL_sum_had {T : Val → Val} {vs ws : List Val} (hne : vs ≠ [])
    (h : RelL (fun a b => b ≃ T a) vs ws) (hd : SameDims vs)
    (hT : ∀ {R C : Nat} {l : List Val}, AllDims R C l → ∃ R' C', AllDims R' C' (l.map T))
    (hsum : ∀ l : List Val, l ≠ [] → SameDims l → sumV (l.map T) ≃ T (sumV l))
    (hhad : ∀ l : List Val, l ≠ [] → SameDims l → hadV (l.map T) ≃ T (hadV l)) :
    ws ≠ [] ∧ SameDims ws ∧ sumV ws ≃ T (sumV vs) ∧ hadV ws ≃ T (hadV vs) := by
  have hwne : ws ≠ [] := by
    have := relL_length h
    intro hw; subst hw; simp at this; exact hne this
  obtain ⟨v, t, rfl⟩ := List.exists_cons_of_ne_nil hne
  obtain ⟨R', C', hd'⟩ := hT (allDims_of_sameDims hd)
  obtain ⟨hw1, hw2⟩ := relL_entries h hd'
  have hmne : (v :: t).map T ≠ [] := by simp
  refine ⟨hwne, sameDims_of_allDims hw1, ?_, ?_⟩
  · refine Val.Eqv.trans ?_ (hsum _ hne hd)
    apply eqv_sumV hmne hd' _ (sumV_r_c hwne hw1).1 (sumV_r_c hwne hw1).2
    intro i j hi hj
    rw [sumV_f' hwne, hw2 i j hi hj]
  · refine Val.Eqv.trans ?_ (hhad _ hne hd)
    apply eqv_hadV hmne hd' _ (hadV_r_c hwne hw1).1 (hadV_r_c hwne hw1).2
    intro i j hi hj
    rw [hadV_f' hwne, hw2 i j hi hj]

theorem transpose_allDims {R C : Nat} {l : List Val} (h : AllDims R C l) :
    ∃ R' C', AllDims R' C' (l.map Val.transpose) := by
  refine ⟨C, R, ?_⟩
  intro v hv
  obtain ⟨w, hw, rfl⟩ := List.mem_map.1 hv
  exact ⟨(h w hw).2, (h w hw).1⟩

theorem conj_allDims {R C : Nat} {l : List Val} (h : AllDims R C l) :
    ∃ R' C', AllDims R' C' (l.map Val.conj) := by
  refine ⟨R, C, ?_⟩
  intro v hv
  obtain ⟨w, hw, rfl⟩ := List.mem_map.1 hv
  exact h w hw

theorem sumV_transpose (l : List Val) (hne : l ≠ []) :
    sumV (l.map Val.transpose) ≃ (sumV l).transpose := by
  obtain ⟨v, t, rfl⟩ := List.exists_cons_of_ne_nil hne
  refine ⟨rfl, rfl, fun i j _ _ => ?_⟩
  simp [sumV, Val.transpose, List.map_map, Function.comp_def]

theorem hadV_transpose (l : List Val) (hne : l ≠ []) :
    hadV (l.map Val.transpose) ≃ (hadV l).transpose := by
  obtain ⟨v, t, rfl⟩ := List.exists_cons_of_ne_nil hne
  refine ⟨rfl, rfl, fun i j _ _ => ?_⟩
  simp [hadV, Val.transpose, List.map_map, Function.comp_def]

theorem sumV_conj (l : List Val) (hne : l ≠ []) : sumV (l.map Val.conj) ≃ (sumV l).conj := by
  obtain ⟨v, t, rfl⟩ := List.exists_cons_of_ne_nil hne
  refine ⟨rfl, rfl, fun i j _ _ => ?_⟩
  simp only [sumV, Val.conj, List.map_cons, List.sum_cons, GQ.conj_add, GQ.conj_listSum,
    List.map_map, Function.comp_def]

theorem hadV_conj (l : List Val) (hne : l ≠ []) : hadV (l.map Val.conj) ≃ (hadV l).conj := by
  obtain ⟨v, t, rfl⟩ := List.exists_cons_of_ne_nil hne
  refine ⟨rfl, rfl, fun i j _ _ => ?_⟩
  simp only [hadV, Val.conj, List.map_cons, List.prod_cons, GQ.conj_mul, GQ.conj_listProd,
    List.map_map, Function.comp_def]

end SymVerif.MatExpr

namespace SymVerif.MatExpr
open MExpr

theorem bind_ok {α β : Type} {x : Except Err α} {f : α → Except Err β} {r : β} :
    (x >>= f) = .ok r ↔ ∃ a, x = .ok a ∧ f a = .ok r := by
  cases x <;> simp [bind, Except.bind]

theorem mkAdd_ok {l : List MExpr} {r : MExpr} (h : mkAdd l = .ok r) : r = add l := by
  simp only [mkAdd] at h; split at h <;> simp at h; exact h.symm
theorem mkHad_ok {l : List MExpr} {r : MExpr} (h : mkHad l = .ok r) : r = had l := by
  simp only [mkHad] at h; split at h <;> simp at h; exact h.symm
theorem mkDense_ok {r c : Nat} {v : List GQ} {e : MExpr} (h : mkDense r c v = .ok e) :
    e = dense r c v := by
  simp only [mkDense] at h; split at h <;> simp at h; exact h.symm
theorem mkDiag_ok {d : List GQ} {e : MExpr} (h : mkDiag d = .ok e) : e = diag d := by
  simp only [mkDiag] at h; split at h <;> simp at h; exact h.symm
theorem mkTranspose_ok {a e : MExpr} (h : mkTranspose a = .ok e) : e = transpose a := by
  simp only [mkTranspose] at h; split at h <;> simp at h; exact h.symm
theorem mkConj_ok {a e : MExpr} (h : mkConj a = .ok e) : e = conj a := by
  simp only [mkConj] at h; split at h <;> simp at h; exact h.symm

theorem valsOf_ne_nil {env : Env} {l : List MExpr} (h : l ≠ []) : valsOf env l ≠ [] := by
  rw [valsOf_eq_map]; simpa using h

theorem transposeList_length : ∀ (l l' : List MExpr), transposeList l = .ok l' → l.length = l'.length
  | [], l', h => by simp [transposeList] at h; simp [← h]
  | a :: t, l', h => by
    simp only [transposeList, bind_ok] at h
    obtain ⟨a', _, t', ht, h⟩ := h
    simp [pure, Except.pure] at h
    subst h
    simp [transposeList_length t t' ht]

mutual
  theorem transpose_value_aux (env : Env) : ∀ (e r : MExpr), transposeM e = .ok r → okOf env e →
      okOf env r ∧ valOf env r ≃ (valOf env e).transpose
    | ident n, r, h, _ => by
      simp [transposeM] at h; subst h
      refine ⟨trivial, rfl, rfl, fun i j _ _ => ?_⟩
      simp [valOf, Val.transpose, eq_comm]
    | zero a b, r, h, _ => by
      simp [transposeM] at h; subst h
      exact ⟨trivial, rfl, rfl, fun i j _ _ => rfl⟩
    | diag d, r, h, _ => by
      simp [transposeM] at h; subst h
      refine ⟨trivial, rfl, rfl, fun i j _ _ => ?_⟩
      simp only [valOf, Val.transpose]
      by_cases hij : i = j
      · subst hij; simp
      · simp [hij, Ne.symm hij]
    | dense a b v, r, h, hok => by
      simp only [transposeM] at h
      split at h
      · have := mkDense_ok h; subst this
        refine ⟨by simp [okOf, length_mkFlat], rfl, rfl, fun i j hi hj => ?_⟩
        simp only [valOf, Val.transpose] at hi hj ⊢
        exact ent_mkFlat _ hi hj
      · simp at h
    | transpose a, r, h, hok => by
      simp [transposeM] at h; subst h
      exact ⟨hok, rfl, rfl, fun i j _ _ => rfl⟩
    | add ts, r, h, hok => by
      simp only [transposeM, bind_ok] at h
      obtain ⟨l, hl, hr⟩ := h
      have := mkAdd_ok hr; subst this
      obtain ⟨h1, h2⟩ := transpose_list_aux env ts l hl hok.2.1
      obtain ⟨hne, hsd, hsum, _⟩ := relL_sum_had (valsOf_ne_nil hok.1) h2 hok.2.2
        transpose_allDims (fun l hl _ => sumV_transpose l hl) (fun l hl _ => hadV_transpose l hl)
      refine ⟨⟨?_, h1, hsd⟩, hsum⟩
      intro hnil; subst hnil; exact hne (by simp [valsOf])
    | had fs, r, h, hok => by
      simp only [transposeM, bind_ok] at h
      obtain ⟨l, hl, hr⟩ := h
      have := mkHad_ok hr; subst this
      obtain ⟨h1, h2⟩ := transpose_list_aux env fs l hl hok.2.1
      obtain ⟨hne, hsd, _, hhad⟩ := relL_sum_had (valsOf_ne_nil hok.1) h2 hok.2.2
        transpose_allDims (fun l hl _ => sumV_transpose l hl) (fun l hl _ => hadV_transpose l hl)
      refine ⟨⟨?_, h1, hsd⟩, hhad⟩
      intro hnil; subst hnil; exact hne (by simp [valsOf])
    | sym n, r, h, hok => by
      simp only [transposeM] at h
      have := mkTranspose_ok h; subst this
      exact ⟨hok, Val.Eqv.refl _⟩
    | mul s fs, r, h, hok => by
      simp only [transposeM] at h
      have := mkTranspose_ok h; subst this
      exact ⟨hok, Val.Eqv.refl _⟩
    | conj a, r, h, hok => by
      simp only [transposeM] at h
      have := mkTranspose_ok h; subst this
      exact ⟨hok, Val.Eqv.refl _⟩
  theorem transpose_list_aux (env : Env) : ∀ (l l' : List MExpr), transposeList l = .ok l' →
      okAll env l → okAll env l' ∧
        RelL (fun a b => b ≃ a.transpose) (valsOf env l) (valsOf env l')
    | [], l', h, _ => by
      simp [transposeList] at h; subst h
      simp [okAll, valsOf, RelL]
    | a :: t, l', h, hok => by
      simp only [transposeList, bind_ok] at h
      obtain ⟨a', ha, t', ht, h⟩ := h
      simp [pure, Except.pure] at h
      subst h
      obtain ⟨h1, h2⟩ := transpose_value_aux env a a' ha hok.1
      obtain ⟨h3, h4⟩ := transpose_list_aux env t t' ht hok.2
      exact ⟨⟨h1, h3⟩, by simp only [valsOf, RelL]; exact ⟨h2, h4⟩⟩
end

theorem getD_map_conj (l : List GQ) (k : Nat) : (l.map GQ.conj).getD k 0 = (l.getD k 0).conj := by
  simp only [List.getD_eq_getElem?_getD, List.getElem?_map]
  cases l[k]? <;> simp

mutual
  theorem conj_value_aux (env : Env) : ∀ (e r : MExpr), conjugateM e = .ok r → okOf env e →
      okOf env r ∧ valOf env r ≃ (valOf env e).conj
    | ident n, r, h, _ => by
      simp [conjugateM] at h; subst h
      refine ⟨trivial, rfl, rfl, fun i j _ _ => ?_⟩
      simp only [valOf, Val.conj]; split <;> simp
    | zero a b, r, h, _ => by
      simp [conjugateM] at h; subst h
      exact ⟨trivial, rfl, rfl, fun i j _ _ => by simp [valOf, Val.conj]⟩
    | diag d, r, h, _ => by
      simp only [conjugateM] at h
      have := mkDiag_ok h; subst this
      refine ⟨trivial, by simp [valOf, Val.conj], by simp [valOf, Val.conj], fun i j _ _ => ?_⟩
      simp only [valOf, Val.conj]
      split
      · exact getD_map_conj d i
      · simp
    | dense a b v, r, h, hok => by
      simp only [conjugateM] at h
      have := mkDense_ok h; subst this
      refine ⟨by simpa [okOf] using hok, rfl, rfl, fun i j _ _ => ?_⟩
      simp only [valOf, Val.conj, ent]
      exact getD_map_conj v _
    | conj a, r, h, hok => by
      simp [conjugateM] at h; subst h
      refine ⟨hok, rfl, rfl, fun i j _ _ => ?_⟩
      simp only [valOf, Val.conj]
      ext <;> simp
    | transpose a, r, h, hok => by
      simp only [conjugateM, bind_ok] at h
      obtain ⟨c, hc, hr⟩ := h
      obtain ⟨h1, h2⟩ := conj_value_aux env a c hc hok
      obtain ⟨h3, h4⟩ := transpose_value_aux env c r hr h1
      exact ⟨h3, h4.trans h2.transpose⟩
    | add ts, r, h, hok => by
      simp only [conjugateM, bind_ok] at h
      obtain ⟨l, hl, hr⟩ := h
      have := mkAdd_ok hr; subst this
      obtain ⟨h1, h2⟩ := conj_list_aux env ts l hl hok.2.1
      obtain ⟨hne, hsd, hsum, _⟩ := relL_sum_had (valsOf_ne_nil hok.1) h2 hok.2.2
        conj_allDims (fun l hl _ => sumV_conj l hl) (fun l hl _ => hadV_conj l hl)
      refine ⟨⟨?_, h1, hsd⟩, hsum⟩
      intro hnil; subst hnil; exact hne (by simp [valsOf])
    | had fs, r, h, hok => by
      simp only [conjugateM, bind_ok] at h
      obtain ⟨l, hl, hr⟩ := h
      have := mkHad_ok hr; subst this
      obtain ⟨h1, h2⟩ := conj_list_aux env fs l hl hok.2.1
      obtain ⟨hne, hsd, _, hhad⟩ := relL_sum_had (valsOf_ne_nil hok.1) h2 hok.2.2
        conj_allDims (fun l hl _ => sumV_conj l hl) (fun l hl _ => hadV_conj l hl)
      refine ⟨⟨?_, h1, hsd⟩, hhad⟩
      intro hnil; subst hnil; exact hne (by simp [valsOf])
    | sym n, r, h, hok => by
      simp only [conjugateM] at h
      have := mkConj_ok h; subst this
      exact ⟨hok, Val.Eqv.refl _⟩
    | mul s fs, r, h, hok => by
      simp only [conjugateM] at h
      have := mkConj_ok h; subst this
      exact ⟨hok, Val.Eqv.refl _⟩
  theorem conj_list_aux (env : Env) : ∀ (l l' : List MExpr), conjugateList l = .ok l' →
      okAll env l → okAll env l' ∧
        RelL (fun a b => b ≃ a.conj) (valsOf env l) (valsOf env l')
    | [], l', h, _ => by
      simp [conjugateList] at h; subst h
      simp [okAll, valsOf, RelL]
    | a :: t, l', h, hok => by
      simp only [conjugateList, bind_ok] at h
      obtain ⟨a', ha, t', ht, h⟩ := h
      simp [pure, Except.pure] at h
      subst h
      obtain ⟨h1, h2⟩ := conj_value_aux env a a' ha hok.1
      obtain ⟨h3, h4⟩ := conj_list_aux env t t' ht hok.2
      exact ⟨⟨h1, h3⟩, by simp only [valsOf, RelL]; exact ⟨h2, h4⟩⟩
end

end SymVerif.MatExpr
