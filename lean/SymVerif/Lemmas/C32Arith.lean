import Mathlib.Data.Nat.Totient
import Mathlib.NumberTheory.ArithmeticFunction.Moebius
import Mathlib.NumberTheory.ArithmeticFunction.Carmichael
import SymVerif.Lemmas.C32Factor
/-! totient / Möbius / Carmichael from the factor list. -/
namespace SymVerif.C32
open SymVerif.NTheory

theorem FactList.nil_iff {N : Nat} : FactList [] N ↔ N = 1 := by
  constructor
  · intro h; have := h.prod; simpa using this.symm
  · rintro rfl; exact ⟨by simp, by simp, by simp⟩

theorem FactList.pos {l : List (Nat × Nat)} {N : Nat} (h : FactList l N) : 0 < N := by
  rw [← h.prod]
  apply List.prod_pos
  intro x hx
  obtain ⟨pe, hpe, rfl⟩ := List.mem_map.mp hx
  exact Nat.pow_pos (h.prime pe hpe).1.pos

/-- every prime factor of `N` is one of the listed primes -/
theorem FactList.prime_dvd {l : List (Nat × Nat)} {N : Nat} (h : FactList l N) {q : Nat} (hq : q.Prime)
    (hd : q ∣ N) : ∃ pe ∈ l, pe.1 = q := by
  induction l generalizing N with
  | nil => rw [FactList.nil_iff.mp h] at hd; exact absurd (Nat.dvd_one.mp hd) hq.ne_one
  | cons x t ih =>
    have hprod := h.prod
    rw [List.map_cons, List.prod_cons] at hprod
    rw [← hprod] at hd
    rcases (Nat.Prime.dvd_mul hq).mp hd with h1 | h1
    · have := (Nat.prime_dvd_prime_iff_eq hq (h.prime x (by simp)).1).mp (hq.dvd_of_dvd_pow h1)
      exact ⟨x, by simp, this.symm⟩
    · have ht : FactList t (t.map (fun pe => pe.1 ^ pe.2)).prod :=
        ⟨fun pe hpe => h.prime pe (List.mem_cons_of_mem _ hpe),
         (List.pairwise_cons.mp (by simpa using h.sorted)).2, rfl⟩
      obtain ⟨pe, hpe, hpeq⟩ := ih ht h1
      exact ⟨pe, List.mem_cons_of_mem _ hpe, hpeq⟩

theorem FactList.cons_inv {p e : Nat} {l : List (Nat × Nat)} {N : Nat} (h : FactList ((p, e) :: l) N) :
    p.Prime ∧ 0 < e ∧ ∃ N', N = p ^ e * N' ∧ FactList l N' ∧ Nat.Coprime (p ^ e) N' ∧
      (∀ q, q.Prime → q ∣ N' → p < q) := by
  have hp := h.prime (p, e) (by simp)
  have hs := h.sorted
  rw [List.map_cons, List.pairwise_cons] at hs
  have ht : FactList l (l.map (fun pe => pe.1 ^ pe.2)).prod :=
    ⟨fun pe hpe => h.prime pe (List.mem_cons_of_mem _ hpe), hs.2, rfl⟩
  have hbig : ∀ q, q.Prime → q ∣ (l.map (fun pe => pe.1 ^ pe.2)).prod → p < q := by
    intro q hq hd
    obtain ⟨pe, hpe, rfl⟩ := ht.prime_dvd hq hd
    exact hs.1 pe.1 (List.mem_map.mpr ⟨pe, hpe, rfl⟩)
  refine ⟨hp.1, hp.2, _, ?_, ht, ?_, hbig⟩
  · have := h.prod; rw [List.map_cons, List.prod_cons] at this; exact this.symm
  · apply Nat.Coprime.pow_left
    rw [Nat.Prime.coprime_iff_not_dvd hp.1]
    intro hd
    exact lt_irrefl _ (hbig p hp.1 hd)

/-- the loop of `totient` multiplies `N·K` down to `φ(N)·K` -/
theorem totientLoop_spec : ∀ (l : List (Nat × Nat)) (N K : Nat), FactList l N →
    totientLoop l (N * K) = Nat.totient N * K := by
  intro l
  induction l with
  | nil => intro N K h; rw [FactList.nil_iff.mp h]; simp [totientLoop]
  | cons x t ih =>
    intro N K h
    obtain ⟨p, e⟩ := x
    obtain ⟨hp, he, N', hN, ht, hcop, _⟩ := h.cons_inv
    simp only [totientLoop]
    have e1 : N * K / p * (p - 1) = N' * (p ^ (e - 1) * (p - 1) * K) := by
      have : N * K = p * (p ^ (e - 1) * N' * K) := by
        rw [hN]
        conv_lhs => rw [show e = (e - 1) + 1 by omega, pow_succ]
        ring
      rw [this, Nat.mul_div_cancel_left _ hp.pos]; ring
    rw [e1, ih N' _ ht, hN, Nat.totient_mul hcop, Nat.totient_prime_pow hp he]
    ring

open ArithmeticFunction in
/-- Möbius function from the factor list -/
theorem moebius_factList : ∀ (l : List (Nat × Nat)) (N : Nat), FactList l N →
    ArithmeticFunction.moebius N =
      if l.any (fun pe => decide (pe.2 > 1)) then 0 else (if l.length % 2 = 0 then 1 else -1) := by
  intro l
  induction l with
  | nil => intro N h; rw [FactList.nil_iff.mp h]; simp
  | cons x t ih =>
    intro N h
    obtain ⟨p, e⟩ := x
    obtain ⟨hp, he, N', hN, ht, hcop, _⟩ := h.cons_inv
    rw [hN, isMultiplicative_moebius.map_mul_of_coprime hcop, ih N' ht,
      moebius_apply_prime_pow hp (by omega)]
    by_cases h1 : e = 1
    · subst h1
      simp only [List.any_cons, List.length_cons, if_true]
      have : decide ((1 : Nat) > 1) = false := by decide
      simp only [this, Bool.false_or]
      split
      · simp
      · have hpar : (t.length + 1) % 2 = 0 ↔ ¬ (t.length % 2 = 0) := by omega
        by_cases hh : t.length % 2 = 0
        · simp [hh, hpar.not.mpr (not_not.mpr hh)]
        · simp [hh, hpar.mpr hh]
    · have : decide (e > 1) = true := by simp; omega
      simp [h1, this]

/-- prime factors of the running value of `carmichaelLoop` stay below the next prime -/
theorem carmichaelLoop_spec : ∀ (l : List (Nat × Nat)) (N lam : Nat), FactList l N → 0 < lam →
    (∀ q, q.Prime → q ∣ lam → ∀ pe ∈ l, q < pe.1) →
    carmichaelLoop l lam = Nat.lcm lam (ArithmeticFunction.carmichael N) := by
  intro l
  induction l with
  | nil =>
    intro N lam h _ _
    rw [FactList.nil_iff.mp h]
    have : ArithmeticFunction.carmichael 1 = 1 := by
      have := ArithmeticFunction.carmichael_two_pow_of_le_two (n := 0) (by omega)
      simpa using this
    simp [carmichaelLoop, this]
  | cons x t ih =>
    intro N lam h hlam hsmall
    obtain ⟨p, e⟩ := x
    obtain ⟨hp, he, N', hN, ht, hcop, hbig⟩ := h.cons_inv
    simp only [carmichaelLoop]
    set mult := (if (p == 2 && decide (e > 2)) = true then e - 1 else e) with hmult
    -- value contributed by `p^e`
    have hcar : ArithmeticFunction.carmichael (p ^ e) = (p - 1) * p ^ (mult - 1) := by
      by_cases hp2 : p = 2
      · subst hp2
        by_cases he2 : e > 2
        · have : mult = e - 1 := by simp [hmult, he2]
          rw [this, ArithmeticFunction.carmichael_two_pow_of_ne_two (by omega),
            show e - 1 - 1 = e - 2 by omega]
          simp
        · have : mult = e := by simp [hmult, he2]
          rw [this, ArithmeticFunction.carmichael_two_pow_of_le_two (by omega)]
          simp
      · have : mult = e := by
          have : (p == 2) = false := by simpa using hp2
          simp [hmult, this]
        rw [this, ArithmeticFunction.carmichael_pow_of_prime_ne_two e hp hp2,
          Nat.totient_prime_pow hp he, mul_comm]
    have hp1 : 0 < p - 1 := by have := hp.two_le; omega
    -- `lcm lam (p-1)` is prime to `p`
    have hcop2 : Nat.Coprime (Nat.lcm lam (p - 1)) (p ^ (mult - 1)) := by
      apply Nat.Coprime.pow_right
      rw [Nat.coprime_comm, Nat.Prime.coprime_iff_not_dvd hp]
      intro hd
      have hd' : p ∣ lam * (p - 1) := hd.trans (Nat.lcm_dvd_mul _ _)
      rcases (Nat.Prime.dvd_mul hp).mp hd' with h1 | h1
      · exact lt_irrefl _ (hsmall p hp h1 (p, e) (by simp))
      · have := Nat.le_of_dvd hp1 h1; omega
    have hstep : Nat.lcm lam (p - 1) * p ^ (mult - 1) = Nat.lcm lam (ArithmeticFunction.carmichael (p ^ e)) := by
      rw [hcar, ← Nat.Coprime.lcm_eq_mul hcop2, Nat.lcm_assoc]
      congr 1
      have : Nat.Coprime (p - 1) (p ^ (mult - 1)) := by
        apply Nat.Coprime.pow_right
        rw [Nat.coprime_comm, Nat.Prime.coprime_iff_not_dvd hp]
        intro hd; have := Nat.le_of_dvd hp1 hd; omega
      exact Nat.Coprime.lcm_eq_mul this
    rw [ih N' _ ht (Nat.mul_pos (Nat.lcm_pos hlam hp1) (Nat.pow_pos hp.pos)), hstep, hN,
      ArithmeticFunction.carmichael_mul hcop, Nat.lcm_assoc]
    -- side condition: prime factors of the new value are `≤ p`, hence below the later primes
    intro q hq hd pe hpe
    have hpe_big : p < pe.1 := by
      have hs := h.sorted
      rw [List.map_cons, List.pairwise_cons] at hs
      exact hs.1 pe.1 (List.mem_map.mpr ⟨pe, hpe, rfl⟩)
    rcases (Nat.Prime.dvd_mul hq).mp hd with h1 | h1
    · have h2 : q ∣ lam * (p - 1) := h1.trans (Nat.lcm_dvd_mul _ _)
      rcases (Nat.Prime.dvd_mul hq).mp h2 with h3 | h3
      · exact hsmall q hq h3 pe (List.mem_cons_of_mem _ hpe)
      · have := Nat.le_of_dvd hp1 h3; omega
    · have := (Nat.prime_dvd_prime_iff_eq hq hp).mp (hq.dvd_of_dvd_pow h1)
      omega

end SymVerif.C32
