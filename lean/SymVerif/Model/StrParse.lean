/-
Token-level model of the expression grammar of symengine/parser/parser.yy on the printer's output language (C16).
Core Lean only.

`pExpr / pLoop / pPrefix / pArgs` is a precedence-climbing parser over the tokens `StrP.Tok`; every binding power
comes from the translated `%left/%right` table (`Gen.PrintNames.precTable`): a pending rule of level `p` lets the
parser continue over an operator of level `q` exactly when bison shifts (`q > p`, or `q = p` and the level is
`%right`).  With doubled levels: `lbp o = 2·level o`, `rbp o = 2·level o` (`%left`) or `2·level o − 1` (`%right`),
`ubp = 2·level UMINUS − 1`.  The parser does not look at the spacing flag of a minus token.  Unlike the real
parser it keeps `'(' expr ')'` as a `paren` node, so that "the printed tree comes back" is a plain equality.

`WP t` (well-parenthesised) is the condition under which `flat t` parses back to `t`; it is stated through the
binding powers only.  `printable` is the decidable condition on expressions under which `layout` yields `WP`
trees (Props/C16.lean).
-/
import SymVerif.Model.StrPrinter

namespace SymVerif
namespace StrP
open Expr

inductive PErr where
  | fuel | syntax
  deriving DecidableEq, Repr, Inhabited

def binOfTok : Tok → Option BinOp
  | .plus => some .add
  | .minus _ => some .sub
  | .star => some .mul
  | .slash => some .div
  | .pow => some .pow
  | .rel o => some o
  | _ => none

def lbp (o : BinOp) : Nat := 2 * level o
def rbp (o : BinOp) : Nat := if isRightAssoc o then 2 * level o - 1 else 2 * level o
/-- `'-' expr %prec UMINUS`, `%right UMINUS` -/
def ubp : Nat := 2 * levelNeg - 1

mutual
  /-- `expr` in a context that tolerates operators binding tighter than `m` -/
  def pExpr : Nat → Nat → List Tok → Except PErr (PExpr × List Tok)
    | 0, _, _ => .error .fuel
    | f + 1, m, ts =>
      match pPrefix f ts with
      | .error e => .error e
      | .ok (lhs, r) => pLoop f m lhs r
  /-- `expr: expr OP expr` with the left operand already reduced -/
  def pLoop : Nat → Nat → PExpr → List Tok → Except PErr (PExpr × List Tok)
    | 0, _, _, _ => .error .fuel
    | f + 1, m, lhs, ts =>
      match ts with
      | [] => .ok (lhs, [])
      | t :: r =>
        match binOfTok t with
        | none => .ok (lhs, t :: r)
        | some o =>
          if lbp o > m then
            match pExpr f (rbp o) r with
            | .error e => .error e
            | .ok (rhs, r') => pLoop f m (.bin o lhs rhs) r'
          else .ok (lhs, t :: r)
  /-- `'(' expr ')'`, `'-' expr`, NUMERIC, IDENTIFIER, `IDENTIFIER '(' expr_list ')'` -/
  def pPrefix : Nat → List Tok → Except PErr (PExpr × List Tok)
    | 0, _ => .error .fuel
    | f + 1, ts =>
      match ts with
      | .lp :: r =>
        match pExpr f 0 r with
        | .error e => .error e
        | .ok (e, r') =>
          match r' with
          | .rp :: r'' => .ok (.paren e, r'')
          | _ => .error .syntax
      | .minus _ :: r =>
        match pExpr f ubp r with
        | .error e => .error e
        | .ok (e, r') => .ok (.neg e, r')
      | .num s :: r => .ok (.num s, r)
      | .id s :: .lp :: r =>
        match pArgs f r with
        | .error e => .error e
        | .ok (args, r') => .ok (.call s args, r')
      | .id s :: r => .ok (.id s, r)
      | _ => .error .syntax
  /-- `expr_list ')'` -/
  def pArgs : Nat → List Tok → Except PErr (List PExpr × List Tok)
    | 0, _ => .error .fuel
    | f + 1, ts =>
      match pExpr f 0 ts with
      | .error e => .error e
      | .ok (e, r) =>
        match r with
        | .comma :: r' =>
          match pArgs f r' with
          | .error e => .error e
          | .ok (es, r'') => .ok (e :: es, r'')
        | .rp :: r' => .ok ([e], r')
        | _ => .error .syntax
end

/-- `st_expr` followed by END_OF_FILE -/
def parseToks (fuel : Nat) (ts : List Tok) : Except PErr PExpr :=
  match pExpr fuel 0 ts with
  | .error e => .error e
  | .ok (e, r) => if r.isEmpty then .ok e else .error .syntax

/-! ### well-parenthesised trees -/

def edgeAtom : Nat := 2 * levelAtom

/-- the binding power with which the right edge of a tree captures a following operator -/
def edge : PExpr → Nat
  | .bin o _ _ => rbp o
  | .neg _ => ubp
  | _ => edgeAtom

mutual
  def WP : PExpr → Bool
    | .num _ => true
    | .id _ => true
    | .neg c => WP c && decide (ubp < 2 * lv c)
    | .bin o a b => WP a && WP b && decide (lbp o ≤ 2 * lv a) && decide (lbp o ≤ edge a) && decide (rbp o < 2 * lv b)
    | .call _ args => !args.isEmpty && WPs args
    | .paren c => WP c
  def WPs : List PExpr → Bool
    | [] => true
    | a :: t => WP a && WPs t
end

/-! ### the expressions for which `layout` is proved to be well-parenthesised -/

/-- a key with coefficient 1 is printed bare as an operand of `+`: it must not print as a sum itself -/
def addKeysOK (l : List (Expr × Expr)) : Bool := l.all fun kv => !(isInt kv.2 1) || cprec kv.1 != 1

/-- condition on a single node -/
def printableNode : Expr → Bool
  | dbl b => !dblSign b || dblIsNeg b                      -- not -0.0, not a NaN with the sign bit
  | add c ts => isNum c && !ts.isEmpty && addKeysOK ts
  | mul c fs => isNum c && fs.all fun be => !(isInt be.2 1 || isInt be.2 (-1)) || cprec be.1 != 2
  | fsym _ args => !args.isEmpty
  | app h args =>
    if (relOp? h).isSome then
      match args with
      | [a, b] => cprec a != 0 && cprec b != 0            -- no relational as operand of a relational
      | _ => false
    else !args.isEmpty
  | _ => true

def printable (e : Expr) : Bool := allNodes printableNode e

end StrP
end SymVerif
