/-
Model of symengine's sparse univariate polynomial containers
(symengine/polys/upolybase.h `ODictWrapper`, usymenginepoly.h `USymEnginePoly`,
uintpoly.{h,cpp} `UIntDict`/`divides_upoly`, uratpoly.{h,cpp}, derivative.cpp `diff_upoly`).

A `std::map<unsigned, Value>` is a list of `(key, value)` pairs with strictly
increasing keys; every function below walks the list the way the C++ walks the
map (`lower_bound` + insert/erase, `operator[]`, forward / reverse iteration).
The coefficient type is a parameter: `Int` (integer_class), `Rat`
(rational_class; core Lean's normalised `Rat`) in the driver.

Five functions exist in two variants selected by a flag: the code as it is in
the repaired tree (what the driver runs and what the theorems are about) and
the code as it was found, where an empty dictionary is dereferenced
(`Err.oob`), a loop never terminates (`Err.hang`) or an unsigned subtraction
wraps (`Err.wrap`).  `unsigned int` keys are modelled on `Nat`; the harness
keeps every degree far below `2^32` (stated as not covered).

Core Lean only: this file is linked into the native driver.
-/
namespace SymVerif.UPoly

inductive Err where
  | oob    -- `begin()`/`rbegin()` of an empty `std::map` dereferenced (undefined behaviour)
  | hang   -- the C++ loop does not terminate
  | wrap   -- `unsigned` subtraction below zero (wraps to ~2^32; outside the model)
  deriving Repr, DecidableEq

abbrev Dict (R : Type) := List (Nat × R)

/-! ### `std::map` primitives -/

/-- `m[k] = c` -/
def setKey {R : Type} : Dict R → Nat → R → Dict R
  | [], k, c => [(k, c)]
  | (k', c') :: t, k, c =>
    if k' < k then (k', c') :: setKey t k c
    else if k' = k then (k, c) :: t
    else (k, c) :: (k', c') :: t

/-- `ODictWrapper(const std::map<Key, Value> &p)`: copies the entries that are not `Value(0)`.
    Also `Poly::from_dict` / `container_from_dict`. -/
def fromMap {R : Type} [Zero R] [DecidableEq R] (m : Dict R) : Dict R :=
  m.filter (fun p => p.2 ≠ 0)

/-- `ODictWrapper(const int &i)` for `i = 1` (the only use: `res(1)` in `pow`) -/
def one {R : Type} [One R] : Dict R := [(0, 1)]

/-- body of the `operator+=` loop: `lower_bound`, then add-and-maybe-erase or insert -/
def addTerm {R : Type} [Zero R] [Add R] [DecidableEq R] : Dict R → Nat → R → Dict R
  | [], k, c => [(k, c)]
  | (k', c') :: t, k, c =>
    if k' < k then (k', c') :: addTerm t k c
    else if k' = k then
      (if c' + c = 0 then t else (k', c' + c) :: t)
    else (k, c) :: (k', c') :: t

/-- `operator+=` -/
def add {R : Type} [Zero R] [Add R] [DecidableEq R] (a b : Dict R) : Dict R :=
  b.foldl (fun acc p => addTerm acc p.1 p.2) a

/-- body of the `operator-=` loop -/
def subTerm {R : Type} [Zero R] [Sub R] [Neg R] [DecidableEq R] : Dict R → Nat → R → Dict R
  | [], k, c => [(k, -c)]
  | (k', c') :: t, k, c =>
    if k' < k then (k', c') :: subTerm t k c
    else if k' = k then
      (if c' - c = 0 then t else (k', c' - c) :: t)
    else (k, -c) :: (k', c') :: t

/-- `operator-=` -/
def sub {R : Type} [Zero R] [Sub R] [Neg R] [DecidableEq R] (a b : Dict R) : Dict R :=
  b.foldl (fun acc p => subTerm acc p.1 p.2) a

/-- unary `operator-`: `iter.second *= -1` -/
def neg {R : Type} [One R] [Neg R] [Mul R] (a : Dict R) : Dict R :=
  a.map (fun p => (p.1, p.2 * (-1)))

/-- `p.dict_[k] += v` (`operator[]` value-initialises a missing entry, nothing is erased) -/
def accTerm {R : Type} [Zero R] [Add R] : Dict R → Nat → R → Dict R
  | [], k, v => [(k, 0 + v)]
  | (k', c') :: t, k, v =>
    if k' < k then (k', c') :: accTerm t k v
    else if k' = k then (k', c' + v) :: t
    else (k, 0 + v) :: (k', c') :: t

/-- the double loop of `ODictWrapper::mul` -/
def mulAcc {R : Type} [Zero R] [Add R] [Mul R] (a b : Dict R) : Dict R :=
  a.foldl (fun p i1 => b.foldl (fun p i2 => accTerm p (i1.1 + i2.1) (i1.2 * i2.2)) p) []

/-- `ODictWrapper::mul` (schoolbook; used by `URatDict`, `UExprDict`) -/
def mulGeneric {R : Type} [Zero R] [Add R] [Mul R] [DecidableEq R] (a b : Dict R) : Dict R :=
  if a.isEmpty then a
  else if b.isEmpty then b
  else (mulAcc a b).filter (fun q => q.2 ≠ 0)

/-- `operator*=`; `mul` is `Wrapper::mul` (Kronecker for `UIntDict`, schoolbook otherwise) -/
def mulAssign {R : Type} [Mul R] (mul : Dict R → Dict R → Except Err (Dict R))
    (a b : Dict R) : Except Err (Dict R) :=
  if a.isEmpty then .ok a
  else if b.isEmpty then .ok []
  else match b with
    | [(0, c)] => .ok (a.map (fun p => (p.1, p.2 * c)))
    | _ => mul a b

/-- `ODictWrapper::degree` -/
def degree {R : Type} : Dict R → Nat
  | [] => 0
  | [(k, _)] => k
  | _ :: t => degree t

/-- `ODictWrapper::get_coeff` (`find`) -/
def getCoeff {R : Type} [Zero R] : Dict R → Nat → R
  | [], _ => 0
  | (k', c') :: t, k => if k' = k then c' else getCoeff t k

/-- `ODictWrapper::get_lc` -/
def getLc {R : Type} [Zero R] : Dict R → R
  | [] => 0
  | [(_, c)] => c
  | _ :: t => getLc t

/-- `mp_pow_ui` -/
def rpow {R : Type} [One R] [Mul R] (x : R) : Nat → R
  | 0 => 1
  | n + 1 => rpow x n * x

/-- the reverse-iteration loop of `USymEnginePoly::eval` and its epilogue `result *= x^last_deg` -/
def evalLoop {R : Type} [One R] [Add R] [Mul R] (x : R) : List (Nat × R) → Nat → R → R
  | [], last, res => res * rpow x last
  | (k, c) :: t, last, res => evalLoop x t k (c + rpow x (last - k) * res)

/-- `USymEnginePoly::eval`.  `guard = true`: repaired code (`if (dict_.empty()) return Cf(0)`);
    `guard = false`: the code as found dereferences `dict_.rbegin()` first. -/
def evalWith {R : Type} [Zero R] [One R] [Add R] [Mul R] (guard : Bool) (d : Dict R) (x : R) :
    Except Err R :=
  match d.reverse with
  | [] => if guard then .ok 0 else .error .oob
  | (k, c) :: t => .ok (evalLoop x ((k, c) :: t) k 0)

def eval {R : Type} [Zero R] [One R] [Add R] [Mul R] (d : Dict R) (x : R) : Except Err R :=
  evalWith true d x

/-- `diff_upoly` (the variable is the polynomial's generator): `d[k-1] = c*k`, then `from_dict` -/
def diff {R : Type} [Zero R] [Mul R] [NatCast R] [DecidableEq R] (a : Dict R) : Dict R :=
  fromMap (a.foldl (fun d p => if p.1 ≠ 0 then setKey d (p.1 - 1) (p.2 * (p.1 : R)) else d) [])

/-! ### `ODictWrapper::pow` -/

/-- the loop `while (p != 1)`; for `p = 0` it never exits (`0 >> 1 = 0`). -/
def powLoop {R : Type} (mul : Dict R → Dict R → Except Err (Dict R))
    (tmp res : Dict R) (p : Nat) : Except Err (Dict R × Dict R) :=
  if _h1 : p = 1 then .ok (tmp, res)
  else if _h0 : p = 0 then .error .hang
  else if p % 2 = 0 then
    match mul tmp tmp with
    | .error e => .error e
    | .ok t2 => powLoop mul t2 res (p / 2)
  else
    match mul res tmp with
    | .error e => .error e
    | .ok r2 =>
      match mul tmp tmp with
      | .error e => .error e
      | .ok t2 => powLoop mul t2 r2 (p / 2)
termination_by p
decreasing_by all_goals omega

/-- `ODictWrapper::pow`.  `guard = true`: repaired code (`if (p == 0) return res;`). -/
def powWith {R : Type} [One R] (guard : Bool) (mul : Dict R → Dict R → Except Err (Dict R))
    (a : Dict R) (p : Nat) : Except Err (Dict R) :=
  if guard && p == 0 then .ok one
  else
    match powLoop mul a one p with
    | .error e => .error e
    | .ok (tmp, res) => mul res tmp

def pow {R : Type} [One R] (mul : Dict R → Dict R → Except Err (Dict R)) (a : Dict R) (p : Nat) :
    Except Err (Dict R) :=
  powWith true mul a p

/-! ### `UIntDict::mul` : Kronecker substitution -/

/-- `bit_length` : `while (t > 0) { count++; t = t >> 1; }` -/
def bitLength (t : Nat) : Nat :=
  if h : t = 0 then 0 else bitLength (t / 2) + 1
termination_by t
decreasing_by omega

/-- `UIntDict::max_abs_coef` (as a natural number); starts from `dict_.begin()->second`. -/
def maxAbsCoef : Dict Int → Except Err Nat
  | [] => .error .oob
  | (k, c) :: t => .ok (((k, c) :: t).foldl (fun cur p => if p.2.natAbs > cur then p.2.natAbs else cur) c.natAbs)

/-- the reverse-iteration loop of `UIntDict::eval_bit` with its epilogue `result <<= x * last_deg` -/
def evalBitLoop (x : Nat) : List (Nat × Int) → Nat → Int → Int
  | [], last, res => res <<< (x * last)
  | (k, c) :: t, last, res => evalBitLoop x t k (res <<< (x * (last - k)) + c)

/-- `UIntDict::eval_bit` : the value at `2^x`; reads `dict_.rbegin()->first` first. -/
def evalBit (d : Dict Int) (x : Nat) : Except Err Int :=
  match d.reverse with
  | [] => .error .oob
  | (k, c) :: t => .ok (evalBitLoop x ((k, c) :: t) k 0)

theorem decode_dec (sval n : Nat) : sval >>> (n + 1) ≤ sval / 2 := by
  rw [Nat.shiftRight_eq_div_pow]
  apply Nat.div_le_div_left
  · have : 0 < 2 ^ n := Nat.pow_pos (by omega)
    rw [Nat.pow_succ]; omega
  · omega

theorem decode_thresh (n : Nat) : (0 &&& ((1 <<< (n + 1)) - 1)) < (1 <<< (n + 1)) / 2 := by
  have : 0 < 2 ^ n := Nat.pow_pos (by omega)
  simp only [Nat.zero_and, Nat.shiftLeft_eq, Nat.one_mul, Nat.pow_succ]
  omega

/-- the decoding loop of `UIntDict::mul` for `N = n + 1`:
    `while (s_val != 0 or carry != 0)`; `sgn` is the C++ variable `mul`. -/
def decode (n : Nat) (sgn : Int) (sval carry deg : Nat) (r : Dict Int) : Dict Int :=
  if h : sval = 0 ∧ carry = 0 then r
  else
    if h2 : (sval &&& ((1 <<< (n + 1)) - 1)) < (1 <<< (n + 1)) / 2 then
      let res : Int := sgn * (((sval &&& ((1 <<< (n + 1)) - 1) : Nat) : Int) + (carry : Int))
      decode n sgn (sval >>> (n + 1)) 0 (deg + 1) (if res ≠ 0 then setKey r deg res else r)
    else
      let res : Int := sgn * (((sval &&& ((1 <<< (n + 1)) - 1) : Nat) : Int) - ((1 <<< (n + 1) : Nat) : Int) + (carry : Int))
      decode n sgn (sval >>> (n + 1)) 1 (deg + 1) (if res ≠ 0 then setKey r deg res else r)
termination_by 2 * sval + carry
decreasing_by
  · have hd := decode_dec sval n
    omega
  · have hd := decode_dec sval n
    by_cases hs : sval = 0
    · subst hs
      exact absurd (decode_thresh n) h2
    · omega

/-- `UIntDict::mul`.  `guard = true`: the repaired code returns the empty operand first (as
    `ODictWrapper::mul` does); `extra = 1`: the repaired code reserves one more bit per digit
    (`N = … + 1`) so that signed digits fit.  The code as found is `kmulWith false 0`. -/
def kmulWith (guard : Bool) (extra : Nat) (a b : Dict Int) : Except Err (Dict Int) :=
  if guard && a.isEmpty then .ok a
  else if guard && b.isEmpty then .ok b
  else
    match maxAbsCoef a, maxAbsCoef b with
    | .error e, _ => .error e
    | _, .error e => .error e
    | .ok ma, .ok mb =>
      let N := bitLength (min (degree a + 1) (degree b + 1)) + bitLength ma + bitLength mb + extra
      match evalBit a N, evalBit b N with
      | .error e, _ => .error e
      | _, .error e => .error e
      | .ok ea, .ok eb =>
        let s : Int := ea * eb
        let sgn : Int := if s < 0 then -1 else 1
        match N with
        | 0 => if s = 0 then .ok [] else .error .hang
        | n + 1 => .ok (decode n sgn s.natAbs 0 0 [])

/-- `UIntDict::mul` as repaired -/
def kmul (a b : Dict Int) : Except Err (Dict Int) := kmulWith true 1 a b

/-- `UIntDict::mul` as found -/
def kmulOrig (a b : Dict Int) : Except Err (Dict Int) := kmulWith false 0 a b

/-- `ODictWrapper::mul` seen as a `Wrapper::mul` -/
def gmul {R : Type} [Zero R] [Add R] [Mul R] [DecidableEq R] (a b : Dict R) : Except Err (Dict R) :=
  .ok (mulGeneric a b)

/-! ### `divides_upoly` -/

/-- loop condition of `divides_upoly`.  `fixed = true`: `!b.empty() and b.degree() >= a.degree()`;
    `fixed = false` (as found): `b_poly.size() >= a_poly.size()` — the number of *terms*. -/
def divCond {R : Type} (fixed : Bool) (a b : Dict R) : Bool :=
  if fixed then !b.isEmpty && degree b ≥ degree a else b.length ≥ a.length

/-- the `while` loop of `divides_upoly`; `fuel` bounds the iterations (`degree b + 2` suffices,
    theorem `divides_no_hang`). `divExact x y` is `mp_tdiv_qr` + `r != 0` test, resp. `x / y`. -/
def dividesLoop {R : Type} [Zero R] [Sub R] [Neg R] [DecidableEq R] (fixed : Bool)
    (mul : Dict R → Dict R → Except Err (Dict R)) (divExact : R → R → Option R) (a : Dict R) :
    Nat → Dict R → Dict R → Except Err (Option (Dict R))
  | 0, _, _ => .error .hang
  | fuel + 1, b, res =>
    if divCond fixed a b then
      let aDeg := degree a
      let bDeg := degree b
      match divExact (getLc b) (getLc a) with
      | none => .ok none
      | some q =>
        if bDeg < aDeg then .error .wrap
        else
          let res' := setKey res (bDeg - aDeg) q
          let tmp : Dict R := fromMap [(bDeg - aDeg, q)]
          match mul a tmp with
          | .error e => .error e
          | .ok prod => dividesLoop fixed mul divExact a fuel (sub b prod) res'
    else if b.isEmpty then .ok (some (fromMap res))
    else .ok none

/-- `divides_upoly(a, b, out)`: `some q` = `true` with `*out = q`, `none` = `false`. -/
def dividesWith {R : Type} [Zero R] [Sub R] [Neg R] [DecidableEq R] (fixed : Bool)
    (mul : Dict R → Dict R → Except Err (Dict R)) (divExact : R → R → Option R)
    (a b : Dict R) : Except Err (Option (Dict R)) :=
  if a.isEmpty then .ok none
  else dividesLoop fixed mul divExact a (degree b + 2) b []

def divExactInt (x y : Int) : Option Int :=
  if Int.tmod x y = 0 then some (Int.tdiv x y) else none

def divExactRat (x y : Rat) : Option Rat := some (x / y)

/-- `UExprPoly::eval`: `for (p : dict) ans += p.second * pow(x, p.first)` -/
def evalSum {R : Type} [Zero R] [One R] [Add R] [Mul R] (d : Dict R) (x : R) : R :=
  d.foldl (fun ans p => ans + p.2 * rpow x p.1) 0

/-! ### The operations of the public classes, as the driver runs them

Monomorphic instances of the functions above (core-Lean arithmetic on `Int` and `Rat`); the
theorems in `Props/C21.lean` are stated about exactly these constants. -/

/-- the operations of one polynomial class, as functions on dictionaries -/
structure Ops (R : Type) where
  addU : Dict R → Dict R → Dict R                                  -- add_upoly
  subU : Dict R → Dict R → Dict R                                  -- sub_upoly
  negU : Dict R → Dict R                                           -- neg_upoly
  mulU : Dict R → Dict R → Except Err (Dict R)                     -- mul_upoly (operator*=)
  powU : Dict R → Nat → Except Err (Dict R)                        -- pow_upoly
  dividesU : Option (Dict R → Dict R → Except Err (Option (Dict R)))  -- divides_upoly
  evalU : Dict R → R → Except Err R                                -- eval
  diffU : Dict R → Dict R                                          -- diff w.r.t. the generator
  coeffU : Dict R → Nat → R                                        -- get_coeff
  degreeU : Dict R → Nat                                           -- get_degree
  lcU : Dict R → R                                                 -- get_lc
  fromDictU : Dict R → Dict R                                      -- from_dict

namespace UInt
def addU (a b : Dict Int) : Dict Int := add a b
def subU (a b : Dict Int) : Dict Int := sub a b
def negU (a : Dict Int) : Dict Int := neg a
def mulU (a b : Dict Int) : Except Err (Dict Int) := mulAssign kmul a b
def powU (a : Dict Int) (p : Nat) : Except Err (Dict Int) := pow kmul a p
def dividesU (a b : Dict Int) : Except Err (Option (Dict Int)) := dividesWith true kmul divExactInt a b
def evalU (a : Dict Int) (x : Int) : Except Err Int := eval a x
def diffU (a : Dict Int) : Dict Int := diff a
def coeffU (a : Dict Int) (k : Nat) : Int := getCoeff a k
def degreeU (a : Dict Int) : Nat := degree a
def lcU (a : Dict Int) : Int := getLc a
def fromDictU (m : Dict Int) : Dict Int := fromMap m
def ops : Ops Int :=
  { addU := addU, subU := subU, negU := negU, mulU := mulU, powU := powU, dividesU := some dividesU,
    evalU := evalU, diffU := diffU, coeffU := coeffU, degreeU := degreeU, lcU := lcU,
    fromDictU := fromDictU }
end UInt

namespace URat
def addU (a b : Dict Rat) : Dict Rat := add a b
def subU (a b : Dict Rat) : Dict Rat := sub a b
def negU (a : Dict Rat) : Dict Rat := neg a
def mulU (a b : Dict Rat) : Except Err (Dict Rat) := mulAssign gmul a b
def powU (a : Dict Rat) (p : Nat) : Except Err (Dict Rat) := pow gmul a p
def dividesU (a b : Dict Rat) : Except Err (Option (Dict Rat)) := dividesWith true gmul divExactRat a b
def evalU (a : Dict Rat) (x : Rat) : Except Err Rat := eval a x
def diffU (a : Dict Rat) : Dict Rat := diff a
def coeffU (a : Dict Rat) (k : Nat) : Rat := getCoeff a k
def degreeU (a : Dict Rat) : Nat := degree a
def lcU (a : Dict Rat) : Rat := getLc a
def fromDictU (m : Dict Rat) : Dict Rat := fromMap m
def ops : Ops Rat :=
  { addU := addU, subU := subU, negU := negU, mulU := mulU, powU := powU, dividesU := some dividesU,
    evalU := evalU, diffU := diffU, coeffU := coeffU, degreeU := degreeU, lcU := lcU,
    fromDictU := fromDictU }
end URat

/- `UExprPoly` restricted to integer coefficients (`Expression` arithmetic on `Integer`s is
   integer arithmetic) and non-negative exponents: schoolbook `mul`, its own `eval`, no
   `divides_upoly`. -/
namespace UExpr
def mulU (a b : Dict Int) : Except Err (Dict Int) := mulAssign gmul a b
def powU (a : Dict Int) (p : Nat) : Except Err (Dict Int) := pow gmul a p
def evalU (a : Dict Int) (x : Int) : Except Err Int := .ok (evalSum a x)
def ops : Ops Int :=
  { UInt.ops with mulU := mulU, powU := powU, dividesU := none, evalU := evalU }
end UExpr

end SymVerif.UPoly
