/-
Model of the boolean simplifier in symengine/logic.cpp:

* `notB`      – `logical_not` with the per-class overrides (`BooleanAtom`, `Equality`/`Unequality`,
                `LessThan`/`StrictLessThan` flips, `And`/`Or` De Morgan via `make_rcp`, `Not` elimination,
                default `Boolean::logical_not` = `Not(this)` for `Contains` and `Xor`);
* `andOr`     – the `and_or<And/Or>` template (absorbing / identity constants, one-level flattening,
                complementary-literal detection through `logical_not`, 0/1/n result);
                the FiniteSet-domain rule of `and_or<And>` is modelled by `andD` for argument sets with exactly one
                `Contains(x, FiniteSet)` conjunct (with several, the C++ takes the first in hash order: `andD` answers
                `none` = not modelled); `substB` models `SubsVisitor` for `x := integer`;
* `xorE`      – `logical_xor` (constant parity, flattening of `Xor` arguments, duplicate cancellation,
                complementary cancellation with a parity flip, 0/1/n result, outer `Not` for odd parity);
* `nandE/norE/xnorE`, `piecewise`.

Atoms are opaque: `rel i neg` stands for a relational over its own symbols and its complementary relational
(`Lt(x,y)`/`Le(y,x)`, `Eq`/`Ne`) – exactly the objects `Relational::logical_not` maps onto each other;
`mem i` stands for a `Contains(expr,set)` object, negated only through a `Not` node.
Atoms over the distinguished symbol `x` carry arithmetic meaning, needed by the FiniteSet-domain rule:
`rel i _` with `i ≥ 8` encodes `x<c`/`x>=c`, `x<=c`/`x>c`, `x=c`/`x!=c` (`xrelSem`), `mem i` with `i ≥ 4` encodes
`Contains(x, Interval[lo,hi])` (`xmemSem`), and `fs l` is `Contains(x, FiniteSet l)` (integer elements, ascending).

The C++ containers are `std::set<RCP<const Boolean>, RCPBasicKeyLess>` (hash order).  The model keeps every
argument list strictly sorted by the structural key `enc` so that structural equality of model terms is set
equality, like `And::__eq__`; no modelled result depends on the iteration order (the absorbing-constant early
return and the complementary-pair return produce the same constant whatever element is met first; `logical_xor`
consumes its *vector* argument in the given order, which the op line fixes).

Core Lean only: this file is linked into the native driver.
-/
namespace SymVerif.Logic

inductive B where
  | tt | ff
  | rel (id : Nat) (neg : Bool)
  | mem (id : Nat)
  | fs (l : List Int)
  | and (l : List B)
  | or (l : List B)
  | xor (l : List B)
  | not (b : B)
  deriving Repr, Inhabited

namespace B

/-! ### decidable equality (`eq(*a, *b)` of the C++) -/
mutual
def beq : B → B → Bool
  | tt, tt => true
  | ff, ff => true
  | rel i n, rel j m => i == j && n == m
  | mem i, mem j => i == j
  | fs l, fs r => l == r
  | and l, and r => beqL l r
  | or l, or r => beqL l r
  | xor l, xor r => beqL l r
  | not a, not b => beq a b
  | _, _ => false
def beqL : List B → List B → Bool
  | [], [] => true
  | a :: l, b :: r => beq a b && beqL l r
  | _, _ => false
end

mutual
theorem beq_eq : ∀ (a b : B), beq a b = true → a = b
  | tt, b => by cases b <;> simp [beq]
  | ff, b => by cases b <;> simp [beq]
  | rel i n, b => by cases b <;> simp [beq]
  | mem i, b => by cases b <;> simp [beq]
  | fs l, b => by cases b <;> simp [beq]
  | and l, b => by cases b <;> simp [beq]; exact beqL_eq l _
  | or l, b => by cases b <;> simp [beq]; exact beqL_eq l _
  | xor l, b => by cases b <;> simp [beq]; exact beqL_eq l _
  | not a, b => by cases b <;> simp [beq]; exact beq_eq a _
theorem beqL_eq : ∀ (l r : List B), beqL l r = true → l = r
  | [], r => by cases r <;> simp [beqL]
  | a :: l, r => by
    cases r with
    | nil => simp [beqL]
    | cons b r => simp [beqL]; exact fun h1 h2 => ⟨beq_eq a b h1, beqL_eq l r h2⟩
end

mutual
theorem beq_refl : ∀ (a : B), beq a a = true
  | tt => by simp [beq]
  | ff => by simp [beq]
  | rel i n => by simp [beq]
  | mem i => by simp [beq]
  | fs l => by simp [beq]
  | and l => by simp [beq]; exact beqL_refl l
  | or l => by simp [beq]; exact beqL_refl l
  | xor l => by simp [beq]; exact beqL_refl l
  | not a => by simp [beq]; exact beq_refl a
theorem beqL_refl : ∀ (l : List B), beqL l l = true
  | [] => by simp [beqL]
  | a :: l => by simp [beqL]; exact ⟨beq_refl a, beqL_refl l⟩
end

instance : DecidableEq B := fun a b =>
  if h : beq a b = true then isTrue (beq_eq a b h)
  else isFalse (fun e => h (e ▸ beq_refl a))

/-! ### the container order (stands for `RCPBasicKeyLess`; any strict total order gives the same results) -/
def encInt (a : Int) : Nat := 2 * a.natAbs + (if a < 0 then 1 else 0)
def encInts : List Int → List Nat
  | [] => [0]
  | a :: l => 1 :: encInt a :: encInts l

mutual
def enc : B → List Nat
  | tt => [0]
  | ff => [1]
  | rel i n => [2, i, if n then 1 else 0]
  | mem i => [3, i]
  | fs l => 8 :: encInts l
  | and l => 4 :: encL l
  | or l => 5 :: encL l
  | xor l => 6 :: encL l
  | not b => 7 :: enc b
def encL : List B → List Nat
  | [] => [0]
  | a :: l => 1 :: (enc a ++ encL l)
end

def lt (a b : B) : Bool := decide (enc a < enc b)

end B

open B

/-- `std::set::insert` position for an element known to be absent -/
def insSorted (a : B) : List B → List B
  | [] => [a]
  | b :: t => if B.lt a b then a :: b :: t else b :: insSorted a t

/-- `std::set::insert` -/
def ins (a : B) (l : List B) : List B := if a ∈ l then l else insSorted a l

/-- `set.insert(first, last)` -/
def insAll : List B → List B → List B
  | [], acc => acc
  | a :: s, acc => insAll s (ins a acc)

def const (b : Bool) : B := if b then .tt else .ff

/-! ### `logical_not` -/
mutual
def notB : B → B
  | .tt => .ff                       -- BooleanAtom::logical_not
  | .ff => .tt
  | .rel i n => .rel i (!n)          -- Equality<->Unequality, LessThan(a,b)<->StrictLessThan(b,a)
  | .mem i => .not (.mem i)          -- Boolean::logical_not (default): make_rcp<Not>(this)
  | .fs l => .not (.fs l)            -- default
  | .and l => .or (insAll (notL l) [])   -- And::logical_not: make_rcp<Or>({logical_not(a)…})
  | .or l => .and (insAll (notL l) [])   -- Or::logical_not
  | .xor l => .not (.xor l)          -- default
  | .not b => b                      -- Not::logical_not
def notL : List B → List B
  | [] => []
  | a :: l => notB a :: notL l
end

/-! ### `and_or<caller>(s, op_x_notx)`; `isOr = op_x_notx` -/

/-- first loop: `none` = an absorbing constant was met (`return boolean(op_x_notx)`) -/
def collect (isOr : Bool) : List B → List B → Option (List B)
  | [], args => some args
  | a :: s, args =>
    match a with
    | .tt => if isOr then none else collect isOr s args
    | .ff => if isOr then collect isOr s args else none
    | .and l => if isOr then collect isOr s (ins a args) else collect isOr s (insAll l args)
    | .or l => if isOr then collect isOr s (insAll l args) else collect isOr s (ins a args)
    | _ => collect isOr s (ins a args)

/-- second loop: `args.find(logical_not(a)) != args.end()` for some `a` -/
def hasCompl (args : List B) : Bool := args.any (fun a => decide (notB a ∈ args))

def andOr (isOr : Bool) (s : List B) : B :=
  match collect isOr s [] with
  | none => const isOr
  | some args =>
    if hasCompl args then const isOr
    else
      match args with
      | [] => const (!isOr)
      | [a] => a
      | _ => if isOr then .or args else .and args

def orE (s : List B) : B := andOr true s
def norE (s : List B) : B := notB (orE s)

/-! ### `logical_xor` -/

/-- the find / erase / insert step on `(args, nots % 2)` -/
def xorStep (st : List B × Bool) (a : B) : List B × Bool :=
  if a ∈ st.1 then (st.1.erase a, st.2)
  else if notB a ∈ st.1 then (st.1.erase (notB a), !st.2)
  else (insSorted a st.1, st.2)

def xorSteps : List B → List B × Bool → List B × Bool
  | [], st => st
  | a :: l, st => xorSteps l (xorStep st a)

def xorLoop : List B → List B × Bool → List B × Bool
  | [], st => st
  | a :: s, st =>
    match a with
    | .tt => xorLoop s (st.1, !st.2)
    | .ff => xorLoop s st
    | .xor l => xorLoop s (xorSteps l st)
    | _ => xorLoop s (xorStep st a)

def xorFinish (st : List B × Bool) : B :=
  if st.2 then
    match st.1 with
    | [] => .tt
    | [a] => notB a
    | args => .not (.xor args)
  else
    match st.1 with
    | [] => .ff
    | [a] => a
    | args => .xor args

def xorE (s : List B) : B := xorFinish (xorLoop s ([], false))
def xnorE (s : List B) : B := notB (xorE s)

/-! ### substitution `x := e` (SubsVisitor on Boolean classes) and the FiniteSet-domain rule of `and_or<And>` -/

/-- value at `x = e` of the positive form of the x-relational with code `j`:
`j % 3 = 0`: `x < c`, `1`: `x <= c`, `2`: `x = c`, with `c = j / 3 - 16` -/
def xrelSem (j : Nat) (e : Int) : Bool :=
  let c : Int := ((j / 3 : Nat) : Int) - 16
  if j % 3 = 0 then decide (e < c) else if j % 3 = 1 then decide (e ≤ c) else decide (e = c)

/-- value at `x = e` of `Contains(x, Interval[lo,hi])` with code `j`: `lo = j % 64 - 16`, `hi = j / 64 - 16` -/
def xmemSem (j : Nat) (e : Int) : Bool :=
  decide ((((j % 64 : Nat) : Int) - 16 ≤ e) ∧ (e ≤ ((j / 64 : Nat) : Int) - 16))

mutual
/-- `b->subs({x: e})`: atoms over `x` evaluate, every compound is rebuilt through its `logical_*` function -/
def substB (e : Int) : B → B
  | .tt => .tt
  | .ff => .ff
  | .rel i n => if 8 ≤ i then const (xrelSem (i - 8) e ^^ n) else .rel i n
  | .mem i => if 4 ≤ i then const (xmemSem (i - 4) e) else .mem i
  | .fs l => const (decide (e ∈ l))            -- FiniteSet::contains(number)
  | .and l => andOr false (substL e l)         -- after the substitution no FiniteSet conjunct is left
  | .or l => andOr true (substL e l)
  | .xor l => xorE (substL e l)
  | .not b => notB (substB e b)
def substL (e : Int) : List B → List B
  | [] => []
  | a :: l => substB e a :: substL e l
end

def isFS : B → Bool
  | .fs _ => true
  | _ => false

/-- `finiteset(present)->contains(sym)` for a symbol and integer elements -/
def fsContains (l : List Int) : B := if l.isEmpty then .ff else .fs l

/-- `eq(*contain, *boolean(true))` / `eq(*contain, *boolean(false))` / neither -/
inductive Cls where
  | t | f | other
  deriving DecidableEq, Repr

def classify (e : Int) (restCond : B) : Cls :=
  match substB e restCond with
  | .tt => .t
  | .ff => .f
  | _ => .other

/-- the tail of `and_or<And>`: 0 / 1 / n arguments -/
def finishAnd (args : List B) : B :=
  match args with
  | [] => .tt
  | [a] => a
  | _ => .and args

/-- `and_or<And>(s, false)` including the FiniteSet-domain rule.  `none`: fuel exhausted (never with fuel ≥ 3) or
several `Contains(x, FiniteSet)` conjuncts (result depends on the hash order; not modelled). -/
def andD : Nat → List B → Option B
  | 0, _ => none
  | fuel + 1, s =>
    match collect false s [] with
    | none => some .ff
    | some args =>
      if hasCompl args then some .ff
      else
        match args.filter isFS with
        | [] => some (finishAnd args)
        | [.fs fset] =>
          if fset.isEmpty then some (finishAnd args)      -- no Number element: `break`
          else
            let restCond := andOr false (args.erase (.fs fset))
            let present := fset.filter (fun e => classify e restCond != .f)
            let symexists := fset.any (fun e => classify e restCond == .other)
            if !symexists then some (fsContains present)
            else if present.length != fset.length then andD fuel [fsContains present, restCond]
            else some (finishAnd args)
        | _ => none

def andFuel : Nat := 4
def andE (s : List B) : Option B := andD andFuel s
def nandE (s : List B) : Option B := (andE s).map notB

/-! ### `piecewise(vec)`; expressions are opaque ids -/

inductive Err where
  | domain      -- DomainError("piecewise undefined for this domain.")
  deriving Repr, DecidableEq

def pwPrune : List (Nat × B) → List B → List (Nat × B)
  | [], _ => []
  | (e, c) :: t, seen =>
    if c = .ff then pwPrune t seen
    else if c = .tt then [(e, c)]
    else if c ∈ seen then pwPrune t seen
    else (e, c) :: pwPrune t (c :: seen)

inductive PW where
  | expr (e : Nat)                 -- a single `true` branch collapses to its expression
  | pw (l : List (Nat × B))        -- make_rcp<Piecewise>
  deriving Repr

def piecewise (vec : List (Nat × B)) : Except Err PW :=
  match pwPrune vec [] with
  | [] => .error .domain
  | [(e, .tt)] => .ok (.expr e)
  | l => .ok (.pw l)

/-! ### recipes: formulas built bottom-up through the API (what one `f` op line denotes) -/

inductive Op where
  | and | or | xor | not | nand | nor | xnor
  deriving Repr, DecidableEq

inductive R where
  | leaf (b : B)                    -- `T`, `F`, an atom in either polarity
  | node (op : Op) (ch : List R)
  deriving Repr

/-- one API call on already built arguments; `none` = malformed recipe (`not` with ≠ 1 argument) -/
def apply (op : Op) (args : List B) : Option B :=
  match op with
  | .and => andE args
  | .or => some (orE args)
  | .nand => nandE args
  | .nor => some (norE args)
  | .xor => some (xorE args)
  | .xnor => some (xnorE args)
  | .not => match args with
    | [a] => some (notB a)
    | _ => none

mutual
def build : R → Option B
  | .leaf b => some b
  | .node op ch =>
    match buildL ch with
    | none => none
    | some args => apply op args
def buildL : List R → Option (List B)
  | [] => some []
  | r :: rs =>
    match build r, buildL rs with
    | some b, some bs => some (b :: bs)
    | _, _ => none
end

end SymVerif.Logic
