/-
C08: the closed-form language of the special-angle tables of functions.cpp/constants.cpp and
exact arithmetic in the field Q(√2, √3) (basis 1, √2, √3, √6), which contains every value of
`sin_table()` and every quotient of two of its entries.  Core Lean only (linked into drv_c08).

* `Recipe` is the constructor language in which the C++ sources write the table entries
  (`div(sub(sq3, one), mul(i2, sq2))` …); `Gen/TrigTables.lean` is generated from the sources.
* `Surd` = a + b√2 + c√3 + d√6 with rational coordinates; `Recipe.evalS` evaluates a recipe
  exactly when it stays inside that field (`none` otherwise, e.g. for the √5 entries of the
  inverse tables).  Soundness w.r.t. the real semantics is `Lemmas/C08Surd.lean`.
-/
namespace SymVerif.Funcs

inductive Recipe where
  | int (n : Int)
  | add (a b : Recipe)
  | sub (a b : Recipe)
  | mul (a b : Recipe)
  | div (a b : Recipe)
  | pow (a b : Recipe)
  | sqrt (a : Recipe)
  deriving Repr, Inhabited, DecidableEq

/-- `a + b√2 + c√3 + d√6` -/
structure Surd where
  a : Rat
  b : Rat
  c : Rat
  d : Rat
  deriving DecidableEq, Repr, Inhabited

namespace Surd

def ofRat (q : Rat) : Surd := ⟨q, 0, 0, 0⟩
def zero : Surd := ofRat 0
def one : Surd := ofRat 1
def add (x y : Surd) : Surd := ⟨x.a + y.a, x.b + y.b, x.c + y.c, x.d + y.d⟩
def neg (x : Surd) : Surd := ⟨-x.a, -x.b, -x.c, -x.d⟩
def sub (x y : Surd) : Surd := ⟨x.a - y.a, x.b - y.b, x.c - y.c, x.d - y.d⟩
def smul (q : Rat) (x : Surd) : Surd := ⟨q * x.a, q * x.b, q * x.c, q * x.d⟩

/-- √2·√3 = √6, √2·√6 = 2√3, √3·√6 = 3√2 -/
def mul (x y : Surd) : Surd :=
  ⟨x.a * y.a + 2 * (x.b * y.b) + 3 * (x.c * y.c) + 6 * (x.d * y.d),
   x.a * y.b + x.b * y.a + 3 * (x.c * y.d + x.d * y.c),
   x.a * y.c + x.c * y.a + 2 * (x.b * y.d + x.d * y.b),
   x.a * y.d + x.d * y.a + x.b * y.c + x.c * y.b⟩

/-- the conjugate √3 ↦ -√3 -/
def conj3 (x : Surd) : Surd := ⟨x.a, x.b, -x.c, -x.d⟩
/-- the conjugate √2 ↦ -√2 -/
def conj2 (x : Surd) : Surd := ⟨x.a, -x.b, x.c, -x.d⟩

/-- the rational norm `x · conj3 x · conj2 (x · conj3 x)` -/
def norm (x : Surd) : Rat :=
  let n3 := mul x (conj3 x)
  n3.a * n3.a - 2 * (n3.b * n3.b)

/-- `1/x`; `none` when the norm vanishes (x = 0) -/
def inv? (x : Surd) : Option Surd :=
  let n3 := mul x (conj3 x)
  let n := n3.a * n3.a - 2 * (n3.b * n3.b)
  if n = 0 then none
  else some (smul (1 / n) (mul (conj3 x) (conj2 n3)))

def div? (x y : Surd) : Option Surd := (inv? y).map (mul x)

def isZero (x : Surd) : Bool := x.a == 0 && x.b == 0 && x.c == 0 && x.d == 0

def npow (x : Surd) : Nat → Surd
  | 0 => one
  | n + 1 => mul (npow x n) x

def isRat (x : Surd) : Bool := x.b == 0 && x.c == 0 && x.d == 0

/-- exact square root of a non-negative rational, if it is the square of a rational -/
def ratSqrt? (q : Rat) : Option Rat :=
  if q < 0 then none
  else
    let n := q.num.toNat
    let d := q.den
    let sn := Nat.sqrt n
    let sd := Nat.sqrt d
    if sn * sn == n && sd * sd == d && sd != 0 then some (mkRat sn sd) else none

/-- `√q` for a rational `q = s²·t`, `t ∈ {1, 2, 3, 6}` -/
def sqrtRat? (q : Rat) : Option Surd :=
  match ratSqrt? q with
  | some s => some ⟨s, 0, 0, 0⟩
  | none =>
    match ratSqrt? (q / 2) with
    | some s => some ⟨0, s, 0, 0⟩
    | none =>
      match ratSqrt? (q / 3) with
      | some s => some ⟨0, 0, s, 0⟩
      | none =>
        match ratSqrt? (q / 6) with
        | some s => some ⟨0, 0, 0, s⟩
        | none => none

def ratStr (q : Rat) : String := if q.den == 1 then toString q.num else s!"{q.num}/{q.den}"

/-- wire format shared with harness/c08.cpp -/
def render (x : Surd) : String := s!"V {ratStr x.a} {ratStr x.b} {ratStr x.c} {ratStr x.d}"

end Surd

namespace Recipe

/-- exact value in Q(√2,√3); `none` outside the field, on a division by zero, a non-integer exponent -/
def evalS : Recipe → Option Surd
  | .int n => some (Surd.ofRat n)
  | .add a b => do let x ← evalS a; let y ← evalS b; pure (Surd.add x y)
  | .sub a b => do let x ← evalS a; let y ← evalS b; pure (Surd.sub x y)
  | .mul a b => do let x ← evalS a; let y ← evalS b; pure (Surd.mul x y)
  | .div a b => do let x ← evalS a; let y ← evalS b; Surd.div? x y
  | .pow a b => do
    let x ← evalS a
    let y ← evalS b
    if y.isRat && y.a.den == 1 then
      if y.a.num ≥ 0 then pure (Surd.npow x y.a.num.toNat)
      else (Surd.inv? x).map (fun i => Surd.npow i y.a.num.natAbs)
    else none
  | .sqrt a => do
    let x ← evalS a
    if x.isRat then Surd.sqrtRat? x.a else none

end Recipe
end SymVerif.Funcs
