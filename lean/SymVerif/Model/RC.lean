/-
Model of the intrusive reference-count protocol of symengine/symengine_rcp.h
(`RCP<T>`, `EnableRCPFromThis<T>::refcount_`, `make_rcp`, `rcp_from_this`) and of
the `use_count() == 1` dictionary steal in `Add::from_dict` (symengine/add.cpp).

State = heap objects (index = allocation order; an id is never reused) each with the
`refcount_` field, the list of `RCP` members it stores (`children`, one entry per stored
handle, object ids) and a `live` flag (false after `delete`), plus the program's handle
slots (`RCP` variables; `none` = null / moved-from / destroyed).

Every place where the C++ would have undefined behaviour is an explicit error:
  * `useAfterFree`   a count or member of a deleted object is read or written
  * `doubleFree`     a reference to an already deleted object is released
  * `negativeCount`  `--refcount_` on a live object whose count is 0 (unsigned wrap)
  * `badOp`          the *program* is ill-formed (unknown handle slot, null dereference,
                     member index out of range) — not a library fault
  * `fuel`           cannot happen: the destructor cascade ran out of fuel

`delete ptr_` runs `~T`, which destroys the stored `RCP` members, which may delete
further objects.  The cascade is modelled with an explicit work list (`release`): the
order in which the members are released differs from the C++ recursion only by a
permutation, which is unobservable because released objects do not refer to handles.
For the same reason `reset`/`destroy`/`assign` null the handle slot *before* releasing.

Core Lean only: this file is linked into the native driver.
-/
namespace SymVerif.RC

inductive Err where
  | useAfterFree
  | doubleFree
  | negativeCount
  | badOp
  | fuel
  deriving Repr, DecidableEq

structure Obj where
  count : Nat            -- refcount_
  children : List Nat    -- stored RCP members (object ids), one entry per stored handle
  live : Bool            -- false once deleted
  deriving Repr, DecidableEq

structure State where
  objs : List Obj
  handles : List (Option Nat)
  deriving Repr, DecidableEq

def init : State := { objs := [], handles := [] }

/-- overwrite object `o` -/
def setObj (s : State) (o : Nat) (ob : Obj) : State := { s with objs := s.objs.set o ob }

/-- access through a raw pointer: the object must not have been deleted -/
def getObj (s : State) (o : Nat) : Except Err Obj :=
  match s.objs[o]? with
  | none => .error .useAfterFree
  | some ob => if ob.live then .ok ob else .error .useAfterFree

/-- `(ptr_->refcount_)++` -/
def incref (s : State) (o : Nat) : Except Err State :=
  match getObj s o with
  | .error e => .error e
  | .ok ob => .ok (setObj s o { ob with count := ob.count + 1 })

/-- `(ptr_->refcount_)++` for each of a list of objects (copying the arguments of a constructor) -/
def increfAll (s : State) : List Nat → Except Err State
  | [] => .ok s
  | o :: os =>
    match incref s o with
    | .error e => .error e
    | .ok s1 => increfAll s1 os

/-- Sum of all count fields: an upper bound for the length of any destructor cascade. -/
def sumCounts (s : State) : Nat := (s.objs.map (fun ob => ob.count)).sum

/-- `if (--(ptr_->refcount_) == 0) delete ptr_;` for every reference in the work list;
    deleting an object puts its stored members on the work list. -/
def release : Nat → State → List Nat → Except Err State
  | _, s, [] => .ok s
  | 0, _, _ :: _ => .error .fuel
  | f + 1, s, o :: todo =>
    match s.objs[o]? with
    | none => .error .useAfterFree
    | some ob =>
      if !ob.live then .error .doubleFree
      else if ob.count = 0 then .error .negativeCount
      else if ob.count = 1 then
        release f (setObj s o { ob with count := 0, live := false }) (ob.children ++ todo)
      else release f (setObj s o { ob with count := ob.count - 1 }) todo

/-- release one reference held from outside the heap -/
def drop (s : State) (o : Nat) : Except Err State := release (sumCounts s) s [o]

def getH (s : State) (h : Nat) : Except Err (Option Nat) :=
  match s.handles[h]? with
  | none => .error .badOp
  | some x => .ok x

/-- `operator->` / `operator*` on a handle: null is a program error -/
def deref (s : State) (h : Nat) : Except Err Nat :=
  match getH s h with
  | .error e => .error e
  | .ok none => .error .badOp
  | .ok (some o) => .ok o

def derefAll (s : State) : List Nat → Except Err (List Nat)
  | [] => .ok []
  | h :: hs =>
    match deref s h with
    | .error e => .error e
    | .ok o =>
      match derefAll s hs with
      | .error e => .error e
      | .ok os => .ok (o :: os)

def pushHandle (s : State) (x : Option Nat) : State := { s with handles := s.handles ++ [x] }
def setHandle (s : State) (h : Nat) (x : Option Nat) : State := { s with handles := s.handles.set h x }

/-- `new T(children…)` followed by `RCP<T>(p)`: the new object stores copies of the given
    references and is returned in a fresh handle with count 1. -/
def alloc (s : State) (children : List Nat) : State :=
  { objs := s.objs ++ [{ count := 1, children := children, live := true }],
    handles := s.handles ++ [some s.objs.length] }

/-- follow stored members from a live object: `get_arg()`, dictionary iteration, … -/
def resolve (s : State) (o : Nat) : List Nat → Except Err Nat
  | [] => .ok o
  | i :: path =>
    match getObj s o with
    | .error e => .error e
    | .ok ob =>
      match ob.children[i]? with
      | none => .error .badOp
      | some c => resolve s c path

inductive Op where
  | construct (cs : List Nat)          -- make_rcp<T>(args…): args are handles
  | copy (h : Nat)                      -- RCP(const RCP&): new handle
  | move (h : Nat)                      -- RCP(RCP&&): new handle, `h` becomes null
  | assign (dst src : Nat)              -- operator=(const RCP&)
  | moveAssign (dst src : Nat)          -- operator=(RCP&&): swap
  | reset (h : Nat)                     -- reset()
  | destroy (h : Nat)                   -- ~RCP()
  | rcpFromThis (h : Nat)               -- (*h).rcp_from_this(): a new handle made from the raw `this`
  | childCopy (h : Nat) (path : List Nat) -- copy of a stored member reached from `*h`
  | steal (h : Nat)                     -- Add::from_dict single-Mul branch, `h` plays the role of the dictionary entry
  deriving Repr, DecidableEq

/-- release what a handle slot pointed to (slot already overwritten) -/
def dropOpt (s : State) : Option Nat → Except Err State
  | none => .ok s
  | some o => drop s o

def step (s : State) : Op → Except Err State
  | .construct cs =>
    match derefAll s cs with
    | .error e => .error e
    | .ok os =>
      match increfAll s os with
      | .error e => .error e
      | .ok s1 => .ok (alloc s1 os)
  | .copy h =>
    match getH s h with
    | .error e => .error e
    | .ok none => .ok (pushHandle s none)
    | .ok (some o) =>
      match incref s o with
      | .error e => .error e
      | .ok s1 => .ok (pushHandle s1 (some o))
  | .move h =>
    match getH s h with
    | .error e => .error e
    | .ok x => .ok (pushHandle (setHandle s h none) x)
  | .assign dst src =>
    match getH s src, getH s dst with
    | .error e, _ => .error e
    | _, .error e => .error e
    | .ok x, .ok y =>
      -- `(r_ptr_ptr_->refcount_)++` first, then release the old target (self-assignment safe)
      let r1 : Except Err State := match x with
        | none => .ok s
        | some o => incref s o
      match r1 with
      | .error e => .error e
      | .ok s1 => dropOpt (setHandle s1 dst x) y
  | .moveAssign dst src =>
    match getH s src, getH s dst with
    | .error e, _ => .error e
    | _, .error e => .error e
    | .ok x, .ok y => .ok (setHandle (setHandle s dst x) src y)
  | .reset h =>
    match getH s h with
    | .error e => .error e
    | .ok y => dropOpt (setHandle s h none) y
  | .destroy h =>
    match getH s h with
    | .error e => .error e
    | .ok y => dropOpt (setHandle s h none) y
  | .rcpFromThis h =>
    match deref s h with
    | .error e => .error e
    | .ok o =>
      match incref s o with
      | .error e => .error e
      | .ok s1 => .ok (pushHandle s1 (some o))
  | .childCopy h path =>
    match deref s h with
    | .error e => .error e
    | .ok o =>
      match resolve s o path with
      | .error e => .error e
      | .ok c =>
        match incref s c with
        | .error e => .error e
        | .ok s1 => .ok (pushHandle s1 (some c))
  | .steal h =>
    match deref s h with
    | .error e => .error e
    | .ok o =>
      match getObj s o with
      | .error e => .error e
      | .ok ob =>
        if ob.count = 1 then
          -- `use_count() == 1`: move the members out of `*h` into the new object, then the
          -- dictionary entry `h` dies and deletes the (now empty) old object
          let s1 := setObj s o { ob with children := [] }
          drop (setHandle (alloc s1 ob.children) h none) o
        else
          -- shared: copy the members
          match increfAll s ob.children with
          | .error e => .error e
          | .ok s1 => drop (setHandle (alloc s1 ob.children) h none) o

def run (s : State) : List Op → Except Err State
  | [] => .ok s
  | op :: ops =>
    match step s op with
    | .error e => .error e
    | .ok s1 => run s1 ops

/-- The steal *without* the `use_count() == 1` guard (what the code must not do): used to
    show that the guard is what makes `steal_safe` true. -/
def stealUnguarded (s : State) (h : Nat) : Except Err State :=
  match deref s h with
  | .error e => .error e
  | .ok o =>
    match getObj s o with
    | .error e => .error e
    | .ok ob =>
      let s1 := setObj s o { ob with children := [] }
      drop (setHandle (alloc s1 ob.children) h none) o

/-! ### observations used by the driver and the theorems -/

def isLive (s : State) (o : Nat) : Bool :=
  match s.objs[o]? with
  | some ob => ob.live
  | none => false

/-- `use_count()` of a live object, 0 for a deleted / never allocated one -/
def cnt (s : State) (o : Nat) : Nat :=
  match s.objs[o]? with
  | some ob => if ob.live then ob.count else 0
  | none => 0

def childrenOf (s : State) (o : Nat) : List Nat :=
  match s.objs[o]? with
  | some ob => ob.children
  | none => []

/-- references to `o` stored in live objects -/
def parentRefs (s : State) (o : Nat) : Nat :=
  (s.objs.map (fun p => if p.live then p.children.count o else 0)).sum

/-- all references to `o`: program handles plus members of live objects -/
def refs (s : State) (o : Nat) : Nat := s.handles.count (some o) + parentRefs s o

def liveCount (s : State) : Nat := s.objs.countP (fun ob => ob.live)

end SymVerif.RC
