/-
C11 model: substitution on `SymVerif.Expr` trees, following `XReplaceVisitor` / `SubsVisitor`
(symengine/subs.h) but producing an **unsimplified** tree (the library rebuilds every node through the
smart constructors; the two are compared by the proven-sound normaliser `NF`, `Drv/C11.lean`).

  subsE pp σ e       simultaneous substitution; σ = association list key ↦ image, keys are arbitrary trees
                     (looked up with `Expr.eqb` at every visited node, as `apply` does);
                     pp = the exponent path of `SubsVisitor::bvisit(const Pow &)` is active (`subs` only)
  subsC pp σ e memo  the same traversal with the `visited` table threaded through; `subsCached` seeds the
                     table with σ itself (`XReplaceVisitor` constructor)
  special paths as coded:
    Add   a whole term `coef*key` is looked up in σ, then the bare coefficient, then the key is visited
    Mul   a whole factor `base**exp` is visited as one object (looked up first), then the coefficient
    Pow   (subs, σ = {b**k ↦ w}, k not an Add) `b'**e'` with `b' = b` and `e'/k` an *integer* becomes `w**(e'/k)`
          (as patched; the code as it is also takes rational quotients — D-C11-2 in docs/C11.md)
  Derivative / Subs nodes are not modelled (the driver answers SKIP for inputs that contain them).
Core Lean only.
-/
import SymVerif.Model.NF
import SymVerif.Model.Struct
import SymVerif.Model.Diff

namespace SymVerif
namespace Subs
open SymVerif Expr Diff

abbrev Sigma := List (Expr × Expr)

/-- `subs_dict_.find(e)` -/
def lookup (σ : Sigma) (e : Expr) : Option Expr := Memo.find σ e

/-- `Add::from_dict(zero, {{k, c}})`: the object under which a whole Add term is looked up -/
def termKey (k c : Expr) : Expr :=
  match c with
  | .int 1 => k
  | _ => Struct.termOf k c

/-! ### quotient of exponents for the Pow path -/

/-- a fraction whose numerator and denominator are proportional by a rational constant `a/b` -/
def ratioConst (f : NF.Frac) : Option (Int × Int) :=
  match f.num, f.den with
  | [], _ => none
  | (m1, c1) :: _, (m2, c2) :: _ =>
    if m1 = m2 && c1.im == 0 && c2.im == 0 && c2.re != 0
        && decide (NF.pmul f.num (NF.pconst c2) = NF.pmul f.den (NF.pconst c1)) then
      some (c1.re, c2.re)
    else none
  | _, _ => none

/-- the literal `a/b` in lowest terms (`b ≠ 0`) -/
def ratLit (a b : Int) : Expr :=
  let g := Int.gcd a b
  let s : Int := if b < 0 then -1 else 1
  let n := s * a / g
  let d := s * b / g
  if d == 1 then .int n else .rat n d.toNat

/-- `div(e', k)` when it is a number: a literal quotient -/
def expoDiv (e' k : Expr) : Option Expr :=
  match NF.firstErr e', NF.firstErr k with
  | none, none =>
    if decide ((NF.normT k).num = []) then none else
    match ratioConst (NF.divF (NF.normT e') (NF.normT k)) with
    | some (a, b) =>
      -- modelled *as patched* (docs/patches/C11_pow_path_integer_quotient.patch): `(b**k)**n = b**(k·n)` needs an
      -- integer `n`; the code as it is also accepts rational quotients (docs/C11.md, D-C11-2)
      match ratLit a b with
      | .int n => some (.int n)
      | _ => none
    | none => none
  | _, _ => none

/-- the single entry `b**k ↦ w` that activates the exponent path -/
def powKey (pp : Bool) (σ : Sigma) : Option (Expr × Expr × Expr) :=
  if pp then
    match σ with
    | [(.pow kb ke, w)] =>
      match ke with
      | .add _ _ => none
      | _ => some (kb, ke, w)
    | _ => none
  else none

/-- `bvisit(const Pow &)` on the already substituted base and exponent -/
def powNode (pp : Bool) (σ : Sigma) (b' e' : Expr) : Expr :=
  match powKey pp σ with
  | some (kb, ke, w) =>
    if Expr.eqb kb b' then
      match expoDiv e' ke with
      | some q => .pow w q
      | none => .pow b' e'
    else .pow b' e'
  | none => .pow b' e'

/-- `Mul::as_base_exp` on the stored fields -/
def asBaseExp : Expr → Expr × Expr
  | .pow x y => (x, y)
  | d => (d, .int 1)

mutual
  def subsE (pp : Bool) (σ : Sigma) : Expr → Expr
    | .add c ts =>
      match lookup σ (.add c ts) with
      | some v => v
      | none => .add (subsE pp σ c) (subsTerms pp σ ts)
    | .mul c fs =>
      match lookup σ (.mul c fs) with
      | some v => v
      | none => .mul (subsE pp σ c) (subsFacs pp σ fs)
    | .pow b e =>
      match lookup σ (.pow b e) with
      | some v => v
      | none => powNode pp σ (subsE pp σ b) (subsE pp σ e)
    | .fsym f args =>
      match lookup σ (.fsym f args) with
      | some v => v
      | none => .fsym f (subsList pp σ args)
    | .app h args =>
      match lookup σ (.app h args) with
      | some v => v
      | none => .app h (subsList pp σ args)
    | e => (lookup σ e).getD e
  def subsList (pp : Bool) (σ : Sigma) : List Expr → List Expr
    | [] => []
    | a :: t => subsE pp σ a :: subsList pp σ t
  /-- Add entries: whole term, else coefficient and key separately -/
  def subsTerms (pp : Bool) (σ : Sigma) : List (Expr × Expr) → List (Expr × Expr)
    | [] => []
    | (k, c) :: t =>
      (match lookup σ (termKey k c) with
       | some w => (w, .int 1)
       | none => (subsE pp σ k, subsE pp σ c)) :: subsTerms pp σ t
  /-- Mul entries: `base**exp` is visited as one object (`base` itself when the exponent is 1) -/
  def subsFacs (pp : Bool) (σ : Sigma) : List (Expr × Expr) → List (Expr × Expr)
    | [] => []
    | (b, e) :: t =>
      (match e with
       | .int 1 => (subsE pp σ b, .int 1)
       | _ =>
         asBaseExp (match lookup σ (.pow b e) with
           | some w => w
           | none => powNode pp σ (subsE pp σ b) (subsE pp σ e))) :: subsFacs pp σ t
end

/-! ### the `visited` table -/

mutual
  def subsC (pp : Bool) (σ : Sigma) : Expr → Memo → Expr × Memo
    | .add c ts, m => memoize (.add c ts) m fun m =>
        let rc := subsC pp σ c m
        let rt := subsCTerms pp σ ts rc.2
        (.add rc.1 rt.1, rt.2)
    | .mul c fs, m => memoize (.mul c fs) m fun m =>
        let rc := subsC pp σ c m
        let rt := subsCFacs pp σ fs rc.2
        (.mul rc.1 rt.1, rt.2)
    | .pow b e, m => memoize (.pow b e) m fun m =>
        let rb := subsC pp σ b m
        let re := subsC pp σ e rb.2
        (powNode pp σ rb.1 re.1, re.2)
    | .fsym f args, m => memoize (.fsym f args) m fun m =>
        let r := subsCList pp σ args m
        (.fsym f r.1, r.2)
    | .app h args, m => memoize (.app h args) m fun m =>
        let r := subsCList pp σ args m
        (.app h r.1, r.2)
    | e, m => memoize e m fun m => (e, m)
  termination_by structural e _ => e
  def subsCList (pp : Bool) (σ : Sigma) : List Expr → Memo → List Expr × Memo
    | [], m => ([], m)
    | a :: t, m =>
      let ra := subsC pp σ a m
      let rt := subsCList pp σ t ra.2
      (ra.1 :: rt.1, rt.2)
  termination_by structural l _ => l
  def subsCTerms (pp : Bool) (σ : Sigma) : List (Expr × Expr) → Memo → List (Expr × Expr) × Memo
    | [], m => ([], m)
    | (k, c) :: t, m =>
      match lookup σ (termKey k c) with
      | some w =>
        let rt := subsCTerms pp σ t m
        ((w, .int 1) :: rt.1, rt.2)
      | none =>
        let rk := subsC pp σ k m
        let rc := subsC pp σ c rk.2
        let rt := subsCTerms pp σ t rc.2
        ((rk.1, rc.1) :: rt.1, rt.2)
  termination_by structural l _ => l
  def subsCFacs (pp : Bool) (σ : Sigma) : List (Expr × Expr) → Memo → List (Expr × Expr) × Memo
    | [], m => ([], m)
    | (b, e) :: t, m =>
      match e with
      | .int 1 =>
        let rb := subsC pp σ b m
        let rt := subsCFacs pp σ t rb.2
        ((rb.1, .int 1) :: rt.1, rt.2)
      | _ =>
        let rf := memoize (.pow b e) m fun m =>
          let rb := subsC pp σ b m
          let re := subsC pp σ e rb.2
          (powNode pp σ rb.1 re.1, re.2)
        let rt := subsCFacs pp σ t rf.2
        (asBaseExp rf.1 :: rt.1, rt.2)
  termination_by structural l _ => l
end

/-- `subs(e, σ, cache = true)` of the model: the table starts as σ itself -/
def subsCached (pp : Bool) (σ : Sigma) (e : Expr) : Expr := (subsC pp σ e σ).1

/-! ### which inputs are modelled, and the certificate check -/

mutual
  /-- first `Derivative` / `Subs` / unsupported leaf met (`none`: modelled) -/
  def unsupported : Expr → Option String
    | .add c ts => (unsupported c).orElse fun _ => unsupportedPairs ts
    | .mul c fs => (unsupported c).orElse fun _ => unsupportedPairs fs
    | .pow b e => (unsupported b).orElse fun _ => unsupported e
    | .fsym _ args => unsupportedList args
    | .app h args =>
      if h == "Derivative" || h == "Subs" || h == "Piecewise" then some h else unsupportedList args
    | .dummy _ _ => some "Dummy"
    | .bool _ => some "Boolean"
    | _ => none
  def unsupportedList : List Expr → Option String
    | [] => none
    | a :: t => (unsupported a).orElse fun _ => unsupportedList t
  def unsupportedPairs : List (Expr × Expr) → Option String
    | [] => none
    | (k, v) :: t => (unsupported k).orElse fun _ => (unsupported v).orElse fun _ => unsupportedPairs t
end

def unsupportedSigma : Sigma → Option String
  | [] => none
  | (k, v) :: t => (unsupported k).orElse fun _ => (unsupported v).orElse fun _ => unsupportedSigma t

/-- every key is a `Symbol` -/
def symKeyed : Sigma → Bool
  | [] => true
  | (.sym _, _) :: t => symKeyed t
  | _ => false

/-- every key is a `Symbol` or an Integer / Rational literal: the model mirrors the visitor exactly on such maps
(number keys are looked up at the Add constant, the term coefficients, the Mul coefficient, exponents and leaves) -/
def simpleKeyed : Sigma → Bool
  | [] => true
  | (.sym _, _) :: t => simpleKeyed t
  | (.int _, _) :: t => simpleKeyed t
  | (.rat _ _, _) :: t => simpleKeyed t
  | _ => false

/-- a complex number key (`I`) triggers `bvisit(const ComplexBase &)`, which is not modelled -/
def hasCplxKey : Sigma → Bool
  | [] => false
  | (.cplx _ _, _) :: _ => true
  | _ :: t => hasCplxKey t

mutual
  def pureRat : Expr → Bool
    | .int _ | .rat _ _ | .sym _ => true
    | .add c ts => pureRat c && pureRatPairs ts
    | .mul c fs => pureRat c && pureRatFacs fs
    | .pow b (.int _) => pureRat b
    | _ => false
  def pureRatPairs : List (Expr × Expr) → Bool
    | [] => true
    | (k, v) :: t => pureRat k && pureRat v && pureRatPairs t
  def pureRatFacs : List (Expr × Expr) → Bool
    | [] => true
    | (b, .int _) :: t => pureRat b && pureRatFacs t
    | _ => false
end

def pureSigma : Sigma → Bool
  | [] => true
  | (k, v) :: t => pureRat k && pureRat v && pureSigma t

/-- comparison of the library's result `r` with the model's result `d` -/
def judgeNF (pure pure' : Bool) (r d : Expr) : Verdict :=
  if !Diff.affordable r d then .skip "too-large" else
  match NF.firstErr r, NF.firstErr d with
  | some err, _ => .skip ("result-" ++ err.toString)
  | _, some err => .skip ("model-" ++ err.toString)
  | none, none =>
    if NF.equivF (NF.normT r) (NF.normT d) then .ok
    else if pure && pureRat r && pureRat d then .fail "value-differs"
    else if pure' && Diff.comparable (NF.normT r) (NF.normT d) then .fail "same-atoms-value-differs"
    else .skip "atoms-differ"

/-- what the driver prints for `<mode> <cache> e k1 v1 …` with library result `r`;
`pp` = the mode is `subs` -/
def judge (pp cache : Bool) (σ : Sigma) (e r : Expr) : Verdict :=
  match (unsupported e).orElse fun _ => unsupportedSigma σ with
  | some h => .skip ("unsupported-" ++ h)
  | none =>
    if hasCplxKey σ then .skip "complex-key" else
    judgeNF (simpleKeyed σ && pureRat e && pureSigma σ) (simpleKeyed σ) r
      (if cache then subsCached pp σ e else subsE pp σ e)

end Subs
end SymVerif
