/-
Model of symengine's expression parser (C17, C18).  Core Lean only.

  symengine/parser/tokenizer.re   ->  `lexTok`, `lex`, `lexAll`      (the re2c *specification*: longest match, rule order)
  symengine/parser/parser.yy      ->  `parseExpr/parseLoop/parsePrefix/parseArgs/parsePairs`
                                      (precedence climbing; every binding power comes from the translated
                                      `%left/%right` table `Gen.Syntax.precTable`)
  symengine/parser/parser.cpp     ->  `parseNumeric` (strtol + fast_float split), `ffSplit`/`implicitMul`
                                      (parse_implicit_mul), `Parser.parse` = `parseBytes`

The buffer is a *byte list that includes the terminating NUL* (`std::string` guarantees `s[s.size()] == 0`); a
tokenizer cursor (`cur`, `mar`, `tok` in tokenizer.h are `unsigned char *`) is the **suffix** of that buffer that
starts at the pointer, so `*cur` is the head of the list and the cursor index is `buffer.length - cur.length`.
Dereferencing a cursor that stands beyond the buffer is reading the head of `[]`: the model answers `Err.oob`
instead of inventing a byte.  `Props/C18.lean` proves that `oob` is unreachable for NUL-terminated buffers.

The result of the model parser is an abstract syntax tree `PExpr`, not a canonical expression: the semantic actions
of parser.yy (`add`, `mul`, `pow`, ... the smart constructors) are *not* re-implemented here.  What the tree means
is given by `Model/ParserSem.lean` and tied to the library's canonical result by a proven-sound certificate check.
-/
import SymVerif.Gen.Syntax

namespace SymVerif
namespace Parser

abbrev Bytes := List UInt8

inductive Err where
  | oob        -- a cursor dereferenced outside the buffer (undefined behaviour in the C++)
  | parse      -- SymEngine::ParseError: unknown token, syntax error, non-Boolean operand of a logical operator
  | fuel       -- recursion fuel exhausted (cannot happen with the fuel `parseBytes` supplies)
  deriving Repr, DecidableEq, Inhabited

/-! ### character classes of tokenizer.re -/

/-- `dig = [0-9]` -/
def isDig (c : UInt8) : Bool := 48 ≤ c && c ≤ 57
/-- `char = [\x80-\xff] | [a-zA-Z_]` -/
def isAlpha (c : UInt8) : Bool := (65 ≤ c && c ≤ 90) || (97 ≤ c && c ≤ 122) || c == 95 || 128 ≤ c
/-- `char | dig` -/
def isIdCont (c : UInt8) : Bool := isAlpha c || isDig c
/-- `[ \t\v\n\r]` -/
def isWs (c : UInt8) : Bool := c == 32 || c == 9 || c == 11 || c == 10 || c == 13
/-- the single-character `operators` that never start a longer token:  `- + / ( ) , ^ ~ & |`
(`*`, `<`, `>` are handled separately because `**`, `<=`, `>=` are longer matches) -/
def isOp1 (c : UInt8) : Bool :=
  c == 45 || c == 43 || c == 47 || c == 40 || c == 41 || c == 44 || c == 94 || c == 126 || c == 38 || c == 124

inductive Tok where
  | eof                   -- END_OF_FILE
  | op (c : UInt8)        -- `operators { return tok[0]; }`
  | pow                   -- POW: `**` or `@`
  | le | ge | ne | eq     -- LE GE NE EQ
  | pwise                 -- PIECEWISE
  | ident (s : Bytes)     -- IDENTIFIER
  | num (s : Bytes)       -- NUMERIC
  | imul (s : Bytes)      -- IMPLICIT_MUL
  deriving Repr, DecidableEq, Inhabited

def pwiseText : Bytes := [80, 105, 101, 99, 101, 119, 105, 115, 101]  -- "Piecewise"

/-! ### the tokenizer -/

/-- `*cur` -/
def peek : Bytes → Except Err UInt8
  | [] => .error .oob
  | c :: _ => .ok c

/-- `while (p(*cur)) ++cur;`  returns the bytes stepped over and the new cursor -/
def scanWhile (p : UInt8 → Bool) : Bytes → Except Err (Bytes × Bytes)
  | [] => .error .oob
  | c :: r =>
    if p c then
      match scanWhile p r with
      | .ok (t, r') => .ok (c :: t, r')
      | .error e => .error e
    else .ok ([], c :: r)

/-- optional exponent `([eE][-+]?dig+)?` at the cursor.  re2c saves the cursor in `mar` when it has matched
the mantissa (an accepting state) and restores it when the exponent does not complete (`1e`, `1e+`):
the returned text is then empty and the cursor unchanged. -/
def lexExp (cur : Bytes) : Except Err (Bytes × Bytes) :=
  match cur with
  | [] => .error .oob
  | e :: c1 =>
    if e == 101 || e == 69 then
      match c1 with
      | [] => .error .oob
      | s :: c2 =>
        let sgn := s == 43 || s == 45
        match scanWhile isDig (if sgn then c2 else s :: c2) with
        | .error err => .error err
        | .ok (ds, c3) =>
          if ds.isEmpty then .ok ([], cur)                       -- cur = mar
          else .ok (e :: ((if sgn then [s] else []) ++ ds), c3)
    else .ok ([], cur)

/-- after a `numeric` match: `implicitmul = numeric ident` is the longer match when an identifier follows -/
def lexNumTail (text : Bytes) (cur : Bytes) : Except Err (Tok × Bytes) :=
  match cur with
  | [] => .error .oob
  | f :: _ =>
    if isAlpha f then
      match scanWhile isIdCont cur with
      | .ok (idt, c) => .ok (.imul (text ++ idt), c)
      | .error e => .error e
    else .ok (.num text, cur)

/-- `numeric = (dig* "."? dig+ ([eE][-+]?dig+)?) | (dig+ ".")`, then possibly `implicitmul`.
Called with the cursor on a digit or on `.`. -/
def lexNumber (cur : Bytes) : Except Err (Tok × Bytes) :=
  match scanWhile isDig cur with
  | .error e => .error e
  | .ok (a, c1) =>
    match c1 with
    | [] => .error .oob
    | d :: c1' =>
      if d == 46 then
        match scanWhile isDig c1' with
        | .error e => .error e
        | .ok (b, c2) =>
          if b.isEmpty then
            if a.isEmpty then .error .parse                      -- a lone "." : rule `*`, Unknown token
            else lexNumTail (a ++ [46]) c2                       -- `dig+ "."` has no exponent part
          else
            match lexExp c2 with
            | .error e => .error e
            | .ok (ex, c3) => lexNumTail (a ++ 46 :: b ++ ex) c3
      else
        match lexExp c1 with
        | .error e => .error e
        | .ok (ex, c3) => lexNumTail (a ++ ex) c3

/-- one token at a cursor that does not stand on whitespace -/
def lexTok : Bytes → Except Err (Tok × Bytes)
  | [] => .error .oob
  | c :: r =>
    if c == 0 then .ok (.eof, r)
    else if isDig c || c == 46 then lexNumber (c :: r)
    else if isAlpha c then
      match scanWhile isIdCont r with
      | .ok (t, r') => .ok (if c :: t = pwiseText then .pwise else .ident (c :: t), r')
      | .error e => .error e
    else if c == 42 then                                         -- "*" or "**"
      match r with
      | [] => .error .oob
      | d :: r' => if d == 42 then .ok (.pow, r') else .ok (.op 42, r)
    else if c == 64 then .ok (.pow, r)                           -- "@"
    else if c == 60 then                                         -- "<" or "<="
      match r with
      | [] => .error .oob
      | d :: r' => if d == 61 then .ok (.le, r') else .ok (.op 60, r)
    else if c == 62 then                                         -- ">" or ">="
      match r with
      | [] => .error .oob
      | d :: r' => if d == 61 then .ok (.ge, r') else .ok (.op 62, r)
    else if c == 33 then                                         -- "!=" ; a lone "!" is an unknown token
      match r with
      | [] => .error .oob
      | d :: r' => if d == 61 then .ok (.ne, r') else .error .parse
    else if c == 61 then                                         -- "==" ; a lone "=" is an unknown token
      match r with
      | [] => .error .oob
      | d :: r' => if d == 61 then .ok (.eq, r') else .error .parse
    else if isOp1 c then .ok (.op c, r)
    else .error .parse                                           -- rule `*`: Unknown token

/-- `Tokenizer::lex`: `whitespace { continue; }` then one token -/
def lex (cur : Bytes) : Except Err (Tok × Bytes) :=
  match scanWhile isWs cur with
  | .error e => .error e
  | .ok (_, c) => lexTok c

/-- all tokens up to and including END_OF_FILE (bison never calls `yylex` again after token 0) -/
def lexAll : Nat → Bytes → Except Err (List Tok)
  | 0, _ => .error .fuel
  | f + 1, cur =>
    match lex cur with
    | .error e => .error e
    | .ok (t, c) =>
      if t = .eof then .ok [.eof]
      else
        match lexAll f c with
        | .ok ts => .ok (t :: ts)
        | .error e => .error e

/-! ### abstract syntax -/

inductive BinOp where
  | add | sub | mul | div | pow | lt | gt | ne | le | ge | eq | or | and | xor
  deriving Repr, DecidableEq, Inhabited

inductive UnOp where
  | neg | pos | not
  deriving Repr, DecidableEq, Inhabited

inductive PExpr where
  | int (n : Nat)                               -- integer literal (value)
  | float (text : Bytes)                        -- decimal / exponent literal (its text)
  | ident (name : Bytes)                        -- identifier (symbol or named constant)
  | un (o : UnOp) (e : PExpr)
  | bin (o : BinOp) (a b : PExpr)
  | call (f : Bytes) (args : List PExpr)
  | pwise (pairs : List (PExpr × PExpr))        -- Piecewise((e, c), ...)
  deriving Repr, Inhabited, BEq

/-! ### numeric literals (parser.cpp: parse_numeric, parse_implicit_mul) -/

def digitVal (c : UInt8) : Nat := c.toNat - 48

/-- value of a digit string in base `b` (most significant digit first) -/
def ofDigits (b : Nat) (ds : Bytes) : Nat := ds.foldl (fun acc c => acc * b + digitVal c) 0

/-- `LONG_MAX` of the LP64 targets -/
def longMax : Nat := 2 ^ 63 - 1

/-- `std::strtol(text, &end, base)` on a NUMERIC token text (no whitespace, no sign): the number of characters
converted and the value (before clamping).  `base` is 10, or 0 = C auto-detection (`0x` cannot occur in a
NUMERIC token; a leading `0` selects octal). -/
def strtol (base : Nat) (text : Bytes) : Nat × Nat :=
  if base == 0 then
    match text with
    | 48 :: _ =>
      let ds := text.takeWhile (fun c => 48 ≤ c && c ≤ 55)
      (ds.length, ofDigits 8 ds)
    | _ =>
      let ds := text.takeWhile isDig
      (ds.length, ofDigits 10 ds)
  else
    let ds := text.takeWhile isDig
    (ds.length, ofDigits 10 ds)

/-- `Parser::parse_numeric`: an integer when `strtol` converts the whole text and there is no `.`;
on `ERANGE` the text is re-read by `integer_class` in base 10; everything else is a float literal. -/
def parseNumericB (base : Nat) (text : Bytes) : PExpr :=
  let (n, v) := strtol base text
  if !text.contains 46 && n == text.length then
    (if v ≤ longMax then .int v else .int (ofDigits 10 text))
  else .float text

def parseNumeric (text : Bytes) : PExpr := parseNumericB Gen.Syntax.numericBase text

/-- the prefix `fast_float::from_chars` converts (general format, no leading sign in a token):
`dig* ("." dig*)? ([eE][-+]?dig+)?` with at least one digit in the mantissa; returns (prefix, rest). -/
def ffSplit (text : Bytes) : Bytes × Bytes :=
  let a := text.takeWhile isDig
  let r1 := text.dropWhile isDig
  let (mant, r2) :=
    match r1 with
    | 46 :: r => (a ++ 46 :: r.takeWhile isDig, r.dropWhile isDig)
    | _ => (a, r1)
  match r2 with
  | e :: r =>
    if e == 101 || e == 69 then
      let (sg, r') :=
        match r with
        | s :: r' => if s == 43 || s == 45 then ([s], r') else ([], r)
        | [] => ([], r)
      let ds := r'.takeWhile isDig
      if ds.isEmpty then (mant, r2) else (mant ++ e :: sg ++ ds, r'.dropWhile isDig)
    else (mant, r2)
  | [] => (mant, r2)

/-- `Parser::parse_implicit_mul`: (number, symbol) ; the symbol is `one` when nothing is left -/
def implicitMul (text : Bytes) : PExpr × Option PExpr :=
  let (n, s) := ffSplit text
  (parseNumeric n, if s.isEmpty then none else some (.ident s))

/-- `leaf: IMPLICIT_MUL`  `mul(num, sym)` -/
def imulLeaf (text : Bytes) : PExpr :=
  match implicitMul text with
  | (n, some s) => .bin .mul n s
  | (n, none) => .bin .mul n (.int 1)

/-- `expr: IMPLICIT_MUL POW expr`  `mul(num, pow(sym, e))`, or `pow(num, e)` when there is no symbol -/
def imulPow (text : Bytes) (e : PExpr) : PExpr :=
  match implicitMul text with
  | (n, some s) => .bin .mul n (.bin .pow s e)
  | (n, none) => .bin .pow n e

/-! ### binding powers from the translated precedence table -/

open Gen.Syntax in
/-- 1-based index of the precedence line that declares `key`; 0 when it is not declared -/
def levelIn (tbl : List (Assoc × List String)) (key : String) : Nat :=
  let rec go : List (Assoc × List String) → Nat → Nat
    | [], _ => 0
    | (_, ks) :: t, i => if ks.contains key then i else go t (i + 1)
  go tbl 1

open Gen.Syntax in
def assocIn (tbl : List (Assoc × List String)) (key : String) : Assoc :=
  match tbl.find? (fun l => l.2.contains key) with
  | some (a, _) => a
  | none => .nonassoc

/-- the token name used in parser.yy -/
def BinOp.key : BinOp → String
  | .add => "'+'" | .sub => "'-'" | .mul => "'*'" | .div => "'/'" | .pow => "POW"
  | .lt => "'<'" | .gt => "'>'" | .ne => "NE" | .le => "LE" | .ge => "GE" | .eq => "EQ"
  | .or => "'|'" | .and => "'&'" | .xor => "'^'"

/-- the `%prec` name of the three prefix rules of parser.yy -/
def UnOp.key : UnOp → String
  | .neg => "UMINUS" | .pos => "UPLUS" | .not => "NOT"

/-- Binding powers.  A pending rule of precedence level `p` lets the parser continue over a following operator
token of level `q` exactly when bison would shift: `q > p`, or `q = p` and the level is `%right`.  With doubled
levels: the token binds with `lbp = 2q`; the rule tolerates `rbp = 2p` (`%left`) or `2p - 1` (`%right`). -/
structure BP where
  lbp : BinOp → Nat
  rbp : BinOp → Nat
  ubp : UnOp → Nat

open Gen.Syntax in
def rbpOf (tbl : List (Assoc × List String)) (key : String) : Nat :=
  match assocIn tbl key with
  | .left => 2 * levelIn tbl key
  | _ => 2 * levelIn tbl key - 1

/-- the binding powers of parser.yy as translated -/
def genBP : BP where
  lbp o := 2 * levelIn Gen.Syntax.precTable o.key
  rbp o := rbpOf Gen.Syntax.precTable o.key
  ubp u := rbpOf Gen.Syntax.precTable u.key

def binOfTok : Tok → Option BinOp
  | .op c =>
    if c == 43 then some .add else if c == 45 then some .sub else if c == 42 then some .mul
    else if c == 47 then some .div else if c == 60 then some .lt else if c == 62 then some .gt
    else if c == 124 then some .or else if c == 38 then some .and else if c == 94 then some .xor
    else none
  | .pow => some .pow
  | .ne => some .ne | .le => some .le | .ge => some .ge | .eq => some .eq
  | _ => none

/-! ### the grammar: precedence climbing -/

mutual
  /-- `expr` in a context that tolerates operators binding tighter than `m` -/
  def parseExpr (bp : BP) : Nat → Nat → List Tok → Except Err (PExpr × List Tok)
    | 0, _, _ => .error .fuel
    | f + 1, m, ts =>
      match parsePrefix bp f ts with
      | .error e => .error e
      | .ok (lhs, r) => parseLoop bp f m lhs r
  /-- `expr: expr OP expr` with the left operand already reduced -/
  def parseLoop (bp : BP) : Nat → Nat → PExpr → List Tok → Except Err (PExpr × List Tok)
    | 0, _, _, _ => .error .fuel
    | f + 1, m, lhs, ts =>
      match ts with
      | [] => .ok (lhs, ts)
      | t :: r =>
        match binOfTok t with
        | none => .ok (lhs, ts)
        | some o =>
          if bp.lbp o > m then
            match parseExpr bp f (bp.rbp o) r with
            | .error e => .error e
            | .ok (rhs, r') => parseLoop bp f m (.bin o lhs rhs) r'
          else .ok (lhs, ts)
  /-- `'(' expr ')'`, the prefix operators, `leaf` -/
  def parsePrefix (bp : BP) : Nat → List Tok → Except Err (PExpr × List Tok)
    | 0, _ => .error .fuel
    | f + 1, ts =>
      match ts with
      | .op c :: r =>
        if c == 40 then
          match parseExpr bp f 0 r with
          | .error e => .error e
          | .ok (e, r') =>
            match r' with
            | .op 41 :: r'' => .ok (e, r'')
            | _ => .error .parse
        else if c == 45 then
          match parseExpr bp f (bp.ubp .neg) r with
          | .error e => .error e
          | .ok (e, r') => .ok (.un .neg e, r')
        else if c == 43 then
          match parseExpr bp f (bp.ubp .pos) r with
          | .error e => .error e
          | .ok (e, r') => .ok (.un .pos e, r')
        else if c == 126 then
          match parseExpr bp f (bp.ubp .not) r with
          | .error e => .error e
          | .ok (e, r') => .ok (.un .not e, r')
        else .error .parse
      | .num s :: r => .ok (parseNumeric s, r)
      | .imul s :: .pow :: r =>                    -- the declared shift/reduce conflict: bison shifts POW
        match parseExpr bp f (bp.rbp .pow) r with
        | .error e => .error e
        | .ok (e, r') => .ok (imulPow s e, r')
      | .imul s :: r => .ok (imulLeaf s, r)
      | .ident s :: .op 40 :: r =>
        match parseArgs bp f r with
        | .error e => .error e
        | .ok (args, r') => .ok (.call s args, r')
      | .ident s :: r => .ok (.ident s, r)
      | .pwise :: .op 40 :: r =>
        match parsePairs bp f r with
        | .error e => .error e
        | .ok (ps, r') => .ok (.pwise ps, r')
      | _ => .error .parse
  /-- `expr_list ')'` -/
  def parseArgs (bp : BP) : Nat → List Tok → Except Err (List PExpr × List Tok)
    | 0, _ => .error .fuel
    | f + 1, ts =>
      match parseExpr bp f 0 ts with
      | .error e => .error e
      | .ok (e, r) =>
        match r with
        | .op 44 :: r' =>
          match parseArgs bp f r' with
          | .error e => .error e
          | .ok (es, r'') => .ok (e :: es, r'')
        | .op 41 :: r' => .ok ([e], r')
        | _ => .error .parse
  /-- `piecewise_list ')'` with `epair: '(' expr ',' expr ')'` -/
  def parsePairs (bp : BP) : Nat → List Tok → Except Err (List (PExpr × PExpr) × List Tok)
    | 0, _ => .error .fuel
    | f + 1, ts =>
      match ts with
      | .op 40 :: r =>
        match parseExpr bp f 0 r with
        | .error e => .error e
        | .ok (v, r1) =>
          match r1 with
          | .op 44 :: r2 =>
            match parseExpr bp f 0 r2 with
            | .error e => .error e
            | .ok (c, r3) =>
              match r3 with
              | .op 41 :: .op 44 :: r4 =>
                match parsePairs bp f r4 with
                | .error e => .error e
                | .ok (ps, r5) => .ok ((v, c) :: ps, r5)
              | .op 41 :: .op 41 :: r4 => .ok ([(v, c)], r4)
              | _ => .error .parse
          | _ => .error .parse
      | _ => .error .parse
end

/-- `st_expr` followed by END_OF_FILE -/
def parseTokens (bp : BP) (ts : List Tok) : Except Err PExpr :=
  match parseExpr bp (4 * ts.length + 4) 0 ts with
  | .error e => .error e
  | .ok (e, r) =>
    match r with
    | [.eof] => .ok e
    | _ => .error .parse

/-- `std::replace(inp.begin(), inp.end(), '^', '@')` -/
def convertXor (s : Bytes) : Bytes := s.map (fun c => if c == 94 then 64 else c)

/-- the syntactic part of `Parser::parse(input, convert_xor)`: `input` is the content of the `std::string`
(without the terminator) -/
def parseBytesWith (bp : BP) (input : Bytes) (cx : Bool) : Except Err PExpr :=
  let inp := if cx then convertXor input else input
  match lexAll (inp.length + 2) (inp ++ [0]) with
  | .error e => .error e
  | .ok ts => parseTokens bp ts

def parseBytes (input : Bytes) (cx : Bool := true) : Except Err PExpr := parseBytesWith genBP input cx

end Parser
end SymVerif
