/-
Structural equality on `Expr` with usable equations (the derived `BEq` instance of a nested
inductive type is opaque to proofs).  Mirrors `eq(a, b)` on wire-canonical trees: same
constructor, same fields, lists compared position-wise.  Core Lean only.
-/
import SymVerif.Model.Expr

namespace SymVerif.Expr

mutual
  def eqb : Expr → Expr → Bool
    | .int a, .int b => a == b
    | .rat a b, .rat c d => a == c && b == d
    | .cplx a b, .cplx c d => a == c && b == d
    | .dbl a, .dbl b => a == b
    | .cdbl a b, .cdbl c d => a == c && b == d
    | .infty a, .infty b => a == b
    | .nan, .nan => true
    | .sym a, .sym b => a == b
    | .dummy a i, .dummy b j => a == b && i == j
    | .const a, .const b => a == b
    | .add c ts, .add c' ts' => eqb c c' && eqbPairs ts ts'
    | .mul c ts, .mul c' ts' => eqb c c' && eqbPairs ts ts'
    | .pow a b, .pow c d => eqb a c && eqb b d
    | .fsym n a, .fsym m b => n == m && eqbList a b
    | .app n a, .app m b => n == m && eqbList a b
    | .bool a, .bool b => a == b
    | _, _ => false
  def eqbList : List Expr → List Expr → Bool
    | [], [] => true
    | a :: t, b :: u => eqb a b && eqbList t u
    | _, _ => false
  def eqbPairs : List (Expr × Expr) → List (Expr × Expr) → Bool
    | [], [] => true
    | (a, b) :: t, (c, d) :: u => eqb a c && eqb b d && eqbPairs t u
    | _, _ => false
end

def memb (x : Expr) (l : List Expr) : Bool := l.any (fun y => eqb y x)

end SymVerif.Expr
