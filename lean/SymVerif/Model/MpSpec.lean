/-
Executable specification of symengine's backend-neutral big-integer interface
(`mp_*` functions of symengine/mp_class.h) over Lean's `Int`/`Nat`.

This is the meaning every integer backend (GMP `mpz_t` wrapper, `mpz_class`,
Boost.Multiprecision `cpp_int`, FLINT) must implement: it follows the GMP
documentation, which is the reference the other backends imitate.

Inputs for which GMP documents no result (division by zero, even root of a
negative number, `legendre` with a non-prime, `jacobi` with an even or
non-positive lower argument, conversions that do not fit) return `none`; the
harness never generates them.

Core Lean only: this file is linked into the native driver.
-/
namespace SymVerif.MpSpec

/-! ### division families -/

/-- `mpz_tdiv_q`, `operator/` : quotient rounded towards zero -/
def tdivQ (a b : Int) : Int := Int.tdiv a b
/-- `mpz_tdiv_r`, `operator%` : remainder with the sign of the dividend -/
def tdivR (a b : Int) : Int := Int.tmod a b
/-- `mpz_fdiv_q` : quotient rounded towards minus infinity -/
def fdivQ (a b : Int) : Int := Int.fdiv a b
/-- `mpz_fdiv_r` : remainder with the sign of the divisor -/
def fdivR (a b : Int) : Int := Int.fmod a b
/-- `mpz_cdiv_q` : quotient rounded towards plus infinity -/
def cdivQ (a b : Int) : Int := -(Int.fdiv (-a) b)
/-- `mpz_cdiv_r` : remainder with the sign opposite to the divisor -/
def cdivR (a b : Int) : Int := a - b * cdivQ a b

/-! ### gcd, lcm, extended gcd, modular inverse -/

def gcd (a b : Int) : Int := (Int.gcd a b : Nat)
def lcm (a b : Int) : Int := (Int.lcm a b : Nat)

/-- Some Bezout pair for naturals: `a*x + b*y = g`. -/
def natXgcd (a b : Nat) : Nat × Int × Int :=
  if _h : b = 0 then (a, 1, 0)
  else
    let r := natXgcd b (a % b)
    (r.1, r.2.2, r.2.1 - (a / b : Nat) * r.2.2)
termination_by b
decreasing_by exact Nat.mod_lt _ (Nat.pos_of_ne_zero _h)

/-- `mpz_gcdext`: `g = gcd(a,b) ≥ 0`, `a*s + b*t = g`, and the cofactors are the ones GMP documents:
`|s| < |b|/(2g)` and `|t| < |a|/(2g)` normally; `s = 0, t = sgn b` if `|a| = |b|`;
`s = sgn a` if `b = 0` or `|b| = 2g`; `t = sgn b` if `a = 0` or `|a| = 2g`; all zero for `a = b = 0`.
Computed by reducing an arbitrary Bezout cofactor of `a` into the centred residue system modulo `|b|/g`. -/
def gcdext (a b : Int) : Int × Int × Int :=
  if b = 0 then ((a.natAbs : Int), a.sign, 0)
  else
    let r := natXgcd a.natAbs b.natAbs
    let g : Int := (r.1 : Int)
    let bg : Int := (b.natAbs : Int) / g
    let s0 := (a.sign * r.2.1) % bg
    -- centred residue; the tie `2*s0 = bg` only occurs for `bg = 2`, `s0 = 1`, where GMP takes `s = sgn a`
    let s := if 2 * s0 < bg ∨ (2 * s0 = bg ∧ a > 0) then s0 else s0 - bg
    (g, s, (g - a * s) / b)

/-- `mpz_invert`: `some r` with `0 ≤ r < |m|` and `a*r ≡ 1 (mod m)` when `gcd(a,m) = 1`, else `none`.
(`m ≠ 0`; for `|m| = 1` the inverse is `0`.) -/
def invert (a m : Int) : Option Int :=
  if Int.gcd a m = 1 then some ((a.sign * (natXgcd a.natAbs m.natAbs).2.1) % m)
  else none

/-! ### powers -/

/-- `b^e mod m` for `e : Nat`, result in `[0,|m|)` (square and multiply). -/
def powModNat (b : Int) (e : Nat) (m : Int) : Int :=
  let rec go (fuel : Nat) (acc base : Int) (e : Nat) : Int :=
    match fuel with
    | 0 => acc
    | fuel + 1 =>
      if e = 0 then acc
      else go fuel (if e % 2 = 1 then (acc * base) % m else acc) ((base * base) % m) (e / 2)
  go (e.log2 + 1) (1 % m) (b % m) e

/-- `mpz_powm` (`m ≠ 0`): result in `[0,|m|)`; a negative exponent uses the modular inverse and is
undefined (`none`) when the base is not invertible. -/
def powm (b e m : Int) : Option Int :=
  if e ≥ 0 then some (powModNat b e.toNat m)
  else match invert b m with
    | none => none
    | some bi => some (powModNat bi (-e).toNat m)

/-! ### integer roots -/

/-- bisection: invariant `lo^n ≤ x < hi^n` -/
def irootAux (x n lo hi : Nat) : Nat :=
  if h : hi ≤ lo + 1 then lo
  else
    let mid := (lo + hi) / 2
    if mid ^ n ≤ x then irootAux x n mid hi else irootAux x n lo mid
termination_by hi - lo
decreasing_by all_goals omega

/-- floor of the real `n`-th root of `x` (`n ≥ 1`) -/
def iroot (x n : Nat) : Nat := irootAux x n 0 (2 ^ (x.log2 / n + 1))

/-- `mpz_root` (`n ≥ 1`; `i ≥ 0` or `n` odd): truncated root and exactness flag -/
def root (i : Int) (n : Nat) : Option (Int × Bool) :=
  if n = 0 then none
  else if i < 0 ∧ n % 2 = 0 then none
  else
    let r : Int := i.sign * (iroot i.natAbs n : Int)
    some (r, r ^ n == i)

/-- `mpz_rootrem` for `i ≥ 0` -/
def rootrem (i : Int) (n : Nat) : Option (Int × Int) :=
  match root i n with
  | none => none
  | some (r, _) => some (r, i - r ^ n)

def sqrt (i : Int) : Option Int := if i < 0 then none else some (iroot i.toNat 2 : Nat)
def sqrtrem (i : Int) : Option (Int × Int) :=
  match sqrt i with
  | none => none
  | some r => some (r, i - r * r)

def perfectSquare (i : Int) : Bool := i ≥ 0 && (iroot i.toNat 2) ^ 2 == i.toNat

/-- `mpz_perfect_power_p`: `i = a^k` for some integers `a` and `k ≥ 2`
(0, 1 and -1 count; a negative number can only be an odd power). -/
def perfectPower (i : Int) : Bool :=
  if i.natAbs ≤ 1 then true
  else
    let x := i.natAbs
    (List.range (x.log2 + 1)).any fun k =>
      k ≥ 2 && (i > 0 || k % 2 == 1) && (iroot x k) ^ k == x

/-! ### primes -/

def trialLoop (n : Nat) : Nat → Nat → Bool
  | 0, _ => true
  | fuel + 1, d => if d * d > n then true else if n % d == 0 then false else trialLoop n fuel (d + 1)

/-- primality by trial division (the definition) -/
def trialPrime (n : Nat) : Bool := n ≥ 2 && trialLoop n n 2

def natPowMod (b e m : Nat) : Nat := (powModNat b e m).toNat

/-- strong probable prime test to base `a` for odd `n > 2` -/
def strongProbablePrime (n a : Nat) : Bool :=
  let rec split (fuel d s : Nat) : Nat × Nat :=
    match fuel with
    | 0 => (d, s)
    | fuel + 1 => if d % 2 == 0 && d != 0 then split fuel (d / 2) (s + 1) else (d, s)
  let ds := split n (n - 1) 0
  let x := natPowMod a ds.1 n
  if x == 1 % n || x == n - 1 then true
  else
    let rec sq (k x : Nat) : Bool :=
      match k with
      | 0 => false
      | k + 1 => let x2 := (x * x) % n; if x2 == n - 1 then true else sq k x2
    sq (ds.2 - 1) x

def mrBases : List Nat := [2, 3, 5, 7, 11, 13, 17, 19, 23, 29, 31, 37, 41]

/-- Primality.  Below `10^6` by trial division; above by the strong probable prime test to the
first 13 prime bases, which is exact for `n < 3.3·10^24` (Sorenson–Webster 2015) — the generated
arguments stay below `2^66`. -/
def isPrime (n : Nat) : Bool :=
  if n < 1000000 then trialPrime n
  else if mrBases.any (fun p => n % p == 0) then false
  else mrBases.all (strongProbablePrime n)

/-- `mpz_probab_prime_p` reduced to prime / composite (the sign is ignored) -/
def probabPrime (i : Int) : Bool := isPrime i.natAbs

def nextPrimeLoop : Nat → Nat → Nat
  | 0, c => c
  | fuel + 1, c => if isPrime c then c else nextPrimeLoop fuel (c + 1)

/-- `mpz_nextprime`: the least prime greater than `i` (Bertrand: it is at most `2*max(i,1)`). -/
def nextPrime (i : Int) : Int :=
  if i < 2 then 2 else (nextPrimeLoop (i.toNat + 2) (i.toNat + 1) : Nat)

def primorial (n : Nat) : Nat :=
  (List.range (n + 1)).foldl (fun acc p => if isPrime p then acc * p else acc) 1

/-! ### Legendre / Jacobi / Kronecker symbols -/

/-- Jacobi symbol `(a|n)` for odd `n > 0` by the classical binary algorithm (`t` accumulates the sign). -/
def jacobiLoop (a n : Nat) (t : Int) : Int :=
  if h0 : a = 0 then (if n = 1 then t else 0)
  else if a % 2 = 0 then
    jacobiLoop (a / 2) n (if n % 8 = 3 ∨ n % 8 = 5 then -t else t)
  else
    jacobiLoop (n % a) a (if a % 4 = 3 ∧ n % 4 = 3 then -t else t)
termination_by 2 * a + n
decreasing_by
  · omega
  · have h1 := Nat.mod_lt n (Nat.pos_of_ne_zero h0)
    have h2 := Nat.mod_le n a
    omega

def jacobiPos (a : Int) (n : Nat) : Int := jacobiLoop (a % (n : Int)).toNat n 1

/-- `mpz_jacobi(a, n)`, defined for odd `n`; for negative `n` it is the Kronecker extension
`(a|-1) (a| |n|)` with `(a|-1) = -1` iff `a < 0` (GMP: "when b is odd the Jacobi symbol and the Kronecker
symbol are identical"). -/
def jacobi (a n : Int) : Option Int :=
  if n % 2 = 0 then none
  else if n > 0 then some (jacobiPos a n.toNat)
  else some ((if a < 0 then -1 else 1) * jacobiPos a n.natAbs)

/-- `mpz_legendre(a, p)`, `p` an odd prime -/
def legendre (a p : Int) : Option Int :=
  if p > 2 ∧ isPrime p.toNat then jacobi a p else none

/-- `(a|2)` -/
def kroneckerTwo (a : Int) : Int :=
  if a % 2 = 0 then 0 else if a % 8 = 1 ∨ a % 8 = 7 then 1 else -1

def oddPart : Nat → Nat → Nat → Nat × Nat
  | 0, m, j => (m, j)
  | fuel + 1, m, j => if m % 2 = 0 ∧ m ≠ 0 then oddPart fuel (m / 2) (j + 1) else (m, j)

/-- `mpz_kronecker`: `(a|n) = (a|u) (a|2)^j (a|m)` for `n = u 2^j m`, `m` odd positive;
`(a|0) = 1` if `|a| = 1` else `0`. -/
def kronecker (a n : Int) : Int :=
  if n = 0 then (if a.natAbs = 1 then 1 else 0)
  else
    let u : Int := if n < 0 ∧ a < 0 then -1 else 1
    let mj := oddPart n.natAbs n.natAbs 0
    let two : Int := if mj.2 = 0 then 1 else if mj.2 % 2 = 0 then kroneckerTwo a * kroneckerTwo a else kroneckerTwo a
    u * two * ((jacobi a (mj.1 : Int)).getD 0)

/-! ### sequences -/

def fibPair : Nat → Nat × Nat     -- (F(n), F(n+1))
  | 0 => (0, 1)
  | n + 1 => let p := fibPair n; (p.2, p.1 + p.2)

def fib (n : Nat) : Nat := (fibPair n).1
/-- `mpz_fib2_ui`: `(F(n), F(n-1))`, with `F(-1) = 1` -/
def fib2 (n : Nat) : Int × Int := if n = 0 then (0, 1) else (fib n, fib (n - 1))

def lucPair : Nat → Int × Int     -- (L(n), L(n+1))
  | 0 => (2, 1)
  | n + 1 => let p := lucPair n; (p.2, p.1 + p.2)

def lucnum (n : Nat) : Int := (lucPair n).1
/-- `mpz_lucnum2_ui`: `(L(n), L(n-1))`, with `L(-1) = -1` -/
def lucnum2 (n : Nat) : Int × Int := if n = 0 then (2, -1) else (lucnum n, lucnum (n - 1))

def fac : Nat → Nat
  | 0 => 1
  | n + 1 => (n + 1) * fac n

def fallingProd (n : Int) : Nat → Int
  | 0 => 1
  | k + 1 => fallingProd n k * (n - k)

/-- `mpz_bin_ui(n, k)` for any integer `n`: `n (n-1) ⋯ (n-k+1) / k!` -/
def bin (n : Int) (k : Nat) : Int := (fallingProd n k).tdiv (fac k)

/-! ### bits and conversions -/

def scan1Loop : Nat → Nat → Nat → Nat
  | 0, _, k => k
  | fuel + 1, x, k => if x % 2 = 1 then k else scan1Loop fuel (x / 2) (k + 1)

/-- `mpz_scan1(i, 0)`: index of the lowest set bit (two's complement); `none` (= `ULONG_MAX`) for 0 -/
def scan1 (i : Int) : Option Nat := if i = 0 then none else some (scan1Loop i.natAbs i.natAbs 0)

/-- `mpz_and` : two's complement semantics on negative numbers -/
def and (a b : Int) : Int :=
  match a, b with
  | .ofNat m, .ofNat n => ((m &&& n : Nat) : Int)
  | .ofNat m, .negSucc n => ((m - (m &&& n) : Nat) : Int)      -- m & ~n
  | .negSucc m, .ofNat n => ((n - (n &&& m) : Nat) : Int)
  | .negSucc m, .negSucc n => .negSucc (m ||| n)               -- ~m & ~n = ~(m | n)

def shl (a : Int) (k : Nat) : Int := a * 2 ^ k
/-- `>>` on a non-negative value -/
def shrNonneg (a : Int) (k : Nat) : Option Int := if a < 0 then none else some (a / 2 ^ k)

def fitsUlong (i : Int) : Bool := 0 ≤ i && i < 2 ^ 64
def fitsSlong (i : Int) : Bool := -(2 ^ 63) ≤ i && i < 2 ^ 63
def getSi (i : Int) : Option Int := if fitsSlong i then some i else none
/-- `mpz_get_ui`: the absolute value, when it fits -/
def getUi (i : Int) : Option Int := if i.natAbs < 2 ^ 64 then some i.natAbs else none
def cmpabs (a b : Int) : Int := if a.natAbs < b.natAbs then -1 else if a.natAbs = b.natAbs then 0 else 1
def divisible (a b : Int) : Bool := if b = 0 then a == 0 else a % b == 0

def hexDigits (n : Nat) : String := String.ofList (Nat.toDigits 16 n)
def hex (i : Int) : String := if i < 0 then "-" ++ hexDigits i.natAbs else hexDigits i.natAbs

/-! ### canonical rationals (`rational_class` after `canonicalize`) -/

structure Q where
  num : Int
  den : Int
  deriving Repr, DecidableEq

def Q.mk' (n d : Int) : Q :=
  let g : Int := (Int.gcd n d : Nat)
  if d < 0 then ⟨-(n / g), -(d / g)⟩ else ⟨n / g, d / g⟩

def Q.add (p q : Q) : Q := Q.mk' (p.num * q.den + q.num * p.den) (p.den * q.den)
def Q.sub (p q : Q) : Q := Q.mk' (p.num * q.den - q.num * p.den) (p.den * q.den)
def Q.mul (p q : Q) : Q := Q.mk' (p.num * q.num) (p.den * q.den)
def Q.div (p q : Q) : Q := Q.mk' (p.num * q.den) (p.den * q.num)
def Q.cmp (p q : Q) : Int :=
  let l := p.num * q.den; let r := q.num * p.den
  if l < r then -1 else if l = r then 0 else 1
def Q.pow (p : Q) (n : Nat) : Q := ⟨p.num ^ n, p.den ^ n⟩
def Q.abs (p : Q) : Q := ⟨(p.num.natAbs : Int), p.den⟩

end SymVerif.MpSpec
