/-
Model of `CSRMatrix` (symengine/sparse_matrix.cpp, symengine/matrix.h).

State: the five private members `row_, col_, p_, j_, x_`.  Entries are exact
rationals (`Rat` of core Lean): the harness only stores `Integer`/`Rational`
entries, for which `add`, `mul`, `sub` and `is_zero` of the library are exact
rational arithmetic and `conjugate` is the identity.

Every `operator[]` of the C++ is a *checked* access here (`rd`/`wr`): an index
outside the vector is `Err.oob` (undefined behaviour in the C++), never a
silent default.  `SYMENGINE_ASSERT`s are `Err.assert`.  Loops are structural
recursions on an iteration count / fuel that is computed exactly as the C++
loop bounds, so fuel exhaustion coincides with loop exit (or is `Err.fuel`
where it cannot happen).

Modelled *as patched* (see docs/C25.md): `CSRMatrix::conjugate` (keeps
`row_, col_` instead of swapping them) and `csr_diagonal` (half-open binary
search).  Modelled *as is*: `csr_matmat_pass1/2` (result rows are unsorted and
the scratch vectors are sized `A.col_`).

Core Lean only: this file is linked into the native driver.
-/
namespace SymVerif.CSR

inductive Err where
  | oob       -- an index outside a vector (undefined behaviour in the C++)
  | assert    -- a SYMENGINE_ASSERT fails (precondition / is_canonical in a constructor)
  | fuel      -- cannot happen: recursion fuel exhausted
  | runtime   -- SymEngineException("Scaling factor can't be zero")
  | notImpl   -- NotImplementedError
  deriving Repr, DecidableEq

abbrev Q := Rat

structure Mat where
  row : Nat
  col : Nat
  p : Array Nat
  j : Array Nat
  x : Array Q
  deriving Repr, DecidableEq

/-- checked `v[k]` (read) -/
def rd {α : Type} (a : Array α) (k : Nat) : Except Err α :=
  if h : k < a.size then .ok a[k] else .error .oob

/-- checked `v[k] = e` (write) -/
def wr {α : Type} (a : Array α) (k : Nat) (v : α) : Except Err (Array α) :=
  if h : k < a.size then .ok (a.set k v h) else .error .oob

/-! ### is_canonical and the static predicates -/

/-- `for (jj = lo; jj + 1 < hi; jj++) if (bad(j_[jj], j_[jj+1])) return true;` (fuel = hi - lo) -/
def adjLoop (bad : Nat → Nat → Bool) (j : Array Nat) (hi : Nat) : Nat → Nat → Except Err Bool
  | 0, _ => .ok false
  | f + 1, jj =>
    if jj + 1 < hi then do
      let a ← rd j jj
      let b ← rd j (jj + 1)
      if bad a b then pure true else adjLoop bad j hi f (jj + 1)
    else pure false

/-- `for (i = 0; i < row; i++) <adjLoop over [p[i], p[i+1])>` -/
def rowsAny (bad : Nat → Nat → Bool) (p j : Array Nat) : Nat → Nat → Except Err Bool
  | 0, _ => .ok false
  | n + 1, i => do
    let lo ← rd p i
    let hi ← rd p (i + 1)
    if (← adjLoop bad j hi (hi - lo) lo) then pure true else rowsAny bad p j n (i + 1)

/-- `csr_has_duplicates` (assumes sorted indices) -/
def hasDuplicates (p j : Array Nat) (row : Nat) : Except Err Bool :=
  rowsAny (fun a b => a == b) p j row 0

/-- `csr_has_sorted_indices` -/
def hasSortedIndices (p j : Array Nat) (row : Nat) : Except Err Bool := do
  let b ← rowsAny (fun a b => decide (a > b)) p j row 0
  pure (!b)

/-- `for (i < row) if (p_[i] > p_[i+1]) return false;` — result `true` iff some decrease -/
def pDecreases (p : Array Nat) : Nat → Nat → Except Err Bool
  | 0, _ => .ok false
  | n + 1, i => do
    let a ← rd p i
    let b ← rd p (i + 1)
    if a > b then pure true else pDecreases p n (i + 1)

/-- `csr_has_canonical_format` -/
def hasCanonicalFormat (p j : Array Nat) (row : Nat) : Except Err Bool := do
  if (← pDecreases p row 0) then pure false
  else
    if (← hasSortedIndices p j row) then do
      let d ← hasDuplicates p j row
      pure (!d)
    else pure false

/-- `CSRMatrix::is_canonical` -/
def isCanonical (m : Mat) : Except Err Bool :=
  if m.p.size ≠ m.row + 1 then .ok false
  else do
    let last ← rd m.p m.row
    if m.j.size ≠ last ∨ m.x.size ≠ last then pure false
    else if last ≠ 0 then hasCanonicalFormat m.p m.j m.row
    else pure true

/-- the constructors `CSRMatrix(row, col, p, j, x)`: `SYMENGINE_ASSERT(is_canonical())` -/
def mk (row col : Nat) (p j : Array Nat) (x : Array Q) : Except Err Mat := do
  let m : Mat := { row := row, col := col, p := p, j := j, x := x }
  if (← isCanonical m) then pure m else .error .assert

/-- `CSRMatrix(row, col)` -/
def zeroMat (row col : Nat) : Mat :=
  { row := row, col := col, p := Array.replicate (row + 1) 0, j := #[], x := #[] }

/-! ### get / set -/

/-- the `while (row_start < row_end)` binary search of `CSRMatrix::get` -/
def getLoop (j : Array Nat) (x : Array Q) (c : Nat) : Nat → Nat → Nat → Except Err Q
  | 0, _, _ => .error .fuel
  | f + 1, lo, hi =>
    if lo < hi then do
      let k := (lo + hi) / 2
      let jk ← rd j k
      if jk = c then rd x k
      else if jk < c then getLoop j x c f (k + 1) hi
      else getLoop j x c f lo k
    else pure 0

/-- `CSRMatrix::get(i, j)` -/
def get (m : Mat) (i c : Nat) : Except Err Q :=
  if ¬ (i < m.row ∧ c < m.col) then .error .assert
  else do
    let lo ← rd m.p i
    let hi ← rd m.p (i + 1)
    if lo = hi then pure 0
    else getLoop m.j m.x c (hi - lo + 1) lo hi

/-- the two-sided binary search at the start of `CSRMatrix::set`; returns `k` -/
def setSearch (j : Array Nat) (c : Nat) : Nat → Nat → Nat → Except Err Nat
  | 0, _, _ => .error .fuel
  | f + 1, k, e =>
    if k < e then
      let mid := (k + e) / 2
      if mid = k then do
        let jk ← rd j k
        pure (if jk < c then k + 1 else k)
      else do
        -- SYMENGINE_ASSERT(mid > 0) holds: mid > k
        let jm ← rd j mid
        let jm1 ← rd j (mid - 1)
        if jm ≥ c ∧ jm1 < c then pure mid
        else if jm1 ≥ c then setSearch j c f k (mid - 1)
        else setSearch j c f (mid + 1) e
    else pure k

/-- `for (l = from; l <= row_; l++) p_[l] = f(p_[l])` with `count = row_ + 1 - from` -/
def bumpLoop (f : Nat → Except Err Nat) : Nat → Nat → Array Nat → Except Err (Array Nat)
  | 0, _, p => .ok p
  | n + 1, l, p => do
    let v ← rd p l
    let v' ← f v
    let p' ← wr p l v'
    bumpLoop f n (l + 1) p'

def incr (v : Nat) : Except Err Nat := .ok (v + 1)
/-- `p_[l]--` on `unsigned`: wrapping below zero never happens under the invariant -/
def decr (v : Nat) : Except Err Nat := if v = 0 then .error .oob else .ok (v - 1)

/-- `v.insert(v.begin() + k, e)` -/
def ins {α : Type} (a : Array α) (k : Nat) (v : α) : Except Err (Array α) :=
  if h : k ≤ a.size then .ok (a.insertIdx k v h) else .error .oob

/-- `v.erase(v.begin() + k)` -/
def del {α : Type} (a : Array α) (k : Nat) : Except Err (Array α) :=
  if h : k < a.size then .ok (a.eraseIdx k h) else .error .oob

/-- `CSRMatrix::set(i, j, e)` -/
def set (m : Mat) (i c : Nat) (e : Q) : Except Err Mat :=
  if ¬ (i < m.row ∧ c < m.col) then .error .assert
  else do
    let k0 ← rd m.p i
    let rowEnd ← rd m.p (i + 1)
    let k ← setSearch m.j c (rowEnd - k0 + 1) k0 rowEnd
    let hit ← (if k < rowEnd then do let jk ← rd m.j k; pure (jk == c) else pure false)
    if e ≠ 0 then
      if hit then do
        let x' ← wr m.x k e
        pure { m with x := x' }
      else do
        let x' ← ins m.x k e
        let j' ← ins m.j k c
        let p' ← bumpLoop incr (m.row - i) (i + 1) m.p
        pure { m with p := p', j := j', x := x' }
    else
      if hit then do
        let x' ← del m.x k
        let j' ← del m.j k
        let p' ← bumpLoop decr (m.row - i) (i + 1) m.p
        pure { m with p := p', j := j', x := x' }
      else pure m

/-! ### from_coo: counting sort by row, per-row sort, summing duplicates -/

abbrev Triple := Nat × Nat × Q

/-- `for (n < nnz) p_[i[n]]++` -/
def cooCount : List Triple → Array Nat → Except Err (Array Nat)
  | [], p => .ok p
  | (i, _, _) :: t, p => do
    let v ← rd p i
    let p' ← wr p i (v + 1)
    cooCount t p'

/-- `for (i < row) { temp = p_[i]; p_[i] = cumsum; cumsum += temp; }` -/
def cumsumLoop : Nat → Nat → Nat → Array Nat → Except Err (Array Nat)
  | 0, _, _, p => .ok p
  | n + 1, i, cs, p => do
    let t ← rd p i
    let p' ← wr p i cs
    cumsumLoop n (i + 1) (cs + t) p'

/-- `for (n < nnz) { dest = p_[i[n]]; j_[dest] = j[n]; x_[dest] = x[n]; p_[i[n]]++; }` -/
def scatter : List Triple → Array Nat → Array Nat → Array Q →
    Except Err (Array Nat × Array Nat × Array Q)
  | [], p, j, x => .ok (p, j, x)
  | (i, c, v) :: t, p, j, x => do
    let dest ← rd p i
    let j' ← wr j dest c
    let x' ← wr x dest v
    let p' ← wr p i (dest + 1)
    scatter t p' j' x'

/-- `for (i = 0, last = 0; i <= row; i++) swap(p_[i], last)` -/
def shiftLoop : Nat → Nat → Nat → Array Nat → Except Err (Array Nat)
  | 0, _, _, p => .ok p
  | n + 1, i, last, p => do
    let t ← rd p i
    let p' ← wr p i last
    shiftLoop n (i + 1) t p'

/-- `for (jj = row_start; jj < row_end; jj++) temp.push_back({j_[jj], x_[jj]})` -/
def readPairs (j : Array Nat) (x : Array Q) : Nat → Nat → Except Err (List (Nat × Q))
  | 0, _ => .ok []
  | n + 1, jj => do
    let a ← rd j jj
    let b ← rd x jj
    let r ← readPairs j x n (jj + 1)
    pure ((a, b) :: r)

/-- `for (jj = row_start, n = 0; jj < row_end; jj++, n++) { j_[jj] = temp[n].first; x_[jj] = temp[n].second; }` -/
def writePairs : List (Nat × Q) → Nat → Array Nat → Array Q → Except Err (Array Nat × Array Q)
  | [], _, j, x => .ok (j, x)
  | (a, b) :: t, jj, j, x => do
    let j' ← wr j jj a
    let x' ← wr x jj b
    writePairs t (jj + 1) j' x'

/-- the comparison of `csr_sort_indices` (`x.first < y.first`, as a total preorder for the stable sort) -/
def keyLe (a b : Nat × Q) : Bool := decide (a.1 ≤ b.1)

/-- `csr_sort_indices`.  `std::sort` is not stable, so the order of equal column indices is
unspecified in the C++; the model uses a stable merge sort.  Only the sum of the duplicates is
observable after `csr_sum_duplicates`, and rational addition is commutative. -/
def sortRows (p : Array Nat) : Nat → Nat → Array Nat → Array Q → Except Err (Array Nat × Array Q)
  | 0, _, j, x => .ok (j, x)
  | n + 1, i, j, x => do
    let rs ← rd p i
    let re ← rd p (i + 1)
    let temp ← readPairs j x (re - rs) rs
    let s := temp.mergeSort keyLe
    let (j', x') ← writePairs s rs j x
    sortRows p n (i + 1) j' x'

/-- `while (jj < row_end and j_[jj] == j) { x = add(x, x_[jj]); jj++; }` (fuel = row_end - jj) -/
def dupRun (j : Array Nat) (x : Array Q) (rowEnd c : Nat) : Nat → Nat → Q → Except Err (Nat × Q)
  | 0, jj, acc => .ok (jj, acc)
  | f + 1, jj, acc =>
    if jj < rowEnd then do
      let c' ← rd j jj
      if c' = c then do
        let v ← rd x jj
        dupRun j x rowEnd c f (jj + 1) (acc + v)
      else pure (jj, acc)
    else pure (jj, acc)

/-- `while (jj < row_end) { … j_[nnz] = j; x_[nnz] = x; nnz++; }` (fuel = row_end - jj) -/
def dupRow (rowEnd : Nat) : Nat → Nat → Nat → Array Nat → Array Q →
    Except Err (Nat × Array Nat × Array Q)
  | 0, _, nnz, j, x => .ok (nnz, j, x)
  | f + 1, jj, nnz, j, x =>
    if jj < rowEnd then do
      let c ← rd j jj
      let v ← rd x jj
      let (jj', acc) ← dupRun j x rowEnd c (rowEnd - (jj + 1)) (jj + 1) v
      let j' ← wr j nnz c
      let x' ← wr x nnz acc
      dupRow rowEnd f jj' (nnz + 1) j' x'
    else pure (nnz, j, x)

/-- the `for (i < row_)` loop of `csr_sum_duplicates` -/
def dupRows : Nat → Nat → Nat → Nat → Array Nat → Array Nat → Array Q →
    Except Err (Nat × Array Nat × Array Nat × Array Q)
  | 0, _, _, nnz, p, j, x => .ok (nnz, p, j, x)
  | n + 1, i, rowEnd, nnz, p, j, x => do
    let re ← rd p (i + 1)
    let (nnz', j', x') ← dupRow re (re - rowEnd) rowEnd nnz j x
    let p' ← wr p (i + 1) nnz'
    dupRows n (i + 1) re nnz' p' j' x'

/-- `csr_sum_duplicates` (the final `resize(nnz)` only ever shrinks) -/
def sumDuplicates (p j : Array Nat) (x : Array Q) (row : Nat) :
    Except Err (Array Nat × Array Nat × Array Q) := do
  let (nnz, p', j', x') ← dupRows row 0 0 0 p j x
  pure (p', j'.extract 0 nnz, x'.extract 0 nnz)

/-- `CSRMatrix::from_coo(row, col, i, j, x)` (the three input vectors have equal length) -/
def fromCoo (row col : Nat) (ts : List Triple) : Except Err Mat := do
  let nnz := ts.length
  let p0 := Array.replicate (row + 1) 0
  let j0 := Array.replicate nnz 0
  let x0 : Array Q := Array.replicate nnz 0
  let p1 ← cooCount ts p0
  let p2 ← cumsumLoop row 0 0 p1
  let p3 ← wr p2 row nnz
  let (p4, j1, x1) ← scatter ts p3 j0 x0
  let p5 ← shiftLoop (row + 1) 0 0 p4
  let (j2, x2) ← sortRows p5 row 0 j1 x1
  let (p6, j3, x3) ← sumDuplicates p5 j2 x2 row
  mk row col p6 j3 x3

/-! ### transpose -/

/-- `for (i < nnz) p[j_[i] + 1]++` -/
def colCount (j : Array Nat) : Nat → Nat → Array Nat → Except Err (Array Nat)
  | 0, _, p => .ok p
  | n + 1, i, p => do
    let c ← rd j i
    let v ← rd p (c + 1)
    let p' ← wr p (c + 1) (v + 1)
    colCount j n (i + 1) p'

/-- `std::partial_sum(p.begin(), p.end(), p.begin())`: `acc = p[0]; for i ≥ 1: acc += p[i]; p[i] = acc` -/
def psumLoop : Nat → Nat → Nat → Array Nat → Except Err (Array Nat)
  | 0, _, _, p => .ok p
  | n + 1, i, acc, p => do
    let v ← rd p i
    let p' ← wr p i (acc + v)
    psumLoop n (i + 1) (acc + v) p'

/-- inner loop of the transposition scatter over `i ∈ [p_[ri], p_[ri+1])` -/
def trRow (m : Mat) (p : Array Nat) (ri : Nat) : Nat → Nat → Array Nat → Array Nat → Array Q →
    Except Err (Array Nat × Array Nat × Array Q)
  | 0, _, tmp, j, x => .ok (tmp, j, x)
  | n + 1, i, tmp, j, x => do
    let ci ← rd m.j i
    let pc ← rd p ci
    let tc ← rd tmp ci
    let k := pc + tc
    let j' ← wr j k ri
    let v ← rd m.x i
    let x' ← wr x k v
    let tmp' ← wr tmp ci (tc + 1)
    trRow m p ri n (i + 1) tmp' j' x'

def trRows (m : Mat) (p : Array Nat) : Nat → Nat → Array Nat → Array Nat → Array Q →
    Except Err (Array Nat × Array Nat × Array Q)
  | 0, _, tmp, j, x => .ok (tmp, j, x)
  | n + 1, ri, tmp, j, x => do
    let lo ← rd m.p ri
    let hi ← rd m.p (ri + 1)
    let (tmp', j', x') ← trRow m p ri (hi - lo) lo tmp j x
    trRows m p n (ri + 1) tmp' j' x'

/-- `CSRMatrix::transpose(bool conjugate)` — `conjugate` is the identity on rationals -/
def transpose (m : Mat) : Except Err Mat := do
  let nnz := m.j.size
  let p0 := Array.replicate (m.col + 1) 0
  let p1 ← colCount m.j nnz 0 p0
  let p2 ← (if p1.size = 0 then pure p1 else do
              let a ← rd p1 0
              psumLoop (p1.size - 1) 1 a p1)
  let (_, j, x) ← trRows m p2 m.row 0 (Array.replicate m.col 0) (Array.replicate nnz 0)
                    (Array.replicate nnz 0)
  mk m.col m.row p2 j x

/-- `CSRMatrix::conjugate(result)` as patched: `CSRMatrix(row_, col_, p, j, conj x)` -/
def conjugate (m : Mat) : Except Err Mat :=
  mk m.row m.col m.p m.j m.x

/-! ### csr_binop_csr_canonical -/

/-- `if (!is_zero(result)) { C.j_.push_back(c); C.x_.push_back(result); nnz++; }` -/
def pushNZ (cj : Array Nat) (cx : Array Q) (c : Nat) (r : Q) : Array Nat × Array Q :=
  if r ≠ 0 then (cj.push c, cx.push r) else (cj, cx)

/-- the three `while` loops for one row (fuel = (A_end - A_pos) + (B_end - B_pos) + 1) -/
def mergeRow (op : Q → Q → Q) (A B : Mat) (aEnd bEnd : Nat) :
    Nat → Nat → Nat → Array Nat → Array Q → Except Err (Array Nat × Array Q)
  | 0, _, _, _, _ => .error .fuel
  | f + 1, a, b, cj, cx =>
    if a < aEnd ∧ b < bEnd then do
      let aj ← rd A.j a
      let bj ← rd B.j b
      if aj = bj then do
        let av ← rd A.x a
        let bv ← rd B.x b
        let (cj', cx') := pushNZ cj cx aj (op av bv)
        mergeRow op A B aEnd bEnd f (a + 1) (b + 1) cj' cx'
      else if aj < bj then do
        let av ← rd A.x a
        let (cj', cx') := pushNZ cj cx aj (op av 0)
        mergeRow op A B aEnd bEnd f (a + 1) b cj' cx'
      else do
        let bv ← rd B.x b
        let (cj', cx') := pushNZ cj cx bj (op 0 bv)
        mergeRow op A B aEnd bEnd f a (b + 1) cj' cx'
    else if a < aEnd then do
      let av ← rd A.x a
      let aj ← rd A.j a
      let (cj', cx') := pushNZ cj cx aj (op av 0)
      mergeRow op A B aEnd bEnd f (a + 1) b cj' cx'
    else if b < bEnd then do
      let bv ← rd B.x b
      let bj ← rd B.j b
      let (cj', cx') := pushNZ cj cx bj (op 0 bv)
      mergeRow op A B aEnd bEnd f a (b + 1) cj' cx'
    else pure (cj, cx)

def mergeRows (op : Q → Q → Q) (A B : Mat) : Nat → Nat → Array Nat → Array Nat → Array Q →
    Except Err (Array Nat × Array Nat × Array Q)
  | 0, _, cp, cj, cx => .ok (cp, cj, cx)
  | n + 1, i, cp, cj, cx => do
    let aPos ← rd A.p i
    let bPos ← rd B.p i
    let aEnd ← rd A.p (i + 1)
    let bEnd ← rd B.p (i + 1)
    let (cj', cx') ← mergeRow op A B aEnd bEnd ((aEnd - aPos) + (bEnd - bPos) + 1) aPos bPos cj cx
    let cp' ← wr cp (i + 1) cj'.size
    mergeRows op A B n (i + 1) cp' cj' cx'

/-- `csr_binop_csr_canonical(A, B, C, bin_op)` with a `C` of the same shape (`C.p_` has `row+1`
entries; its old contents are overwritten) -/
def binop (op : Q → Q → Q) (A B : Mat) : Except Err Mat :=
  if ¬ (A.row = B.row ∧ A.col = B.col) then .error .assert
  else do
    let cp0 ← wr (Array.replicate (A.row + 1) 0) 0 0
    let (cp, cj, cx) ← mergeRows op A B A.row 0 cp0 #[] #[]
    let (cp', cj', cx') ← (do
      if (← hasDuplicates cp cj A.row) then sumDuplicates cp cj cx A.row else pure (cp, cj, cx))
    pure { row := A.row, col := A.col, p := cp', j := cj', x := cx' }

/-! ### csr_scale_rows / csr_scale_columns / csr_diagonal -/

/-- `for (jj ∈ [lo, hi)) A.x_[jj] = mul(A.x_[jj], s)` -/
def scaleRange (s : Q) : Nat → Nat → Array Q → Except Err (Array Q)
  | 0, _, x => .ok x
  | n + 1, jj, x => do
    let v ← rd x jj
    let x' ← wr x jj (v * s)
    scaleRange s n (jj + 1) x'

def scaleRowsLoop (p : Array Nat) (X : Array Q) : Nat → Nat → Array Q → Except Err (Array Q)
  | 0, _, x => .ok x
  | n + 1, i, x => do
    let s ← rd X i
    if s = 0 then .error .runtime
    else do
      let lo ← rd p i
      let hi ← rd p (i + 1)
      let x' ← scaleRange s (hi - lo) lo x
      scaleRowsLoop p X n (i + 1) x'

/-- `csr_scale_rows(A, X)`, `X` a `row × 1` dense matrix -/
def scaleRows (m : Mat) (X : Array Q) : Except Err Mat :=
  if m.row ≠ X.size then .error .assert
  else do
    let x' ← scaleRowsLoop m.p X m.row 0 m.x
    pure { m with x := x' }

def scaleColsLoop (j : Array Nat) (X : Array Q) : Nat → Nat → Array Q → Except Err (Array Q)
  | 0, _, x => .ok x
  | n + 1, i, x => do
    let c ← rd j i
    let s ← rd X c
    let v ← rd x i
    let x' ← wr x i (v * s)
    scaleColsLoop j X n (i + 1) x'

/-- `csr_scale_columns(A, X)`, `X` a `col × 1` dense matrix -/
def scaleCols (m : Mat) (X : Array Q) : Except Err Mat :=
  if m.col ≠ X.size then .error .assert
  else do
    let nnz ← rd m.p m.row
    if X.any (fun s => s == 0) then .error .runtime
    else do
      let x' ← scaleColsLoop m.j X nnz 0 m.x
      pure { m with x := x' }

def diagLoop (m : Mat) : Nat → Nat → Except Err (List Q)
  | 0, _ => .ok []
  | n + 1, i => do
    let lo ← rd m.p i
    let hi ← rd m.p (i + 1)
    let d ← getLoop m.j m.x i (hi - lo + 1) lo hi
    let r ← diagLoop m n (i + 1)
    pure (d :: r)

/-- `csr_diagonal(A, D)` as patched (half-open binary search as in `get`) -/
def diagonal (m : Mat) : Except Err (List Q) :=
  diagLoop m (min m.row m.col) 0

/-! ### csr_matmat_pass1 / csr_matmat_pass2 (as is) -/

def maskNone : Nat := 4294967295   -- `(unsigned)-1`

/-- `for (kk ∈ [B.p_[j], B.p_[j+1])) { k = B.j_[kk]; if (mask[k] != i) { mask[k] = i; row_nnz++; } }` -/
def pass1Inner (B : Mat) (i : Nat) : Nat → Nat → Array Nat → Nat → Except Err (Array Nat × Nat)
  | 0, _, mask, cnt => .ok (mask, cnt)
  | n + 1, kk, mask, cnt => do
    let k ← rd B.j kk
    let mk ← rd mask k
    if mk ≠ i then do
      let mask' ← wr mask k i
      pass1Inner B i n (kk + 1) mask' (cnt + 1)
    else pass1Inner B i n (kk + 1) mask cnt

def pass1Row (A B : Mat) (i : Nat) : Nat → Nat → Array Nat → Nat → Except Err (Array Nat × Nat)
  | 0, _, mask, cnt => .ok (mask, cnt)
  | n + 1, jj, mask, cnt => do
    let c ← rd A.j jj
    let lo ← rd B.p c
    let hi ← rd B.p (c + 1)
    let (mask', cnt') ← pass1Inner B i (hi - lo) lo mask cnt
    pass1Row A B i n (jj + 1) mask' cnt'

def pass1Rows (A B : Mat) : Nat → Nat → Array Nat → Nat → Array Nat → Except Err (Array Nat)
  | 0, _, _, _, cp => .ok cp
  | n + 1, i, mask, nnz, cp => do
    let lo ← rd A.p i
    let hi ← rd A.p (i + 1)
    let (mask', rowNnz) ← pass1Row A B i (hi - lo) lo mask 0
    let cp' ← wr cp (i + 1) (nnz + rowNnz)
    pass1Rows A B n (i + 1) mask' (nnz + rowNnz) cp'

/-- `csr_matmat_pass1(A, B, C)`: fills `C.p_` -/
def matmatPass1 (A B : Mat) (cp : Array Nat) : Except Err (Array Nat) := do
  let cp0 ← wr cp 0 0
  pass1Rows A B A.row 0 (Array.replicate A.col maskNone) 0 cp0

/-- scratch state of pass 2: `next` (−1 = not in list, −2 = end of list), `sums`, `head`, `length` -/
structure Scratch where
  next : Array Int
  sums : Array Q
  head : Int
  length : Nat

def pass2Inner (B : Mat) (v : Q) : Nat → Nat → Scratch → Except Err Scratch
  | 0, _, s => .ok s
  | n + 1, kk, s => do
    let k ← rd B.j kk
    let bv ← rd B.x kk
    let sk ← rd s.sums k
    let sums' ← wr s.sums k (sk + v * bv)
    let nk ← rd s.next k
    if nk = -1 then do
      let next' ← wr s.next k s.head
      pass2Inner B v n (kk + 1) { next := next', sums := sums', head := (k : Int), length := s.length + 1 }
    else pass2Inner B v n (kk + 1) { s with sums := sums' }

def pass2Row (A B : Mat) : Nat → Nat → Scratch → Except Err Scratch
  | 0, _, s => .ok s
  | n + 1, jj, s => do
    let c ← rd A.j jj
    let v ← rd A.x jj
    let lo ← rd B.p c
    let hi ← rd B.p (c + 1)
    let s' ← pass2Inner B v (hi - lo) lo s
    pass2Row A B n (jj + 1) s'

/-- `for (jj < length) { if (sums[head] != 0) { C.j_[nnz] = head; … } temp = head; head = next[head]; next[temp] = -1; sums[temp] = 0; }` -/
def pass2Drain : Nat → Scratch → Nat → Array Nat → Array Q →
    Except Err (Scratch × Nat × Array Nat × Array Q)
  | 0, s, nnz, cj, cx => .ok (s, nnz, cj, cx)
  | n + 1, s, nnz, cj, cx =>
    if s.head < 0 then .error .oob
    else do
      let h := s.head.toNat
      let sh ← rd s.sums h
      let (nnz', cj', cx') ← (if sh ≠ 0 then do
          let cj' ← wr cj nnz h
          let cx' ← wr cx nnz sh
          pure (nnz + 1, cj', cx')
        else pure (nnz, cj, cx))
      let nh ← rd s.next h
      let next' ← wr s.next h (-1)
      let sums' ← wr s.sums h 0
      pass2Drain n { next := next', sums := sums', head := nh, length := s.length } nnz' cj' cx'

def pass2Rows (A B : Mat) : Nat → Nat → Scratch → Nat → Array Nat → Array Nat → Array Q →
    Except Err (Array Nat × Array Nat × Array Q)
  | 0, _, _, _, cp, cj, cx => .ok (cp, cj, cx)
  | n + 1, i, s, nnz, cp, cj, cx => do
    let lo ← rd A.p i
    let hi ← rd A.p (i + 1)
    let s1 ← pass2Row A B (hi - lo) lo { s with head := -2, length := 0 }
    let (s2, nnz', cj', cx') ← pass2Drain s1.length s1 nnz cj cx
    let cp' ← wr cp (i + 1) nnz'
    pass2Rows A B n (i + 1) s2 nnz' cp' cj' cx'

/-- `csr_matmat_pass2(A, B, C)`: `C.j_`, `C.x_` must be preallocated by the caller -/
def matmatPass2 (A B : Mat) (cp cj : Array Nat) (cx : Array Q) :
    Except Err (Array Nat × Array Nat × Array Q) := do
  let cp0 ← wr cp 0 0
  pass2Rows A B A.row 0
    { next := Array.replicate A.col (-1), sums := Array.replicate A.col 0, head := -2, length := 0 }
    0 cp0 cj cx

/-- the `full` matrix the harness preallocates `C` with: every position stored, value 1 -/
def fullMat (row col : Nat) : Mat :=
  { row := row, col := col,
    p := Array.ofFn (n := row + 1) (fun i => i.val * col),
    j := Array.ofFn (n := row * col) (fun k => k.val % col),
    x := Array.replicate (row * col) 1 }

/-- pass 1 then pass 2 into a preallocated full `C` (no constructor, so no `is_canonical` assert) -/
def matmat (A B : Mat) : Except Err Mat := do
  let C := fullMat A.row B.col
  let cp1 ← matmatPass1 A B C.p
  let (cp2, cj, cx) ← matmatPass2 A B cp1 C.j C.x
  pure { row := A.row, col := B.col, p := cp2, j := cj, x := cx }

/-! ### jacobian of a linear map (the push loop of `CSRMatrix::jacobian`; `diff` is not modelled) -/

def jacRow (ri : Nat) : List Q → Nat → Array Nat → Array Nat → Array Q → Array Nat × Array Nat × Array Q
  | [], _, p, j, x => (p, j, x)
  | d :: t, ci, p, j, x =>
    if d ≠ 0 then jacRow ri t (ci + 1) (p.modify (p.size - 1) (· + 1)) (j.push ci) (x.push d)
    else jacRow ri t (ci + 1) p j x

def jacRows : List (List Q) → Nat → Array Nat → Array Nat → Array Q → Array Nat × Array Nat × Array Q
  | [], _, p, j, x => (p, j, x)
  | r :: t, ri, p, j, x =>
    let p1 := p.push (p.getD (p.size - 1) 0)
    let (p2, j2, x2) := jacRow ri r 0 p1 j x
    jacRows t (ri + 1) p2 j2 x2

/-- `CSRMatrix::jacobian(exprs, x)` given the matrix of derivatives `d exprs[ri] / d x[ci]` -/
def jacobian (ncols : Nat) (derivs : List (List Q)) : Except Err Mat :=
  let (p, j, x) := jacRows derivs 0 #[0] #[] #[]
  mk derivs.length ncols p j x

/-! ### histories -/

inductive Op where
  | set (i c : Nat) (e : Q)
  | get (i c : Nat)
  | add (ts : List Triple)       -- csr_binop_csr_canonical(this, from_coo(ts), C, add)
  | sub (ts : List Triple)
  | emul (ts : List Triple)      -- elementwise_mul_matrix
  | transpose
  | conj
  | scaleRows (X : List Q)
  | scaleCols (X : List Q)
  | diag
  | check                        -- the three static predicates on the current arrays
  deriving Repr

/-- what one call returns besides the new state -/
inductive Out where
  | state
  | val (q : Q)
  | vals (l : List Q)
  | flags (sorted dups canon : Bool)
  deriving Repr

def step (m : Mat) : Op → Except Err (Mat × Out)
  | .set i c e => do let m' ← set m i c e; pure (m', .state)
  | .get i c => do let v ← get m i c; pure (m, .val v)
  | .add ts => do let b ← fromCoo m.row m.col ts; let r ← binop (· + ·) m b; pure (r, .state)
  | .sub ts => do let b ← fromCoo m.row m.col ts; let r ← binop (· - ·) m b; pure (r, .state)
  | .emul ts => do let b ← fromCoo m.row m.col ts; let r ← binop (· * ·) m b; pure (r, .state)
  | .transpose => do let r ← transpose m; pure (r, .state)
  | .conj => do let r ← conjugate m; pure (r, .state)
  | .scaleRows X => do let r ← scaleRows m X.toArray; pure (r, .state)
  | .scaleCols X => do let r ← scaleCols m X.toArray; pure (r, .state)
  | .diag => do let d ← diagonal m; pure (m, .vals d)
  | .check => do
      let s ← hasSortedIndices m.p m.j m.row
      let d ← hasDuplicates m.p m.j m.row
      let c ← hasCanonicalFormat m.p m.j m.row
      pure (m, .flags s d c)

/-- run a history: the states after each call and what each call returned; stops at the first error -/
def run : Mat → List Op → List (Mat × Out) → List (Mat × Out) × Option Err
  | _, [], acc => (acc.reverse, none)
  | m, op :: ops, acc =>
    match step m op with
    | .error e => (acc.reverse, some e)
    | .ok (m', o) => run m' ops ((m', o) :: acc)

/-- the final state of a history -/
def runM : Mat → List Op → Except Err Mat
  | m, [] => .ok m
  | m, op :: ops => do let (m', _) ← step m op; runM m' ops

end SymVerif.CSR
