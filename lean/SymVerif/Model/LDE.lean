/-
Model of symengine/diophantine.cpp : `order`, `is_minimum`, `homogeneous_lde`
(Contejean–Devie incremental algorithm, stack version with frozen components).

* Row vectors (`DenseMatrix(1, q)` of `Integer`s) are `List Int`; the matrix `A` is its list of rows.
* The stack `P` is an `Array` (push_back / pop_back / `P[n]`), `Frozen` is an `Array (Array Bool)`
  (`q` rows of `q` bools) addressed `Frozen[n][i]` with `n` = stack depth.  Reads and writes of
  `Frozen` and `F` are bounds-checked and return `Err.oob` where the C++ would index outside the
  `std::vector` (undefined behaviour) — the theorem `frozen_inbounds` shows this never happens.
* `basis` is kept newest-first (the C++ `is_minimum(t, basis, n)` walks `basis[n-1], …, basis[0]`,
  i.e. exactly this list order); the result is returned oldest-first like the C++ vector.
* The `while (P.size() > 0)` loop takes fuel; `Err.fuel` = not finished within the fuel.
* `SYMENGINE_ASSERT(p > 0 and q > 1)` is `Err.assert` (the check builds with assertions on).

Core Lean only: this file is linked into the native driver.
-/
namespace SymVerif.LDE

abbrev Vec := List Int

inductive Err where
  | oob      -- index outside Frozen / F (undefined behaviour in the C++)
  | assert   -- SYMENGINE_ASSERT(p > 0 and q > 1)
  | fuel     -- main loop not finished within the fuel
  deriving Repr, DecidableEq

/-- scalar product of two rows -/
def dot : Vec → Vec → Int
  | a :: as, b :: bs => a * b + dot as bs
  | _, _ => 0

/-- `A.mul_matrix(transpose(t), product)` : the column `A tᵀ` as a list -/
def mulVec (A : List Vec) (t : Vec) : Vec := A.map (fun row => dot row t)

/-- `m.eq(zero matrix)` -/
def isZero (v : Vec) : Bool := v.all (· == 0)

/-- the loop of `order(t, basis, k)` over the columns, `eq` is the C++ local -/
def orderGo : Vec → Vec → Bool → Bool
  | tj :: ts, bj :: bs, eq =>
    if tj < bj then false else orderGo ts bs (if tj > bj then false else eq)
  | _, _, eq => !eq

/-- `order(t, basis, k)` with `b = basis[k]`: `t ≥ b` componentwise and `t ≠ b` -/
def order (t b : Vec) : Bool := orderGo t b true

/-- `is_minimum(t, basis, basis.size())`: recursion from the newest basis element down -/
def isMinimum (t : Vec) : List Vec → Bool
  | [] => true
  | b :: rest => !order t b && isMinimum t rest

/-- `T.set(0, i, T.get(0, i) + d)` -/
def incAt (v : Vec) (i : Nat) (d : Int) : Vec := v.modify i (· + d)

/-- `dot = Σ_j product(j,0) * A(j,i)` -/
def colDot : List Vec → Vec → Nat → Int
  | row :: rows, pj :: ps, i => pj * row.getD i 0 + colDot rows ps i
  | _, _, _ => 0

/-- `for (j < q) F[j] = Frozen[n][j]` -/
def getRow (fr : Array (Array Bool)) (n : Nat) : Except Err (Array Bool) :=
  if h : n < fr.size then .ok fr[n] else .error .oob

/-- `for (j < q) Frozen[r][j] = F[j]` -/
def setRow (fr : Array (Array Bool)) (r : Nat) (F : Array Bool) : Except Err (Array (Array Bool)) :=
  if h : r < fr.size then .ok (fr.set r F h) else .error .oob

/-- `F[i]` -/
def getF (F : Array Bool) (i : Nat) : Except Err Bool :=
  if h : i < F.size then .ok F[i] else .error .oob

/-- `F[i] = true` -/
def setF (F : Array Bool) (i : Nat) : Except Err (Array Bool) :=
  if h : i < F.size then .ok (F.set i true h) else .error .oob

/-- state of the `for (i < q)` loop -/
structure Inner where
  T : Vec
  F : Array Bool
  n : Nat
  P : Array Vec
  frozen : Array (Array Bool)

/-- `for (unsigned i = 0; i < q; i++) { … }` of the expansion branch;
    `tZero` is `t.eq(row_zero)`, `rem` = remaining iterations. -/
def innerLoop (A : List Vec) (product : Vec) (basis : List Vec) (tZero : Bool) :
    Nat → Nat → Inner → Except Err Inner
  | 0, _, s => .ok s
  | rem + 1, i, s => do
    let T := incAt s.T i 1
    let T := if i > 0 then incAt T (i - 1) (-1) else T
    let d := colDot A product i
    let Fi ← getF s.F i
    if Fi == false && ((decide (d < 0) && isMinimum T basis) || tZero) then
      let P := s.P.push T
      let n := s.n + 1
      let frozen ← setRow s.frozen (n - 1) s.F
      let F ← setF s.F i
      innerLoop A product basis tZero rem (i + 1) { T := T, F := F, n := n, P := P, frozen := frozen }
    else
      innerLoop A product basis tZero rem (i + 1) { s with T := T }

/-- state of the `while` loop -/
structure St where
  P : Array Vec
  frozen : Array (Array Bool)
  basis : List Vec      -- newest first

/-- one iteration of `while (P.size() > 0)`, for `P` non-empty -/
def step (A : List Vec) (q : Nat) (s : St) : Except Err St :=
  let n := s.P.size - 1
  let t := s.P.getD n []
  let P := s.P.pop
  let product := mulVec A t
  if isZero product && !isZero t then
    .ok { s with P := P, basis := t :: s.basis }
  else do
    let F ← getRow s.frozen n
    let r ← innerLoop A product s.basis (isZero t) q 0
      { T := t, F := F, n := n, P := P, frozen := s.frozen }
    .ok { P := r.P, frozen := r.frozen, basis := s.basis }

def mainLoop (A : List Vec) (q : Nat) : Nat → St → Except Err (List Vec)
  | 0, _ => .error .fuel
  | fuel + 1, s =>
    if s.P.size > 0 then do
      let s' ← step A q s
      mainLoop A q fuel s'
    else .ok s.basis.reverse

/-- initial state: `P = [0]`, `Frozen` all true except row 0 -/
def initSt (q : Nat) : St :=
  { P := #[List.replicate q 0],
    frozen := (Array.replicate q (Array.replicate q true)).setIfInBounds 0 (Array.replicate q false),
    basis := [] }

/-- `homogeneous_lde(basis, A)` with `basis` initially empty; `A` has `p` rows of length `q` -/
def homogeneousLde (A : List Vec) (p q : Nat) (fuel : Nat) : Except Err (List Vec) :=
  if p = 0 ∨ q ≤ 1 then .error .assert
  else mainLoop A q fuel (initSt q)

end SymVerif.LDE
