/-
An independent, small front end and semantics for the C expressions the printers emit
(ISO C 6.5 operator precedence and the usual arithmetic conversions between `int` and `double`):

  lex     : String → Option (List Tok)
  cparse  : List Tok → Option CExpr        precedence climbing, fuel = number of tokens
  wf      : CExpr → Bool                   "the tree is what the C grammar reads from its rendering"
  cEval   : value of a tree; integer literals stay integers (`1/2 = 0`), mixed operands convert

Nothing here looks at symengine: it is the yardstick the printer model `toC` is measured with.
Core Lean only.
-/
import SymVerif.Model.CCode

namespace SymVerif.CCode
open SymVerif.EvalG

inductive Tok where
  | num (s : String)
  | id (s : String)
  | sym (s : String)      -- ( ) , ? : + - * / ! < <= > >= == != && ||
  deriving DecidableEq, Repr, Inhabited

def isIdStart (c : Char) : Bool := c.isAlpha || c == '_'
def isIdChar (c : Char) : Bool := c.isAlphanum || c == '_'

/-- numeric literal: digits [. digits] [e[+-]digits] [f], or `digits.` -/
def takeNum : List Char → List Char × List Char
  | cs =>
    let (ip, r) := cs.span Char.isDigit
    let (fp, r) := match r with
      | '.' :: r' => let (d, r'') := r'.span Char.isDigit; ('.' :: d, r'')
      | _ => ([], r)
    let (ep, r) := match r with
      | 'e' :: '+' :: r' => let (d, r'') := r'.span Char.isDigit; ('e' :: '+' :: d, r'')
      | 'e' :: '-' :: r' => let (d, r'') := r'.span Char.isDigit; ('e' :: '-' :: d, r'')
      | _ => ([], r)
    let (sf, r) := match r with
      | 'f' :: r' => (['f'], r')
      | _ => ([], r)
    (ip ++ fp ++ ep ++ sf, r)

def lexAux : Nat → List Char → List Tok → Option (List Tok)
  | 0, _, _ => none
  | _, [], acc => some acc.reverse
  | fuel + 1, c :: cs, acc =>
    if c == ' ' || c == '\n' || c == '\t' then lexAux fuel cs acc
    else if c.isDigit then
      let (n, r) := takeNum (c :: cs)
      lexAux fuel r (Tok.num (String.ofList n) :: acc)
    else if isIdStart c then
      let (n, r) := (c :: cs).span isIdChar
      lexAux fuel r (Tok.id (String.ofList n) :: acc)
    else
      match c, cs with
      | '<', '=' :: r => lexAux fuel r (Tok.sym "<=" :: acc)
      | '>', '=' :: r => lexAux fuel r (Tok.sym ">=" :: acc)
      | '=', '=' :: r => lexAux fuel r (Tok.sym "==" :: acc)
      | '!', '=' :: r => lexAux fuel r (Tok.sym "!=" :: acc)
      | '&', '&' :: r => lexAux fuel r (Tok.sym "&&" :: acc)
      | '|', '|' :: r => lexAux fuel r (Tok.sym "||" :: acc)
      | _, _ =>
        if "(),?:+-*/!<>".contains c then lexAux fuel cs (Tok.sym (String.singleton c) :: acc)
        else none

def lex (s : String) : Option (List Tok) := lexAux (s.length + 1) s.toList []

/-- binding strength of the binary operators (larger binds tighter) -/
def BinOp.level : BinOp → Nat
  | .lor => 2 | .land => 3 | .eq | .ne => 7 | .lt | .le | .gt | .ge => 8
  | .add | .sub => 10 | .mul | .div => 11

def binOfSym : String → Option BinOp
  | "*" => some .mul | "/" => some .div | "+" => some .add | "-" => some .sub
  | "<" => some .lt | "<=" => some .le | ">" => some .gt | ">=" => some .ge
  | "==" => some .eq | "!=" => some .ne | "&&" => some .land | "||" => some .lor
  | _ => none

mutual
  /-- conditional-expression -/
  def pCond : Nat → List Tok → Option (CExpr × List Tok)
    | 0, _ => none
    | fuel + 1, ts => do
      let (c, r) ← pBin fuel 2 ts
      match r with
      | Tok.sym "?" :: r1 => do
        let (a, r2) ← pCond fuel r1
        match r2 with
        | Tok.sym ":" :: r3 => do
          let (b, r4) ← pCond fuel r3
          pure (.cond false c a b, r4)
        | _ => none
      | _ => pure (c, r)

  /-- binary operators of level ≥ `minLevel`, left associative -/
  def pBin : Nat → Nat → List Tok → Option (CExpr × List Tok)
    | 0, _, _ => none
    | fuel + 1, minLevel, ts => do
      let (a, r) ← pUnary fuel ts
      pBinRest fuel minLevel a r

  def pBinRest : Nat → Nat → CExpr → List Tok → Option (CExpr × List Tok)
    | 0, _, _, _ => none
    | fuel + 1, minLevel, lhs, ts =>
      match ts with
      | Tok.sym s :: r =>
        match binOfSym s with
        | some op =>
          if op.level ≥ minLevel then do
            -- right operand: everything that binds tighter than `op`
            let (b, r') ← pBin fuel (op.level + 1) r
            pBinRest fuel minLevel (.bin op lhs b) r'
          else pure (lhs, ts)
        | none => pure (lhs, ts)
      | _ => pure (lhs, ts)

  def pUnary : Nat → List Tok → Option (CExpr × List Tok)
    | 0, _ => none
    | fuel + 1, ts =>
      match ts with
      | Tok.sym "-" :: r => do
        let (a, r') ← pUnary fuel r
        pure (.neg a, r')
      | Tok.sym "!" :: r => do
        let (a, r') ← pUnary fuel r
        pure (.lnot a, r')
      | Tok.num s :: r => pure (.lit s, r)
      | Tok.id s :: Tok.sym "(" :: r =>
        match r with
        | Tok.sym ")" :: r' => pure (.call s [], r')
        | _ => do
          let (args, r') ← pArgs fuel r
          pure (.call s args, r')
      | Tok.id s :: r => pure (.ident s, r)
      | Tok.sym "(" :: r => do
        let (a, r') ← pCond fuel r
        match r' with
        | Tok.sym ")" :: r'' => pure (.paren a, r'')
        | _ => none
      | _ => none

  def pArgs : Nat → List Tok → Option (List CExpr × List Tok)
    | 0, _ => none
    | fuel + 1, ts => do
      let (a, r) ← pCond fuel ts
      match r with
      | Tok.sym "," :: r' => do
        let (as, r'') ← pArgs fuel r'
        pure (a :: as, r'')
      | Tok.sym ")" :: r' => pure ([a], r')
      | _ => none
end

def cparse (ts : List Tok) : Option CExpr :=
  match pCond (4 * ts.length + 8) ts with
  | some (e, []) => some e
  | _ => none

mutual
  /-- forget the layout flag of `cond` -/
  def normML : CExpr → CExpr
    | .call f args => .call f (normMLList args)
    | .neg a => .neg (normML a)
    | .lnot a => .lnot (normML a)
    | .bin op a b => .bin op (normML a) (normML b)
    | .cond _ c a b => .cond false (normML c) (normML a) (normML b)
    | .paren a => .paren (normML a)
    | .num v => .lit v.str
    | e => e
  def normMLList : List CExpr → List CExpr
    | [] => []
    | a :: t => normML a :: normMLList t
end

/-- syntactic category of a tree in the C grammar: 14 primary/postfix, 12 unary, n binary level, 1 conditional -/
def level : CExpr → Nat
  | .lit _ | .num _ | .ident _ | .call _ _ | .paren _ => 14
  | .neg _ | .lnot _ => 12
  | .bin op _ _ => op.level
  | .cond _ _ _ _ => 1

mutual
  /-- the tree is exactly what the C grammar produces for its own rendering: every operand sits in a
  position of its syntactic category (left operands ≥ the operator's level, right operands >) -/
  def wf : CExpr → Bool
    | .lit _ | .num _ | .ident _ => true
    | .call _ args => wfList args
    | .neg a => level a ≥ 12 && wf a
    | .lnot a => level a ≥ 12 && wf a
    | .bin op a b => level a ≥ op.level && level b > op.level && wf a && wf b
    | .cond _ c a b => level c ≥ 2 && wf c && wf a && wf b
    | .paren a => wf a
  def wfList : List CExpr → Bool
    | [] => true
    | a :: t => wf a && wfList t
end

/-! ### evaluation -/

inductive CVal (α : Type) where
  | int (n : Int)
  | dbl (x : α)

variable {α : Type}

def CVal.toD (O : NumOps α) : CVal α → α
  | .int n => O.ofQNear n 1
  | .dbl x => x

inductive CErr where
  | unbound | badLiteral | badCall | divZero | float
  deriving DecidableEq, Repr

/-- decimal literal `ddd[.ddd][e±dd]` as an exact rational; integer literals stay integers -/
def parseLit (s : String) : Option (Bool × Int × Nat) :=
  -- returns (isInteger, num, den)
  let cs := s.toList
  let (ip, r) := cs.span Char.isDigit
  let (fp, r, hasDot) := match r with
    | '.' :: r' => let (d, r'') := r'.span Char.isDigit; (d, r'', true)
    | _ => ([], r, false)
  let (ex, r, hasExp) : Int × List Char × Bool := match r with
    | 'e' :: '+' :: r' => let (d, r'') := r'.span Char.isDigit; (((String.ofList d).toNat?.getD 0 : Nat), r'', true)
    | 'e' :: '-' :: r' => let (d, r'') := r'.span Char.isDigit; (-(((String.ofList d).toNat?.getD 0 : Nat) : Int), r'', true)
    | _ => (0, r, false)
  if !r.isEmpty then none else
  match (String.ofList (ip ++ fp)).toNat? with
  | none => none
  | some m =>
    let sc : Int := ex - fp.length
    if !hasDot && !hasExp then some (true, m, 1)
    else if sc ≥ 0 then some (false, (m * 10 ^ sc.toNat : Nat), 1)
    else some (false, m, 10 ^ (-sc).toNat)

def cFn1 : String → Option Fn
  | "sin" => some .sin | "cos" => some .cos | "tan" => some .tan | "asin" => some .asin | "acos" => some .acos
  | "atan" => some .atan | "sinh" => some .sinh | "cosh" => some .cosh | "tanh" => some .tanh
  | "asinh" => some .asinh | "acosh" => some .acosh | "atanh" => some .atanh | "exp" => some .exp
  | "log" => some .log | "sqrt" => some .sqrt | "cbrt" => some .cbrt | "fabs" => some .abs | "floor" => some .floor
  | "ceil" => some .ceil | "trunc" => some .trunc | "tgamma" => some .tgamma | "lgamma" => some .lgamma
  | "erf" => some .erf | "erfc" => some .erfc
  | _ => none

def cFn2 : String → Option Fn
  | "atan2" => some .atan2 | "pow" => some .pow | "fmax" => some .max | "fmin" => some .min
  | _ => none

/-- static type of an expression: `true` = int, `false` = double (identifiers are `double` variables,
math functions return `double`, comparisons and logical operators yield `int`, the arithmetic
operators and `?:` take the common type of their operands — ISO C 6.3.1.8, 6.5.15) -/
def isIntTyped : CExpr → Bool
  | .lit s => match parseLit s with
    | some (true, _, _) => true
    | _ => false
  | .num (.int _) => true
  | .num (.dbl _ _ _) => false
  | .ident _ => false
  | .call _ _ => false
  | .neg a => isIntTyped a
  | .lnot _ => true
  | .bin op a b =>
    match op with
    | .mul | .div | .add | .sub => isIntTyped a && isIntTyped b
    | _ => true
  | .cond _ _ a b => isIntTyped a && isIntTyped b
  | .paren a => isIntTyped a

/-- the tree contains a division (or any arithmetic) carried out in `int`: `a / b` with both operands int-typed -/
def hasIntDiv : CExpr → Bool
  | .call _ args => args.attach.any (fun ⟨a, _⟩ => hasIntDiv a)
  | .neg a => hasIntDiv a
  | .lnot a => hasIntDiv a
  | .bin op a b => (op == .div && isIntTyped a && isIntTyped b) || hasIntDiv a || hasIntDiv b
  | .cond _ c a b => hasIntDiv c || hasIntDiv a || hasIntDiv b
  | .paren a => hasIntDiv a
  | _ => false

def ofB (b : Bool) : CVal α := .int (if b then 1 else 0)

def truth (O : NumOps α) : CVal α → Bool
  | .int n => n != 0
  | .dbl x => O.truthy x

/-- usual arithmetic conversions for the arithmetic operators -/
def arith (O : NumOps α) (op : BinOp) (a b : CVal α) : Except CErr (CVal α) :=
  match a, b with
  | .int x, .int y =>
    match op with
    | .add => .ok (.int (x + y))
    | .sub => .ok (.int (x - y))
    | .mul => .ok (.int (x * y))
    | .div => if y == 0 then .error .divZero else .ok (.int (Int.tdiv x y))
    | .lt => .ok (ofB (x < y)) | .le => .ok (ofB (x ≤ y)) | .gt => .ok (ofB (y < x)) | .ge => .ok (ofB (y ≤ x))
    | .eq => .ok (ofB (x == y)) | .ne => .ok (ofB (x != y))
    | .land => .ok (ofB (x != 0 && y != 0)) | .lor => .ok (ofB (x != 0 || y != 0))
  | _, _ =>
    let x := a.toD O
    let y := b.toD O
    match op with
    | .add => .ok (.dbl (O.add x y))
    | .sub => .ok (.dbl (O.sub x y))
    | .mul => .ok (.dbl (O.mul x y))
    | .div => .ok (.dbl (O.div x y))
    | .lt => .ok (ofB (O.lt x y)) | .le => .ok (ofB (O.le x y)) | .gt => .ok (ofB (O.lt y x)) | .ge => .ok (ofB (O.le y x))
    | .eq => .ok (ofB (O.eq x y)) | .ne => .ok (ofB (!(O.eq x y)))
    | .land => .ok (ofB (truth O a && truth O b)) | .lor => .ok (ofB (truth O a || truth O b))

mutual
  def cEval (O : NumOps α) (env : String → Option α) : CExpr → Except CErr (CVal α)
    | .lit s =>
      if s.endsWith "f" then .error .float else
      match parseLit s with
      | some (true, n, _) =>
        -- an integer constant must fit one of the integer types (ISO C 6.4.4.1); we stop at 64 bits
        if n < 2 ^ 63 then .ok (.int n) else .error .badLiteral
      | some (false, n, d) => .ok (.dbl (O.ofQNear n d))
      | none => .error .badLiteral
    | .num (.int n) => if n < 2 ^ 63 then .ok (.int n) else .error .badLiteral
    | .num (.dbl b f _) => if f then .error .float else .ok (.dbl (O.ofBits b))
    | .ident s =>
      if s == "INFINITY" || s == "HUGE_VAL" then .ok (.dbl (O.inf false))
      else if s == "NAN" then .ok (.dbl O.nan)
      else match env s with
        | some v => .ok (.dbl v)
        | none => .error .unbound
    | .call f args => do
      let vs ← cEvalList O env args
      match vs with
      | [a] => match cFn1 f with
        | some g => match O.call1 g (a.toD O) with
          | some r => .ok (.dbl r)
          | none => .error .badCall
        | none => .error .badCall
      | [a, b] => match cFn2 f with
        | some g => match O.call2 g (a.toD O) (b.toD O) with
          | some r => .ok (.dbl r)
          | none => .error .badCall
        | none => .error .badCall
      | _ => .error .badCall
    | .neg a => do
      let v ← cEval O env a
      match v with
      | .int n => pure (.int (-n))
      | .dbl x => pure (.dbl (O.neg x))
    | .lnot a => do
      let v ← cEval O env a
      pure (ofB (!(truth O v)))
    | .bin .land a b => do
      let x ← cEval O env a
      if truth O x then do
        let y ← cEval O env b
        pure (ofB (truth O y))
      else pure (ofB false)
    | .bin .lor a b => do
      let x ← cEval O env a
      if truth O x then pure (ofB true) else do
        let y ← cEval O env b
        pure (ofB (truth O y))
    | .bin op a b => do
      let x ← cEval O env a
      let y ← cEval O env b
      arith O op x y
    | .cond _ c a b => do
      let t ← cEval O env c
      let v ← if truth O t then cEval O env a else cEval O env b
      -- the result has the common type of both branches (double if either is)
      if isIntTyped a && isIntTyped b then pure v else pure (.dbl (v.toD O))
    | .paren a => cEval O env a
  def cEvalList (O : NumOps α) (env : String → Option α) : List CExpr → Except CErr (List (CVal α))
    | [] => .ok []
    | a :: t => do
      let v ← cEval O env a
      let vs ← cEvalList O env t
      pure (v :: vs)
end

end SymVerif.CCode
