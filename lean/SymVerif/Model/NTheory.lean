/-
Model of symengine/ntheory.cpp and the numeric parts of ntheory_funcs.cpp.

Two layers.

* **GMP layer** (`mp*`, `kronecker`, `isPrime`, `iroot`, …): the thin wrappers of
  `mp_class.h` are not hand-written symengine code; they are specified here by their
  documented meaning through small executable definitions (trial division, binary
  search, Euclid).  The Props file relates them to Mathlib's definitions.
* **symengine layer**: the hand-written algorithms are mirrored statement by statement
  (`primeFactorMultiplicities`, `totient`, `carmichael`, `multiplicativeOrder`,
  `primitiveRoot(List)`, `crt`, `nthrootMod1`, `nthrootModPrimePower`, `nthrootMod(List)`,
  `powermod(List)`, `isQuadResidue`, `isNthResidue`, `mobius`, `mertens`, `bernoulli`,
  `harmonic`, `factorLehman`, `perfectPowerDecomposition`, polygonal numbers …).

Loops are structural recursions on an explicit fuel argument that is provably large
enough (or `Err.fuel`, never observed).  `integer_class` is `Int`; `unsigned` counters
are `Nat` (all harness inputs keep them far below 2^32).

Deviations that do not change results (argued in docs/C32.md):
* `Sieve::iterator` loops "for every prime p ≤ limit" are modelled as "for every d in
  2..limit": a composite d never divides the remaining cofactor (C33 covers the sieve).
* `mp_gcdext` Bézout coefficients are only used modulo the cofactor; any valid pair gives
  the same result.  `gcdExt` itself follows the normalisation documented for `mpz_gcdext`.
* `_sqrt_mod_tonelli_shanks` draws random numbers until it finds a non-residue; the model
  takes the smallest non-residue (harness keeps exact single-root comparison away from
  that branch: primes ≥ 10000 that are 1 mod 8).
* the model is the code *with the C32 patch applied* (floor-mod in the `2^2` branch,
  reduction of the listed roots modulo `2^k`, ceiling square root in Lehman's method),
  see docs/C32.md.

Core Lean only: this file is linked into the native driver.
-/
namespace SymVerif.NTheory

inductive Err where
  | runtime   -- SymEngineException            → `E:Runtime`
  | domain    -- DomainError                   → `E:Domain`
  | fpe       -- GMP division by zero: the process dies with SIGFPE
  | range     -- argument outside the modelled range
  | fuel      -- recursion fuel exhausted (the C++ loop would not terminate)
  deriving Repr, DecidableEq

abbrev M := Except Err

/-! ## GMP layer -/

/-- `a^e mod m` by binary exponentiation (`mpz_powm` for `e ≥ 0`, `m > 0`, `0 ≤ a`). -/
def powModNat (a e m : Nat) : Nat :=
  if h : e = 0 then 1 % m
  else
    let half := powModNat a (e / 2) m
    let sq := half * half % m
    if e % 2 = 1 then sq * (a % m) % m else sq
termination_by e
decreasing_by omega

/-- extended Euclid on naturals: `(g, x, y)` with `a*x + b*y = g = gcd a b` -/
def egcd (a b : Nat) : Nat × Int × Int :=
  if h : b = 0 then (a, 1, 0)
  else
    let r := egcd b (a % b)
    (r.1, r.2.2, r.2.1 - (a / b : Nat) * r.2.2)
termination_by b
decreasing_by exact Nat.mod_lt _ (Nat.pos_of_ne_zero h)

/-- inverse of `a` modulo `m > 0` in `[0, m)`, if `gcd a m = 1` (`mpz_invert`; for `m = 1` it is 0). -/
def invNat (a m : Nat) : Option Nat :=
  let r := egcd (a % m) m
  if r.1 == 1 then some (r.2.1 % (m : Int)).toNat else none

/-- `mpz_invert(a, m)` for `m ≠ 0` (the modulus is used by absolute value). -/
def mpInvert (a m : Int) : Option Int :=
  let mm := m.natAbs
  (invNat (a % (mm : Int)).toNat mm).map Int.ofNat

/-- `mpz_powm(a, e, m)` for `m > 0`, `e ≥ 0`, any sign of `a`; result in `[0, m)`. -/
def powmN (a : Int) (e m : Nat) : Int :=
  (powModNat (a % (m : Int)).toNat e m : Nat)

/-- `mpz_powm(a, e, m)`: division by zero when `m = 0` or when `e < 0` and `a` is not invertible. -/
def mpPowm (a e m : Int) : M Int :=
  if m == 0 then .error .fpe
  else
    let mm := m.natAbs
    if e ≥ 0 then .ok (powmN a e.toNat mm)
    else
      match invNat (a % (mm : Int)).toNat mm with
      | none => .error .fpe
      | some i => .ok (powmN i (-e).toNat mm)

/-- binary search for the floor of the `k`-th root: invariant `lo^k ≤ n < hi^k` -/
def irootLoop (n k : Nat) : Nat → Nat → Nat → Nat
  | 0, lo, _ => lo
  | f + 1, lo, hi =>
    if hi ≤ lo + 1 then lo
    else
      let mid := (lo + hi) / 2
      if mid ^ k ≤ n then irootLoop n k f mid hi else irootLoop n k f lo mid

/-- `mpz_root(n, k)`: `⌊n^(1/k)⌋` for `n ≥ 0`, `k ≥ 1` -/
def iroot (n k : Nat) : Nat :=
  if k == 0 then 0
  else if n == 0 then 0
  else irootLoop n k (n.log2 + 3) 0 (2 ^ (n.log2 / k + 1))

/-- the boolean returned by `mpz_root`: the root is exact -/
def rootExact (n k : Nat) : Bool := (iroot n k) ^ k == n

/-- trial division loop of the primality specification: no divisor in `[d, √n]` -/
def noDivisorFrom (n : Nat) : Nat → Nat → Bool
  | 0, _ => true
  | f + 1, d => if d * d > n then true else if n % d == 0 then false else noDivisorFrom n f (d + 1)

/-- specification of `mpz_probab_prime_p(n, reps) > 0` (exact primality) -/
def isPrime (n : Nat) : Bool := n ≥ 2 && noDivisorFrom n (Nat.sqrt n) 2

/-- `mpz_perfect_power_p(n)` for `n ≥ 0`: exists `a`, `b > 1` with `n = a^b` (0 and 1 count) -/
def perfectPowerP (n : Nat) : Bool :=
  n ≤ 1 || (List.range (n.log2 - 1)).any (fun i => rootExact n (i + 2))

/-- repeated exact division: `(count, cofactor)`; the C++ `while (n % p == 0) { ++c; n /= p; }` -/
def divOut (p : Nat) : Nat → Nat → Nat → Nat × Nat
  | 0, n, c => (c, n)
  | f + 1, n, c => if n % p == 0 then divOut p f (n / p) (c + 1) else (c, n)

/-- `mpz_scan1(n, 0)` for `n ≠ 0`: the 2-adic valuation -/
def val2 (n : Nat) : Nat := (divOut 2 n n 0).1

/-- Jacobi symbol core, the binary algorithm (same recursion as Mathlib's `fastJacobiSymAux`). -/
def jacobiAux (a b : Nat) (flip : Bool) : Int :=
  if ha0 : a = 0 then 0
  else if ha4 : a % 4 = 0 then jacobiAux (a / 4) b flip
  else if ha2 : a % 2 = 0 then jacobiAux (a / 2) b (xor (decide (b % 8 = 3 ∨ b % 8 = 5)) flip)
  else if a = 1 then (if flip then -1 else 1)
  else if hba : b % a = 0 then 0
  else jacobiAux (b % a) a (xor (decide (a % 4 = 3 ∧ b % 4 = 3)) flip)
termination_by a
decreasing_by
  · omega
  · omega
  · exact Nat.mod_lt _ (Nat.pos_of_ne_zero ha0)

/-- Jacobi symbol `(a | b)` for odd `b > 0` -/
def jacobiOdd (a : Int) (b : Nat) : Int :=
  if b == 1 then 1
  else
    let r := (a % (b : Int)).toNat
    if r == 0 then 0 else jacobiAux r b false

/-- Kronecker symbol `(a | b)`: what `mpz_jacobi = mpz_legendre = mpz_kronecker` compute for all
    `b` (Cohen, Algorithm 1.4.10). -/
def kronecker (a b : Int) : Int :=
  if b == 0 then (if a.natAbs == 1 then 1 else 0)
  else if a % 2 == 0 && b % 2 == 0 then 0
  else
    let v := val2 b.natAbs
    let bo := b.natAbs / 2 ^ v
    let r8 := a % 8
    let k2 : Int := if v % 2 == 1 && (r8 == 3 || r8 == 5) then -1 else 1
    let ks : Int := if b < 0 && a < 0 then -1 else 1
    k2 * ks * jacobiOdd a bo

/-! ### thin wrappers: gcd, lcm, gcd_ext, mod_inverse, quotient/mod families -/

def gcd (a b : Int) : Int := (Int.gcd a b : Nat)

def lcm (a b : Int) : Int := (Int.lcm a b : Nat)

def sgn (a : Int) : Int := if a > 0 then 1 else if a < 0 then -1 else 0

/-- `mpz_gcdext`: `(g, s, t)`, `a*s + b*t = g`, normalised as documented in the GMP manual:
    `|s| < |b|/(2g)`, `|t| < |a|/(2g)` except: `|a| = |b|` → `s = 0, t = sgn b`;
    otherwise `s = sgn a` if `b = 0` or `|b| = 2g`, and `t = sgn b` if `a = 0` or `|a| = 2g`. -/
def gcdExt (a b : Int) : Int × Int × Int :=
  let g : Int := gcd a b
  if a.natAbs == b.natAbs then (g, 0, sgn b)
  else if b == 0 then (g, sgn a, 0)
  else if a == 0 then (g, 0, sgn b)
  else if b.natAbs == 2 * g.natAbs then
    let s := sgn a
    (g, s, (g - a * s) / b)
  else if a.natAbs == 2 * g.natAbs then
    let t := sgn b
    (g, (g - b * t) / a, t)
  else
    -- the unique `s` with `s*a ≡ g (mod b)` and `|s| < |b|/(2g)`
    let bb := b.natAbs / g.natAbs
    let a' := (a / g) % (bb : Int)
    match invNat a'.toNat bb with
    | none => (g, 0, 0)       -- unreachable: gcd (a/g) (b/g) = 1
    | some i =>
      let s : Int := if 2 * i > bb then (i : Int) - bb else i
      (g, s, (g - a * s) / b)

/-- `mod_inverse`: `(ret_val, inverse)`; the inverse is meaningful only when `ret_val = 1`. -/
def modInverse (a m : Int) : Option Int := if m == 0 then none else mpInvert a m

def mod (n d : Int) : Int := Int.tmod n d
def quotient (n d : Int) : Int := Int.tdiv n d
def quotientMod (n d : Int) : Int × Int := (Int.tdiv n d, Int.tmod n d)
def modF (n d : Int) : Int := Int.fmod n d
def quotientF (n d : Int) : Int := Int.fdiv n d
def quotientModF (n d : Int) : Int × Int := (Int.fdiv n d, Int.fmod n d)

/-- `(F n, F (n+1))` -/
def fibPair : Nat → Nat × Nat
  | 0 => (0, 1)
  | n + 1 => let p := fibPair n; (p.2, p.1 + p.2)

def fibonacci (n : Nat) : Nat := (fibPair n).1

/-- `fibonacci2`: `(F n, F (n-1))`, with `F (-1) = 1` -/
def fibonacci2 (n : Nat) : Nat × Nat :=
  match n with
  | 0 => (0, 1)
  | k + 1 => let p := fibPair k; (p.2, p.1)

/-- `(L n, L (n+1))` -/
def lucasPair : Nat → Nat × Nat
  | 0 => (2, 1)
  | n + 1 => let p := lucasPair n; (p.2, p.1 + p.2)

def lucas (n : Nat) : Nat := (lucasPair n).1

/-- `lucas2`: `(L n, L (n-1))`, with `L (-1) = -1` -/
def lucas2 (n : Nat) : Int × Int :=
  match n with
  | 0 => (2, -1)
  | k + 1 => let p := lucasPair k; (p.2, p.1)

/-- product `(n)(n-1)…(n-k+1)` -/
def fallingFact (n : Int) : Nat → Int
  | 0 => 1
  | k + 1 => fallingFact n k * (n - k)

def factorial : Nat → Nat
  | 0 => 1
  | n + 1 => (n + 1) * factorial n

/-- `mpz_bin_ui(n, k)`: generalised binomial coefficient, any sign of `n` -/
def binomial (n : Int) (k : Nat) : Int := fallingFact n k / (factorial k : Int)

/-- `divides(a, b)`: `b` divides `a` (`mpz_divisible_p`; only 0 is divisible by 0) -/
def divides (a b : Int) : Bool := if b == 0 then a == 0 else a % b == 0

/-- search loop of `nextprime` -/
def nextPrimeLoop : Nat → Nat → Option Nat
  | 0, _ => none
  | f + 1, n => if isPrime n then some n else nextPrimeLoop f (n + 1)

/-- `mpz_nextprime(a)`: the smallest prime `> a` (Bertrand: below `2a+2`) -/
def nextprime (a : Int) : M Int :=
  let s := if a < 2 then 2 else a.toNat + 1
  match nextPrimeLoop (s + 2) s with
  | some p => .ok p
  | none => .error .fuel

/-! ## symengine layer: factorisation -/

def uintMax : Nat := 4294967295

/-- `_factor_trial_division_sieve`: smallest prime factor `≤ √N`, if any. -/
def trialLoop (n limit : Nat) : Nat → Nat → Option Nat
  | 0, _ => none
  | f + 1, d => if d > limit then none else if n % d == 0 then some d else trialLoop n limit f (d + 1)

def factorTrialDivision (n : Nat) : M (Option Nat) :=
  let limit := Nat.sqrt n
  if limit > uintMax then .error .runtime else .ok (trialLoop n limit limit 2)

/-- main loop of `prime_factor_multiplicities`: `d` runs over `2..limit`, `acc` is reversed -/
def pfmLoop (limit : Nat) : Nat → Nat → Nat → List (Nat × Nat) → Nat × List (Nat × Nat)
  | 0, _, n, acc => (n, acc)
  | f + 1, d, n, acc =>
    if d > limit then (n, acc)
    else
      let r := divOut d n n 0
      if r.1 > 0 then
        if r.2 == 1 then (r.2, (d, r.1) :: acc)
        else pfmLoop limit f (d + 1) r.2 ((d, r.1) :: acc)
      else pfmLoop limit f (d + 1) n acc

/-- `prime_factor_multiplicities(n)`: ascending list of `(prime, multiplicity)` (the `std::map`). -/
def primeFactorMultiplicities (n : Int) : M (List (Nat × Nat)) :=
  let n := n.natAbs
  if n == 0 then .ok []
  else
    let limit := Nat.sqrt n
    if limit > uintMax then .error .runtime
    else
      let r := pfmLoop limit limit 2 n []
      .ok (if r.1 == 1 then r.2 else (r.1, 1) :: r.2).reverse

/-- `prime_factors(n)`: ascending list of primes with repetition. -/
def primeFactors (n : Int) : M (List Nat) := do
  let l ← primeFactorMultiplicities n
  pure (l.flatMap (fun pe => List.replicate pe.2 pe.1))

/-- `_factor_lehman_method`, inner loop over `a` -/
def lehmanInner (n k : Nat) : Nat → Nat → Nat → Option Nat
  | 0, _, _ => none
  | f + 1, a, b =>
    if a > b then none
    else
      let l : Int := (a * a : Nat) - (4 * k * n : Nat)
      if l ≥ 0 && (Nat.sqrt l.toNat) ^ 2 == l.toNat then
        some (Nat.gcd n (a + Nat.sqrt l.toNat))
      else lehmanInner n k f (a + 1) b

def lehmanOuter (n ub : Nat) : Nat → Nat → Option Nat
  | 0, _ => none
  | f + 1, k =>
    if k > ub then none
    else
      let a0 := Nat.sqrt (4 * k * n)
      -- patched (C32): the original starts at the floor, whose square is below `4kn`
      let a := if a0 * a0 < 4 * k * n then a0 + 1 else a0
      let b := iroot n 6 / (4 * Nat.sqrt k) + a
      match lehmanInner n k (b - a + 2) a b with
      | some r => some r
      | none => lehmanOuter n ub f (k + 1)

/-- `factor_lehman_method(n)`: `(ret_val, f)` -/
def factorLehman (n : Int) : M (Option Nat) :=
  if n < 21 then .error .runtime
  else
    let n := n.toNat
    let ub := iroot n 3 + 1
    match trialLoop n ub ub 2 with
    | some p => .ok (some (n / p))
    | none => .ok (lehmanOuter n ub ub 1)

/-- `_factor_pollard_pm1_method(n, c, B)` with the random base `c` as a parameter:
    loop over the primes `p ≤ B`, `c := c^(p^⌊log_p B⌋) mod n`. -/
def pm1PowLoop (B p : Nat) : Nat → Nat → Nat
  | 0, m => m
  | f + 1, m => if m ≤ B / p then pm1PowLoop B p f (m * p) else m

def pm1Loop (n B : Nat) : Nat → Nat → Int → Int
  | 0, _, c => c
  | f + 1, p, c =>
    if p > B then c
    else if isPrime p then pm1Loop n B f (p + 1) (powmN c (pm1PowLoop B p B 1) n)
    else pm1Loop n B f (p + 1) c

def pollardPm1Step (n : Int) (c : Int) (B : Nat) : M (Option Int) :=
  if n < 4 || B < 3 then .error .runtime
  else
    let c' := pm1Loop n.toNat B B 2 c
    let g := gcd (c' - 1) n
    if g == 1 || g == n then .ok none else .ok (some g)

/-- `_factor_pollard_rho_method(n, a, s, steps)` with the random `a`, `s` as parameters -/
def rhoLoop (n a : Int) : Nat → Int → Int → Option Int
  | 0, _, _ => none
  | f + 1, u, v =>
    let u := Int.tmod (u * u + a) n
    let v := Int.tmod (v * v + a) n
    let v := Int.tmod (v * v + a) n
    let g := gcd (u - v) n
    if g == n then none
    else if g == 1 then rhoLoop n a f u v
    else some g

def pollardRhoStep (n a s : Int) (steps : Nat := 10000) : M (Option Int) :=
  if n < 5 then .error .runtime else .ok (rhoLoop n a steps s s)

/-! ### small rationals (for `bernoulli`, `harmonic`) -/

structure Q where
  num : Int
  den : Nat
  deriving Repr, DecidableEq

def Q.norm (n : Int) (d : Nat) : Q :=
  let g := Nat.gcd n.natAbs d
  if g == 0 then ⟨0, 1⟩ else ⟨n / (g : Int), d / g⟩

def Q.ofInt (n : Int) : Q := ⟨n, 1⟩
def Q.add (a b : Q) : Q := Q.norm (a.num * b.den + b.num * a.den) (a.den * b.den)
def Q.sub (a b : Q) : Q := Q.norm (a.num * b.den - b.num * a.den) (a.den * b.den)
def Q.mulNat (k : Nat) (a : Q) : Q := Q.norm (k * a.num) a.den

/-- inner loop of `bernoulli`: `for j = m downto 1: v[j-1] = j * (v[j-1] - v[j])` -/
def bernInner (v : Array Q) : Nat → Array Q
  | 0 => v
  | j + 1 =>
    let x := Q.mulNat (j + 1) (Q.sub (v.getD j ⟨0, 1⟩) (v.getD (j + 1) ⟨0, 1⟩))
    bernInner (v.setIfInBounds j x) j

def bernOuter (n : Nat) : Nat → Nat → Array Q → Array Q
  | 0, _, v => v
  | f + 1, m, v =>
    if m > n then v
    else
      let v := v.setIfInBounds m ⟨1, m + 1⟩
      bernOuter n f (m + 1) (bernInner v m)

/-- `bernoulli(n)` (Akiyama–Tanigawa; `B_1 = +1/2`) -/
def bernoulli (n : Nat) : Q :=
  (bernOuter n (n + 1) 0 (Array.replicate (n + 1) ⟨0, 1⟩)).getD 0 ⟨0, 1⟩

def harmonicLoop (m : Int) : Nat → Nat → Q → Q
  | 0, _, res => res
  | f + 1, i, res =>
    let t : Q := if m > 0 then ⟨1, i ^ m.toNat⟩ else Q.ofInt ((i ^ (-m).toNat : Nat) : Int)
    harmonicLoop m f (i + 1) (Q.add res t)

/-- `harmonic(n, m)` = `Σ_{i=1..n} 1/i^m` -/
def harmonic (n : Nat) (m : Int) : Q := harmonicLoop m n 1 ⟨0, 1⟩

/-! ### CRT -/

/-- a Bézout pair `(g, s, t)`, `g = gcd a b = a*s + b*t`, from Euclid's algorithm.  `crt` uses
    `mp_gcdext` only for `g` and for `s` modulo `b/g`, so any Bézout pair yields the same result. -/
def bezout (a b : Int) : Int × Int × Int :=
  let r := egcd a.natAbs b.natAbs
  ((r.1 : Nat), sgn a * r.2.1, sgn b * r.2.2)

/-- loop of `crt`: `(m, r)` are the running modulus and remainder -/
def crtLoop : List Int → List Int → Int → Int → M (Option Int)
  | _, [], _, r => .ok (some r)
  | [], _ :: _, _, _ => .error .runtime
  | ri :: rs, mi :: ms, m, r =>
    let e := bezout m mi
    let g := e.1
    let s := e.2.1
    let t := ri - r
    if !(divides t g) then .ok none
    else
      let r := r + m * s * Int.tdiv t g
      let m := m * Int.tdiv mi g
      if m == 0 then .error .fpe
      else crtLoop rs ms m (Int.fmod r m)

/-- `crt(R, rem, mod)`: `none` = returns false -/
def crt (rem mod : List Int) : M (Option Int) :=
  if mod.length > rem.length then .error .runtime
  else
    match rem, mod with
    | _, [] => .error .runtime
    | [], _ :: _ => .error .runtime
    | r0 :: rs, m0 :: ms => crtLoop rs ms m0 r0

/-- `_crt_cartesian`: all combinations (moduli pairwise coprime) -/
def crtCartesianLoop : List (List Int) → List Int → Int → List Int → M (List Int)
  | _, [], _, R => .ok R
  | [], _ :: _, _, _ => .error .runtime
  | remi :: rs, mi :: ms, m, R =>
    match mpInvert m mi with
    | none => .error .fpe  -- the C++ ignores the flag; cannot happen for coprime moduli
    | some s =>
      let m' := m * mi
      let R' := R.flatMap (fun elem => remi.map (fun k => Int.fmod (elem + m * s * (k - elem)) m'))
      crtCartesianLoop rs ms m' R'

def crtCartesian (rem : List (List Int)) (mod : List Int) : M (List Int) :=
  if mod.length > rem.length then .error .runtime
  else
    match rem, mod with
    | _, [] => .error .runtime
    | [], _ :: _ => .error .runtime
    | r0 :: rs, m0 :: ms => crtCartesianLoop rs ms m0 r0

/-! ### prime powers, primitive roots -/

/-- loop of `_prime_power`: `(n, e, i)` -/
def primePowerLoop : Nat → Nat → Nat → Nat → Nat × Nat
  | 0, n, e, _ => (n, e)
  | f + 1, n, e, i =>
    if perfectPowerP n && n ≥ 2 then
      if rootExact n i then primePowerLoop f (iroot n i) (e * i) i
      else primePowerLoop f n e (i + 1)
    else (n, e)

/-- `_prime_power(p, e, n)` -/
def primePower (n : Nat) : Option (Nat × Nat) :=
  if n < 2 then none
  else
    let r := primePowerLoop (2 * n.log2 + 4) n 1 2
    if isPrime r.1 then some r else none

/-- is `g` a primitive root modulo the prime `p`, `primes` = prime factors of `p-1` -/
def isRootCheck (p g : Nat) : List Nat → Bool
  | [] => true
  | q :: qs => if powModNat g ((p - 1) / q) p == 1 then false else isRootCheck p g qs

def findRootLoop (p : Nat) (primes : List Nat) : Nat → Nat → Nat
  | 0, g => g
  | f + 1, g => if g < p then (if isRootCheck p g primes then g else findRootLoop p primes f (g + 1)) else g

/-- `_primitive_root(g, p, e, even)` -/
def primitiveRootPE (p e : Nat) (even : Bool) : M Nat := do
  let primes ← primeFactors ((p : Int) - 1)
  let g := findRootLoop p primes p 2
  let g := if e > 1 && powModNat g (p - 1) (p * p) == 1 then g + p else g
  let g := if even && g % 2 == 0 then g + p ^ e else g
  pure g

/-- `primitive_root(g, n)` -/
def primitiveRoot (n : Int) : M (Option Nat) :=
  let n := n.natAbs
  if n ≤ 1 then .ok none
  else if n < 5 then .ok (some (n - 1))
  else if n % 2 == 0 && n % 4 == 0 then .ok none
  else
    let even := n % 2 == 0
    let n' := if even then n / 2 else n
    match primePower n' with
    | none => .ok none
    | some (p, e) => do
      let g ← primitiveRootPE p e even
      pure (some g)

/-- innermost loops of `_primitive_root_list` for `e > 1`: `t = h + i*p + j*p*p`, `i ≠ d` -/
def prlInner (p d : Nat) (even : Bool) (n : Nat) : Nat → Nat → Nat → List Nat → Nat × List Nat
  | 0, _, t, acc => (t, acc)
  | f + 1, i, t, acc =>
    let acc := if i != d then (if even && t % 2 == 0 then (t + n) :: acc else t :: acc) else acc
    prlInner p d even n f (i + 1) (t + p) acc

def prlMid (p d : Nat) (even : Bool) (n : Nat) : Nat → Nat → List Nat → List Nat
  | 0, _, acc => acc
  | f + 1, t, acc =>
    let r := prlInner p d even n p 0 t acc
    prlMid p d even n f r.1 r.2

/-- outer loop of `_primitive_root_list` over `i = 1..p-1`, `h = g^i mod p` (acc reversed) -/
def prlOuter (p e g : Nat) (even : Bool) (n : Nat) : Nat → Nat → Nat → List Nat → M (List Nat)
  | 0, _, _, acc => .ok acc
  | f + 1, i, h, acc =>
    if i ≥ p then .ok acc
    else
      let h := h * g % p
      if Nat.gcd (p - 1) i == 1 then
        if e == 1 then
          let acc := if even && h % 2 == 0 then (h + n) :: acc else h :: acc
          prlOuter p e g even n f (i + 1) h acc
        else
          match mpPowm h (2 - (p : Int)) ((p * p : Nat) : Int) with
          | .error er => .error er
          | .ok dd =>
            let d := Int.tmod (Int.tdiv ((h : Int) - dd) p + p) p
            let acc := prlMid p d.toNat even n (p ^ (e - 2)) h acc
            prlOuter p e g even n f (i + 1) h acc
      else prlOuter p e g even n f (i + 1) h acc

def insertSorted (x : Int) : List Int → List Int
  | [] => [x]
  | y :: ys => if x ≤ y then x :: y :: ys else y :: insertSorted x ys

/-- `std::sort` on integers -/
def sortInts (l : List Int) : List Int := (l.toArray.qsort (· < ·)).toList

/-- `primitive_root_list(roots, n)` -/
def primitiveRootList (n : Int) : M (List Nat) :=
  let n := n.natAbs
  if n ≤ 1 then .ok []
  else if n < 5 then .ok [n - 1]
  else if n % 2 == 0 && n % 4 == 0 then .ok []
  else
    let even := n % 2 == 0
    let n' := if even then n / 2 else n
    match primePower n' with
    | none => .ok []
    | some (p, e) => do
      let g ← primitiveRootPE p 1 false
      let l ← prlOuter p e g even (p ^ e) p 1 1 []
      pure ((sortInts (l.map Int.ofNat)).map Int.toNat)

/-! ### totient, carmichael, multiplicative order -/

def totientLoop : List (Nat × Nat) → Nat → Nat
  | [], phi => phi
  | (p, _) :: l, phi => totientLoop l (phi / p * (p - 1))

/-- `totient(n)` -/
def totient (n : Int) : M Nat :=
  if n == 0 then .ok 1
  else do
    let l ← primeFactorMultiplicities n
    pure (totientLoop l n.natAbs)

def carmichaelLoop : List (Nat × Nat) → Nat → Nat
  | [], lam => lam
  | (p, mult) :: l, lam =>
    let mult := if p == 2 && mult > 2 then mult - 1 else mult
    carmichaelLoop l (Nat.lcm lam (p - 1) * p ^ (mult - 1))

/-- `carmichael(n)` -/
def carmichael (n : Int) : M Nat :=
  if n == 0 then .ok 1
  else do
    let l ← primeFactorMultiplicities n
    pure (carmichaelLoop l 1)

/-- `while (t != 1) { t = t^p mod n; order *= p; }` -/
def orderInner (p n : Nat) : Nat → Nat → Nat → M Nat
  | 0, _, _ => .error .fuel
  | f + 1, t, order => if t == 1 then .ok order else orderInner p n f (powModNat t p n) (order * p)

def orderLoop (a : Int) (n : Nat) : List (Nat × Nat) → Nat → M Nat
  | [], order => .ok order
  | (p, e) :: l, order => do
    let order := order / p ^ e
    let t := (powmN a order n).toNat
    let order ← orderInner p n (e + 1) t order
    orderLoop a n l order

/-- `multiplicative_order(o, a, n)` -/
def multiplicativeOrder (a n : Int) : M (Option Nat) :=
  let nn := n.natAbs
  if Int.gcd a nn != 1 then .ok none
  else do
    let lam ← carmichael n
    let l ← primeFactorMultiplicities lam
    if nn == 0 then .error .fpe
    else
      let a' := Int.tmod a nn
      let o ← orderLoop a' nn l lam
      pure (some o)


/-! ### modular square roots, discrete logarithm, n-th roots modulo prime powers -/

def nonResidueLoop (p : Nat) : Nat → Nat → Nat
  | 0, n => n
  | f + 1, n => if kronecker n p == -1 then n else nonResidueLoop p f (n + 1)

/-- `while (t != 1) { t = t^2 mod p; ++m; }` -/
def tsOrderLoop (p : Nat) : Nat → Nat → Nat → Nat
  | 0, _, m => m
  | f + 1, t, m => if t == 1 then m else tsOrderLoop p f (t * t % p) (m + 1)

def tsLoop (p : Nat) : Nat → Nat → Nat → Nat → Nat → Option Nat
  | 0, _, _, _, _ => none
  | f + 1, e, y, b, rop =>
    if b == 1 then some rop
    else
      let m := tsOrderLoop p (e + 1) b 0
      if m == e then none
      else
        let t := powModNat y (2 ^ (e - m - 1)) p
        let y := t * t % p
        tsLoop p f m y (b * y % p) (rop * t % p)

/-- `_sqrt_mod_tonelli_shanks` with the smallest quadratic non-residue instead of a random one -/
def sqrtModTonelliShanks (a : Int) (p : Nat) : Option Int :=
  let e := val2 (p - 1)
  let q := (p - 1) / 2 ^ e
  let n := nonResidueLoop p p 2
  let y := powModNat n q p
  let b := (powmN a q p).toNat
  let rop := (powmN a ((q + 1) / 2) p).toNat
  (tsLoop p (e + 2) e y b rop).map Int.ofNat

def sqrtBruteLoop (p : Nat) (a : Int) : Nat → Nat → Int → Option Int
  | 0, _, _ => none
  | f + 1, i, sq =>
    if i ≥ p then none
    else if sq == a then some i
    else sqrtBruteLoop p a f (i + 1) (Int.fmod (sq + 2 * i + 1) p)

/-- `_sqrt_mod_prime(rop, a, p)`; `none` = returns false -/
def sqrtModPrime (a : Int) (p : Nat) : Option Int :=
  if p == 2 then some (Int.tmod a 2)
  else
    let l := kronecker a p
    if l == -1 then none
    else if l == 0 then some 0
    else if p % 4 == 3 then some (powmN a ((p + 1) / 4) p)
    else if p % 8 == 5 then
      let t := powmN a ((p - 1) / 4) p
      if t == 1 then some (powmN a ((p + 3) / 8) p)
      else
        let t := powmN (4 * a) ((p - 5) / 8) p
        some (Int.tmod (2 * a * t) p)
    else if p < 10000 then sqrtBruteLoop p (Int.fmod a p) p 1 1
    else sqrtModTonelliShanks a p

def powTable (alpha : Int) (p : Nat) : Nat → Int → List Int → List Int
  | 0, _, acc => acc.reverse
  | f + 1, x, acc => powTable alpha p f (Int.tmod (x * alpha) p) (x :: acc)

/-- baby-step giant-step search: first `i < m` with `d * s^i` in the table -/
def bsgsLoop (table : List Int) (s : Int) (p m : Nat) : Nat → Nat → Int → Option Nat
  | 0, _, _ => none
  | f + 1, i, d =>
    if i ≥ m then none
    else
      match table.findIdx? (· == d) with
      | some j => some (i * m + j)
      | none => bsgsLoop table s p m f (i + 1) (Int.tmod (d * s) p)

/-- Pohlig–Hellman loop of `_discrete_log`; state `(log, gamma, _n, qj, l)` -/
def dlogLoop (g : Int) (q p m : Nat) (table : List Int) (s : Int) :
    Nat → Int → Int → Int → Int → Int → M Int
  | 0, log, _, _, _, _ => .ok log
  | f + 1, log, gamma, n', qj, l => do
    let beta ← mpPowm gamma n' p
    let l : Int := match bsgsLoop table s p m m 0 beta with
      | some v => v
      | none => l
    let t := -l * qj
    let t' ← mpPowm g t p
    dlogLoop g q p m table s f (log - t) (gamma * t') (Int.tdiv n' q) (qj * q) l

/-- `_discrete_log(log, a, g, n, q, k, p)` -/
def discreteLog (a g : Int) (n : Int) (q k p : Nat) : M Int := do
  let n' := Int.tdiv n q
  let alpha ← mpPowm g n' p
  let m0 := Nat.sqrt q
  let m := if m0 * m0 == q then m0 else m0 + 1
  let s ← mpPowm alpha (-(m : Int)) p
  let table := powTable alpha p m 1 []
  dlogLoop g q p m table s k 0 a n' 1 0

/-- the loop over the prime powers `q^e ‖ _n` in `_nthroot_mod1` (Johnston) -/
def johnstonLoop (p g : Nat) : List (Nat × Nat) → Int → M Int
  | [], s1 => .ok s1
  | (q, e) :: l, s1 => do
    let qt := q ^ e
    let h0 := (p - 1) / q
    let r := divOut q h0 h0 0
    let c := r.1 + 1
    let h := r.2
    match invNat h qt with
    | none => .error .range   -- unreachable: h is prime to q
    | some t =>
      let z : Int := (t : Int) * -(h : Int)
      let x := Int.tdiv (1 + z) qt
      let v ← mpPowm s1 x p
      if c == e then johnstonLoop p g l v
      else
        let x' := powmN s1 h p
        let r' := powmN g (h * qt) p
        let lg ← discreteLog x' r' ((q ^ (c - e) : Nat) : Int) q (c - e) p
        let t2 := -z * lg
        let r2 ← mpPowm g t2 p
        johnstonLoop p g l (Int.fmod (v * r2) p)

/-- `for (d = c + 2; d <= k; ++d)`: lift `s` with `s^(p^c) ≡ a` to modulus `p^k` -/
def liftPLoop (a : Int) (p : Nat) (pc : Int) : Nat → Int → Int → M Int
  | 0, _, s => .ok s
  | f + 1, pd, s => do
    let pd := pd * p
    let t ← mpPowm s (1 - pc) pd
    let t := Int.tdiv (a * t - s) pc
    liftPLoop a p pc f pd (s + t)

/-- Hensel lifting `for (d = 2; d < 2*k; d *= 2)` for `x^r ≡ s (mod p^k)`, `p ∤ r` -/
def henselLoop (r s : Int) (k : Nat) (pk : Int) : Nat → Nat → Int → Int → M Int
  | 0, _, _, root => .ok root
  | f + 1, d, pd, root =>
    if d < 2 * k then do
      let pd := if d > k then pk else pd * pd
      let u ← mpPowm root (r - 1) pd
      match mpInvert (r * u) pd with
      | none => .error .range   -- unreachable: r and u are units
      | some t =>
        henselLoop r s k pk f (d * 2) pd (Int.fmod (root + (s - u * root) * t) pd)
    else .ok root

def rootsGenLoop (t pk : Int) : Nat → Int → List Int → List Int
  | 0, _, acc => acc.reverse
  | f + 1, root, acc => rootsGenLoop t pk f (Int.fmod (root * t) pk) (root :: acc)

/-- `_nthroot_mod1(roots, a, n, p, k, all_roots)`: `x^n ≡ a (mod p^k)`, `p` odd prime, `p ∤ a`.
    `none` = returns false; `some l` = the roots pushed. -/
def nthrootMod1 (a n : Int) (p k : Nat) (all : Bool) : M (Option (List Int)) := do
  let pk : Nat := p ^ k
  let phi : Nat := pk * (p - 1) / p
  let m : Nat := Int.gcd phi n
  if powmN a (phi / m) pk != 1 then return none
  let t : Nat := p - 1
  let n' : Nat := Int.gcd n t
  -- `r*n + s*t = _n`; only `r mod t/_n` matters
  let tn := t / n'
  let r : Nat ← match invNat (Int.tdiv n n' % (tn : Int)).toNat tn with
    | some i => pure i
    | none => throw .range
  let s := powmN a r p
  -- `(g, root)`: `g = 0` when the primitive root has not been computed yet
  let gr : Nat × Int ←
    if n' == 1 then pure (0, s)
    else if n' == 2 then pure (0, (sqrtModPrime s p).getD 0)
    else do
      let pm ← primeFactorMultiplicities n'
      let g ← primitiveRootPE p 2 false
      let root ← johnstonLoop p g pm s
      pure (g, root)
  let g := gr.1
  let root0 := gr.2
  -- p-part of n
  let rc := divOut p n.toNat n.toNat 0
  let c := rc.1
  let r : Int := rc.2
  let pc : Int := Int.tdiv n r
  let s ← if c ≥ 1 then liftPLoop a p pc (k - c - 1) (pc * p) (powmN root0 r.toNat p) else pure a
  let root ← henselLoop r s k pk (k + 2) 2 p root0
  if m != 1 && all then
    let t : Int ← if n == 2 then pure (-1) else do
      let g' ← if g == 0 then primitiveRootPE p 2 false else pure g
      pure (powmN g' (phi / m) pk)
    return some (rootsGenLoop t pk m root [])
  else
    return some [root]

/-- `_is_nthroot_mod1` -/
def isNthrootMod1 (a n : Int) (p k : Nat) : Bool :=
  let pk : Nat := p ^ k
  let phi : Nat := pk * (p - 1) / p
  let m : Nat := Int.gcd phi n
  powmN a (phi / m) pk == 1

/-- lifting loop of the `p = 2` branch: `for (j = c + 2; j < k; ++j)` -/
def lift2Loop (a : Int) (pc : Nat) (c : Nat) : Nat → Nat → Int → Int → Int
  | 0, _, _, root => root
  | f + 1, j, pj, root =>
    let pj := pj * 2
    let t := powmN root pc pj.toNat - a
    let root := if Int.tmod t pj != 0 then root + (2 ^ (j - c) : Nat) else root
    lift2Loop a pc c f (j + 1) pj root

/-- `for (j = 0; j < pc; ++j) { push(root mod 2^k); root += t; }` (patched: reduced) -/
def gen2Inner (t pk : Int) : Nat → Int → List Int → Int × List Int
  | 0, root, acc => (root, acc)
  | f + 1, root, acc => gen2Inner t pk f (root + t) (Int.fmod root pk :: acc)

/-- the `p == 2`, `a` odd branch of `_nthroot_mod_prime_power` -/
def nthrootMod2 (a n : Int) (k : Nat) (all : Bool) : M (Option (List Int)) := do
  let pk : Nat := 2 ^ k
  let c0 := val2 n.natAbs
  let r : Int := Int.tdiv n ((2 ^ c0 : Nat) : Int)
  if k == 1 then return some [1]
  if k == 2 then
    let a4 := Int.fmod a 4          -- patched: the original uses the truncated `a % 4`
    if c0 > 0 && a4 == 3 then return none
    return some (if all && c0 > 0 then [a4, 3] else [a4])
  let c := if c0 ≥ k - 2 then k - 2 else c0
  let pc : Nat := 2 ^ c
  let s : Int ← match mpInvert r ((2 ^ (k - 2) : Nat) : Int) with
    | some s => pure s
    | none => throw .range       -- unreachable: r is odd
  if c == 0 then
    let root ← mpPowm a s pk
    return some [root]
  if Int.fmod a ((2 ^ (c + 2) : Nat) : Int) != 1 then return none
  let root := lift2Loop a pc c (k - (c + 2)) (c + 2) ((pc * 4 : Nat) : Int) 1
  let root ← mpPowm root s pk
  if all then
    let t : Int := Int.tdiv pk pc * root
    let r1 := gen2Inner t pk pc root []
    let root := t - r1.1
    let r2 := gen2Inner t pk pc root r1.2
    return some r2.2.reverse
  else
    return some [root]

def spreadLoop (pkm : Int) : Nat → Int → List Int → List Int
  | 0, _, acc => acc
  | f + 1, root, acc => spreadLoop pkm f (root + pkm) (root :: acc)

/-- `for (it : _roots) { root = it; for (i < pm) { push(root); root += pkm; } }` -/
def spreadRoots (rs : List Int) (pm : Nat) (pkm : Int) : List Int :=
  (rs.foldl (fun acc r => spreadLoop pkm pm r acc) []).reverse

/-- `_nthroot_mod_prime_power(roots, a, n, p, k, all_roots)`; fuel bounds the recursion on `k - r` -/
def nthrootModPrimePower (a n : Int) (p : Nat) (all : Bool) : Nat → Nat → M (Option (List Int))
  | 0, _ => .error .fuel
  | f + 1, k =>
    if Int.tmod a p != 0 then
      if p == 2 then nthrootMod2 a n k all else nthrootMod1 a n p k all
    else
      let pk : Nat := p ^ k
      let a' := Int.tmod a pk
      if a' == 0 then
        if !all then .ok (some [0])
        else
          let m := if n ≥ (k : Int) then k - 1 else k - 1 - (k - 1) / n.toNat
          .ok (some (spreadRoots [0] (p ^ m) ((p ^ (k - m) : Nat) : Int)))
      else
        let ra := divOut p a'.natAbs a'.natAbs 0
        let r := ra.1
        let a'' : Int := if a' < 0 then -(ra.2 : Int) else ra.2
        if (r : Int) < n || (r : Int) % n != 0 then .ok none
        else do
          match ← nthrootModPrimePower a'' n p all f (k - r) with
          | none => pure none
          | some sub =>
            let m := r / n.toNat
            let pm := p ^ m
            if !all then pure (some [sub.getLast! * pm])
            else
              let sub := sub.map (· * (pm : Int))
              let m := r - r / n.toNat
              pure (some (spreadRoots sub (p ^ m) ((p ^ (k - m) : Nat) : Int)))

/-- `_is_nthroot_mod_prime_power(a, n, p, k)` -/
def isNthrootModPrimePower (a n : Int) (p : Nat) : Nat → Nat → M Bool
  | 0, _ => .error .fuel
  | f + 1, k =>
    if Int.tmod a p != 0 then
      if p == 2 then
        let c0 := val2 n.natAbs
        if k == 1 then .ok true
        else if k == 2 then .ok (!(c0 > 0 && Int.fmod a 4 == 3))   -- patched: floor mod
        else
          let c := if c0 ≥ k - 2 then k - 2 else c0
          if c == 0 then .ok true
          else .ok (Int.fmod a ((2 ^ (c + 2) : Nat) : Int) == 1)
      else .ok (isNthrootMod1 a n p k)
    else
      let pk : Nat := p ^ k
      let a' := Int.tmod a pk
      if a' == 0 then .ok true
      else
        let ra := divOut p a'.natAbs a'.natAbs 0
        let r := ra.1
        let a'' : Int := if a' < 0 then -(ra.2 : Int) else ra.2
        if (r : Int) < n || (r : Int) % n != 0 then .ok false
        else isNthrootModPrimePower a'' n p f (k - r)

/-- per-prime-power loop of `nthroot_mod`: one root per modulus -/
def nthrootModLoop (a n : Int) : List (Nat × Nat) → List Int → List Int → M (Option (List Int × List Int))
  | [], rem, moduli => .ok (some (rem.reverse, moduli.reverse))
  | (p, k) :: l, rem, moduli => do
    match ← nthrootModPrimePower a n p false (k + 1) k with
    | none => pure none
    | some rs => nthrootModLoop a n l (rs.reverse ++ rem) (((p ^ k : Nat) : Int) :: moduli)

/-- `nthroot_mod(root, a, n, mod)`; requires `n ≥ 1` -/
def nthrootMod (a n m : Int) : M (Option Int) :=
  if n ≤ 0 then .error .range
  else if m ≤ 0 then .ok none
  else if m == 1 then .ok (some 0)
  else do
    let pm ← primeFactorMultiplicities m
    match ← nthrootModLoop a n pm [] [] with
    | none => pure none
    | some (rem, moduli) =>
      match ← crt rem moduli with
      | none => pure (some 0)   -- `crt` result is ignored by the C++ (cannot fail: coprime moduli)
      | some r => pure (some r)

def nthrootModListLoop (a n : Int) : List (Nat × Nat) → List (List Int) → List Int → M (Option (List (List Int) × List Int))
  | [], rem, moduli => .ok (some (rem.reverse, moduli.reverse))
  | (p, k) :: l, rem, moduli => do
    match ← nthrootModPrimePower a n p true (k + 1) k with
    | none => pure none
    | some rs => nthrootModListLoop a n l (rs :: rem) (((p ^ k : Nat) : Int) :: moduli)

/-- `nthroot_mod_list(roots, a, n, m)` (sorted); requires `n ≥ 1` -/
def nthrootModList (a n m : Int) : M (List Int) :=
  if n ≤ 0 then .error .range
  else if m ≤ 0 then .ok []
  else if m == 1 then .ok [0]
  else do
    let pm ← primeFactorMultiplicities m
    match ← nthrootModListLoop a n pm [] [] with
    | none => pure []
    | some (rem, moduli) =>
      let rs ← crtCartesian rem moduli
      pure (sortInts rs)

/-- `a^|e| mod m`, inverted when `e < 0`: the common prefix of `powermod(_list)`; `none` = no inverse -/
def powInv (a e m : Int) : M (Option Int) := do
  let t ← mpPowm a (e.natAbs : Int) m
  if e < 0 then pure (mpInvert t m) else pure (some t)

/-- `powermod(powm, a, b, m)` with `b = num/den` (canonicalised like `Rational`) -/
def powermod (a num den m : Int) : M (Option Int) :=
  if den == 0 then .error .range
  else
    let g : Int := gcd num den
    let (num, den) := if den < 0 then (-(num / g), -(den / g)) else (num / g, den / g)
    if den == 1 then powInv a num m
    else do
      match ← powInv a num m with
      | none => pure none
      | some r => nthrootMod r den m

/-- `powermod_list(pows, a, b, m)` -/
def powermodList (a num den m : Int) : M (List Int) :=
  if den == 0 then .error .range
  else
    let g : Int := gcd num den
    let (num, den) := if den < 0 then (-(num / g), -(den / g)) else (num / g, den / g)
    if den == 1 then do
      match ← powInv a num m with
      | none => pure []
      | some r => pure [r]
    else do
      match ← powInv a num m with
      | none => pure []
      | some r => nthrootModList r den m

/-! ### residues, Möbius, Mertens -/

def dedupSorted : List Int → List Int
  | [] => []
  | [x] => [x]
  | x :: y :: l => if x == y then dedupSorted (y :: l) else x :: dedupSorted (y :: l)

/-- `quadratic_residues(a)` -/
def quadraticResidues (a : Int) : M (List Int) :=
  if a < 1 then .error .runtime
  else
    let n := a.toNat
    .ok (dedupSorted (sortInts ((List.range (n / 2 + 1)).map (fun i => ((i * i % n : Nat) : Int)))))

def isNthLoop (a n : Int) : List (Nat × Nat) → M Bool
  | [] => .ok true
  | (p, k) :: l => do
    if ← isNthrootModPrimePower a n p (k + 1) k then isNthLoop a n l else pure false

/-- `is_quad_residue(a, p)` -/
def isQuadResidue (a p : Int) : M Bool :=
  if p == 0 then .error .runtime
  else
    let p2 : Nat := p.natAbs
    let af : Int := if a ≥ p2 || a < 0 then Int.fmod a p2 else a
    if af < 2 then .ok true
    else if !isPrime p2 then
      if p2 % 2 == 1 && kronecker af p == -1 then .ok false
      else do
        let pm ← primeFactorMultiplicities p2
        isNthLoop af 2 pm
    else .ok (kronecker af p2 == 1)

/-- `is_nth_residue(a, n, mod)`; requires `n ≥ 1` -/
def isNthResidue (a n m : Int) : M Bool :=
  if n ≤ 0 then .error .range
  else if m == 0 then .ok false
  else if m == 1 then .ok true
  else do
    let pm ← primeFactorMultiplicities m.natAbs
    isNthLoop a n pm

/-- `mobius(a)` -/
def mobius (a : Int) : M Int :=
  if a ≤ 0 then .error .runtime
  else do
    let pm ← primeFactorMultiplicities a
    if pm.any (fun pe => pe.2 > 1) then pure 0
    else if pm.length % 2 == 0 then pure 1 else pure (-1)

def mertensLoop : Nat → Nat → Int → M Int
  | 0, _, acc => .ok acc
  | f + 1, i, acc => do
    let mu ← mobius i
    mertensLoop f (i + 1) (acc + mu)

/-- `mertens(a)` -/
def mertens (a : Nat) : M Int := mertensLoop a 1 0

/-! ### polygonal numbers, perfect powers, primepi, primorial -/

/-- `mp_polygonal_number(s, n)` -/
def mpPolygonalNumber (s n : Int) : Int := Int.tdiv ((s - 2) * n * n - (s - 4) * n) 2

/-- `polygonal_number(s, n)` for integer arguments -/
def polygonalNumber (s n : Int) : M Int :=
  if s - 2 ≤ 0 then .error .domain
  else if n ≤ 0 then .error .domain
  else .ok (mpPolygonalNumber s n)

/-- `mp_principal_polygonal_root(s, x)` (argument of the square root must be ≥ 0) -/
def mpPrincipalPolygonalRoot (s x : Int) : Int :=
  let root : Int := Nat.sqrt (8 * x * (s - 2) + (s - 4) ^ 2).toNat
  Int.tdiv (root + s - 4) (2 * (s - 2))

/-- `principal_polygonal_root(s, x)` for integer arguments -/
def principalPolygonalRoot (s x : Int) : M Int :=
  if s - 2 ≤ 0 then .error .domain
  else if x ≤ 0 then .error .domain
  else .ok (mpPrincipalPolygonalRoot s x)

/-- inner bisection of `mp_perfect_power_decomposition` -/
def ppdBisect (n p : Nat) : Nat → Nat → Nat → Nat
  | 0, i, _ => i
  | f + 1, i, j =>
    if j > i + 1 then
      let m := (i + j) / 2
      if m ^ p > n then ppdBisect n p f i m else ppdBisect n p f m j
    else i

def ppdLoop (n : Nat) (lowest : Bool) : Nat → Nat → Nat × Nat → Nat × Nat
  | 0, _, res => res
  | f + 1, p, res =>
    if 2 ^ p ≤ n then
      let i := ppdBisect n p (n.log2 + 2) 2 n
      if i ^ p == n then
        if lowest then (i, p) else ppdLoop n lowest f (p + 1) (i, p)
      else ppdLoop n lowest f (p + 1) res
    else res

/-- `mp_perfect_power_decomposition(n, lowest_exponent)` for `n ≥ 0` -/
def perfectPowerDecomposition (n : Nat) (lowest : Bool) : Nat × Nat :=
  ppdLoop n lowest (n.log2 + 1) 2 (n, 1)

def countPrimesLoop : Nat → Nat → Nat → Nat
  | 0, _, acc => acc
  | f + 1, i, acc => countPrimesLoop f (i + 1) (if isPrime i then acc + 1 else acc)

/-- `primepi(n)` for an integer `n ≥ 0`: number of primes `≤ n` -/
def primepi (n : Int) : Nat := if n < 0 then 0 else countPrimesLoop n.toNat 1 0

def primorialLoop : Nat → Nat → Nat → Nat
  | 0, _, acc => acc
  | f + 1, i, acc => primorialLoop f (i + 1) (if isPrime i then acc * i else acc)

/-- `primorial(n)` for an integer `n > 0`: product of the primes `≤ n` -/
def primorial (n : Int) : M Nat := if n ≤ 0 then .error .runtime else .ok (primorialLoop n.toNat 1 1)

/-- `factor(f, n, B1)` without ECM: `(ret_val, f)`; `f = 0` when nothing is found -/
def factor (n : Nat) : M (Nat × Nat) := do
  match ← factorTrialDivision n with
  | some d => pure (1, d)
  | none => pure (0, 0)

end SymVerif.NTheory
