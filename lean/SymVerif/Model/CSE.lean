/-
C37 — certificate checker for `cse(replacements, reduced, exprs)` (symengine/cse.cpp).

Given the input expressions and the library's answer (replacement pairs `(xᵢ, rhsᵢ)` and reduced
expressions) the checker `CSE.check` decides

  (i)   freshness:    no replacement symbol occurs in the inputs, the symbols are pairwise distinct;
  (ii)  orderedness:  `rhsᵢ` mentions no replacement symbol with index ≥ i;
  (iii) faithfulness: substituting the replacements back, last to first, into the reduced
        expressions (*syntactic* substitution `substSym` of a symbol by a tree, also inside
        function arguments) gives trees that are `treeEquiv` to the inputs.

`treeEquiv` is "equal up to the rational-function normaliser `NF` at every level": the two trees are
abstracted (every non-arithmetic node = atom is replaced by a numbered symbol, two atoms get the
same number only if they have the same head and their arguments are recursively `treeEquiv`) and
the abstractions are compared with `NF.equiv`.  A power atom whose exponent has a negative leading
rational coefficient is abstracted as the reciprocal of the atom with the negated exponent
(`x**(-2*y)` ↦ `1 / [x**(2*y)]`), which is how `opt_cse` splits negative powers.

Core Lean only, executable, total.  Soundness: Lemmas/C37*.lean, Props/C37.lean.
-/
import SymVerif.Model.NF
import SymVerif.Model.ExprEq

namespace SymVerif
namespace CSE

open NF

/-! ### symbols occurring in a tree (every position, also inside function arguments) -/

mutual
  def symNames : Expr → List String
    | .sym n => [n]
    | .add c ts => symNames c ++ symNamesPairs ts
    | .mul c fs => symNames c ++ symNamesPairs fs
    | .pow b e => symNames b ++ symNames e
    | .fsym _ args => symNamesList args
    | .app _ args => symNamesList args
    | .int _ => []
    | .rat _ _ => []
    | .cplx _ _ => []
    | .dbl _ => []
    | .cdbl _ _ => []
    | .infty _ => []
    | .nan => []
    | .dummy _ _ => []
    | .const _ => []
    | .bool _ => []
  def symNamesList : List Expr → List String
    | [] => []
    | a :: t => symNames a ++ symNamesList t
  def symNamesPairs : List (Expr × Expr) → List String
    | [] => []
    | (k, v) :: t => symNames k ++ (symNames v ++ symNamesPairs t)
end

/-! ### syntactic substitution of a symbol by a tree -/

mutual
  def substSym (s : String) (r : Expr) : Expr → Expr
    | .sym n => if n = s then r else .sym n
    | .add c ts => .add (substSym s r c) (substSymPairs s r ts)
    | .mul c fs => .mul (substSym s r c) (substSymPairs s r fs)
    | .pow b e => .pow (substSym s r b) (substSym s r e)
    | .fsym n args => .fsym n (substSymList s r args)
    | .app h args => .app h (substSymList s r args)
    | .int n => .int n
    | .rat n d => .rat n d
    | .cplx re im => .cplx re im
    | .dbl b => .dbl b
    | .cdbl a b => .cdbl a b
    | .infty d => .infty d
    | .nan => .nan
    | .dummy n i => .dummy n i
    | .const n => .const n
    | .bool b => .bool b
  def substSymList (s : String) (r : Expr) : List Expr → List Expr
    | [] => []
    | a :: t => substSym s r a :: substSymList s r t
  def substSymPairs (s : String) (r : Expr) : List (Expr × Expr) → List (Expr × Expr)
    | [] => []
    | (k, v) :: t => (substSym s r k, substSym s r v) :: substSymPairs s r t
end

/-- back-substitution, last replacement first: `backSubst [(x0,r0),(x1,r1)] e = e[x1:=r1][x0:=r0]` -/
def backSubst : List (String × Expr) → Expr → Expr
  | [], e => e
  | (s, r) :: rest, e => substSym s r (backSubst rest e)

/-! ### folding integer powers of power atoms:  `(b ** e) ** k  ↦  b ** (k * e)` -/

/-- `k * e` as a tree -/
def scaleExp (e : Expr) (k : Int) : Expr := .mul (.int k) [(e, .int 1)]

/-- `b' ** e`, folded when `e` is an integer literal and `b'` is a power with a non-literal exponent -/
def mkPow (b' e : Expr) : Expr :=
  match intLit? e, b' with
  | some k, .pow b0 e0 =>
    match intLit? e0 with
    | none => .pow b0 (scaleExp e0 k)
    | some _ => .pow b' e
  | _, _ => .pow b' e

/-- the same for a `Mul` dictionary entry -/
def mkFac (b' e : Expr) : Expr × Expr :=
  match intLit? e, b' with
  | some k, .pow b0 e0 =>
    match intLit? e0 with
    | none => (b0, scaleExp e0 k)
    | some _ => (b', e)
  | _, _ => (b', e)

mutual
  /-- fold at every arithmetic position (atoms are not entered) -/
  def foldPow : Expr → Expr
    | .add c ts => .add c (foldTerms ts)
    | .mul c fs => .mul c (foldFacs fs)
    | .pow b e => mkPow (foldPow b) e
    | .int n => .int n
    | .rat n d => .rat n d
    | .cplx re im => .cplx re im
    | .dbl b => .dbl b
    | .cdbl a b => .cdbl a b
    | .infty d => .infty d
    | .nan => .nan
    | .sym n => .sym n
    | .dummy n i => .dummy n i
    | .const n => .const n
    | .fsym n args => .fsym n args
    | .app h args => .app h args
    | .bool b => .bool b
  def foldTerms : List (Expr × Expr) → List (Expr × Expr)
    | [] => []
    | (k, v) :: t => (foldPow k, v) :: foldTerms t
  def foldFacs : List (Expr × Expr) → List (Expr × Expr)
    | [] => []
    | (b, e) :: t => mkFac (foldPow b) e :: foldFacs t
end

/-! ### atoms and their abstraction -/

/-- gcd of the real and imaginary parts of all coefficients -/
def polyContent (p : Poly) : Nat :=
  p.foldl (fun g t => Nat.gcd g (Nat.gcd t.2.re.natAbs t.2.im.natAbs)) 0

/-- a heuristic integer content of an exponent: for `e = κ · (primitive rational function)` the
numerator of `κ` with the sign of the leading coefficient, read off the normal form of `e`
(atoms by their dump strings).  Soundness does not depend on this function (any integer works);
it only makes `x**(-1/3)`, `x**(2/3)` share the atom `x**(1/3)` and `E**(-y)`, `E**(3*y)`,
`E**(2/(1/y))` share the atom `E**y`. -/
def contentHeur (e : Expr) : Int :=
  match NF.norm e with
  | .ok f =>
    let a := polyContent f.num
    let b := polyContent f.den
    if a = 0 || b = 0 then 1
    else
      let p : Int := (a / Nat.gcd a b : Nat)
      match f.num with
      | (_, c) :: _ => if c.re < 0 || (c.re == 0 && c.im < 0) then -p else p
      | [] => 1
  | .error _ => 1

/-- a heuristic integer part of the constant term of an exponent whose normal form has a constant
denominator (soundness does not depend on it) -/
def constHeur (e : Expr) : Int :=
  match NF.norm e with
  | .ok f =>
    match f.den with
    | [([], d)] =>
      if d.im == 0 && d.re != 0 then
        match f.num.find? (fun t => t.1.isEmpty) with
        | some (_, c0) =>
          if c0.im == 0 then Int.tdiv c0.re d.re else 0
        | none => 0
      else 0
    | _ => 0
  | .error _ => 0

/-- the exponent is (semantically) a pure number: its normal form has constant numerator and
denominator -/
def isRatLit (e : Expr) : Bool :=
  match NF.norm e with
  | .ok f => f.num.all (fun t => t.1.isEmpty) && f.den.all (fun t => t.1.isEmpty)
  | .error _ => false

/-- `e = k + c * e0` with integers `k` and `c ≠ 0`: the power `b ** e` is treated as
`b**k · (b ** e0) ** c`; `k`, `c` are heuristic (bounded by 16), `e0` is built so that the
equation holds for every choice -/
def expNorm (e : Expr) : Int × Int × Expr :=
  -- a pure rational exponent is left alone: `x**(2/3)`, `x**(-1/3)` are related by the shift /
  -- negation matching of `atomEqWith`, which a canonical split would break
  let k0 := if isRatLit e then 0 else constHeur e
  let k := if k0.natAbs > 16 then 0 else k0
  let e1 := if k = 0 then e else .add (.int (-k)) [(e, .int 1)]
  let c0 := if isRatLit e then 1 else contentHeur e1
  let c := if c0 = 0 || c0.natAbs > 16 then 1 else c0
  let e0 := if c = 1 then e1 else .mul (.rat c.sign c.natAbs) [(e1, .int 1)]
  (k, c, e0)

/-- name of the `i`-th abstract atom (unary, so that the index is the length) -/
def enc (i : Nat) : String := String.ofList (List.replicate i 'a')

mutual
  /-- the atoms at the arithmetic positions of a tree; atoms are not entered, except that the base
  of a power atom is itself an arithmetic position -/
  def atomsOf : Expr → List Expr
    | .add c ts => atomsOf c ++ atomsOfTerms ts
    | .mul c fs => atomsOf c ++ atomsOfFacs fs
    | .pow b e =>
      match intLit? e with
      | some _ => atomsOf b
      | none => .pow b (expNorm e).2.2 :: atomsOf b
    | .sym n => [.sym n]
    | .dummy n i => [.dummy n i]
    | .const n => [.const n]
    | .fsym n args => [.fsym n args]
    | .app h args => [.app h args]
    | .int _ => []
    | .rat _ _ => []
    | .cplx _ _ => []
    | .dbl _ => []
    | .cdbl _ _ => []
    | .infty _ => []
    | .nan => []
    | .bool _ => []
  def atomsOfTerms : List (Expr × Expr) → List Expr
    | [] => []
    | (k, v) :: t => atomsOf k ++ (atomsOf v ++ atomsOfTerms t)
  def atomsOfFacs : List (Expr × Expr) → List Expr
    | [] => []
    | (b, e) :: t =>
      match intLit? e with
      | some _ => atomsOf b ++ atomsOfFacs t
      | none => .pow b (expNorm e).2.2 :: (atomsOf b ++ atomsOfFacs t)
end

/-- how an atom `x` matches a table entry `r`: `x = ±r` (`neg`), and for power atoms
`x = base ** shift · r` or `x = base ** shift · r⁻¹` (`inv`) with an integer `shift` -/
structure Match where
  neg : Bool
  shift : Int
  inv : Bool
  deriving Repr, DecidableEq, Inhabited

def invExp (inv : Bool) : Int := if inv then -1 else 1

/-- index of the first table entry that matches -/
def findI (p : Expr → Option Match) : List Expr → Option (Nat × Match)
  | [] => none
  | r :: t =>
    match p r with
    | some m => some (0, m)
    | none => (findI p t).map fun q => (q.1 + 1, q.2)

/-- the abstract atom number `i`, negated when `neg` -/
def atomSym (i : Nat) (neg : Bool) : Expr :=
  if neg then .mul (.int (-1)) [(.sym (enc i), .int 1)] else .sym (enc i)

/-- abstraction of an atom that is not a power -/
def absAtom (idx : Expr → Option (Nat × Match)) (x : Expr) : Option Expr :=
  match idx x with
  | some (i, m) => if m.shift = 0 && !m.inv then some (atomSym i m.neg) else none
  | none => none

/-- `Mul` dictionary entries for the power `b**k · (b ** e0) ** c` whose atom `b ** e0` matched
with `q`: `b' ** (k + shift·c) · [atom] ** (±c)` -/
def powEntries (b' : Expr) (q : Nat × Match) (k c : Int) : List (Expr × Expr) :=
  [(b', .int (k + q.2.shift * c)), (atomSym q.1 q.2.neg, .int (invExp q.2.inv * c))]

mutual
  /-- replace every atom by a numbered symbol; `none` when an atom has no index or the tree
  contains a float / infinity / NaN / Boolean in an arithmetic position -/
  def absE (idx : Expr → Option (Nat × Match)) : Expr → Option Expr
    | .int n => some (.int n)
    | .rat n d => some (.rat n d)
    | .cplx re im => some (.cplx re im)
    | .add c ts =>
      match absE idx c, absTerms idx ts with
      | some c', some ts' => some (.add c' ts')
      | _, _ => none
    | .mul c fs =>
      match absE idx c, absFacs idx fs with
      | some c', some fs' => some (.mul c' fs')
      | _, _ => none
    | .pow b e =>
      match intLit? e with
      | some n => (absE idx b).map fun b' => .pow b' (.int n)
      | none =>
        match absE idx b, idx (.pow b (expNorm e).2.2) with
        | some b', some q => some (.mul (.int 1) (powEntries b' q (expNorm e).1 (expNorm e).2.1))
        | _, _ => none
    | .sym n => absAtom idx (.sym n)
    | .dummy n i => absAtom idx (.dummy n i)
    | .const n => absAtom idx (.const n)
    | .fsym n args => absAtom idx (.fsym n args)
    | .app h args => absAtom idx (.app h args)
    | .dbl _ => none
    | .cdbl _ _ => none
    | .infty _ => none
    | .nan => none
    | .bool _ => none
  def absTerms (idx : Expr → Option (Nat × Match)) : List (Expr × Expr) → Option (List (Expr × Expr))
    | [] => some []
    | (k, v) :: t =>
      match absE idx k, absE idx v, absTerms idx t with
      | some k', some v', some t' => some ((k', v') :: t')
      | _, _, _ => none
  def absFacs (idx : Expr → Option (Nat × Match)) : List (Expr × Expr) → Option (List (Expr × Expr))
    | [] => some []
    | (b, e) :: t =>
      match intLit? e with
      | some n =>
        match absE idx b, absFacs idx t with
        | some b', some t' => some ((b', .int n) :: t')
        | _, _ => none
      | none =>
        match absE idx b, idx (.pow b (expNorm e).2.2), absFacs idx t with
        | some b', some q, some t' => some (powEntries b' q (expNorm e).1 (expNorm e).2.1 ++ t')
        | _, _, _ => none
end

/-- position-wise comparison of two lists -/
def listAll2 (p : Expr → Expr → Bool) : List Expr → List Expr → Bool
  | [], [] => true
  | a :: t, b :: u => p a b && listAll2 p t u
  | _, _ => false

/-- heads `h` with `h(-x) = -h(x)` / `h(-x) = h(x)` whose constructors move the sign out of the
argument (`could_extract_minus`), so that the sign of the stored argument depends on term order -/
def oddHeads : List String :=
  ["Sin", "Tan", "Cot", "Csc", "Sinh", "Tanh", "Coth", "Csch", "ASinh", "ATanh", "Erf", "Sign"]
def evenHeads : List String := ["Cos", "Sec", "Cosh", "Sech", "Abs"]

def negE (a : Expr) : Expr := .mul (.int (-1)) [(a, .int 1)]

/-- `k + e` as a tree -/
def shiftExp (e : Expr) (k : Int) : Expr := .add (.int k) [(e, .int 1)]

def shiftCandidates : List Int := [0, 1, -1, 2, -2, 3, -3, 4, -4, 5, -5, 6, -6]

/-- first candidate `k` with `e ≡ k + e'` (`false`) or `e ≡ k - e'` (`true`) -/
def findShift (teq : Expr → Expr → Bool) (e e' : Expr) : List Int → Option (Int × Bool)
  | [] => none
  | k :: ks =>
    if teq e (shiftExp e' k) then some (k, false)
    else if teq e (shiftExp (negE e') k) then some (k, true)
    else findShift teq e e' ks

/-- does the atom `x` (first argument) match the table entry `r` (second argument)?  Same head and
`teq`-equivalent arguments; odd / even one-argument heads also match on the negated argument;
power atoms match when the bases are equivalent and the exponents differ by an integer. -/
def atomEqWith (teq : Expr → Expr → Bool) : Expr → Expr → Option Match
  | .sym a, .sym b => if a == b then some ⟨false, 0, false⟩ else none
  | .dummy a i, .dummy b j => if a == b && i == j then some ⟨false, 0, false⟩ else none
  | .const a, .const b => if a == b then some ⟨false, 0, false⟩ else none
  | .fsym n as, .fsym m bs => if n == m && listAll2 teq as bs then some ⟨false, 0, false⟩ else none
  | .app n as, .app m bs =>
    if n == m then
      if listAll2 teq as bs then some ⟨false, 0, false⟩
      else match as, bs with
        | [a], [b] =>
          if oddHeads.contains n && teq a (negE b) then some ⟨true, 0, false⟩
          else if evenHeads.contains n && teq a (negE b) then some ⟨false, 0, false⟩
          else none
        | _, _ => none
    else none
  | .pow b e, .pow b' e' =>
    if (intLit? e).isNone && (intLit? e').isNone && teq b b' then
      (findShift teq e e' shiftCandidates).map fun k => ⟨false, k.1, k.2⟩
    else none
  | _, _ => none

/-- compare two trees by `NF.equiv` after folding and abstracting their atoms with the
identification `aeq`; structurally equal trees are accepted directly -/
def treeEquivWith (aeq : Expr → Expr → Option Match) (a b : Expr) : Bool :=
  if Expr.eqb a b then true else
  let a1 := foldPow a
  let b1 := foldPow b
  let tbl := atomsOf a1 ++ atomsOf b1
  let idx := fun x => findI (fun r => aeq x r) tbl
  match absE idx a1, absE idx b1 with
  | some a', some b' => NF.equiv a' b'
  | _, _ => false

/-- equality up to `NF` at every level; `fuel` bounds the nesting depth of atoms -/
def treeEquivF : Nat → Expr → Expr → Bool
  | 0 => fun _ _ => false
  | f + 1 => treeEquivWith (atomEqWith (treeEquivF f))

mutual
  def depth : Expr → Nat
    | .add c ts => 1 + max (depth c) (depthPairs ts)
    | .mul c fs => 1 + max (depth c) (depthPairs fs)
    | .pow b e => 1 + max (depth b) (depth e)
    | .fsym _ args => 1 + depthList args
    | .app _ args => 1 + depthList args
    | .int _ => 0
    | .rat _ _ => 0
    | .cplx _ _ => 0
    | .dbl _ => 0
    | .cdbl _ _ => 0
    | .infty _ => 0
    | .nan => 0
    | .sym _ => 0
    | .dummy _ _ => 0
    | .const _ => 0
    | .bool _ => 0
  def depthList : List Expr → Nat
    | [] => 0
    | a :: t => max (depth a) (depthList t)
  def depthPairs : List (Expr × Expr) → Nat
    | [] => 0
    | (k, v) :: t => max (depth k) (max (depth v) (depthPairs t))
end

def treeEquiv (a b : Expr) : Bool := treeEquivF (max (depth a) (depth b) + 2) a b

/-! ### the certificate checker -/

/-- (i) no replacement symbol occurs in the inputs; the replacement symbols are pairwise distinct -/
def freshB (inputs : List Expr) : List (String × Expr) → Bool
  | [] => true
  | (s, _) :: rest =>
    !(symNamesList inputs).contains s && !(rest.map (·.1)).contains s && freshB inputs rest

/-- (ii) `rhsᵢ` mentions no replacement symbol with index ≥ i -/
def orderedB : List (String × Expr) → Bool
  | [] => true
  | (s, r) :: rest =>
    (symNames r).all (fun n => !(s :: rest.map (·.1)).contains n) && orderedB rest

/-- no right-hand side is an integer literal (`cse` never replaces numbers); needed because an
integer literal in an exponent position changes the meaning of `Pow` from atom to arithmetic -/
def rhsOkB (reps : List (String × Expr)) : Bool := reps.all fun p => (intLit? p.2).isNone

/-- (iii) back-substituted reduced expressions are `treeEquiv` to the inputs, position-wise -/
def faithfulB (reps : List (String × Expr)) (inputs reduced : List Expr) : Bool :=
  listAll2 (fun inp red => treeEquiv (backSubst reps red) inp) inputs reduced

def check (inputs : List Expr) (reps : List (String × Expr)) (reduced : List Expr) : Bool :=
  freshB inputs reps && orderedB reps && rhsOkB reps && faithfulB reps inputs reduced

/-! ### wire format of the certificate:  `(s x0) rhs0 (s x1) rhs1 … | red1 red2 …` -/

def pairUp : List Expr → Option (List (String × Expr))
  | [] => some []
  | .sym s :: r :: t => (pairUp t).map fun l => (s, r) :: l
  | _ => none

def parseCert (s : String) : Option (List (String × Expr) × List Expr) :=
  match s.splitOn "|" with
  | [l, r] =>
    match Expr.parseMany l, Expr.parseMany r with
    | some ps, some red => (pairUp ps).map fun reps => (reps, red)
    | _, _ => none
  | _ => none

mutual
  /-- is there a power `x ** (p/q)` (non-integer rational literal) of one of the given symbols? -/
  def hasRatPowOf (syms : List String) : Expr → Bool
    | .add c ts => hasRatPowOf syms c || hasRatPowOfPairs syms ts
    | .mul c fs => hasRatPowOf syms c || hasRatPowOfFacs syms fs
    | .pow b e => ratPowOfSym syms b e || hasRatPowOf syms b || hasRatPowOf syms e
    | .fsym _ args => hasRatPowOfList syms args
    | .app _ args => hasRatPowOfList syms args
    | _ => false
  def hasRatPowOfList (syms : List String) : List Expr → Bool
    | [] => false
    | a :: t => hasRatPowOf syms a || hasRatPowOfList syms t
  def hasRatPowOfPairs (syms : List String) : List (Expr × Expr) → Bool
    | [] => false
    | (k, v) :: t => hasRatPowOf syms k || hasRatPowOf syms v || hasRatPowOfPairs syms t
  def hasRatPowOfFacs (syms : List String) : List (Expr × Expr) → Bool
    | [] => false
    | (b, e) :: t => ratPowOfSym syms b e || hasRatPowOf syms b || hasRatPowOf syms e || hasRatPowOfFacs syms t
  def ratPowOfSym (syms : List String) : Expr → Expr → Bool
    | .sym n, .rat _ _ => syms.contains n
    | _, _ => false
end

/-- a rational power of a replacement symbol occurs in the certificate: the library may have merged
it with integer powers of the same symbol (`x0 * x0**(-1/2) → x0**(1/2)`), which after
back-substitution is the radical identity `B * B**(-1/2) = B**(1/2)` that the normaliser does not
know; when the faithfulness check fails on such a certificate the checker answers SKIP -/
def mayMergeRadical (reps : List (String × Expr)) (reduced : List Expr) : Bool :=
  let syms := reps.map (·.1)
  hasRatPowOfList syms reduced || hasRatPowOfList syms (reps.map (·.2))

/-- what the driver prints -/
def judge (inputs : List Expr) (cert : String) : String :=
  match parseCert cert with
  | none => "FAIL:unparsable-certificate"
  | some (reps, reduced) =>
    if inputs.length != reduced.length then "FAIL:length"
    else if !freshB inputs reps then "FAIL:not-fresh"
    else if !orderedB reps then "FAIL:not-ordered"
    else if !rhsOkB reps then "FAIL:rhs-is-a-number"
    else if !faithfulB reps inputs reduced then
      (if mayMergeRadical reps reduced then "SKIP:rational-power-of-a-replacement-symbol-merged"
       else "FAIL:value-differs")
    else if check inputs reps reduced then "ok" else "FAIL:check"

end CSE
end SymVerif
