/-
C44 — models for the alternative printers.  Core Lean only.

  XmlTree, `ser`          an XML element tree and its serialiser (escaping of character data and attribute values)
  `mathmlTree`            model of `MathMLPrinter` (symengine/printers/mathml.cpp) on numbers, symbols, the named
                          constants, Add/Mul/Pow, named functions, function symbols, relationals and booleans:
                          `Expr → MRes` (a tree, the documented "not supported" exception, or "not modelled")
  `parseXml`, `canonPlus` a small XML reader used by the driver to compare the real output with the model modulo the
                          order of the children of `<apply><plus/>…` (`Add::get_args()` iterates an unordered_map)
  TexTok, `texLex`, `texCheck`   the group structure of a LaTeX text: `{ }`, `\left \right`, `\begin \end`, and the
                          stack matcher that the driver runs on the real output of `latex(e)`
  TexTree, `serTex`       a LaTeX document as a tree of groups; `Props/C44.lean` proves that every serialised tree is
                          accepted by `texCheck`
-/
import SymVerif.Model.StrPrinter
import SymVerif.Gen.AltNames

namespace SymVerif
namespace Markup
open Expr

/-! ### XML -/

inductive XmlTree where
  | elem (name : String) (attrs : List (String × String)) (kids : List XmlTree)
  | text (s : String)
  deriving Repr, Inhabited, BEq

def escChar (c : Char) : List Char :=
  if c == '&' then "&amp;".toList
  else if c == '<' then "&lt;".toList
  else if c == '>' then "&gt;".toList
  else [c]

def escAttrChar (c : Char) : List Char :=
  if c == '"' then "&quot;".toList else escChar c

def escText (s : List Char) : List Char := s.flatMap escChar
def escAttr (s : List Char) : List Char := s.flatMap escAttrChar

def serAttrs : List (String × String) → List Char
  | [] => []
  | (n, v) :: t => ' ' :: (n.toList ++ '=' :: '"' :: (escAttr v.toList ++ '"' :: serAttrs t))

mutual
  def ser : XmlTree → List Char
    | .text s => escText s.toList
    | .elem n as kids =>
      match kids with
      | [] => '<' :: (n.toList ++ serAttrs as ++ ['/', '>'])
      | k :: ks => '<' :: (n.toList ++ serAttrs as ++ '>' :: (ser k ++ serKids ks ++ '<' :: '/' :: (n.toList ++ ['>'])))
  def serKids : List XmlTree → List Char
    | [] => []
    | k :: ks => ser k ++ serKids ks
end

def serStr (t : XmlTree) : String := String.ofList (ser t)

/-! ### the MathML printer -/

inductive MRes where
  | ok (t : XmlTree)
  | throws          -- SymEngineException("Error: not supported"): MathMLPrinter::bvisit(const Basic &)
  | skip            -- a class the C++ printer handles but this model does not
  deriving Inhabited

def empty (n : String) : XmlTree := .elem n [] []
def apply (op : String) (kids : List XmlTree) : XmlTree := .elem "apply" [] (empty op :: kids)
def cn (ty : String) (kids : List XmlTree) : XmlTree := .elem "cn" [("type", ty)] kids

def ratTree (n : Int) (d : Nat) : XmlTree :=
  if d == 1 then cn "integer" [.text (toString n)]
  else cn "rational" [.text (toString n), empty "sep", .text (toString d)]

def mathmlName (cls : String) : Option String :=
  match Gen.AltNames.mathmlOverrides.lookup cls with
  | some n => some n
  | none => Gen.PrintNames.printNames.lookup cls

def relName (h : String) : Option String :=
  if h == "Equality" then some "eq" else if h == "Unequality" then some "neq"
  else if h == "LessThan" then some "leq" else if h == "StrictLessThan" then some "lt" else none

def boolName (h : String) : Option String :=
  if h == "And" then some "and" else if h == "Or" then some "or" else if h == "Xor" then some "xor"
  else if h == "Not" then some "not" else none

/-- collect results of a list of sub-printers: the first `throws` wins over `skip` only if it comes first
(the C++ printer stops at the first exception) -/
def collect : List MRes → Except MRes (List XmlTree)
  | [] => .ok []
  | .ok t :: r => match collect r with
    | .ok ts => .ok (t :: ts)
    | .error e => .error e
  | .throws :: _ => .error .throws
  | .skip :: _ => .error .skip

def withKids (rs : List MRes) (k : List XmlTree → XmlTree) : MRes :=
  match collect rs with
  | .ok ts => .ok (k ts)
  | .error e => e

/-- `Number::is_zero()`: exact 0, or a double / complex double equal to 0.0 (either sign) -/
def isZeroNum : Expr → Bool
  | int n => n == 0
  | dbl b => b == 0 || b == negZeroBits
  | cdbl r i => (r == 0 || r == negZeroBits) && (i == 0 || i == negZeroBits)
  | _ => false

mutual
  def mathmlTree : Expr → MRes
    | int n => .ok (cn "integer" [.text (toString n)])
    | rat n d => .ok (ratTree n d)
    | cplx re im =>
      .ok (.elem "apply" [] [.elem "csymbol" [("cd", "nums1")] [.text "complex_cartesian"],
        ratTree re.num re.den, ratTree im.num im.den])
    | dbl b => .ok (cn "real" [.text (StrP.printDouble b)])
    | cdbl r i =>
      .ok (.elem "apply" [] [.elem "csymbol" [("cd", "nums1")] [.text "complex_cartesian"],
        cn "real" [.text (StrP.printDouble r)], cn "real" [.text (StrP.printDouble i)]])
    | infty _ => .throws
    | nan => .throws
    | sym n => .ok (.elem "ci" [] [.text n])
    | dummy _ _ => .skip
    | const n =>
      if n == "pi" then .ok (empty "pi") else if n == "E" then .ok (empty "exponentiale")
      else if n == "EulerGamma" then .ok (empty "eulergamma") else .skip
    | add c ts =>
      let cs := if isZeroNum c then [] else [mathmlTree c]   -- Add::get_args(): `not coef_->is_zero()`
      withKids (cs ++ termTrees ts) (apply "plus")
    | mul c fs =>
      let cs := if StrP.isInt c 1 then [] else [mathmlTree c]
      withKids (cs ++ facTrees fs) (apply "times")
    | pow b e => withKids [mathmlTree b, mathmlTree e] (apply "power")
    | fsym n args => withKids (argTrees args) fun ts => .elem "apply" [] (.elem "ci" [] [.text n] :: ts)
    | app h args =>
      match relName h, boolName h, mathmlName h with
      | some r, _, _ => withKids (argTrees args) (apply r)
      | none, some b, _ => withKids (argTrees args) (apply b)
      | none, none, some f => withKids (argTrees args) (apply f)
      | none, none, none => .skip
    | Expr.bool b => .ok (empty (if b then "true" else "false"))
  def argTrees : List Expr → List MRes
    | [] => []
    | a :: t => mathmlTree a :: argTrees t
  /-- `Mul::get_args()`: `base` or `Pow(base, exp)` per dictionary entry -/
  def facTrees : List (Expr × Expr) → List MRes
    | [] => []
    | (b, e) :: t =>
      (if StrP.isInt e 1 then mathmlTree b else withKids [mathmlTree b, mathmlTree e] (apply "power")) :: facTrees t
  /-- `Add::get_args()`: `key`, or `Add::from_dict(0, {key ↦ coef})` = `Mul(coef, factors of key)` -/
  def termTrees : List (Expr × Expr) → List MRes
    | [] => []
    | (k, v) :: t =>
      (if StrP.isInt v 1 then mathmlTree k
       else match k with
         | mul kc kfs => if StrP.isInt kc 1 then withKids (mathmlTree v :: facTrees kfs) (apply "times") else .skip
         | pow b e => withKids [mathmlTree v, withKids [mathmlTree b, mathmlTree e] (apply "power")] (apply "times")
         | k' => withKids [mathmlTree v, mathmlTree k'] (apply "times")) :: termTrees t
end

/-! ### reading XML back (driver side: comparison modulo the order of the summands) -/

def isNameChar (c : Char) : Bool := c.isAlphanum || c == '_' || c == ':' || c == '-' || c == '.' || c.toNat ≥ 128

def takeName (s : List Char) : List Char × List Char := (s.takeWhile isNameChar, s.dropWhile isNameChar)

def unescape : List Char → List Char
  | [] => []
  | '&' :: 'a' :: 'm' :: 'p' :: ';' :: r => '&' :: unescape r
  | '&' :: 'l' :: 't' :: ';' :: r => '<' :: unescape r
  | '&' :: 'g' :: 't' :: ';' :: r => '>' :: unescape r
  | '&' :: 'q' :: 'u' :: 'o' :: 't' :: ';' :: r => '"' :: unescape r
  | c :: r => c :: unescape r

/-- attributes ` name="value"`* up to `>` or `/>`; returns attrs, whether the tag is self-closing, the rest -/
def parseAttrs : Nat → List Char → Option (List (String × String) × Bool × List Char)
  | 0, _ => none
  | _ + 1, '/' :: '>' :: r => some ([], true, r)
  | _ + 1, '>' :: r => some ([], false, r)
  | f + 1, ' ' :: r =>
    let (n, r1) := takeName r
    match r1 with
    | '=' :: '"' :: r2 =>
      let v := r2.takeWhile (· != '"')
      match r2.dropWhile (· != '"') with
      | '"' :: r3 =>
        match parseAttrs f r3 with
        | some (as, sc, r4) => some ((String.ofList n, String.ofList (unescape v)) :: as, sc, r4)
        | none => none
      | _ => none
    | _ => none
  | _ + 1, _ => none

mutual
  def parseElem : Nat → List Char → Option (XmlTree × List Char)
    | 0, _ => none
    | f + 1, '<' :: r =>
      let (n, r1) := takeName r
      if n.isEmpty then none else
      match parseAttrs (r1.length + 1) r1 with
      | none => none
      | some (as, true, r2) => some (.elem (String.ofList n) as [], r2)
      | some (as, false, r2) =>
        match parseContent f r2 with
        | none => none
        | some (kids, r3) =>
          -- r3 starts after "</"
          let (n', r4) := takeName r3
          match r4 with
          | '>' :: r5 => if n' == n then some (.elem (String.ofList n) as kids, r5) else none
          | _ => none
    | _ + 1, _ => none
  /-- content up to and including the `</` of the end tag -/
  def parseContent : Nat → List Char → Option (List XmlTree × List Char)
    | 0, _ => none
    | f + 1, s =>
      match s with
      | '<' :: '/' :: r => some ([], r)
      | '<' :: _ =>
        match parseElem f s with
        | none => none
        | some (k, r) =>
          match parseContent f r with
          | none => none
          | some (ks, r') => some (k :: ks, r')
      | [] => none
      | _ =>
        let t := s.takeWhile (· != '<')
        match parseContent f (s.dropWhile (· != '<')) with
        | none => none
        | some (ks, r') => some (.text (String.ofList (unescape t)) :: ks, r')
end

def parseXml (s : String) : Option XmlTree :=
  match parseElem (s.length + 2) s.toList with
  | some (t, []) => some t
  | _ => none

def insertSorted (x : String × XmlTree) : List (String × XmlTree) → List (String × XmlTree)
  | [] => [x]
  | y :: t => if x.1 ≤ y.1 then x :: y :: t else y :: insertSorted x t

mutual
  /-- the children of every `<apply><plus/>…` sorted by their own serialisation -/
  def canonPlus : XmlTree → XmlTree
    | .text s => .text s
    | .elem n as kids =>
      let ks := canonKids kids
      match n, ks with
      | "apply", .elem "plus" [] [] :: rest =>
        let keyed := rest.map fun k => (serStr k, k)
        .elem n as (.elem "plus" [] [] :: (keyed.foldr insertSorted []).map (·.2))
      | _, _ => .elem n as ks
  def canonKids : List XmlTree → List XmlTree
    | [] => []
    | k :: t => canonPlus k :: canonKids t
end

/-! ### LaTeX groups -/

inductive TexTok where
  | lbrace | rbrace
  | left | right
  | beginEnv (env : String) | endEnv (env : String)
  | other
  deriving DecidableEq, Repr, Inhabited

/-- the delimiter that follows `\\left` / `\\right`: one character, or a control sequence (`\\{`, `\\langle` …).
Whether it is a *valid* delimiter is not a matter of group structure (the harness oracle checks that). -/
def skipDelim : List Char → List Char
  | ' ' :: r => skipDelim r
  | '\\' :: c :: r => if c.isAlpha then r.dropWhile Char.isAlpha else r
  | _ :: r => r
  | [] => []

/-- the group-relevant tokens of a LaTeX text.  A backslash followed by a non-letter is a control symbol (`\{`, `\}`,
`\\`, `\;` …) and never opens or closes a group. -/
def texLex : Nat → List Char → List TexTok
  | 0, _ => []
  | _ + 1, [] => []
  | f + 1, '\\' :: r =>
    match r with
    | [] => []
    | c :: r' =>
      if !c.isAlpha then .other :: texLex f r'
      else
        let w := r.takeWhile Char.isAlpha
        let rest := r.dropWhile Char.isAlpha
        if w == "left".toList then .left :: texLex f (skipDelim rest)
        else if w == "right".toList then .right :: texLex f (skipDelim rest)
        else if w == "begin".toList || w == "end".toList then
          match rest with
          | '{' :: r2 =>
            let env := String.ofList (r2.takeWhile (· != '}'))
            let r3 := (r2.dropWhile (· != '}')).drop 1
            (if w == "begin".toList then TexTok.beginEnv env else TexTok.endEnv env) :: texLex f r3
          | _ => .other :: texLex f rest
        else .other :: texLex f rest
  | f + 1, '{' :: r => .lbrace :: texLex f r
  | f + 1, '}' :: r => .rbrace :: texLex f r
  | f + 1, _ :: r => texLex f r

inductive Open where
  | brace | left | env (e : String)
  deriving DecidableEq, Repr

/-- the stack matcher -/
def texCheck : List TexTok → List Open → Bool
  | [], stk => stk.isEmpty
  | .lbrace :: r, stk => texCheck r (.brace :: stk)
  | .left :: r, stk => texCheck r (.left :: stk)
  | .beginEnv e :: r, stk => texCheck r (.env e :: stk)
  | .rbrace :: r, .brace :: stk => texCheck r stk
  | .right :: r, .left :: stk => texCheck r stk
  | .endEnv e :: r, .env e' :: stk => e == e' && texCheck r stk
  | .other :: r, stk => texCheck r stk
  | _, _ => false

def texBalanced (s : String) : Bool := texCheck (texLex (s.length + 1) s.toList) []

inductive TexTree where
  | raw                                   -- text without group tokens
  | group (kids : List TexTree)           -- `{ … }`
  | leftRight (kids : List TexTree)       -- `\left<d> … \right<d>`
  | env (name : String) (kids : List TexTree)   -- `\begin{name} … \end{name}`
  deriving Repr, Inhabited

mutual
  def serTex : TexTree → List TexTok
    | .raw => [.other]
    | .group kids => .lbrace :: (serTexs kids ++ [.rbrace])
    | .leftRight kids => .left :: (serTexs kids ++ [.right])
    | .env n kids => .beginEnv n :: (serTexs kids ++ [.endEnv n])
  def serTexs : List TexTree → List TexTok
    | [] => []
    | k :: t => serTex k ++ serTexs t
end

/-! ### Unicode box -/

/-- all lines of the box (lines separated by the two characters `\n` in the driver's wire format) have the same
number of code points -/
def sameWidth (lines : List String) : Bool :=
  match lines with
  | [] => false
  | l :: r => r.all fun x => x.length == l.length

end Markup
end SymVerif
