/-
M-Expr: the expression-tree datatype shared by the expression-level models
(DESIGN.md §4.2) and its conversion from/to the S-expression wire format
produced by harness/sexp.h.  Core Lean only.

The tree mirrors the *stored fields* of the C++ classes:
  Integer/Rational/Complex/RealDouble/ComplexDouble/Infty/NaN   number leaves
  Symbol/Dummy/Constant                                         atoms
  Add  = coef_ + dict_  (umap_basic_num:  key ↦ numeric coefficient)
  Mul  = coef_ * dict_  (map_basic_basic: base ↦ exponent)
  Pow  = base_, exp_
  FunctionSymbol(name, args); every other class `app TypeName args` (get_args order).
Dictionaries are association lists kept in the order of the wire format, which
is sorted by the entries' own dump strings (a canonical, hash-independent order).
-/
import SymVerif.Model.SExp

namespace SymVerif

/-- exact rational as stored by `rational_class` (canonical: den > 0, gcd = 1) -/
structure Q where
  num : Int
  den : Nat
  deriving Repr, BEq, DecidableEq, Inhabited

inductive Expr where
  | int (n : Int)
  | rat (n : Int) (d : Nat)
  | cplx (re im : Q)
  | dbl (bits : UInt64)
  | cdbl (re im : UInt64)
  | infty (dir : Int)                 -- 1 = oo, -1 = -oo, 0 = zoo
  | nan
  | sym (name : String)
  | dummy (name : String) (idx : Nat)
  | const (name : String)
  | add (coef : Expr) (terms : List (Expr × Expr))
  | mul (coef : Expr) (facs : List (Expr × Expr))
  | pow (base exp : Expr)
  | fsym (name : String) (args : List Expr)
  | app (head : String) (args : List Expr)
  | bool (b : Bool)
  deriving Repr, Inhabited, BEq

namespace Expr

def isNum : Expr → Bool
  | int _ | rat _ _ | cplx _ _ | dbl _ | cdbl _ _ | infty _ | nan => true
  | _ => false

/-! ### wire format -/

def hexDigit (n : Nat) : Char := if n < 10 then Char.ofNat (48 + n) else Char.ofNat (87 + n)

def hex64 (v : UInt64) : String :=
  String.ofList ((List.range 16).map fun i => hexDigit ((v.toNat >>> (4 * (15 - i))) % 16))

def parseHex64 (s : String) : Option UInt64 :=
  if s.length != 16 then none else
  s.toList.foldlM (fun (acc : Nat) c =>
    let d := if '0' ≤ c ∧ c ≤ '9' then some (c.toNat - 48)
             else if 'a' ≤ c ∧ c ≤ 'f' then some (c.toNat - 87) else none
    d.map (fun d => acc * 16 + d)) 0 |>.map UInt64.ofNat

def ratStr (n : Int) (d : Nat) : String := if d == 1 then toString n else s!"{n}/{d}"

def parseRat (a : String) : Option (Int × Nat) :=
  match a.splitOn "/" with
  | [n] => n.toInt?.map (·, 1)
  | [n, d] => do
    let n ← n.toInt?
    let d ← d.toNat?
    if d == 0 then none else pure (n, d)
  | _ => none

mutual
  def dump : Expr → String
    | int n => toString n
    | rat n d => ratStr n d
    | cplx re im => s!"(C {ratStr re.num re.den} {ratStr im.num im.den})"
    | dbl b => s!"(D {hex64 b})"
    | cdbl r i => s!"(CD {hex64 r} {hex64 i})"
    | infty d => s!"(oo {d})"
    | nan => "nan"
    | sym n => s!"(s {n})"
    | dummy n i => s!"(d {n} {i})"
    | const n => s!"(k {n})"
    | add c ts => "(+ " ++ dump c ++ dumpPairs ts ++ ")"
    | mul c fs => "(* " ++ dump c ++ dumpPairs fs ++ ")"
    | pow b e => "(^ " ++ dump b ++ " " ++ dump e ++ ")"
    | fsym n args => "(F " ++ n ++ dumpArgs args ++ ")"
    | app h args => "(" ++ h ++ dumpArgs args ++ ")"
    | bool b => if b then "true" else "false"
  def dumpPairs : List (Expr × Expr) → String
    | [] => ""
    | (k, v) :: t => " (" ++ dump k ++ " " ++ dump v ++ ")" ++ dumpPairs t
  def dumpArgs : List Expr → String
    | [] => ""
    | a :: t => " " ++ dump a ++ dumpArgs t
end

/-- heads whose argument order on the wire is "sorted by dump" (hash-ordered containers in C++) -/
def sortedHeads : List String := ["And", "Or", "Xor", "FiniteSet", "Union", "Intersection"]

mutual
  def ofSExp : SExp → Option Expr
    | .atom a =>
      if a == "nan" then some nan
      else if a == "true" then some (bool true)
      else if a == "false" then some (bool false)
      else match parseRat a with
        | some (n, 1) => some (int n)
        | some (n, d) => some (rat n d)
        | none => none
    | .list [] => none
    | .list (.list _ :: _) => none
    | .list (.atom h :: rest) =>
      match h, rest with
      | "C", [.atom r, .atom i] => do
        let (rn, rd) ← parseRat r
        let (im, id) ← parseRat i
        pure (cplx ⟨rn, rd⟩ ⟨im, id⟩)
      | "D", [.atom b] => (parseHex64 b).map dbl
      | "CD", [.atom r, .atom i] => do
        let r ← parseHex64 r
        let i ← parseHex64 i
        pure (cdbl r i)
      | "oo", [.atom d] => d.toInt?.map infty
      | "s", [.atom n] => some (sym n)
      | "d", [.atom n, .atom i] => i.toNat?.map (dummy n)
      | "k", [.atom n] => some (const n)
      | "+", c :: ts => do
        let c ← ofSExp c
        let ts ← ofSExpPairs ts
        pure (add c ts)
      | "*", c :: fs => do
        let c ← ofSExp c
        let fs ← ofSExpPairs fs
        pure (mul c fs)
      | "^", [b, e] => do
        let b ← ofSExp b
        let e ← ofSExp e
        pure (pow b e)
      | "F", .atom n :: args => do
        let args ← ofSExpList args
        pure (fsym n args)
      | h, args => do
        let args ← ofSExpList args
        pure (app h args)
  def ofSExpList : List SExp → Option (List Expr)
    | [] => some []
    | a :: t => do
      let a ← ofSExp a
      let t ← ofSExpList t
      pure (a :: t)
  def ofSExpPairs : List SExp → Option (List (Expr × Expr))
    | [] => some []
    | .list [k, v] :: t => do
      let k ← ofSExp k
      let v ← ofSExp v
      let t ← ofSExpPairs t
      pure ((k, v) :: t)
    | _ :: _ => none
end

def parse (s : String) : Option Expr := (SExp.parseOne s).bind ofSExp

/-- all top-level expressions of a string (for op lines with several operands) -/
def parseMany (s : String) : Option (List Expr) := (SExp.parseAll s).bind ofSExpList

/-- Canonical wire form: dictionary entries / set-like argument lists sorted by their own dump. -/
def sortPairsByDump (l : List (Expr × Expr)) : List (Expr × Expr) :=
  let keyed := l.map fun p => ("(" ++ dump p.1 ++ " " ++ dump p.2 ++ ")", p)
  let ins (x : String × (Expr × Expr)) : List (String × (Expr × Expr)) → List (String × (Expr × Expr)) :=
    fun l => (l.takeWhile (fun y => y.1 < x.1)) ++ x :: (l.dropWhile (fun y => y.1 < x.1))
  (keyed.foldr ins []).map (·.2)

def sortArgsByDump (l : List Expr) : List Expr :=
  let keyed := l.map fun e => (dump e, e)
  let ins (x : String × Expr) : List (String × Expr) → List (String × Expr) :=
    fun l => (l.takeWhile (fun y => y.1 < x.1)) ++ x :: (l.dropWhile (fun y => y.1 < x.1))
  (keyed.foldr ins []).map (·.2)

mutual
  /-- normalise the container orders to the wire convention (deep) -/
  def canonOrder : Expr → Expr
    | add c ts => add (canonOrder c) (sortPairsByDump (canonOrderPairs ts))
    | mul c fs => mul (canonOrder c) (sortPairsByDump (canonOrderPairs fs))
    | pow b e => pow (canonOrder b) (canonOrder e)
    | fsym n args => fsym n (canonOrderList args)
    | app h args =>
      let args' := canonOrderList args
      app h (if sortedHeads.contains h then sortArgsByDump args' else args')
    | e => e
  def canonOrderList : List Expr → List Expr
    | [] => []
    | a :: t => canonOrder a :: canonOrderList t
  def canonOrderPairs : List (Expr × Expr) → List (Expr × Expr)
    | [] => []
    | (k, v) :: t => (canonOrder k, canonOrder v) :: canonOrderPairs t
end

/-- dump in canonical wire order -/
def dumpCanon (e : Expr) : String := dump (canonOrder e)

end Expr
end SymVerif
