/-
Model of symengine's generic univariate series expansion (property C31).

Anchors (C++ → Lean):
  symengine/series_generic.cpp  UnivariateSeries::mul / pow / diff / integrate / find_cf / ldegree / root
                                → mulTrunc / powPos,powTrunc / diff / integrate / coeff / ldegree / ratRoot
  symengine/polys/upolybase.h   ODictWrapper operator+ - * (untruncated)      → padd / psub / pneg / mulFull / scale
  symengine/series.h            SeriesBase::step_list, series_invert, series_nthroot, series_atan, series_tan,
                                _series_sin/_series_cos, series_sin/cos/sec, series_asin, series_log, series_exp,
                                series_lambertw, series_sinh/cosh, series_atanh, series_asinh, series_tanh
                                → stepList, invert, nthroot, seriesAtan, … (same names)
  symengine/series_visitor.h    SeriesVisitor::bvisit(Add/Mul/Pow/Integer/Rational/Symbol/Sin/…)  → apply*

Representation.  The C++ polynomial is a `std::map<int, Expression>` without zero entries.  The model
covers the fragment in which every coefficient is an exact rational and every exponent is ≥ 0, and
stores the coefficients densely: `Poly = List Rat`, index = exponent (trailing / interior zeros allowed,
two lists denote the same dictionary iff they agree after `norm`).  `Rat` is core Lean's normalised
`Int × Nat` rational.  Everything outside the fragment is an explicit error, never a default value:
  laurent      a negative exponent would be needed (inverse / root of a series with zero constant term)
  notRational  a symbolic constant would be needed (exp(c), sin(c), log(c), c^(1/n) not exact, symbols, pi …)
  unsupported  expression form or precision 0 (unsigned `prec - 1` wraps in the C++) not modelled
  oob          the C++ dereferences `begin()` of an empty map (`ldegree` of the zero polynomial): UB
  divZero / domain / notImpl   the exceptions the C++ throws (DivisionByZeroError, DomainError, NotImplementedError)

The C++ multiplies *without* truncation in a few places (`diff(s) * nthroot(…)` in series_asin/asinh,
scalar products); the returned polynomial can therefore carry terms of degree ≥ prec that are not Taylor
coefficients.  The model mirrors that (mulFull) so that the complete dictionary can be compared.
Core Lean only.
-/
import SymVerif.Model.Expr

namespace SymVerif.Series

inductive Err where
  | divZero | domain | notImpl | oob | laurent | notRational | unsupported
  deriving Repr, BEq, DecidableEq, Inhabited

abbrev Poly := List Rat

/-- `find_cf` for a non-negative degree -/
def coeff (p : Poly) (k : Nat) : Rat := p.getD k 0

/-- strip trailing zeros: the canonical dense form of a dictionary without zero entries -/
def norm : Poly → Poly
  | [] => []
  | a :: t =>
    match norm t with
    | [] => if a == 0 then [] else [a]
    | t' => a :: t'

def isZero (p : Poly) : Bool := norm p == []
def isOne (p : Poly) : Bool := norm p == [1]
/-- `s == var` -/
def isVar (p : Poly) : Bool := norm p == [0, 1]
/-- `s == var + 1` -/
def isVarPlusOne (p : Poly) : Bool := norm p == [1, 1]

/-- ODictWrapper::operator+ -/
def padd : Poly → Poly → Poly
  | [], b => b
  | a, [] => a
  | a :: as, b :: bs => (a + b) :: padd as bs

def pneg (a : Poly) : Poly := a.map (fun c => -c)
def psub (a b : Poly) : Poly := padd a (pneg b)
/-- product with a constant (`Poly * Expression`, `Poly / Expression`) -/
def scale (c : Rat) (a : Poly) : Poly := a.map (fun x => c * x)

/-- ODictWrapper::mul: the full product -/
def mulFull : Poly → Poly → Poly
  | [], _ => []
  | a :: as, b => padd (scale a b) (0 :: mulFull as b)

/-- UnivariateSeries::mul(a, b, prec): only the terms with exponent `i + j < prec`
(row `i` of the double loop stops at the first `j` with `i + j ≥ prec`). -/
def mulTrunc : Poly → Poly → Nat → Poly
  | [], _, _ => []
  | _ :: _, _, 0 => []
  | a :: as, b, n + 1 => padd (scale a (b.take (n + 1))) (0 :: mulTrunc as b n)

/-- the `while (exp > 1)` loop of UnivariateSeries::pow (square-and-multiply) followed by `mul(x, y, prec)` -/
def powLoop (prec : Nat) : Nat → Poly → Poly → Nat → Poly
  | 0, x, y, _ => mulTrunc x y prec
  | fuel + 1, x, y, e =>
    if e > 1 then
      if e % 2 == 0 then powLoop prec fuel (mulTrunc x x prec) y (e / 2)
      else powLoop prec fuel (mulTrunc x x prec) (mulTrunc x y prec) ((e - 1) / 2)
    else mulTrunc x y prec

/-- UnivariateSeries::pow for an exponent ≥ 1 -/
def powPos (base : Poly) (e : Nat) (prec : Nat) : Poly := powLoop prec e base [1] e

/-- UnivariateSeries::pow for an exponent ≥ 0 -/
def powTrunc (base : Poly) (e : Nat) (prec : Nat) : Except Err Poly :=
  if e == 0 then (if isZero base then .error .domain else .ok [1])
  else .ok (powPos base e prec)

/-- UnivariateSeries::diff (w.r.t. the series variable) -/
def diffFrom : Nat → Poly → Poly
  | _, [] => []
  | k, a :: t => ((k : Rat) * a) :: diffFrom (k + 1) t
def diff : Poly → Poly
  | [] => []
  | _ :: t => diffFrom 1 t

/-- UnivariateSeries::integrate -/
def integrateFrom : Nat → Poly → Poly
  | _, [] => []
  | k, a :: t => (a / (k : Rat)) :: integrateFrom (k + 1) t
def integrate (p : Poly) : Poly := 0 :: integrateFrom 1 p

/-- UnivariateSeries::ldegree: smallest exponent present; `none` = the C++ reads `begin()` of an empty map -/
def ldegree : Poly → Option Nat
  | [] => none
  | a :: t => if a != 0 then some 0 else (ldegree t).map (· + 1)

/-- the `while (tprec > 4)` loop of step_list, in ascending order -/
def stepsUp (t : Nat) : List Nat :=
  if _h : t > 4 then stepsUp (2 + t / 2) ++ [2 + t / 2] else []
termination_by t
decreasing_by omega

/-- SeriesBase::step_list(prec) = 2, …, prec -/
def stepList (prec : Nat) : List Nat := 2 :: (stepsUp prec ++ [prec])

/-- one Newton step of series_invert -/
def invStep (s : Poly) (p : Poly) (step : Nat) : Poly :=
  mulTrunc (psub [2] (mulTrunc p s step)) p step

/-- SeriesBase::series_invert -/
def invert (s : Poly) (prec : Nat) : Except Err Poly :=
  if isZero s then .error .divZero
  else if isOne s then .ok [1]
  else match ldegree s with
    | none => .error .oob
    | some 0 => .ok ((stepList prec).foldl (invStep s) [1 / coeff s 0])
    | some _ => .error .laurent

/-! exact n-th roots of positive rationals (`UnivariateSeries::root` = `pow(c, 1/n)` stays rational only then) -/
def irootAux (m n : Nat) : Nat → Nat → Nat → Nat
  | 0, lo, _ => lo
  | f + 1, lo, hi =>
    if hi - lo ≤ 1 then lo
    else
      let mid := (lo + hi) / 2
      if mid ^ n ≤ m then irootAux m n f mid hi else irootAux m n f lo mid

def iroot (m n : Nat) : Nat := irootAux m n (m.log2 + 3) 0 (m + 1)

def ratRoot (c : Rat) (n : Nat) : Option Rat :=
  if c > 0 then
    let a := iroot c.num.toNat n
    let b := iroot c.den n
    if a ^ n == c.num.toNat && b ^ n == c.den then some (mkRat a b) else none
  else none

/-- one Newton step of series_nthroot:  r += (r - r^(n+1) * sn) / n -/
def rootStep (sn : Poly) (m : Nat) (r : Poly) (step : Nat) : Poly :=
  padd r (scale (1 / (m : Rat)) (psub r (mulTrunc (powPos r (m + 1) step) sn step)))

/-- SeriesBase::series_nthroot -/
def nthroot (s : Poly) (n : Int) (prec : Nat) : Except Err Poly :=
  if n == 0 then .ok [1]
  else if n == 1 then .ok s
  else if n == -1 then invert s prec
  else match ldegree s with
    | none => .error .oob
    | some 0 =>
      let ct := coeff s 0
      let m := n.natAbs
      match ratRoot ct m with
      | none => .error .notRational
      | some ctroot =>
        let sn := scale (1 / ct) s
        let res := (stepList prec).foldl (rootStep sn m) [1]
        if n < 0 then .ok (scale (1 / ctroot) res)
        else do
          let inv ← invert res prec
          pure (scale ctroot inv)
    | some _ => .error .laurent

/-- "fast atan(x)" branch -/
def atanFast (prec : Nat) : Poly :=
  (List.range prec).map fun (i : Nat) =>
    if i % 2 == 1 then (if i % 4 == 1 then (1 : Rat) else -1) / (i : Rat) else 0

/-- SeriesBase::series_atan (constant term must be 0 to stay rational) -/
def seriesAtan (s : Poly) (prec : Nat) : Except Err Poly :=
  if isZero s then .ok []
  else if isVar s then .ok (atanFast prec)
  else if prec == 0 then .error .unsupported
  else do
    let p := padd (powPos s 2 (prec - 1)) [1]
    let ip ← invert p (prec - 1)
    let r := mulTrunc (diff s) ip (prec - 1)
    if coeff s 0 == 0 then pure (integrate r) else .error .notRational

/-- SeriesBase::series_tan: Newton iteration on atan -/
def seriesTan (s : Poly) (prec : Nat) : Except Err Poly :=
  if coeff s 0 != 0 then .error .notRational
  else
    (stepList prec).foldlM (fun r step => do
      let t := padd (powPos r 2 step) [1]
      let a ← seriesAtan r step
      pure (padd r (mulTrunc (psub s a) t step))) []

/-- SeriesBase::_series_sin: Σ (-1)^i s^(2i+1)/(2i+1)!, i < prec/2 -/
def sinCore (s : Poly) (prec : Nat) : Poly :=
  let ssq := mulTrunc s s prec
  let st := (List.range (prec / 2)).foldl (fun (st : Rat × Poly × Poly) (i : Nat) =>
      let j : Int := 2 * (i : Int) + 1
      let prod := if i != 0 then st.1 / (((1 - j : Int)) : Rat) else st.1
      let prod := prod / ((j : Int) : Rat)
      (prod, mulTrunc st.2.1 ssq prec, padd st.2.2 (mulTrunc st.2.1 [prod] prec))) ((1 : Rat), s, [])
  st.2.2

/-- SeriesBase::_series_cos: 1 + Σ (-1)^i s^(2i)/(2i)!, 1 ≤ i ≤ prec/2 -/
def cosCore (s : Poly) (prec : Nat) : Poly :=
  let ssq := mulTrunc s s prec
  let st := (List.range (prec / 2)).foldl (fun (st : Rat × Poly × Poly) (i0 : Nat) =>
      let j : Int := 2 * ((i0 : Int) + 1)
      let prod := st.1 / (((1 - j : Int)) : Rat)
      let prod := prod / ((j : Int) : Rat)
      (prod, mulTrunc st.2.1 ssq prec, padd st.2.2 (mulTrunc st.2.1 [prod] prec))) ((1 : Rat), ssq, [1])
  st.2.2

def seriesSin (s : Poly) (prec : Nat) : Except Err Poly :=
  if coeff s 0 != 0 then .error .notRational else .ok (sinCore s prec)

def seriesCos (s : Poly) (prec : Nat) : Except Err Poly :=
  if coeff s 0 != 0 then .error .notRational else .ok (cosCore s prec)

def seriesSec (s : Poly) (prec : Nat) : Except Err Poly := do
  let c ← seriesCos s prec
  invert c prec

/-- "fast log(1+x)" branch -/
def logFast (prec : Nat) : Poly :=
  (List.range prec).map fun (i : Nat) =>
    if i == 0 then 0 else (if i % 2 == 0 then (-1 : Rat) else 1) / (i : Rat)

/-- SeriesBase::series_log (constant term must be 1 to stay rational) -/
def seriesLog (s : Poly) (prec : Nat) : Except Err Poly :=
  if isOne s then .ok []
  else if isVarPlusOne s then .ok (logFast prec)
  else if prec == 0 then .error .unsupported
  else do
    let inv ← invert s prec
    let r := integrate (mulTrunc (diff s) inv (prec - 1))
    if coeff s 0 != 1 then .error .notRational else pure r

/-- coefficients 1/1!, 1/2!, … produced by the "fast exp(x)" loop -/
def expCoefs : Nat → Nat → Rat → List Rat
  | 0, _, _ => []
  | n + 1, i, coef => (coef / (i : Rat)) :: expCoefs n (i + 1) (coef / (i : Rat))

def expFast (prec : Nat) : Poly := 1 :: expCoefs (prec - 1) 1 1

/-- one Newton step of series_exp:  r = r * (t - log r) -/
def expStep (t : Poly) (r : Poly) (step : Nat) : Except Err Poly := do
  let l ← seriesLog r step
  pure (mulTrunc r (psub t l) step)

/-- SeriesBase::series_exp (constant term must be 0 to stay rational) -/
def seriesExp (s : Poly) (prec : Nat) : Except Err Poly :=
  if isZero s then .ok [1]
  else if isVar s then .ok (expFast prec)
  else if coeff s 0 != 0 then .error .notRational
  else (stepList prec).foldlM (expStep (padd s [1])) [1]

/-- SeriesBase::series_lambertw -/
def seriesLambertw (s : Poly) (prec : Nat) : Except Err Poly :=
  if coeff s 0 != 0 then .error .notImpl
  else
    (stepList prec).foldlM (fun p1 step => do
      let e ← seriesExp p1 step
      let p2 := psub (mulTrunc e p1 step) s
      let p3 ← invert (mulTrunc e (padd p1 [1]) step) step
      pure (psub p1 (mulTrunc p2 p3 step))) []

def seriesSinh (s : Poly) (prec : Nat) : Except Err Poly :=
  if coeff s 0 != 0 then .error .notRational
  else do
    let p1 ← seriesExp s prec
    let p2 ← invert p1 prec
    pure (scale (1 / 2) (psub p1 p2))

def seriesCosh (s : Poly) (prec : Nat) : Except Err Poly :=
  if coeff s 0 != 0 then .error .notRational
  else do
    let p1 ← seriesExp s prec
    let p2 ← invert p1 prec
    pure (scale (1 / 2) (padd p1 p2))

def seriesAtanh (s : Poly) (prec : Nat) : Except Err Poly :=
  if prec == 0 then .error .unsupported
  else do
    let p := psub [1] (powPos s 2 (prec - 1))
    let ip ← invert p (prec - 1)
    let r := mulTrunc (diff s) ip (prec - 1)
    if coeff s 0 == 0 then pure (integrate r) else .error .notRational

def seriesAsinh (s : Poly) (prec : Nat) : Except Err Poly :=
  if prec == 0 then .error .unsupported
  else do
    let p ← nthroot (padd (powPos s 2 (prec - 1)) [1]) 2 (prec - 1)
    let ip ← invert p (prec - 1)
    let r := mulFull (diff s) ip
    if coeff s 0 == 0 then pure (integrate r) else .error .notRational

def seriesAsin (s : Poly) (prec : Nat) : Except Err Poly :=
  if prec == 0 then .error .unsupported
  else do
    let t := psub [1] (powPos s 2 (prec - 1))
    let r ← nthroot t (-2) (prec - 1)
    let res := integrate (mulFull (diff s) r)
    if coeff s 0 == 0 then pure res else .error .notRational

/-- SeriesBase::series_tanh: Newton iteration on atanh, started at s itself -/
def seriesTanh (s : Poly) (prec : Nat) : Except Err Poly :=
  if coeff s 0 != 0 then .error .notRational
  else
    (stepList prec).foldlM (fun r step => do
      let a ← seriesAtanh r step
      let p := psub s a
      pure (padd r (mulTrunc (pneg p) (psub (powPos r 2 step) [1]) step))) s

/-! ### SeriesVisitor -/

/-- `p = Series::convert(number)`: the zero constant gives the empty dictionary -/
def constPoly (c : Rat) : Poly := if c == 0 then [] else [c]

/-- dispatch of the one-argument function visitors -/
def applyFun (head : String) (p : Poly) (prec : Nat) : Except Err Poly :=
  match head with
  | "Sin" => seriesSin p prec
  | "Cos" => seriesCos p prec
  | "Tan" => seriesTan p prec
  | "Sec" => seriesSec p prec
  | "Log" => seriesLog p prec
  | "ASin" => seriesAsin p prec
  | "ATan" => seriesAtan p prec
  | "Sinh" => seriesSinh p prec
  | "Cosh" => seriesCosh p prec
  | "Tanh" => seriesTanh p prec
  | "ASinh" => seriesAsinh p prec
  | "ATanh" => seriesAtanh p prec
  | "LambertW" => seriesLambertw p prec
  | "ACos" => .error .notRational      -- acos(c) is never rational where acos is analytic
  | "Cot" | "Csc" => .error .laurent
  | _ => .error .unsupported

/-- integer-exponent branch of bvisit(Pow) -/
def powInt (p : Poly) (sh : Int) (prec : Nat) : Except Err Poly :=
  if sh == 1 then .ok p
  else if sh > 0 then powTrunc p sh.toNat prec
  else if sh == -1 then invert p prec
  else do
    let q ← invert p prec
    powTrunc q (-sh).toNat prec

/-- rational-exponent branch of bvisit(Pow) -/
def powRat (p : Poly) (num : Int) (den : Nat) (prec : Nat) : Except Err Poly := do
  let proot ← nthroot p (den : Int) prec
  if num == 1 then pure proot
  else if num > 0 then powTrunc proot num.toNat prec
  else if num == -1 then invert proot prec
  else do
    let q ← powTrunc proot (-num).toNat prec
    invert q prec

/-- `eq(*E, *base)` -/
def isE : Expr → Bool
  | .const n => n == "E"
  | _ => false

/-- bvisit(Pow) on `pow(base, exp)` given the expansions of base and exponent; `pow(b, 1)` is `b` itself -/
def powDispatch (b e : Expr) (pb pe : Except Err Poly) (prec : Nat) : Except Err Poly :=
  match e with
  | .int sh => do
    let p ← pb
    powInt p sh prec
  | .rat num den => do
    let p ← pb
    powRat p num den prec
  | _ =>
    if isE b then do
      let q ← pe
      seriesExp q prec
    else do
      let q ← pe
      let p ← pb
      let l ← seriesLog p prec
      seriesExp (mulFull q l) prec

mutual
  /-- SeriesVisitor::apply with series variable `x` -/
  def apply (prec : Nat) : Expr → Except Err Poly
    | .int n => .ok (constPoly (n : Rat))
    | .rat n d => .ok (constPoly (mkRat n d))
    | .sym name => if name == "x" then .ok [0, 1] else .error .notRational
    | .const _ => .error .notRational
    | .add c ts => do
      let t ← apply prec c
      applyAdd prec t ts
    | .mul c fs => do
      let t ← apply prec c
      applyMul prec t fs
    | .pow b e => powDispatch b e (apply prec b) (apply prec e) prec
    | .app h args => do
      let p ← applyArg prec args
      applyFun h p prec
    | _ => .error .unsupported
  /-- bvisit(Add): temp += apply(key) * apply(coef) -/
  def applyAdd (prec : Nat) (temp : Poly) : List (Expr × Expr) → Except Err Poly
    | [] => .ok temp
    | (k, v) :: t => do
      let pk ← apply prec k
      let pv ← apply prec v
      applyAdd prec (padd temp (mulFull pk pv)) t
  /-- bvisit(Mul): temp = mul(temp, apply(pow(base, exp)), prec) -/
  def applyMul (prec : Nat) (temp : Poly) : List (Expr × Expr) → Except Err Poly
    | [] => .ok temp
    | (b, e) :: t => do
      let pf ← powDispatch b e (apply prec b) (apply prec e) prec
      applyMul prec (mulTrunc temp pf prec) t
  def applyArg (prec : Nat) : List Expr → Except Err Poly
    | [a] => apply prec a
    | _ => .error .unsupported
end

/-- `UnivariateSeries::series(e, "x", prec)->get_poly()` -/
def series (e : Expr) (prec : Nat) : Except Err Poly :=
  if prec == 0 then .error .unsupported else apply prec e

/-! ### the fragment covered by the composition theorem `SymVerif.C31.series_sound`

Function heads whose recurrences are proved (Props/C31.lean); integer exponents ≠ 0, `exp`, general
powers `f^g`; no rational exponents (series_nthroot), no tan/tanh/asin/asinh/lambertw (Newton iterations
on inverse functions: stated, checked per sample, not proved). -/

def coveredHeads : List String := ["Sin", "Cos", "Sec", "Log", "ATan", "Sinh", "Cosh", "ATanh"]

def coveredPowB (b e : Expr) (cb ce : Bool) : Bool :=
  match e with
  | .int n => n != 0 && cb
  | .rat _ _ => false
  | _ => ce && (isE b || cb)

mutual
  def covered : Expr → Bool
    | .int _ => true
    | .rat _ _ => true
    | .sym n => n == "x"
    | .add c ts => covered c && coveredPairs ts
    | .mul c fs => covered c && coveredPows fs
    | .pow b e => coveredPowB b e (covered b) (covered e)
    | .app h args => coveredHeads.contains h && coveredArg args
    | _ => false
  def coveredPairs : List (Expr × Expr) → Bool
    | [] => true
    | (k, v) :: t => covered k && covered v && coveredPairs t
  def coveredPows : List (Expr × Expr) → Bool
    | [] => true
    | (b, e) :: t => coveredPowB b e (covered b) (covered e) && coveredPows t
  def coveredArg : List Expr → Bool
    | [a] => covered a
    | _ => false
end

/-! ### output -/

def ratStr (q : Rat) : String := if q.den == 1 then toString q.num else s!"{q.num}/{q.den}"

def polyItems : Nat → Poly → List String
  | _, [] => []
  | k, a :: t => if a == 0 then polyItems (k + 1) t else s!"{k}:{ratStr a}" :: polyItems (k + 1) t

def polyStr (p : Poly) : String :=
  match polyItems 0 p with
  | [] => "0"
  | l => ",".intercalate l

def errStr : Err → String
  | .divZero => "E:DivByZero"
  | .domain => "E:Domain"
  | .notImpl => "E:NotImplemented"
  | .oob => "SKIP:oob"
  | .laurent => "SKIP:laurent"
  | .notRational => "SKIP:notRational"
  | .unsupported => "SKIP:unsupported"

def resultStr : Except Err Poly → String
  | .ok p => polyStr p
  | .error e => errStr e

end SymVerif.Series
