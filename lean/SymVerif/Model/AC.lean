/-
C04 — the parts of the model that are specific to "results ignore operand order and grouping":

  * the operand classes.  The library's normal forms are *not* confluent on all exact operands (see
    docs/C04.md): products of radicals of negative / perfect-power / Gaussian bases, powers whose base
    is a product or a power, numbers raised to symbolic exponents, and sums that contain a sum as a
    *term* (`2*(x+y)`) have order-dependent results.  `mulOperandSafe` / `addOperandSafe` are the
    decidable complements (evaluated identically by harness/c04.cpp on the real objects);
  * `maxMinE`: functions.cpp `max(vec_basic)` / `min(vec_basic)` on exact real operands
    (flattening of nested Max/Min through `set_basic`, folding of the numbers);
  * the few combination variants the driver evaluates on the model side.

The arithmetic itself is Model/Arith.lean (`addE`, `addN`, `mulEO`, `mulNO`).  Core Lean only.
-/
import SymVerif.Model.Arith

namespace SymVerif
namespace AC
open Arith

/-! ### operand classes -/

/-- a base that `Mul::dict_add_term_new` treats as an opaque key: not a Number, not a Mul, not a Pow -/
def atomBase (b : Expr) : Bool := !b.isNum && !isMul b && !isPow b

/-- `n = r^k` for some `k ≥ 2` (`n ≥ 2`): what `mpz_perfect_power_p` decides -/
def perfectPower (n : Nat) : Bool :=
  (List.range (n.log2 + 1)).any (fun k => decide (2 ≤ k) && (exactRoot n k).isSome)

/-- an integer base whose rational powers merge confluently: `≥ 2` and not a perfect power -/
def safeRadBase : Expr → Bool
  | .int n => decide (2 ≤ n) && !perfectPower n.toNat
  | _ => false

/-- `a` as a summand: it is not `c * (sum)` and, if it is a sum, none of its terms is a sum -/
def addOperandSafe : Expr → Bool
  | .mul _ [(k, e)] => !(isAdd k && isIntLit e 1)
  | .add _ ts => ts.all (fun p => !isAdd p.1)
  | _ => true

def isRatLit : Expr → Bool
  | .rat _ _ => true
  | _ => false

/-- the factor `b ** e` merges confluently: an opaque base with an exponent that is safe as a summand,
or a numeric radical of a safe base -/
def factorSafe (b e : Expr) : Bool :=
  (atomBase b && addOperandSafe e) || (safeRadBase b && isRatLit e)

/-- `a` as a factor of a product -/
def mulOperandSafe : Expr → Bool
  | .mul _ fs => fs.all (fun p => factorSafe p.1 p.2)
  | .pow b e => factorSafe b e
  | a => a.isNum || atomBase a

/-! ### summands: the (coef, dict) representation and its normal form -/

/-- a legal key of an Add dictionary in the safe fragment: exact, not a Number, not a sum; a product
key has coefficient one (and is a genuine product), a power key is not `b**1` -/
def termOK (k : Expr) : Bool :=
  exact k && !k.isNum && !isAdd k &&
  (match k with
   | .mul c fs => isIntLit c 1 && decide (2 ≤ fs.length)
   | .pow _ e => !isIntLit e 1
   | _ => true)

/-- the (coef, dict) representation of a summand: the fields of an Add, `(a, {})` for a Number,
`(0, {term: coef})` through `as_coef_term` otherwise -/
def repr (a : Expr) : Expr × Dict :=
  match a with
  | .add c d => (c, d)
  | _ =>
    if a.isNum then (a, [])
    else match asCoefTerm a with
      | .ok (c, t) => (zero, [(t, c)])
      | .error _ => (zero, [])

/-- canonical exact Number leaf -/
def exNum (e : Expr) : Bool := isExactNum e && canon e

/-- normal representation: canonical exact coefficient, sorted dictionary, canonical exact non-zero
values, legal non-sum keys -/
def nrB (s : Expr × Dict) : Bool :=
  exNum s.1 && keysSorted s.2 && s.2.all (fun p => exNum p.2 && !numIsZero p.2 && termOK p.1)

/-- a summand of the safe fragment, as the theorems of Props/C04 need it: its representation is
normal and `Add::from_dict` rebuilds it.  (Every exact invariant operand with `addOperandSafe` passes;
the driver evaluates this on every operand.) -/
def addOperandOK (a : Expr) : Bool :=
  exact a && nrB (repr a) &&
  (match addFromDict (repr a).1 (repr a).2 with
   | .ok r => eqE r a
   | .error _ => false)

/-! ### factors: the (coef, dict) representation of a product and its normal form
(numeric-exponent fragment: opaque bases with exact numeric exponents) -/

/-- a factor `k ** e`: opaque exact base, canonical exact non-zero numeric exponent -/
def mfacOK (p : Expr × Expr) : Bool := atomBase p.1 && exact p.1 && exNum p.2 && !numIsZero p.2

/-- the (coef, dict) representation of a factor of a product: the fields of a Mul, `(1, {b: e})`
for a Pow, `(a, {})` for a Number, `(1, {a: 1})` otherwise (`Mul::as_base_exp`) -/
def reprM (a : Expr) : Expr × Dict :=
  match a with
  | .mul c d => (c, d)
  | .pow b e => (one, [(b, e)])
  | _ => if a.isNum then (a, []) else (one, [(a, one)])

def nrMB (s : Expr × Dict) : Bool :=
  exNum s.1 && !numIsZero s.1 && keysSorted s.2 && s.2.all mfacOK

/-- a factor of the numeric-exponent fragment, as the Mul theorems of Props/C04 need it: non-zero,
normal representation, and `Mul::from_dict` rebuilds it -/
def mulOperandOK (a : Expr) : Bool :=
  exact a && nrMB (reprM a) && eqE (mulFromDict (reprM a).1 (reprM a).2) a

/-- a factor `k ** e` of the symbolic-exponent fragment: opaque exact base, exponent any non-zero
summand of the safe Add fragment (`addOperandOK`) -/
def mfacOKS (p : Expr × Expr) : Bool :=
  atomBase p.1 && exact p.1 && addOperandOK p.2 && !(isInteger p.2 && numIsZero p.2)

def nrSB (s : Expr × Dict) : Bool :=
  exNum s.1 && !numIsZero s.1 && keysSorted s.2 && s.2.all mfacOKS

/-- a factor of the symbolic-exponent fragment (contains the numeric-exponent fragment) -/
def mulOperandOKS (a : Expr) : Bool :=
  exact a && nrSB (reprM a) && eqE (mulFromDict (reprM a).1 (reprM a).2) a

/-- syntactic description of the symbolic-exponent fragment (mirrored by harness/c04.cpp): `mulOperandSafe`
without numeric radicals and without zero -/
def mulFragSyntacticS : Expr → Bool
  | .mul _ fs => fs.all (fun p => atomBase p.1 && addOperandSafe p.2)
  | .pow b e => atomBase b && addOperandSafe e
  | a => (a.isNum && !isNumZero a) || atomBase a

/-- syntactic description of the numeric-exponent fragment (mirrored by harness/c04.cpp for its
statistics): a non-zero Number, an opaque base, or powers of opaque bases with numeric exponents -/
def mulFragSyntactic : Expr → Bool
  | .mul _ fs => fs.all (fun p => atomBase p.1 && p.2.isNum)
  | .pow b e => atomBase b && e.isNum
  | a => (a.isNum && !isNumZero a) || atomBase a

/-- number of dictionary entries (for the fuel bound of the theorems) -/
def dlen (a : Expr) : Nat := (reprM a).2.length

/-! ### max / min -/

/-- `set_basic::insert` (kept in `key` order; `key` equality is `eq`) -/
def setInsert : List Expr → Expr → List Expr
  | [], a => [a]
  | b :: r, a =>
    if lexLt (key a) (key b) then a :: b :: r
    else if key b == key a then b :: r
    else b :: setInsert r a

def isMaxMin (isMax : Bool) : Expr → Option (List Expr)
  | .app h args => if h == (if isMax then "Max" else "Min") then some args else none
  | _ => none

/-- the comparison step on the running extremum: `difference = p - max_number` (resp.
`min_number - p`), replace when `difference->is_positive()`.  Exact real numbers only. -/
def mmNum (isMax : Bool) (cur : Option Expr) (p : Expr) : R (Option Expr) :=
  match p with
  | .int _ | .rat _ _ =>
    match cur with
    | none => .ok (some p)
    | some m => do
      let diff ← if isMax then (do let nm ← numMul m minusOne; numAdd p nm)
                 else (do let np ← numMul p minusOne; numAdd m np)
      pure (if numIsPositive diff then some p else some m)
  | _ => .error .unsupported             -- floats, Infty, NaN: outside the exact fragment

/-- the inner loop over the arguments of a nested Max (resp. Min) -/
def mmInner (isMax : Bool) : Option Expr → List Expr → List Expr → R (Option Expr × List Expr)
  | cur, set, [] => .ok (cur, set)
  | cur, set, l :: r =>
    if l.isNum then do
      let cur ← mmNum isMax cur l
      mmInner isMax cur set r
    else mmInner isMax cur (setInsert set l) r

/-- the loop of `max(const vec_basic &arg)` / `min` -/
def mmLoop (isMax : Bool) : Option Expr → List Expr → List Expr → R (Option Expr × List Expr)
  | cur, set, [] => .ok (cur, set)
  | cur, set, p :: r =>
    if isComplex p then .error .runtime          -- "Complex can't be passed to max!"
    else if p.isNum then do
      let cur ← mmNum isMax cur p
      mmLoop isMax cur set r
    else match isMaxMin isMax p with
      | some args => do
        let (cur, set) ← mmInner isMax cur set args
        mmLoop isMax cur set r
      | none => mmLoop isMax cur (setInsert set p) r

def maxMinE (isMax : Bool) (args : List Expr) : R Expr := do
  let (cur, set) ← mmLoop isMax none [] args
  let set := match cur with
    | some m => setInsert set m
    | none => set
  match set with
  | [] => .error .runtime                          -- "Empty vec_basic passed to max!"
  | [a] => pure a
  | _ => pure (.app (if isMax then "Max" else "Min") set)

def maxE := maxMinE true
def minE := maxMinE false

/-- canonical exact real Number leaf -/
def realNumB : Expr → Bool
  | .int _ => true
  | .rat n d => ratCanon n d
  | _ => false

/-- an argument after flattening: an exact real number, or a non-Number that is not a Max (Min) -/
def itemOK (isMax : Bool) (x : Expr) : Bool :=
  realNumB x || (!x.isNum && (isMaxMin isMax x).isNone)

/-- an operand of max (min) as the theorems of Props/C04 need it -/
def mmOperandOK (isMax : Bool) (a : Expr) : Bool :=
  match isMaxMin isMax a with
  | some args => args.all (itemOK isMax)
  | none => itemOK isMax a

/-- a canonical operand of max (min): `mmOperandOK`, and `max({a}) = a` (a canonical Max node, a number,
or any other non-Max expression) -/
def mmCanonOperand (isMax : Bool) (a : Expr) : Bool :=
  mmOperandOK isMax a &&
  (match maxMinE isMax [a] with
   | .ok r => eqE r a
   | .error _ => false)

/-! ### wire order for Max / Min arguments (hash order in the library: sorted by dump on the wire) -/

def sortByKey (l : List Expr) : List Expr := l.foldl setInsert []

/-- bring Max/Min argument lists (top node and one level below) into `key` order -/
def normMM : Expr → Expr
  | .app h args =>
    if h == "Max" || h == "Min" then
      .app h (sortByKey (args.map (fun x => match x with
        | .app h2 a2 => if h2 == "Max" || h2 == "Min" then .app h2 (sortByKey a2) else x
        | _ => x)))
    else .app h args
  | e => e

/-- dump with Max/Min arguments sorted by their own dump (top node and one level below) -/
def dumpMM (e : Expr) : String :=
  let e := Expr.canonOrder e
  match e with
  | .app h args =>
    if h == "Max" || h == "Min" then
      let inner := args.map (fun x => match x with
        | .app h2 a2 => if h2 == "Max" || h2 == "Min" then Expr.app h2 (Expr.sortArgsByDump a2) else x
        | _ => x)
      Expr.dump (.app h (Expr.sortArgsByDump inner))
    else Expr.dump e
  | _ => Expr.dump e

/-! ### combination variants evaluated by the driver -/

def foldlM1 (f : Expr → Expr → R Expr) : List Expr → R Expr
  | [] => .error .unsupported
  | a :: r => r.foldlM f a

def foldrM1 (f : Expr → Expr → R Expr) : List Expr → R Expr
  | [] => .error .unsupported
  | [a] => .ok a
  | a :: r => do
    let t ← foldrM1 f r
    f a t

end AC
end SymVerif
