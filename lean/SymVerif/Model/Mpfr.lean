/-
M-Eval for the arbitrary-precision evaluators (C45).

`eval_mpfr.cpp` / `eval_mpc.cpp` compute in place: every `bvisit` is a short sequence of
`apply(dst, operand)` and `mpfr_f(dst, src…, rnd_)` / `mpc_f(…)` calls on the result register and
at most one temporary.  The translator tools/extract/c45_mpfr.py turns each body into an `MDef`
(Gen/MpfrFormulas.lean); this file gives those call sequences a meaning:

  * `exec`      symbolic execution of a call sequence into a `Formula` of M-Eval (Model/EvalG.lean),
                using `callSem`, the *documented* meaning of each MPFR/MPC entry point
                (mpfr_cot = 1/tan, mpfr_ui_div(n, x) = n/x, mpfr_atan2(y, x), mpfr_pow(b, e) …; the
                translator strips the `mpfr_` / `mpc_` prefix after checking it);
  * `toNodeDef` the `NodeDef` an `MDef` denotes, so that `evalG` can run the translated table
                (the driver does so at `Float` and compares with the 53-bit rounding of the real result);
  * `ArithEntry`/`arithPrec`/`arithFormula`  the RealMPFR arithmetic dispatch of real_mpfr.cpp:
                result precision, operand order, number of rounding steps, complex-branch guard.

Rounding itself (MPFR's correct rounding, the Ziv loops) is outside the model.
Core Lean only.
-/
import SymVerif.Model.EvalG

namespace SymVerif.Mpfr
open SymVerif.EvalG

inductive Reg where
  | res | tmp
  deriving DecidableEq, Repr, Inhabited

/-- argument of an MPFR/MPC call -/
inductive Arg where
  | reg (r : Reg)
  | ui (n : Nat)
  | si (n : Int)
  | this        -- `i` of the RealMPFR receiver (arithmetic dispatch only)
  | other       -- the other operand (arithmetic dispatch only)
  deriving DecidableEq, Repr, Inhabited

inductive Stmt where
  /-- `apply(dst, *operand_k)` -/
  | load (dst : Reg) (operand : Nat)
  /-- `fn(dst, args…, rnd)` -/
  | call (fn : String) (dst : Reg) (args : List Arg)
  deriving DecidableEq, Repr, Inhabited

/-- shape of one `bvisit` body of EvalMPFRVisitor / EvalMPCVisitor -/
inductive MDef where
  /-- straight-line body; the value is what `res` holds at the end -/
  | seq (body : List Stmt)
  /-- `apply(res, a₀); for a in rest: apply(tmp, a); fn(res, res, tmp)` over `get_args()` -/
  | fold (fn : String)
  /-- Pow: base E → `eBody` (operand 0 = exponent); otherwise `body` (operand 0 = base, 1 = exponent) -/
  | powE (eBody body : List Stmt)
  /-- relational: `tmp := a₀; res := a₁; res := pred(tmp, res) ? 1 : 0` -/
  | cmp (pred : String)
  /-- Constant: chain of name tests -/
  | const (tbl : List (String × List Stmt))
  /-- number leaf: `setter(res, value, rnd)` -/
  | leaf (setter : String)
  /-- evaluates another object (`x.eval(prec)`, `rewrite_as_gamma()`): not modelled -/
  | delegate
  /-- `throw NotImplementedError` -/
  | notImpl
  deriving DecidableEq, Repr, Inhabited

abbrev MDefs := List (String × MDef)

def MDefs.find (d : MDefs) (k : String) : Option MDef :=
  match d with
  | [] => none
  | (k', v) :: t => if k' = k then some v else MDefs.find t k

/-! ### documented meaning of the library entry points -/

def one : Formula := .lit 1 1

/-- unary real functions: `f(dst, src, rnd)` -/
def unarySem : String → Option (Formula → Formula)
  | "sin" => some (.call1 .sin) | "cos" => some (.call1 .cos) | "tan" => some (.call1 .tan)
  | "asin" => some (.call1 .asin) | "acos" => some (.call1 .acos) | "atan" => some (.call1 .atan)
  | "sinh" => some (.call1 .sinh) | "cosh" => some (.call1 .cosh) | "tanh" => some (.call1 .tanh)
  | "asinh" => some (.call1 .asinh) | "acosh" => some (.call1 .acosh) | "atanh" => some (.call1 .atanh)
  | "exp" => some (.call1 .exp) | "log" => some (.call1 .log) | "abs" => some (.call1 .abs)
  | "sqrt" => some (.call1 .sqrt)
  | "cot" => some (fun a => .div one (.call1 .tan a))
  | "sec" => some (fun a => .div one (.call1 .cos a))
  | "csc" => some (fun a => .div one (.call1 .sin a))
  | "coth" => some (fun a => .div one (.call1 .tanh a))
  | "sech" => some (fun a => .div one (.call1 .cosh a))
  | "csch" => some (fun a => .div one (.call1 .sinh a))
  | "gamma" => some (.call1 .tgamma) | "lngamma" => some (.call1 .lgamma)
  | "erf" => some (.call1 .erf) | "erfc" => some (.call1 .erfc)
  | "neg" => some .neg
  | "set" | "set_z" | "set_q" | "set_d" | "set_fr" | "set_q_q" | "set_d_d" => some id
  | _ => none

/-- binary functions `f(dst, a, b, rnd)` = `a ∘ b` (the operand order of the C prototype) -/
def binarySem : String → Option (Formula → Formula → Formula)
  | "add" | "add_z" | "add_q" | "add_d" | "add_ui" | "add_fr" => some .add
  | "sub" | "sub_z" | "sub_q" | "sub_d" | "z_sub" | "d_sub" | "sub_fr" | "fr_sub" => some .sub
  | "mul" | "mul_z" | "mul_q" | "mul_d" | "mul_fr" => some .mul
  | "div" | "div_z" | "div_q" | "div_d" | "d_div" | "ui_div" | "div_ui" | "div_fr" | "fr_div" => some .div
  | "pow" | "pow_z" | "pow_d" | "pow_fr" => some (.call2 .pow)
  | "atan2" => some (.call2 .atan2)
  | "max" => some (.call2 .max)
  | "min" => some (.call2 .min)
  | _ => none

structure RegFile where
  res : Option Formula := none
  tmp : Option Formula := none
  deriving Repr, Inhabited

def RegFile.get (R : RegFile) : Reg → Option Formula
  | .res => R.res
  | .tmp => R.tmp

def RegFile.set (R : RegFile) (r : Reg) (f : Formula) : RegFile :=
  match r with
  | .res => { R with res := some f }
  | .tmp => { R with tmp := some f }

/-- value of a call argument; reading a register that was never written is an error (`none`) -/
def argVal (R : RegFile) : Arg → Option Formula
  | .reg r => R.get r
  | .ui n => some (.lit n 1)
  | .si n => some (.lit n 1)
  | .this => some (.arg 0)
  | .other => some (.arg 1)

/-- meaning of one call on argument formulas -/
def callSem (b : String) (args : List Formula) : Option Formula :=
  match args with
  | [] =>
    -- π is written the way eval_double writes it, so that the tables can be compared literally
    if b == "const_pi" then some (.call2 .atan2 (.lit 0 1) (.lit (-1) 1)) else none
  | [a] =>
    if b == "set_ui" || b == "set_si" then some a
    else if b == "sqrt_ui" then some (.call1 .sqrt a)
    else (unarySem b).map (· a)
  | [a, c] =>
    if b == "pow_si" && c == .lit (-1) 1 then some (.div one a)
    else (binarySem b).map (fun f => f a c)
  | _ => none

def argVals (R : RegFile) : List Arg → Option (List Formula)
  | [] => some []
  | a :: t =>
    match argVal R a, argVals R t with
    | some v, some vs => some (v :: vs)
    | _, _ => none

def execStmt (R : RegFile) : Stmt → Option RegFile
  | .load dst k => some (R.set dst (.arg k))
  | .call fn dst args =>
    match argVals R args with
    | some vs =>
      match callSem fn vs with
      | some v => some (R.set dst v)
      | none => none
    | none => none

def exec : RegFile → List Stmt → Option RegFile
  | R, [] => some R
  | R, s :: rest =>
    match execStmt R s with
    | some R' => exec R' rest
    | none => none

/-- the formula a straight-line body leaves in `res` -/
def bodyFormula (body : List Stmt) : Option Formula :=
  match exec {} body with
  | some R => R.res
  | none => none

def predCmp : String → Option Cmp
  | "equal_p" => some .eq
  | "lessgreater_p" => some .ne
  | "lessequal_p" => some .le
  | "less_p" => some .lt
  | _ => none

def foldStep (fn : String) : Option Formula :=
  callSem fn [.arg 0, .arg 1]

/-- the start value that makes a `foldArgs` loop over all operands equal to the in-place fold that
starts from the first operand (`0 + a = a`, `1 * a = a`) -/
def foldUnit (fn : String) : Option Formula :=
  match fn with
  | "add" => some (.lit 0 1)
  | "mul" => some (.lit 1 1)
  | _ => none

def constEntries : List (String × List Stmt) → List (String × Formula)
  | [] => []
  | (n, body) :: t =>
    match bodyFormula body with
    | some f => (n, f) :: constEntries t
    | none => constEntries t

/-- the `NodeDef` of M-Eval an `MDef` denotes for node kind `k`; `none` = not expressible / not modelled -/
def toNodeDef (k : String) : MDef → Option NodeDef
  | .seq body => (bodyFormula body).map .fn
  | .fold fn =>
    match foldStep fn, foldUnit fn with
    | some step, some u => if k == "Add" || k == "Mul" then some (.foldArgs u step) else none
    | some step, none => some (.foldFirst 1 step)
    | _, _ => none
  | .powE eBody body =>
    match bodyFormula eBody, bodyFormula body with
    | some e, some b => some (.powE e b)
    | _, _ => none
  | .cmp pred => (predCmp pred).map (fun c => .fn (.cmp c (.arg 0) (.arg 1)))
  | .const tbl => some (.const (constEntries tbl))
  | .leaf s =>
    match s with
    | "set_z" => some .leafInt
    | "set_q" => some .leafRat
    | "set_d" => some .leafDouble
    | _ => none
  | .delegate => none
  | .notImpl => none

/-- the definition table `evalG` runs for a translated evaluator; constants without a closed form in
the formula language (EulerGamma, Catalan: `mpfr_const_euler`, `mpfr_const_catalan`) take the
entries of `fallback` (the eval_double literals) -/
def toDefs (fallback : Defs) : MDefs → Defs
  | [] => []
  | (k, d) :: t =>
    match toNodeDef k d with
    | some (.const tbl) =>
      let extra := match fallback.find "Constant" with
        | some (.const ftbl) => ftbl.filter (fun p => (tbl.lookup p.1).isNone)
        | _ => []
      (k, .const (tbl ++ extra)) :: toDefs fallback t
    | some nd => (k, nd) :: toDefs fallback t
    | none => toDefs fallback t

/-! ### RealMPFR arithmetic dispatch (real_mpfr.cpp) -/

/-- one `RealMPFR::<op>real(const <Kind> &other)` method -/
structure ArithEntry where
  /-- add sub rsub mul div rdiv pow rpow -/
  op : String
  /-- Integer Rational Complex RealDouble ComplexDouble RealMPFR -/
  other : String
  /-- `mulreal(Integer)`: `if (other.is_zero()) return zero;` -/
  zeroShortcut : Bool
  /-- which operand's sign sends the method into the complex (MPC) branch: "this" / "other" / "" -/
  guard : String
  /-- precision of the real result: "this" = get_prec(), "max" = max(get_prec(), other.get_prec()), "" = no real branch -/
  prec : String
  /-- real branch -/
  body : List Stmt
  /-- complex branch (inside `#ifdef HAVE_SYMENGINE_MPC`); without MPC the method throws there -/
  mpcBody : List Stmt
  deriving DecidableEq, Repr, Inhabited

/-- precision of the RealMPFR a real-branch result is created with -/
def arithPrec (e : ArithEntry) (pThis pOther : Nat) : Option Nat :=
  if e.prec == "this" then some pThis
  else if e.prec == "max" then some (max pThis pOther)
  else none

/-- the operation a method must compute on (arg 0 = this, arg 1 = other), and the algebraically equal
forms that are accepted -/
def expected (op : String) : List Formula :=
  let a : Formula := .arg 0
  let b : Formula := .arg 1
  match op with
  | "add" => [.add a b, .add b a]
  | "sub" => [.sub a b]
  | "rsub" => [.sub b a, .neg (.sub a b)]
  | "mul" => [.mul a b, .mul b a]
  | "div" => [.div a b]
  | "rdiv" => [.div b a, .div one (.div a b)]
  | "pow" => [.call2 .pow a b]
  | "rpow" => [.call2 .pow b a]
  | _ => []

/-- the base of the power a pow-method computes: its sign decides real vs complex -/
def expectedGuard (op : String) : String :=
  match op with
  | "pow" => "this"
  | "rpow" => "other"
  | _ => ""

def isComplexKind (k : String) : Bool := k == "Complex" || k == "ComplexDouble"

/-- calls that round (conversions `set_*` of an exact operand are counted too: they round when the
operand does not fit the precision) -/
def roundingCalls (body : List Stmt) : Nat :=
  (body.filter fun s => match s with
    | .call fn _ _ => fn != "neg"
    | _ => false).length

/-- outcome class of `this op other` in a build without MPC, by the sign of the guarding operand -/
inductive Outcome where
  | real (prec : Nat)
  | zeroInt            -- exact Integer 0 (`mulreal(Integer 0)`)
  | needsMpc           -- E:Runtime "Result is complex. Recompile with MPC support."
  deriving DecidableEq, Repr

def outcomeTok : Outcome → String
  | .real p => s!"R{p}"
  | .zeroInt => "Z"
  | .needsMpc => "E:Runtime"

/-- model of the dispatch: which kind of result a method produces (no MPC).  `otherZero`: the other
operand is the Integer 0; `thisNeg` / `otherNeg`: sign of the operands. -/
def outcome (e : ArithEntry) (pThis pOther : Nat) (otherZero thisNeg otherNeg : Bool) : Outcome :=
  if e.zeroShortcut && otherZero then .zeroInt
  else if (e.guard == "this" && thisNeg) || (e.guard == "other" && otherNeg) then .needsMpc
  else match arithPrec e pThis pOther with
    | some p => .real p
    | none => .needsMpc

def findArith (tbl : List ArithEntry) (op other : String) : Option ArithEntry :=
  tbl.find? (fun e => e.op == op && e.other == other)

end SymVerif.Mpfr
