/-
Model of the hand-written Boost.Multiprecision implementations of symengine's
big-integer interface: symengine/mp_boost.cpp and the BOOSTMP section of
symengine/mp_class.h, mirrored function by function and loop by loop.

Trusted primitives (Boost library code, not symengine code), modelled by their
documented meaning:
* `boost::multiprecision::divide_qr`, `operator/`, `operator%`  — truncated division (`Int.tdiv/tmod`);
* `boost::multiprecision::pow`, `gcd`, `lcm`, `abs`, `operator&`, `find_lsb`;
* `boost::multiprecision::powm`  — mirrored from `eval_powm` (square and multiply with `%`);
* `miller_rabin_test(n, 25)`  — assumed to answer primality correctly (error probability < 4^-25).

Where the C++ throws, the model returns `none`.

The model is the code **with the repairs proposed in docs/C43.md applied** (each is a one- or two-line
change; the places are marked `REPAIR Dn`).  The functions as they are in the unrepaired source are kept
in the namespace `MpBoost.Orig`; Props/C43.lean proves on concrete witnesses that those differ from the
specification, and that the repaired Newton iteration returns the same root as the original one.

Core Lean only: this file is linked into the native driver.
-/
import SymVerif.Model.MpSpec
namespace SymVerif.MpBoost

/-- `boost::multiprecision::divide_qr(a, b, q, r)` -/
def divideQr (a b : Int) : Int × Int := (Int.tdiv a b, Int.tmod a b)

/-- `mp_fdiv_qr` (mp_boost.cpp) -/
def fdivQr (a b : Int) : Int × Int :=
  let negQuotient : Bool := (a < 0 && b > 0) || (a > 0 && b < 0)
  let qr := divideQr a b
  let q := if negQuotient && qr.2 != 0 then qr.1 - 1 else qr.1
  if (b > 0 && qr.2 < 0) || (b < 0 && qr.2 > 0) then (q, qr.2 + b) else (q, qr.2)

/-- `mp_cdiv_qr` (mp_boost.cpp) -/
def cdivQr (a b : Int) : Int × Int :=
  let posQuotient : Bool := (a < 0 && b < 0) || (a > 0 && b > 0)
  let qr := divideQr a b
  let q := if posQuotient && qr.2 != 0 then qr.1 + 1 else qr.1
  if (b > 0 && qr.2 > 0) || (b < 0 && qr.2 < 0) then (q, qr.2 - b) else (q, qr.2)

def fdivR (a b : Int) : Int := (fdivQr a b).2
def fdivQ (a b : Int) : Int := (fdivQr a b).1
def cdivQ (a b : Int) : Int := (cdivQr a b).1
def tdivQr (a b : Int) : Int × Int := divideQr a b
def tdivQ (a b : Int) : Int := (divideQr a b).1

/-- the `while (next_r != 0)` loop of `mp_gcdext` -/
def gcdextLoop (thisS thisT nextS nextT thisR nextR : Int) : Int × Int × Int :=
  if _h : nextR = 0 then (thisR, thisS, thisT)
  else
    let qr := divideQr thisR nextR
    -- this_s -= q*next_s; this_t -= q*next_t; then the three swaps
    gcdextLoop nextS nextT (thisS - qr.1 * nextS) (thisT - qr.1 * nextT) nextR qr.2
termination_by nextR.natAbs
decreasing_by
  simp only [divideQr, Int.natAbs_tmod]
  exact Nat.mod_lt _ (Int.natAbs_pos.mpr _h)

/-- `mp_gcdext` (mp_boost.cpp): returns `(gcd, s, t)` -/
def gcdext (a b : Int) : Int × Int × Int :=
  let r := gcdextLoop 1 0 0 1 a b
  let r := if r.1 < 0 then (r.1 * -1, r.2.1 * -1, r.2.2 * -1) else r
  if r.1 = 0 then (r.1, 0, r.2.2) else r      -- REPAIR D5: gcdext(0,0) has s = 0

/-- `mp_invert` (mp_boost.cpp): `none` = returns false -/
def invert (a m : Int) : Option Int :=
  let g := gcdext a m
  if g.1 != 1 then none
  else
    let s := fdivR g.2.1 m
    some (if s < 0 then s + m.natAbs else s)

/-- `fmod` (mp_boost.cpp): "floored modulus" -/
def fmod (a m : Int) : Int :=
  let res := Int.tmod a m
  if res < 0 then res + m else res

/-- `boost::multiprecision::powm` for a non-negative exponent (`eval_powm`): truncated `%` throughout -/
def bpowm (a : Int) (p : Nat) (c : Int) : Int :=
  let rec go (fuel : Nat) (x y : Int) (b : Nat) : Int :=
    match fuel with
    | 0 => x
    | fuel + 1 =>
      if b = 0 then x
      else go fuel (if b % 2 = 1 then Int.tmod (x * y) c else x) (Int.tmod (y * y) c) (b / 2)
  Int.tmod (go (p.log2 + 1) 1 a p) c

/-- `mp_powm` (mp_boost.cpp); `none` = throws -/
def powm (base exp m : Int) : Option Int :=
  if exp < 0 then
    match invert base m with
    | none => none
    | some bi => some (bpowm bi exp.natAbs m)
  else
    let res := bpowm base exp.toNat m
    some (if res < 0 then res + m.natAbs else res)     -- REPAIR D6: `res += mp_abs(m)`

/-- `step(n, i, x)`: one Newton step for the `n`-th root (all values positive) -/
def step (n i x : Nat) : Nat := ((n - 1) * x + i / x ^ (n - 1)) / n

/-- `do { x = y; y = step(n,i,x); } while (y < x);` entered with the value `y` -/
def newtonLoop (n i x : Nat) : Nat :=
  if step n i x < x then newtonLoop n i (step n i x) else x
termination_by x

/-- `positive_root` started from the guess `x0` -/
def positiveRootFrom (x0 i n : Nat) : Nat × Bool :=
  let x := newtonLoop n i (step n i x0)
  (x, x ^ n == i)

/-- `positive_root(res, i, n)` for `i > 0`, `n > 1`: `(res, exact)`.
REPAIR D8: the starting guess is `1 << (msb(i)/n + 1)` instead of `1`. -/
def positiveRoot (i n : Nat) : Nat × Bool := positiveRootFrom (2 ^ (i.log2 / n + 1)) i n

/-- `mp_root`; `none` = throws -/
def root (i : Int) (n : Nat) : Option (Int × Bool) :=
  if n = 0 then none
  else if n = 1 then some (i, true)
  else if i = 0 then some (0, true)
  else if i > 0 then
    let r := positiveRoot i.toNat n
    some ((r.1 : Int), r.2)
  else if n % 2 = 0 then none
  else
    let r := positiveRoot (-i).toNat n
    some ((r.1 : Int) * -1, r.2)

def sqrt (i : Int) : Option Int := (root i 2).map (·.1)
def rootrem (i : Int) (n : Nat) : Option (Int × Int) := (root i n).map fun r => (r.1, i - r.1 ^ n)
def sqrtrem (i : Int) : Option (Int × Int) := (sqrt i).map fun a => (a, i - a ^ 2)

/-- `mp_perfect_square_p` -/
def perfectSquare (i : Int) : Bool :=
  if i < 0 then false else ((root i 2).map (·.2)).getD false

/-- `miller_rabin_test(i, 25)` for odd `i` (trusted to be exact); Boost answers `false` for `i ≤ 1` -/
def millerRabin (i : Int) : Bool := if i < 2 then false else MpSpec.isPrime i.toNat

/-- `mp_probab_prime_p` -/
def probabPrime (i : Int) : Bool :=
  let n : Int := (i.natAbs : Int)                       -- REPAIR D3: the sign is ignored
  if Int.tmod n 2 = 0 then n == 2 else millerRabin n

def nextPrimeLoop : Nat → Int → Int
  | 0, c => c
  | fuel + 1, c => if probabPrime c then c else nextPrimeLoop fuel (c + 2)

/-- `mp_nextprime` -/
def nextPrime (i : Int) : Int :=
  if i < 2 then 2
  else nextPrimeLoop (i.toNat + 2) (if Int.tmod i 2 = 0 then i + 1 else i + 2)

def perfectPowerLoop (i : Int) (max : Nat) : Nat → Int → Option Bool
  | 0, _ => none
  | fuel + 1, p =>
    let p' := nextPrime p
    if p' > max then some false
    else match root i p'.toNat with
      | none => none
      | some r => if r.2 then some true else perfectPowerLoop i max fuel p'

/-- `mp_perfect_power_p` (`none` = an exception escapes; does not happen).
REPAIR D8: the bound for the prime exponents is `msb(|i|)` instead of `ilogb((double) i)`. -/
def perfectPower (i : Int) : Option Bool :=
  if i = 0 ∨ i = 1 ∨ i = -1 then some true
  else
    let max := i.natAbs.log2
    if perfectSquare i then some true
    else perfectPowerLoop i max (max + 2) 2

/-- `mp_scan1` : `find_lsb` of the magnitude -/
def scan1 (i : Int) : Option Nat := if i = 0 then none else some (MpSpec.scan1Loop i.natAbs i.natAbs 0)

/-! ### Fibonacci / Lucas by 2×2 matrix powers -/

structure M22 where
  a : Int
  b : Int
  c : Int
  d : Int
  deriving Repr, DecidableEq

def M22.mul (x y : M22) : M22 :=
  ⟨x.a * y.a + x.b * y.c, x.a * y.b + x.b * y.d, x.c * y.a + x.d * y.c, x.c * y.b + x.d * y.d⟩

def M22.identity : M22 := ⟨1, 0, 0, 1⟩

/-- `two_by_two_matrix::pow` (recursive repeated squaring, the same case split) -/
def M22.pow (x : M22) (n : Nat) : M22 :=
  if n = 0 then M22.identity
  else if n = 1 then x
  else if n = 2 then x.mul x
  else if n % 2 = 0 then
    let h := x.pow (n / 2)
    h.mul h                       -- `.pow(2)`
  else
    let h := x.pow ((n - 1) / 2)
    (h.mul h).mul x
termination_by n
decreasing_by all_goals omega

def fibMatrix (n : Nat) : M22 := (M22.mk 1 1 1 0).pow n
def fib (n : Nat) : Int := (fibMatrix n).b
def fib2 (n : Nat) : Int × Int := let m := fibMatrix n; (m.b, m.d)
def lucMatrix (n : Nat) : M22 := ((M22.mk 1 1 1 0).pow n).mul ⟨1, 0, 2, 0⟩
def lucnum (n : Nat) : Int := (lucMatrix n).c
/-- `mp_lucnum2_ui`; `none` = throws for `n = 0` -/
def lucnum2 (n : Nat) : Option (Int × Int) :=
  if n = 0 then some (2, -1)                            -- REPAIR D7: `L(0), L(-1)` instead of a throw
  else let m := lucMatrix (n - 1); some (m.a, m.c)

/-- `mp_fac_ui`: `for (i = 2; i <= n; ++i) res *= i` -/
def facLoop (n : Nat) : Nat → Nat → Int → Int
  | 0, _, res => res
  | fuel + 1, i, res => if i ≤ n then facLoop n fuel (i + 1) (res * i) else res
def fac (n : Nat) : Int := facLoop n n 2 1

/-- `mp_bin_ui`: `for (i = 1; i <= r; ++i) { res *= x + i; res /= i; }` with `x = n - r` -/
def binLoop (x : Int) (r : Nat) : Nat → Nat → Int → Int
  | 0, _, res => res
  | fuel + 1, i, res => if i ≤ r then binLoop x r fuel (i + 1) (Int.tdiv (res * (x + i)) i) else res
def bin (n : Int) (r : Nat) : Int := binLoop (n - r) r r 1 1

/-! ### symbols -/

/-- `mp_legendre` -/
def legendre (a n : Int) : Option Int :=
  match powm a (Int.tdiv (n - 1) 2) n with
  | none => none
  | some res => some (if res ≤ 1 then res else -1)

def stripTwos : Nat → Int → Nat → Int × Nat
  | 0, num, k => (num, k)
  | fuel + 1, num, k =>
    if Int.tmod num 2 = 0 ∧ num ≠ 0 then stripTwos fuel (Int.tdiv num 2) (k + 1) else (num, k)

/-- steps (1)–(2) of `unchecked_jacobi`: the reduced odd "numerator" and `(2|den)^factors_of_two` -/
def jacobiPrep (a n : Int) : Int × Int :=
  let num0 := fmod a n
  let st := stripTwos num0.natAbs num0 0
  let denMod8 := fmod n 8
  (st.1, if st.2 % 2 = 1 ∧ (denMod8 = 3 ∨ denMod8 = 5) then -1 else 1)

/-- `unchecked_jacobi(a, n)`; `none`: called with `n ≤ 0` and `a ≠ 1` (never happens through the public
entry points, the C++ would divide by zero or compute garbage). -/
def uncheckedJacobi (a n : Int) : Option Int :=
  if a = 1 then some 1
  else if n ≤ 0 then none
  else if (jacobiPrep a n).1 = 1 then some (jacobiPrep a n).2
  else if (Int.gcd (jacobiPrep a n).1 n : Int) ≠ 1 then some 0
  else if h : 0 ≤ (jacobiPrep a n).1 ∧ (jacobiPrep a n).1 < n then
    match uncheckedJacobi n (jacobiPrep a n).1 with
    | none => none
    | some r =>
      -- quadratic reciprocity factor
      some ((jacobiPrep a n).2 * (if fmod (jacobiPrep a n).1 4 = 3 ∧ fmod n 4 = 3 then -1 else 1) * r)
  else none
termination_by n.toNat
decreasing_by omega

/-- `mp_jacobi`; `none` = throws -/
def jacobi (a n : Int) : Option Int :=
  if Int.tmod n 2 = 0 then none
  else if n < 0 then                                    -- REPAIR D2: Kronecker extension as `mpz_jacobi`
    (uncheckedJacobi a (n.natAbs : Int)).map fun r => (if a < 0 then -1 else 1) * r
  else uncheckedJacobi a n

/-- `mp_kronecker`; `none` = throws (`n = 0`) -/
def kronecker (a n : Int) : Option Int :=
  if n = 0 then some (if a = 1 ∨ a = -1 then 1 else 0)  -- REPAIR D1: `(a|0)` instead of a throw
  else
    let krAU : Int := if n < 0 ∧ a < 0 then -1 else 1
    let st := stripTwos n.natAbs (n.natAbs : Int) 0
    let m := st.1
    let j := st.2
    let aMod8 := fmod a 8
    let krA2 : Int := if Int.tmod a 2 ≠ 0 then (if aMod8 = 1 ∨ aMod8 = 7 then 1 else -1) else 0
    let krA2toJ : Int := if Int.tmod a 2 ≠ 0 then (if krA2 = -1 ∧ j % 2 ≠ 0 then -1 else 1) else 0
    match uncheckedJacobi a m with
    | none => none
    | some r => some (if Int.tmod n 2 = 0 then krAU * krA2toJ * r else krAU * r)

/-! ### the unrepaired source (`mp_boost.cpp` as it is) where it differs from the above -/
namespace Orig

/-- `mp_gcdext` without the `this_r == 0` fix-up -/
def gcdext (a b : Int) : Int × Int × Int :=
  let r := gcdextLoop 1 0 0 1 a b
  if r.1 < 0 then (r.1 * -1, r.2.1 * -1, r.2.2 * -1) else r

/-- `mp_powm`: `res += m` (wrong for `m < 0`) -/
def powm (base exp m : Int) : Option Int :=
  if exp < 0 then
    match invert base m with
    | none => none
    | some bi => some (bpowm bi exp.natAbs m)
  else
    let res := bpowm base exp.toNat m
    some (if res < 0 then res + m else res)

/-- `positive_root` with the starting guess `x = 1` -/
def positiveRoot (i n : Nat) : Nat × Bool := positiveRootFrom 1 i n

/-- `mp_probab_prime_p` on the signed value; `miller_rabin_test` of a negative number throws (`none`) -/
def probabPrime (i : Int) : Option Bool :=
  if Int.tmod i 2 = 0 then some (i == 2) else if i < 0 then none else some (millerRabin i)

/-- `std::ilogb(i.convert_to<double>())` for `0 < x < 2^1024` (round to nearest even); `none` when the
conversion overflows to infinity (then `ilogb` gives `INT_MAX`). -/
def ilogbDouble (x : Nat) : Option Nat :=
  let b := x.log2
  if b ≥ 1024 then none
  else if b ≥ 53 ∧ x + 2 ^ (b - 53) ≥ 2 ^ (b + 1) then (if b + 1 ≥ 1024 then none else some (b + 1))
  else some b


/-- `mp_perfect_power_p` with `max = ilogb((double) i)`; `none`: the bound is `INT_MAX` (|i| ≥ 2^1024) —
the C++ then tries every prime below 2^31, each with a Newton iteration started at 1, and gives no
answer in practical time for a non-perfect-power. -/
def perfectPower (i : Int) : Option Bool :=
  if i = 0 ∨ i = 1 ∨ i = -1 then some true
  else match ilogbDouble i.natAbs with
    | none => if perfectSquare i then some true else none
    | some max =>
      if perfectSquare i then some true
      else perfectPowerLoop i max (max + 2) 2

def lucnum2 (n : Nat) : Option (Int × Int) :=
  if n = 0 then none else let m := lucMatrix (n - 1); some (m.a, m.c)

def jacobi (a n : Int) : Option Int :=
  if n < 0 then none else if Int.tmod n 2 = 0 then none else uncheckedJacobi a n

def kronecker (a n : Int) : Option Int :=
  if n = 0 then none else MpBoost.kronecker a n

end Orig

end SymVerif.MpBoost
