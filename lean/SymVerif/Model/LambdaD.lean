/-
Model of `LambdaDoubleVisitor<double>` / `LambdaRealDoubleVisitor` (symengine/lambda_double.h):
`init` (plain and CSE path), `call`, the symbol lookup of `bvisit(const Symbol&)`, and the
per-node closures (these are the translated `lambdaReal` definitions interpreted by `evalG`).

A C++ closure `fn = std::function<double(const double*)>` is modelled as the expression it was
built from together with the *snapshot* of what symbols resolved to when it was built (the input
vector and the CSE map at that moment): `Closure`.  Running a closure = `evalG` with the
environment "input i ↦ xs[i], slot j ↦ buffer[j]".

The CSE result (replacement list, reduced expressions) is an *input* of the model: `cse()` itself
is the subject of C37.  Two source-dependent switches are translated from lambda_double.h:
  cseFirst   bvisit(Symbol) searches the replacement map before the inputs
  clearsMap  init() clears cse_intermediate_fns_map on entry
Core Lean only.
-/
import SymVerif.Model.EvalG

namespace SymVerif.LambdaD
open SymVerif.EvalG

inductive Ref where
  | input (i : Nat)
  | slot (j : Nat)
  deriving DecidableEq, Repr

structure Closure where
  expr : Expr
  inputs : List String
  slots : List (String × Nat)
  deriving Inhabited

structure Cfg (α : Type) where
  O : NumOps α
  defs : Defs
  cseFirst : Bool
  clearsMap : Bool

structure State (α : Type) where
  results : List Closure := []
  cseFns : List Closure := []
  cseResults : List α := []
  cseMap : List (String × Nat) := []
  symbols : List String := []

def State.fresh {α : Type} : State α := {}

def indexOf? (l : List String) (s : String) : Option Nat :=
  match l with
  | [] => none
  | a :: t => if a = s then some 0 else (indexOf? t s).map (· + 1)

/-- `bvisit(const Symbol&)` -/
def resolve (cseFirst : Bool) (inputs : List String) (slots : List (String × Nat)) (name : String) : Option Ref :=
  let s := (slots.lookup name).map Ref.slot
  let i := (indexOf? inputs name).map Ref.input
  if cseFirst then s <|> i else i <|> s

variable {α : Type}

def envOf (cseFirst : Bool) (c : Closure) (xs buf : List α) : String → Option α := fun name =>
  match resolve cseFirst c.inputs c.slots name with
  | some (.input i) => xs[i]?
  | some (.slot j) => buf[j]?
  | none => none

def run (cfg : Cfg α) (c : Closure) (xs buf : List α) : Except Err α :=
  evalG ⟨cfg.O, cfg.defs, envOf cfg.cseFirst c xs buf⟩ c.expr

/-! ### compile-time traversal: which exception `apply(b)` throws while the closures are built -/

mutual
  def walk (defs : Defs) (res : String → Option Ref) : Expr → Except Err Unit
    | .int _ => if (defs.find "Integer").isSome then .ok () else .error .notImpl
    | .rat _ _ => if (defs.find "Rational").isSome then .ok () else .error .notImpl
    | .dbl _ => if (defs.find "RealDouble").isSome then .ok () else .error .notImpl
    | .bool _ => if (defs.find "BooleanAtom").isSome then .ok () else .error .notImpl
    | .nan => if (defs.find "NaN").isSome then .ok () else .error .notImpl
    | .infty d =>
      if (defs.find "Infty").isSome then (if d == 0 then .error .runtime else .ok ()) else .error .notImpl
    | .sym n =>
      match defs.find "Symbol" with
      | some .symbolLookup => if (res n).isSome then .ok () else .error .runtime
      | some _ => .error .runtime
      | none => .error .notImpl
    | .const n =>
      match defs.find "Constant" with
      | some (.const tbl) => if (tbl.lookup n).isSome then .ok () else .error .notImpl
      | _ => .error .notImpl
    | .add c ts =>
      match defs.find "Add" with
      | some _ => do
        walk defs res c
        walkPairs defs res false ts
      | none => .error .notImpl
    | .mul c fs =>
      match defs.find "Mul" with
      | some (.foldDictE _ _) => do
        walk defs res c
        walkPairs defs res true fs
      | some _ => do
        walk defs res c
        walkPairs defs res false fs
      | none => .error .notImpl
    | .pow b e =>
      match defs.find "Pow" with
      | some (.powE _ _) => do
        walk defs res e
        if isE b then .ok () else walk defs res b
      | some _ => do
        walk defs res e
        walk defs res b
      | none => .error .notImpl
    | .app h args =>
      match defs.find h with
      | none => .error .notImpl
      | some .containsInterval =>
        match args with
        | [x, .app "Interval" [s, e, _, _]] => do
          walk defs res x
          walk defs res s
          walk defs res e
        | x :: _ => do
          walk defs res x
          .error .runtime
        | [] => .error .runtime
      | some _ => walkList defs res args
    | .cplx _ _ => .error .notImpl
    | .cdbl _ _ => .error .notImpl
    | .dummy _ _ => .error .notImpl
    | .fsym _ _ => .error .notImpl

  def walkList (defs : Defs) (res : String → Option Ref) : List Expr → Except Err Unit
    | [] => .ok ()
    | a :: t => do
      walk defs res a
      walkList defs res t

  /-- dictionary entries: key then value; with `eSpecial` an entry whose key is E only builds the value -/
  def walkPairs (defs : Defs) (res : String → Option Ref) (eSpecial : Bool) : List (Expr × Expr) → Except Err Unit
    | [] => .ok ()
    | (k, v) :: t => do
      if eSpecial && isE k then walk defs res v else do
        walk defs res k
        walk defs res v
      walkPairs defs res eSpecial t
end

/-- `apply(b)` during init: throws, or yields the closure with the current lookup snapshot -/
def compile (cfg : Cfg α) (S : State α) (e : Expr) : Except Err Closure := do
  walk cfg.defs (resolve cfg.cseFirst S.symbols S.cseMap) e
  pure ⟨e, S.symbols, S.cseMap⟩

/-- `std::vector<T>::resize(n)`: keep a prefix, value-initialise the rest -/
def resize (zero : α) (l : List α) (n : Nat) : List α :=
  l.take n ++ List.replicate (n - l.length) zero

/-- `std::map::operator[]` assignment -/
def mapSet (m : List (String × Nat)) (k : String) (v : Nat) : List (String × Nat) :=
  (k, v) :: m.filter (fun p => p.1 != k)

/-- non-CSE loop `for p in outputs: results.push_back(apply(*p))`; on an exception the state keeps
what was pushed so far -/
def pushResults (cfg : Cfg α) : State α → List Expr → State α × Option Err
  | S, [] => (S, none)
  | S, e :: rest =>
    match compile cfg S e with
    | .error err => (S, some err)
    | .ok c => pushResults cfg { S with results := S.results ++ [c] } rest

/-- CSE loop over the replacements -/
def pushRepl (cfg : Cfg α) : State α → List (String × Expr) → State α × Option Err
  | S, [] => (S, none)
  | S, (name, e) :: rest =>
    match compile cfg S e with
    | .error err => (S, some err)
    | .ok c =>
      pushRepl cfg { S with cseMap := mapSet S.cseMap name S.cseFns.length, cseFns := S.cseFns ++ [c] } rest

/-- `init(inputs, outputs, cse)`; `cse = some (replacements, reduced_exprs)` is the result of
`SymEngine::cse(outputs)`.  Returns the state left behind and the exception, if any. -/
def init (cfg : Cfg α) (S : State α) (ins : List String) (outs : List Expr)
    (cse : Option (List (String × Expr) × List Expr)) : State α × Option Err :=
  let S1 : State α := { S with results := [], cseFns := [],
                               cseMap := if cfg.clearsMap then [] else S.cseMap, symbols := ins }
  match cse with
  | none => pushResults cfg S1 outs
  | some (repl, reduced) =>
    let S2 := { S1 with cseResults := resize (cfg.O.ofQNear 0 1) S1.cseResults repl.length }
    match pushRepl cfg S2 repl with
    | (S3, some err) => (S3, some err)
    | (S3, none) =>
      match pushResults cfg S3 (reduced.take outs.length) with
      | (S4, some err) => (S4, some err)
      | (S4, none) => ({ S4 with cseMap := [], symbols := [] }, none)

/-- first loop of `call`: `cse_intermediate_results[i] = cse_intermediate_fns[i](inps)` -/
def fillSlots (cfg : Cfg α) (xs : List α) : Nat → List Closure → List α → Except Err (List α)
  | _, [], buf => .ok buf
  | j, f :: rest, buf => do
    let v ← run cfg f xs buf
    fillSlots cfg xs (j + 1) rest (buf.set j v)

def runAll (cfg : Cfg α) (xs buf : List α) : List Closure → Except Err (List α)
  | [] => .ok []
  | c :: rest => do
    let v ← run cfg c xs buf
    let vs ← runAll cfg xs buf rest
    pure (v :: vs)

/-- `call(outs, inps)` -/
def call (cfg : Cfg α) (S : State α) (xs : List α) : Except Err (State α × List α) := do
  let buf ← fillSlots cfg xs 0 S.cseFns S.cseResults
  let outs ← runAll cfg xs buf S.results
  pure ({ S with cseResults := buf }, outs)

end SymVerif.LambdaD
