/-
Executable model of symengine's arithmetic smart constructors on the exact
fragment (Integer, Rational, Complex, Symbol, Constant, Pow, Add, Mul, opaque
function applications).  Anchors, mirrored branch by branch:

  add.cpp   add, add(vec_basic), sub, Add::from_dict, Add::dict_add_term,
            Add::coef_dict_add_term, Add::as_coef_term, Add::is_canonical
  mul.cpp   mul, mul(vec_basic), div, neg, Mul::from_dict, Mul::dict_add_term_new,
            Mul::as_base_exp, Mul::power_num, Mul::is_canonical
  pow.cpp   pow, Pow::is_canonical;  pow.h sqrt, cbrt
  rational.cpp  Rational::powrat(Rational), Rational::rpowrat, Rational::is_canonical
  integer.cpp / integer.h   powint, pow_negint, i_nth_root        (ArithNum.lean)
  complex.cpp  Complex::powcomp, pow_number, Complex::is_canonical (ArithNum.lean)

Dictionaries.  C++: `umap_basic_num` (hash order) for Add, `std::map` under
`RCPBasicKeyLess` (hash, then cmp) for Mul.  Model: association lists kept
*strictly sorted* by `key` (an injective token encoding of the tree, compared
lexicographically) so that structurally equal objects are syntactically equal
and `find` is a comparison of keys.  Every modelled loop over a dictionary
  * add(Add,Add), coef_dict_add_term: each iteration touches only its own key —
    independent of the order;
  * mul(Mul,Mul), mul(vec), power_num, the re-insertion of an rpowrat result:
    an iteration may touch other keys (radicals re-enter through rpowrat,
    products through power_num) and multiplies the numeric coefficient; the
    coefficient product is commutative, the dictionary effect is a sum of
    exponents per key.  The model iterates in `key` order, the library in hash
    order; that the results agree is *assumed by the model and tested by the
    correspondence* (a difference would be an order-dependence, i.e. a C04
    defect, and shows up as a correspondence difference).
No modelled constructor breaks out of a dictionary loop early.
`Add::as_two_terms` / `Mul::as_two_terms` (which do depend on `begin()`) are not
called by any constructor and are not modelled.

Assertions.  The model follows the *release* semantics (`make_rcp` without the
`is_canonical` assertion); `Expr.canon` is the separate model of the assertion.
The driver prints `E:Assert` when the result is not canonical.

Inexact numbers never enter (checked by `Expr.exact` at the API boundary), so the
`is_exact()` branches of dict_add_term_new / pow are dead and omitted; each
omission is marked `-- inexact:`.

Core Lean only.
-/
import SymVerif.Model.ArithNum

namespace SymVerif
namespace Arith

/-! ### a total order on expressions -/

def encInt (n : Int) : Nat := if n ≥ 0 then 2 * n.toNat else 2 * n.natAbs - 1

def encStr (s : String) : List Nat := s.length :: s.toList.map Char.toNat

mutual
  /-- injective (prefix-free) token encoding of the tree -/
  def key : Expr → List Nat
    | .int n => [0, encInt n]
    | .rat n d => [1, encInt n, d]
    | .cplx re im => [2, encInt re.num, re.den, encInt im.num, im.den]
    | .dbl b => [3, b.toNat]
    | .cdbl r i => [4, r.toNat, i.toNat]
    | .infty d => [5, encInt d]
    | .nan => [6]
    | .sym n => 7 :: encStr n
    | .dummy n i => 8 :: i :: encStr n
    | .const n => 9 :: encStr n
    | .add c ts => 10 :: (key c ++ keyPairs ts)
    | .mul c fs => 11 :: (key c ++ keyPairs fs)
    | .pow b e => 12 :: (key b ++ key e)
    | .fsym n args => 13 :: (encStr n ++ keyList args)
    | .app h args => 14 :: (encStr h ++ keyList args)
    | .bool b => [15, if b then 1 else 0]
  def keyPairs : List (Expr × Expr) → List Nat
    | [] => [0]
    | (k, v) :: t => 1 :: (key k ++ (key v ++ keyPairs t))
  def keyList : List Expr → List Nat
    | [] => [0]
    | a :: t => 1 :: (key a ++ keyList t)
end

/-- strict lexicographic order on token lists -/
def lexLt : List Nat → List Nat → Bool
  | [], [] => false
  | [], _ :: _ => true
  | _ :: _, [] => false
  | a :: as, b :: bs => if a < b then true else if b < a then false else lexLt as bs

/-- `eq(*a, *b)` on model terms (dictionaries are kept in canonical order) -/
def eqE (a b : Expr) : Bool := key a == key b

abbrev Dict := List (Expr × Expr)

/-- `d.find(t)` -/
def dfind : Dict → Expr → Option Expr
  | [], _ => none
  | (k, v) :: r, t => if key k == key t then some v else dfind r t

/-- `insert(d, t, v)` = `d.insert({t, v})`: no overwrite if the key is present -/
def dinsert : Dict → Expr → Expr → Dict
  | [], t, v => [(t, v)]
  | (k, x) :: r, t, v =>
    if lexLt (key t) (key k) then (t, v) :: (k, x) :: r
    else if key k == key t then (k, x) :: r
    else (k, x) :: dinsert r t v

/-- `d.erase(it)` -/
def derase : Dict → Expr → Dict
  | [], _ => []
  | (k, x) :: r, t => if key k == key t then r else (k, x) :: derase r t

/-- `it->second = v` -/
def dset : Dict → Expr → Expr → Dict
  | [], _, _ => []
  | (k, x) :: r, t, v => if key k == key t then (k, v) :: r else (k, x) :: dset r t v

/-- strictly increasing keys -/
def keysSorted : Dict → Bool
  | [] => true
  | [_] => true
  | (k₁, _) :: (k₂, v₂) :: r => lexLt (key k₁) (key k₂) && keysSorted ((k₂, v₂) :: r)

/-- re-sort a dictionary read from the wire into `key` order -/
def sortDict (d : Dict) : Dict := d.foldl (fun acc p => dinsert acc p.1 p.2) []

mutual
  /-- bring every dictionary of a parsed term into `key` order (deep) -/
  def normOrder : Expr → Expr
    | .add c ts => .add (normOrder c) (sortDict (normOrderPairs ts))
    | .mul c fs => .mul (normOrder c) (sortDict (normOrderPairs fs))
    | .pow b e => .pow (normOrder b) (normOrder e)
    | .fsym n args => .fsym n (normOrderList args)
    | .app h args => .app h (normOrderList args)
    | e => e
  def normOrderList : List Expr → List Expr
    | [] => []
    | a :: t => normOrder a :: normOrderList t
  def normOrderPairs : List (Expr × Expr) → List (Expr × Expr)
    | [] => []
    | (k, v) :: t => (normOrder k, normOrder v) :: normOrderPairs t
end

/-! ### small recognisers -/

def isIntLit (e : Expr) (n : Int) : Bool := match e with | .int m => m == n | _ => false
def isInteger : Expr → Bool | .int _ => true | _ => false
def isRational : Expr → Bool | .rat _ _ => true | _ => false
def isComplex : Expr → Bool | .cplx _ _ => true | _ => false
def isMul : Expr → Bool | .mul _ _ => true | _ => false
def isPow : Expr → Bool | .pow _ _ => true | _ => false
def isAdd : Expr → Bool | .add _ _ => true | _ => false
def isConstE : Expr → Bool | .const n => n == "E" | _ => false
def one : Expr := .int 1
def zero : Expr := .int 0
def minusOne : Expr := .int (-1)
def half : Expr := .rat 1 2
/-- `I` -/
def imagUnit : Expr := .cplx ⟨0, 1⟩ ⟨1, 1⟩

/-! ### the fragment -/

mutual
  /-- the exact fragment: no floats, no Infty/NaN, no Dummy/Boolean; function applications opaque
  but with exact arguments -/
  def exact : Expr → Bool
    | .int _ | .rat _ _ | .cplx _ _ | .sym _ | .const _ => true
    | .add c ts => exact c && exactPairs ts
    | .mul c fs => exact c && exactPairs fs
    | .pow b e => exact b && exact e
    | .fsym _ args => exactList args
    | .app _ args => exactList args
    | _ => false
  def exactList : List Expr → Bool
    | [] => true
    | a :: t => exact a && exactList t
  def exactPairs : List (Expr × Expr) → Bool
    | [] => true
    | (k, v) :: t => exact k && exact v && exactPairs t
end

/-! ### canonical form (`is_canonical`) -/

/-- `Rational::is_canonical` (denominator positive, lowest terms, not an integer) -/
def ratCanon (n : Int) (d : Nat) : Bool := d != 0 && d != 1 && Nat.gcd n.natAbs d == 1

/-- `Complex::is_canonical` -/
def cplxCanon (re im : Q) : Bool := im.num != 0 && Q.canon re && Q.canon im

/-- per-entry clause of `Add::is_canonical` -/
def addEntryCanon (p : Expr × Expr) : Bool :=
  !p.1.isNum                                   -- e.g. 2*3  (also covers the `1*x` clause)
  && p.2.isNum                                 -- (static type of the dictionary)
  && !numIsZero p.2                            -- e.g. x*0
  && (match p.1 with                           -- e.g. {3x: 2}
      | .mul c _ => numIsOne c
      | _ => true)

/-- `Add::is_canonical(coef, dict)` -/
def addCanonTop (coef : Expr) (d : Dict) : Bool :=
  coef.isNum
  && d.length != 0
  && (d.length != 1 || !numIsZero coef)
  && d.all addEntryCanon

/-- per-entry clause of `Mul::is_canonical` (the inexact clause is vacuous on the fragment) -/
def mulEntryCanon (p : Expr × Expr) : Bool :=
  !((isInteger p.1 || isRational p.1) && isInteger p.2)     -- 2**3, (2/3)**4
  && !(isIntLit p.1 0 && p.2.isNum)                         -- 0**2 (0**x is a valid factor; patched N5)
  && !isIntLit p.1 1                                        -- 1**x
  && !(p.2.isNum && numIsZero p.2)                          -- x**0
  && (match p.1 with                                        -- (x*y)**2, (2*x)**(1/2)
      | .mul c _ => !isInteger p.2
          && !(p.2.isNum && !isIntLit c 1 && !isIntLit c (-1) && (numIsPositive c || numIsNegative c))
      | _ => true)
  && !(isPow p.1 && isInteger p.2)                          -- (x**y)**2

/-- `Mul::is_canonical(coef, dict)` -/
def mulCanonTop (coef : Expr) (d : Dict) : Bool :=
  coef.isNum
  && !numIsZero coef
  && d.length != 0
  && (d.length != 1 || !numIsOne coef)
  && d.all mulEntryCanon

/-- `Pow::is_canonical(base, exp)` (the inexact clause is vacuous on the fragment) -/
def powCanonTop (b e : Expr) : Bool :=
  if isIntLit b 0 then !e.isNum
  else
    !isIntLit b 1
    && !isNumZero e
    && !isIntLit e 1
    && !((isInteger b || isRational b) && isInteger e)
    && !(isMul b && isInteger e)
    && !(isPow b && isInteger e)
    && !((isRational b || isInteger b)
         && (match e with
             | .rat n d => n < 0 || n > (d : Int)           -- exponent outside (0, 1)
             | _ => false))
    && !((match b with | .cplx re _ => re.num == 0 | _ => false) && isInteger e)

/-- the class invariant of the top node only (children are not inspected beyond their class) -/
def canonTop : Expr → Bool
  | .rat n d => ratCanon n d
  | .cplx re im => cplxCanon re im
  | .add c ts => addCanonTop c ts
  | .mul c fs => mulCanonTop c fs
  | .pow b e => powCanonTop b e
  | .infty d => d == 1 || d == 0 || d == -1
  | _ => true

mutual
  /-- every node satisfies its class invariant and every dictionary is in `key` order
  (hence duplicate-free, as a C++ map is by construction) -/
  def canon : Expr → Bool
    | .add c ts => canon c && canonPairs ts && addCanonTop c ts && keysSorted ts
    | .mul c fs => canon c && canonPairs fs && mulCanonTop c fs && keysSorted fs
    | .pow b e => canon b && canon e && powCanonTop b e
    | .fsym _ args => canonList args
    | .app _ args => canonList args
    | e => canonTop e
  def canonList : List Expr → Bool
    | [] => true
    | a :: t => canon a && canonList t
  def canonPairs : List (Expr × Expr) → Bool
    | [] => true
    | (k, v) :: t => canon k && canon v && canonPairs t
end

/-! ### the inductive strengthening of `canon`

`Mul::is_canonical` / `Pow::is_canonical` are *not* inductive: `Mul(3, {2: 3/2})` passes
`Mul::is_canonical`, yet `mul(1/3, ·)` collapses it to `Pow(2, 3/2)`, which fails
`Pow::is_canonical`; `Pow(2*x, 1/2)` passes `Pow::is_canonical`, yet `mul(y, ·)` builds
`Mul(1, {2*x: 1/2, y: 1})`, which fails `Mul::is_canonical`.  Neither object is ever produced by the
constructors.  `strong` adds the clauses that the constructors do maintain: every factor
`base**exp` — the fields of a Pow and every entry of a Mul dictionary alike — satisfies `factorOK`,
the conjunction of the per-factor clauses of both `is_canonical` functions.  `inv = canon ∧ strong`
is what the theorems of Props/C03 take as hypothesis and re-establish; the driver checks it on every
operand and result that the real library produced (a failure would show as `NOT-INV`). -/

/-- a Rational exponent of a rational base lies strictly between 0 and 1 -/
def ratIn01 : Expr → Bool
  | .rat n d => 0 < n && n < (d : Int)
  | _ => true

/-- `b ** (n/d)` is a fixed point of `Rational::rpowrat`: `b` has no exact `d`-th root (as far as
`rpowrat` looks for one) and it is not the square root of a negative number -/
def radOK (b : Int) (d : Nat) : Bool :=
  b != 0 && !(b < 0 && d == 2)
  && (!(d < 2 ^ 64)
      || (if b < 0 then (b == -1 || (exactRoot b.natAbs d).isNone) else (exactRoot b.toNat d).isNone))

/-- the factor `k ** v` is in normal form -/
def factorOK (k v : Expr) : Bool :=
  !isNumZero v
  && (match k with
      | .int n =>
        n != 1
        && (if n == 0 then !v.isNum
            else (!isInteger v && ratIn01 v && (match v with | .rat _ d => radOK n d | _ => true)))
      | .rat _ _ => !isInteger v && !isRational v      -- powrat always splits numerator / denominator
      | .cplx _ _ => !isInteger v
      | .mul c _ =>
        isExactNum c                                         -- zoo / nan occur as top-level coefficients only
        && !isInteger v
        && !(v.isNum && !isIntLit c 1 && !isIntLit c (-1) && (numIsPositive c || numIsNegative c))
      | .pow _ _ => !isInteger v
      | .dbl _ | .cdbl _ _ | .infty _ | .nan => false    -- inexact / infinite bases are folded into coef
      | _ => true)

mutual
  def strong : Expr → Bool
    | .add c ts => strong c && strongPairs ts
    | .mul c fs => strong c && strongPairs fs && fs.all (fun p => factorOK p.1 p.2)
    | .pow b e => strong b && strong e && factorOK b e
    | .fsym _ args => strongList args
    | .app _ args => strongList args
    | _ => true
  def strongList : List Expr → Bool
    | [] => true
    | a :: t => strong a && strongList t
  def strongPairs : List (Expr × Expr) → Bool
    | [] => true
    | (k, v) :: t => strong k && strong v && strongPairs t
end

def inv (e : Expr) : Bool := canon e && strong e

/-! ### Add -/

/-- `Mul::from_dict` -/
def mulFromDict (coef : Expr) (d : Dict) : Expr :=
  if numIsZero coef then coef
  else match d with
    | [] => coef
    | [(b, e)] =>
      if numIsOne coef then (if isIntLit e 1 then b else .pow b e)
      else .mul coef d
    | _ => .mul coef d

/-- `Add::from_dict` -/
def addFromDict (coef : Expr) (d : Dict) : R Expr :=
  match d with
  | [] => .ok coef
  | [(k, v)] =>
    if numIsZero coef then
      if !v.isNum then .error .badCast          -- the mapped type is `RCP<const Number>`
      else if isIntLit v 0 then .ok v
      else if isIntLit v 1 then .ok k
      else match k with
        | .mul _ mfs => .ok (mulFromDict v mfs)
        | .pow b e => .ok (.mul v [(b, e)])
        | _ => .ok (.mul v [(k, one)])
    else .ok (.add coef d)
  | _ => .ok (.add coef d)

/-- `Add::dict_add_term(d, coef, t)` -/
def addDictAddTerm (d : Dict) (coef t : Expr) : R Dict :=
  match dfind d t with
  | none => .ok (if !numIsZero coef then dinsert d t coef else d)
  | some v => do
    let v' ← numAdd v coef
    pure (if numIsZero v' then derase d t else dset d t v')

/-- `Add::as_coef_term(self) = (coef, term)` -/
def asCoefTerm (self : Expr) : R (Expr × Expr) :=
  match self with
  | .mul c fs => if !isIntLit c 1 then .ok (c, mulFromDict one fs) else .ok (one, self)
  | .add _ _ => .error .assert
  | _ => if self.isNum then .ok (self, one) else .ok (one, self)

/-- `for (p : b.dict) Add::dict_add_term(d, p.second, p.first)` -/
def addMergeLoop (d : Dict) : Dict → R Dict
  | [] => .ok d
  | (k, v) :: r => do
    let d' ← addDictAddTerm d v k
    addMergeLoop d' r

/-- the `else` arm of `add(a, b)` where one side is an `Add` (coef, d) and the other is `b` -/
def addOntoAdd (coef : Expr) (d : Dict) (b : Expr) : R Expr :=
  if b.isNum then do
    let coef' ← if !numIsZero b then numAdd coef b else pure coef
    addFromDict coef' d
  else do
    let (c2, t) ← asCoefTerm b
    let d' ← addDictAddTerm d c2 t
    addFromDict coef d'

/-- `add(a, b)` without the fragment check -/
def addCore (a b : Expr) : R Expr :=
  match a, b with
  | .add ac ad, .add bc bd => do
    let d ← addMergeLoop ad bd
    let coef ← numAdd ac bc
    addFromDict coef d
  | .add ac ad, _ => addOntoAdd ac ad b
  | _, .add bc bd => addOntoAdd bc bd a
  | _, _ => do
    let (c1, t1) ← asCoefTerm a
    let d ← addDictAddTerm [] c1 t1
    let (c2, t2) ← asCoefTerm b
    let d ← addDictAddTerm d c2 t2
    match dfind d one with
    | none => addFromDict zero d
    | some v => addFromDict v (derase d one)

/-- `Add::coef_dict_add_term(coef, d, c, term)` -/
def coefDictAddTerm (coef : Expr) (d : Dict) (c term : Expr) : R (Expr × Dict) :=
  if term.isNum then do
    let m ← numMul c term
    let coef' ← numAdd coef m
    pure (coef', d)
  else match term with
    | .add tc td =>
      if numIsOne c then do
        let d' ← addMergeLoop d td
        let coef' ← numAdd coef tc
        pure (coef', d')
      else do
        let d' ← addDictAddTerm d c term
        pure (coef, d')
    | _ => do
      let (c2, t) ← asCoefTerm term
      let m ← numMul c c2
      let d' ← addDictAddTerm d m t
      pure (coef, d')

/-- the loop of `add(const vec_basic &)` -/
def addNLoop (coef : Expr) (d : Dict) : List Expr → R (Expr × Dict)
  | [] => .ok (coef, d)
  | a :: r => do
    let (coef', d') ← coefDictAddTerm coef d one a
    addNLoop coef' d' r

/-! ### Mul / Pow (mutually recursive through rpowrat / power_num; fuel-indexed) -/

/-- the order in which a loop walks a dictionary: ascending `key` order, or descending.
The library walks its `std::map` in hash order; where the two model orders disagree the input is
*order-dependent* (the result depends on the iteration order) and the driver says so. -/
def iterOrder (rv : Bool) (d : Dict) : Dict := if rv then d.reverse else d

/-- `Mul::as_base_exp(self) = (exp, base)` -/
def asBaseExp (self : Expr) : R (Expr × Expr) :=
  match self with
  | .rat n d =>
    if n.natAbs < d then do
      let inv ← numPowInt self (-1)            -- self_new->rdiv(*one)
      pure (minusOne, inv)
    else .ok (one, self)
  | .pow b e => .ok (e, b)
  | .mul _ _ => .error .assert
  | _ => .ok (one, self)

/-- floor division and remainder (`mp_fdiv_qr`), divisor positive -/
def fdivmod (n : Int) (d : Nat) : Int × Int := (n.fdiv d, n.fmod d)

mutual
  /-- `mul(a, b)` -/
  def mulF : Nat → Bool → Expr → Expr → R Expr
    | 0, _, _, _ => .error .fuel
    | fuel + 1, rv, a, b =>
      match a, b with
      | .mul ac ad, .mul bc bd => do
        let coef ← if !numIsOne ac || !numIsOne bc then numMul ac bc else pure one
        let (coef, d) ← datLoop fuel rv coef ad (iterOrder rv bd)
        pure (mulFromDict coef d)
      | .mul ac ad, _ => mulOnto fuel rv ac ad b
      | _, .mul bc bd => mulOnto fuel rv bc bd a
      | _, _ => do
        let (coef, d) ← mulStep fuel rv one [] a
        let (coef, d) ← mulStep fuel rv coef d b
        pure (mulFromDict coef d)

  /-- one arm of `mul`: multiply the Mul `(coef, d)` by `b` -/
  def mulOnto : Nat → Bool → Expr → Dict → Expr → R Expr
    | 0, _, _, _, _ => .error .fuel
    | fuel + 1, rv, coef, d, b => do
      let (coef, d) ← mulStep fuel rv coef d b
      pure (mulFromDict coef d)

  /-- `if (is_a_Number(b)) imulnum(coef, b); else { as_base_exp(b, exp, t); dict_add_term_new(coef, d, exp, t); }` -/
  def mulStep : Nat → Bool → Expr → Dict → Expr → R (Expr × Dict)
    | 0, _, _, _, _ => .error .fuel
    | fuel + 1, rv, coef, d, b =>
      if b.isNum then do
        let coef ← numMul coef b
        pure (coef, d)
      else do
        let (e, t) ← asBaseExp b
        datNew fuel rv coef d e t

  /-- `for (p : entries) Mul::dict_add_term_new(coef, d, p.second, p.first)` -/
  def datLoop : Nat → Bool → Expr → Dict → Dict → R (Expr × Dict)
    | 0, _, _, _, _ => .error .fuel
    | _ + 1, _, coef, d, [] => .ok (coef, d)
    | fuel + 1, rv, coef, d, (k, v) :: r => do
      let (coef, d) ← datNew fuel rv coef d v k
      datLoop fuel rv coef d r

  /-- merge a value `res` returned by `rpowrat`/`powrat`/`pow(coef_, exp)`:
  `some` when `res` is a Number or a Mul, `none` otherwise -/
  def absorb : Nat → Bool → Expr → Dict → Expr → R (Option (Expr × Dict))
    | 0, _, _, _, _ => .error .fuel
    | fuel + 1, rv, coef, d, res =>
      if res.isNum then do
        let coef ← numMul coef res
        pure (some (coef, d))
      else match res with
        | .mul mc mfs => do
          let coef ← numMul coef mc
          let r ← datLoop fuel rv coef d (iterOrder rv mfs)
          pure (some r)
        | _ => pure none

  /-- multiply `coef * d` by the already evaluated expression `r` (`mul_into_dict`, also the tail
  of `power_num`) -/
  def mulInto : Nat → Bool → Expr → Dict → Expr → R (Expr × Dict)
    | 0, _, _, _, _ => .error .fuel
    | fuel + 1, rv, coef, d, r => do
      match ← absorb fuel rv coef d r with
      | some x => pure x
      | none => do
        let (e, t) ← asBaseExp r
        datNew fuel rv coef d e t

  /-- `Mul::dict_add_term_new(coef, d, exp, t)` -/
  def datNew : Nat → Bool → Expr → Dict → Expr → Expr → R (Expr × Dict)
    | 0, _, _, _, _, _ => .error .fuel
    | fuel + 1, rv, coef, d, exp, t =>
      match dfind d t with
      | none =>
        if isInteger t || isRational t || isComplex t then
          if isInteger exp then do
            let p ← numPow t exp
            let coef ← numMul coef p
            pure (coef, d)
          else if isRational exp && !isComplex t then do
            let res ← powNumRat fuel rv t exp
            match ← absorb fuel rv coef d res with
            | some r => pure r
            | none =>
              match res with
              | .pow rb re =>
                -- e.g. (1/2)**(-1/2) = 2**(1/2), (-1)**(-8/5) = (-1)**(2/5): base or exponent
                -- have changed (patched N6)
                if !(eqE rb t && eqE re exp) then datNew fuel rv coef d re rb
                else pure (coef, dinsert d t exp)
              | _ => pure (coef, dinsert d t exp)
          else
            -- inexact: `exp` inexact Number → coef *= t.pow(exp)
            .ok (coef, dinsert d t exp)
        else if isPow t && isInteger exp then do
          -- (b**e)**n = b**(e*n) for an integer n; pow() does the folding (patched N4)
          let r ← powF fuel rv t exp
          mulInto fuel rv coef d r
        else
          -- inexact: Number ** Number with an inexact side
          .ok (coef, dinsert d t exp)
      | some old => do
        let v ← if exp.isNum && old.isNum then numAdd old exp else addCore old exp
        datFound fuel rv coef (dset d t v) t v

  /-- the found branch of `dict_add_term_new` after `it->second = v` (`d` already holds `(t, v)`) -/
  def datFound : Nat → Bool → Expr → Dict → Expr → Expr → R (Expr × Dict)
    | 0, _, _, _, _, _ => .error .fuel
    | fuel + 1, rv, coef, d, t, v => do
      -- Integer exponent
      let tIsNum3 := isInteger t || isRational t || isComplex t
      if isInteger v && tIsNum3 then do
        let coef ← if !numIsZero v then (do let p ← numPow t v; numMul coef p) else pure coef
        pure (coef, derase d t)
      else if isInteger v && numIsZero v then
        pure (coef, derase d t)
      else if isInteger v && isPow t then do
        -- (b**e)**n = b**(e*n) for an integer n (patched N4)
        let r ← powF fuel rv t v
        mulInto fuel rv coef (derase d t) r
      else do
        -- Rational exponent of an Integer / Rational base
        let early ← (if isRational v && (isInteger t || isRational t) then do
            let res ← powNumRat fuel rv t v
            if res.isNum || isMul res then absorb fuel rv coef (derase d t) res
            else match res with
              | .pow rb re =>
                -- base or exponent have changed (patched N6)
                if !(eqE rb t && eqE re v) then do
                  let r ← datNew fuel rv coef (derase d t) re rb
                  pure (some r)
                else pure none
              | _ => pure none
          else pure none : R (Option (Expr × Dict)))
        match early with
        | some r => pure r
        | none =>
          if v.isNum then
            if numIsZero v then do
              -- `1*x**0.0`: coef *= pownum(it->second, zero); unreachable for exact exponents
              let p ← numPow v zero
              let coef ← numMul coef p
              pure (coef, derase d t)
            else if isIntLit t 0 then do
              -- 0**z for a number z that is neither Integer nor Rational (patched N8)
              let r ← powF fuel rv t v
              mulInto fuel rv coef (derase d t) r
            else match t with
              | .mul mc mfs =>
                if isInteger v || (!isIntLit mc 1 && !isIntLit mc (-1)) then
                  powerNum fuel rv mc mfs coef (derase d t) v
                else pure (coef, d)
              | _ =>
                -- inexact: `E ** 0.2`; Number ** Number with an inexact side (defect D7 lives here)
                pure (coef, d)
          else pure (coef, d)

  /-- `t ** e` for `e` Rational, `t` Integer (`e.rpowrat(t)`) or Rational (`t.powrat(e)`) -/
  def powNumRat : Nat → Bool → Expr → Expr → R Expr
    | 0, _, _, _ => .error .fuel
    | fuel + 1, rv, t, e =>
      match t, e with
      | .int b, .rat n d => rpowrat fuel rv n d b
      | .rat p q, .rat n d => powrat fuel rv p q n d
      | _, _ => .error .badCast

  /-- `Rational::powrat(const Rational &other)`: `(p/q) ** (n/d)` -/
  def powrat : Nat → Bool → Int → Nat → Int → Nat → R Expr
    | 0, _, _, _, _, _ => .error .fuel
    | fuel + 1, rv, p, q, n, d => do
      let x ← rpowrat fuel rv n d p                 -- other.rpowrat(*this->get_num())
      let y ← rpowrat fuel rv (-n) d (q : Int)      -- other.neg()->rpowrat(*this->get_den())
      mulF fuel rv x y

  /-- `Rational::rpowrat(const Integer &other)`: `other ** (n/d)` -/
  def rpowrat : Nat → Bool → Int → Nat → Int → R Expr
    | 0, _, _, _, _ => .error .fuel
    | fuel + 1, rv, n, d, other =>
      if other == 1 then .ok one
      else if other == 0 then .ok (if n > 0 then zero else .infty 0)   -- 0**(p/q) (patched N9)
      else do
        let early ← (if d < 2 ^ 64 then                      -- mp_fits_ulong_p(den)
            if other < 0 then
              if other != -1 then
                match exactRoot other.natAbs d with
                | some r => do
                  let s ← rpowrat fuel rv n d (-1)
                  let p ← numPowInt (.int r) n
                  let m ← mulF fuel rv s p
                  pure (some m)
                | none => pure none
              else pure none
            else
              match exactRoot other.toNat d with
              | some r => do
                let p ← numPowInt (.int r) n
                pure (some p)
              | none => pure none
          else pure none : R (Option Expr))
        match early with
        | some r => pure r
        | none => do
          let (q, r) := fdivmod n d
          let coef ← numPowInt (.int other) q
          let ex := ofQ ⟨r, d⟩                                -- Rational::from_mpq(rational_class(r, den))
          if other < 0 && d == 2 then do
            let coef ← numMul coef imagUnit
            let surd := if other != -1 then dinsert [] (.int (-other)) ex else []
            pure (mulFromDict coef surd)
          else
            pure (mulFromDict coef (dinsert [] (.int other) ex))

  /-- `Mul(selfCoef, selfDict).power_num(coef, d, exp)` -/
  def powerNum : Nat → Bool → Expr → Dict → Expr → Dict → Expr → R (Expr × Dict)
    | 0, _, _, _, _, _, _ => .error .fuel
    | fuel + 1, rv, sc, sd, coef, d, exp =>
      if numIsZero exp then do
        let p ← numPow exp zero
        let coef ← numMul coef p
        pure (coef, d)
      else do
        let (newCoef, coef, d) ← (if isInteger exp then do
            let nc ← powF fuel rv sc exp
            let (coef, d) ← powerNumLoop fuel rv (iterOrder rv sd) exp coef d
            pure (nc, coef, d)
          else if numIsNegative sc && !numIsMinusOne sc then do
            let m ← numMul sc minusOne
            let nc ← powF fuel rv m exp
            let (coef, d) ← datNew fuel rv coef d exp (mulFromDict minusOne sd)
            pure (nc, coef, d)
          else if numIsPositive sc && !numIsOne sc then do
            let nc ← powF fuel rv sc exp
            let (coef, d) ← datNew fuel rv coef d exp (mulFromDict one sd)
            pure (nc, coef, d)
          else do
            let (coef, d) ← datNew fuel rv coef d exp (.mul sc sd)
            pure (one, coef, d) : R (Expr × Expr × Dict))
        mulInto fuel rv coef d newCoef

  /-- the loop over `dict_` in the Integer arm of `power_num` -/
  def powerNumLoop : Nat → Bool → Dict → Expr → Expr → Dict → R (Expr × Dict)
    | 0, _, _, _, _, _ => .error .fuel
    | _ + 1, _, [], _, coef, d => .ok (coef, d)
    | fuel + 1, rv, (k, v) :: r, exp, coef, d => do
      let newExp ← mulF fuel rv v exp
      let (coef, d) ← (match k with
        | .mul kc kd =>
          if isInteger newExp then powerNum fuel rv kc kd coef d newExp
          else datNew fuel rv coef d newExp k
        | _ => datNew fuel rv coef d newExp k : R (Expr × Dict))
      powerNumLoop fuel rv r exp coef d

  /-- `pow(a, b)` -/
  def powF : Nat → Bool → Expr → Expr → R Expr
    | 0, _, _, _ => .error .fuel
    | fuel + 1, rv, a, b =>
      if isNumZero b then numAdd one b                       -- addnum(one, b)
      else if isIntLit b 1 then .ok a
      else if isIntLit a 0 then
        if b.isNum && numIsPositive b then .ok zero
        else if b.isNum && numIsNegative b then .ok (.infty 0)
        else match b with
          | .cplx re _ =>                                     -- patched N1: sign of Re(b)
            if re.num > 0 then .ok zero else if re.num < 0 then .ok (.infty 0) else .ok .nan
          | _ => if b.isNum then .ok .nan else .ok (.pow a b)   -- 0**zoo, 0**nan (patched N1)
      else if isIntLit a 1 && (!b.isNum || isComplex b) then .ok one
      else
        let m1 : Option Expr :=
          if isIntLit a (-1) then
            match b with
            | .int n => some (if n % 2 == 0 then one else minusOne)   -- is_a<Integer>(*div(b, integer(2)))
            | .rat 1 2 => some imagUnit
            | _ => none
          else none
        match m1 with
        | some r => .ok r
        | none =>
          if b.isNum then
            if a.isNum then
              if isInteger b then numPow a b
              else if isRational b then
                if isRational a || isInteger a then powNumRat fuel rv a b
                else if isComplex a then .ok (.pow a b)
                else .error .unsupported                      -- Infty/NaN/float base
              else if isComplex b then
                if isExactNum a then .ok (.pow a b) else .error .unsupported
              else .error .unsupported
            else match a with
              | .mul ac ad => do
                let (coef, d) ← powerNum fuel rv ac ad one [] b
                pure (mulFromDict coef d)
              | _ => powGeneric fuel rv a b                       -- inexact: `E ** 0.2`
          else powGeneric fuel rv a b

  /-- the tail of `pow`: `(x**y)**n = x**(y*n)` for an integer `n`, `(x**-1)**b = x**(-b)`,
  otherwise a `Pow` object -/
  def powGeneric : Nat → Bool → Expr → Expr → R Expr
    | 0, _, _, _ => .error .fuel
    | fuel + 1, rv, a, b =>
      match a with
      | .pow ab ae =>
        if isInteger b then do
          let e ← mulF fuel rv ae b
          powF fuel rv ab e
        else if isIntLit ae (-1) then do
          let e ← mulF fuel rv minusOne b                 -- neg(b)
          powF fuel rv ab e
        else .ok (.pow a b)
      | _ => .ok (.pow a b)
end

/-- the loop of `mul(const vec_basic &)` -/
def mulNLoop (fuel : Nat) (rv : Bool) (coef : Expr) (d : Dict) : List Expr → R (Expr × Dict)
  | [] => .ok (coef, d)
  | a :: r =>
    match a with
    | .mul ac ad => do
      let coef ← numMul coef ac
      let (coef, d) ← datLoop fuel rv coef d (iterOrder rv ad)
      mulNLoop fuel rv coef d r
    | _ => do
      let (coef, d) ← mulStep fuel rv coef d a
      mulNLoop fuel rv coef d r

/-! ### the public API (with the fragment check)

Every entry point exists in two versions: `…O rv` walks dictionaries in ascending (`rv = false`)
or descending (`rv = true`) key order; the plain name is the ascending one. -/

/-- recursion fuel used by the API entry points; every nested constructor call consumes one unit -/
def defaultFuel : Nat := 100000

def guard2 (a b : Expr) (k : R Expr) : R Expr :=
  if exact a && exact b then k else .error .unsupported

def addE (a b : Expr) : R Expr := guard2 a b (addCore a b)

def mulEO (rv : Bool) (a b : Expr) : R Expr := guard2 a b (mulF defaultFuel rv a b)

def negEO (rv : Bool) (a : Expr) : R Expr := mulEO rv minusOne a

def subEO (rv : Bool) (a b : Expr) : R Expr := do
  let nb ← mulEO rv minusOne b
  addE a nb

def powEO (rv : Bool) (a b : Expr) : R Expr := guard2 a b (powF defaultFuel rv a b)

def divEO (rv : Bool) (a b : Expr) : R Expr :=
  guard2 a b <|
    if isNumZero b then
      if isNumZero a then .ok .nan else .ok (.infty 0)
    else do
      let ib ← powF defaultFuel rv b minusOne
      if exact ib then mulF defaultFuel rv a ib else .error .unsupported

def sqrtEO (rv : Bool) (x : Expr) : R Expr := do
  let h ← divEO rv one (.int 2)
  powEO rv x h

def cbrtEO (rv : Bool) (x : Expr) : R Expr := do
  let h ← divEO rv one (.int 3)
  powEO rv x h

def addN (l : List Expr) : R Expr :=
  if exactList l then do
    let (coef, d) ← addNLoop zero [] l
    addFromDict coef d
  else .error .unsupported

def mulNO (rv : Bool) (l : List Expr) : R Expr :=
  if exactList l then do
    let (coef, d) ← mulNLoop defaultFuel rv one [] l
    pure (mulFromDict coef d)
  else .error .unsupported

def mulE := mulEO false
def negE := negEO false
def subE := subEO false
def powE := powEO false
def divE := divEO false
def sqrtE := sqrtEO false
def cbrtE := cbrtEO false
def mulN := mulNO false

end Arith
end SymVerif
