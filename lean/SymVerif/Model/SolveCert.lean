/-
C30 certificate checker: exact arithmetic in ℚ[√r₁, √r₂, …] (formal square roots of rationals, `√(-1)` is the
imaginary unit), evaluation of returned expression trees into it, and the factorisation certificate

    p(X) = lc · Π (X - rᵢ)^{mᵢ}        (checked coefficient by coefficient)

which implies that the returned elements are exactly the roots of `p` (Props/C30.lean, `certPoly_sound`).
Only the relations (√r)² = r are used, so the check is valid for every choice of the square roots.
Core Lean only.
-/
import SymVerif.Model.Expr
import SymVerif.Model.Solve

namespace SymVerif.Solve

/-- a product of formal square roots √r₁·√r₂·… -/
abbrev Mono := List Rat
abbrev Term := Rat × Mono
/-- a sum of rational multiples of monomials -/
abbrev RP := List Term

namespace RP

def ofRat (r : Rat) : RP := [(r, [])]
def one : RP := ofRat 1
def atom (r : Rat) : RP := [(1, [r])]
def add (p q : RP) : RP := p ++ q
def neg (p : RP) : RP := p.map fun t => (-t.1, t.2)
def sub (p q : RP) : RP := add p (neg q)
def scale (c : Rat) (m : Mono) (q : RP) : RP := q.map fun t => (c * t.1, m ++ t.2)
def mulRaw : RP → RP → RP
  | [], _ => []
  | t :: p, q => scale t.1 t.2 q ++ mulRaw p q

/-- multiply the term `c·m` by `√r`, using `√r·√r = r`; `m` is kept sorted -/
def insAtom (r : Rat) (c : Rat) : Mono → Term
  | [] => (c, [r])
  | a :: as =>
    if r = a then (c * r, as)
    else if r < a then (c, r :: a :: as)
    else
      let t := insAtom r c as
      (t.1, a :: t.2)

def reduceTerm (t : Term) : Term := t.2.foldr (fun a u => insAtom a u.1 u.2) (t.1, [])

def monoLt : Mono → Mono → Bool
  | [], [] => false
  | [], _ :: _ => true
  | _ :: _, [] => false
  | a :: as, b :: bs => if a < b then true else if a = b then monoLt as bs else false

/-- add a (reduced) term into a list kept sorted by monomial -/
def addTerm (t : Term) : RP → RP
  | [] => [t]
  | u :: us =>
    if t.2 = u.2 then (t.1 + u.1, u.2) :: us
    else if monoLt t.2 u.2 then t :: u :: us
    else u :: addTerm t us

def norm (p : RP) : RP :=
  (p.foldr (fun t acc => addTerm (reduceTerm t) acc) []).filter fun t => t.1 ≠ 0

def isZero (p : RP) : Bool := (norm p).isEmpty

def mul (p q : RP) : RP := norm (mulRaw p q)

def pow (p : RP) : Nat → RP
  | 0 => one
  | n + 1 => mul p (pow p n)

/-- `p = u + v·√s` -/
def splitAtom (s : Rat) (p : RP) : RP × RP :=
  p.foldr (fun t uv => if t.2.contains s then (uv.1, (t.1, t.2.erase s) :: uv.2) else (t :: uv.1, uv.2)) ([], [])

def conjAtom (s : Rat) (p : RP) : RP :=
  let uv := splitAtom s p
  add uv.1 (neg (mulRaw uv.2 (atom s)))

def firstAtom : RP → Option Rat
  | [] => none
  | (_, []) :: p => firstAtom p
  | (_, a :: _) :: _ => some a

/-- candidate inverse by repeatedly multiplying with conjugates (untrusted; `inv?` checks the product) -/
def invFuel : Nat → RP → Option RP
  | 0, _ => none
  | fuel + 1, p =>
    match norm p with
    | [] => none
    | [(c, [])] => some [(1 / c, [])]
    | p' =>
      match firstAtom p' with
      | none => none
      | some s =>
        let pc := conjAtom s p'
        (invFuel fuel (mul p' pc)).map fun i => mul pc i

/-- a verified inverse: `mul p q` normalises to `1` -/
def inv? (p : RP) : Option RP :=
  match invFuel 12 p with
  | none => none
  | some q => if norm (sub (mul p q) one) = [] then some q else none

/-- certified `p ≠ 0` (an inverse exists) -/
def isNonZero (p : RP) : Bool := (inv? p).isSome

end RP

open RP

def qToRat (q : Q) : Rat := mkRat q.num q.den

/-- rational literal -/
def ratLit : Expr → Option Rat
  | .int n => some (n : Rat)
  | .rat n d => some (mkRat n d)
  | _ => none

/-- value of `base ^ e` given the value of the base (`pb`) and the base as a rational literal (`lit`) -/
def powVal (pb : Option RP) (lit : Option Rat) (e : Expr) : Option RP :=
  match e with
  | .int n =>
    if 0 ≤ n then pb.map (fun p => pow p n.toNat)
    else do
      let p ← pb
      let i ← inv? p
      pure (pow i (-n).toNat)
  | .rat n d =>
    -- r^(n/2) = √r · r^((n-1)/2), n odd
    match lit with
    | some r =>
      if d ≠ 2 ∨ r = 0 ∨ n % 2 ≠ 1 then none
      else
        some (mul (atom r) (ofRat (if 0 ≤ (n - 1) / 2 then r ^ ((n - 1) / 2).toNat
                                   else (1 / r) ^ (-((n - 1) / 2)).toNat)))
    | none => none
  | _ => none

mutual
  /-- evaluation of an expression tree in ℚ[√·]; `none` outside the fragment -/
  def toRP : Expr → Option RP
    | .int n => some (ofRat (n : Rat))
    | .rat n d => some (ofRat (mkRat n d))
    | .cplx re im => some (add (ofRat (qToRat re)) (mul (ofRat (qToRat im)) (atom (-1))))
    | .add c ts => do
      let c ← toRP c
      let s ← sumTerms ts
      pure (add c s)
    | .mul c fs => do
      let c ← toRP c
      let s ← prodFacs fs
      pure (mul c s)
    | .pow b e => powVal (toRP b) (ratLit b) e
    | _ => none
  def sumTerms : List (Expr × Expr) → Option RP
    | [] => some []
    | (k, v) :: t => do
      let k ← toRP k
      let v ← toRP v
      let r ← sumTerms t
      pure (add (mul k v) r)
  def prodFacs : List (Expr × Expr) → Option RP
    | [] => some one
    | (b, e) :: t => do
      let x ← powVal (toRP b) (ratLit b) e
      let r ← prodFacs t
      pure (mul x r)
end

/-- all elements of a returned FiniteSet -/
def toRPs : List Expr → Option (List RP)
  | [] => some []
  | e :: es => do
    let p ← toRP e
    let ps ← toRPs es
    pure (p :: ps)

/-! ### polynomials with `RP` coefficients and the factorisation certificate -/

/-- add `c` to the constant coefficient -/
def addHead (c : RP) : List RP → List RP
  | [] => [c]
  | d :: ds => add c d :: ds

/-- `q(X) · (X - r)` -/
def mulLin (r : RP) : List RP → List RP
  | [] => []
  | c :: cs => neg (mul r c) :: addHead c (mulLin r cs)

/-- `q(X) · (X - r)^m` -/
def mulLinPow (r : RP) : Nat → List RP → List RP
  | 0, q => q
  | m + 1, q => mulLinPow r m (mulLin r q)

/-- `lc · Π (X - rᵢ)^{mᵢ}` -/
def prodPoly (lc : Rat) : List (RP × Nat) → List RP
  | [] => [ofRat lc]
  | (r, m) :: rest => mulLinPow r m (prodPoly lc rest)

/-- coefficientwise equality with a rational polynomial -/
def coeffsEq : List RP → Poly → Bool
  | [], [] => true
  | c :: cs, a :: as => isZero (sub c (ofRat a)) && coeffsEq cs as
  | _, _ => false

/-- all ways to write `n` as an ordered sum of `k` positive parts -/
def compositions : Nat → Nat → List (List Nat)
  | 0, n => if n = 0 then [[]] else []
  | k + 1, n => (List.range n).flatMap fun i =>
      (compositions k (n - (i + 1))).map fun rest => (i + 1) :: rest

/-- the factorisation certificate for explicit multiplicities -/
def checkFactorWith (p : Poly) (lc : Rat) (rs : List RP) (ms : List Nat) : Bool :=
  rs.length = ms.length && ms.all (0 < ·) && coeffsEq (prodPoly lc (rs.zip ms)) p

/-- `p` (trimmed, degree ≥ 1) has exactly the roots `rs`: multiplicities are searched -/
def checkFactor (p : Poly) (rs : List RP) : Bool :=
  match p.getLast? with
  | none => false
  | some lc =>
    lc ≠ 0 && rs.length ≤ p.length - 1 &&
      (compositions rs.length (p.length - 1)).any fun ms => checkFactorWith p lc rs ms

/-- value of a rational polynomial at a formal number -/
def evalPolyRP (p : Poly) (x : RP) : RP :=
  p.foldr (fun c acc => norm (add (ofRat c) (mulRaw x acc))) []

/-! ### realness (valid for the principal square roots: √r real for r ≥ 0, √(-1) = i) -/

/-- no term contains the square root of a negative number -/
def isRealRP (p : RP) : Bool := (norm p).all fun t => t.2.all (0 ≤ ·)

/-- `p = u + i·w` with `u, w` real and `w ≠ 0` certified -/
def isNonRealRP (p : RP) : Bool :=
  let uv := splitAtom (-1) (norm p)
  isRealRP uv.1 && isRealRP uv.2 && isNonZero uv.2

/-! ### canonical atoms: √(n/d) = k/d · Π √pᵢ (pᵢ the primes of the square-free part of n·d), √(-a) = i√a.
Used to compare the model's closed forms with the returned elements (both sides are normalised). -/

/-- `m = k² · Π ps`, `ps` distinct primes (trial division with fuel) -/
def sqfreeSplit (fuel : Nat) (m : Nat) : Option (Nat × List Nat) :=
  let rec go : Nat → Nat → Nat → Nat → List Nat → Option (Nat × List Nat)
    | 0, _, _, _, _ => none
    | fuel + 1, m, p, k, ps =>
      if m ≤ 1 then some (k, ps.reverse)
      else if p * p > m then some (k, (m :: ps).reverse)   -- m is prime
      else if m % (p * p) = 0 then go fuel (m / (p * p)) p (k * p) ps
      else if m % p = 0 then go fuel (m / p) (p + 1) k (p :: ps)
      else go fuel m (p + 1) k ps
  go fuel m 2 1 []

def canonAtom (r : Rat) : Option RP :=
  if r = 0 then some [] else
  let n := r.num.natAbs
  let d := r.den
  match sqfreeSplit 3000000 (n * d) with
  | none => none
  | some (k, ps) =>
    let mono : Mono := (if r < 0 then [(-1 : Rat)] else []) ++ ps.map (fun (p : Nat) => ((p : Int) : Rat))
    some [((((k : Int) : Rat) / ((d : Int) : Rat)), mono)]

/-- rewrite every atom into canonical prime atoms -/
def canon (p : RP) : Option RP :=
  (p.foldlM (fun (acc : RP) (t : Term) => do
    let m ← t.2.foldlM (fun (acc : RP) (a : Rat) => do
      let ca ← canonAtom a
      pure (mul acc ca)) one
    pure (add acc (mul (ofRat t.1) m))) ([] : RP)).map norm

def surdToRP (s : Surd) : RP :=
  if s.b = 0 ∨ s.d = 0 then ofRat s.a else add (ofRat s.a) (mul (ofRat s.b) (atom s.d))

end SymVerif.Solve
