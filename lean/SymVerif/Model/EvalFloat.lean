/-
`NumOps Float`: the instantiation of M-Eval the drivers execute.  `Float.sin` etc. are
the C library entry points the C++ code calls (`std::sin(double)` = `sin`), so results are
expected to be bit-identical.  `tgamma lgamma erf erfc` have no Lean binding; their values
are supplied per call site by the harness (computed by calling libm directly on the operand
value) in a table `(fn, operand bits, result bits)` — see docs/C12.md.

Also: exact conversions rational → double (`mpz_get_d`/`mpq_get_d` truncate towards zero; C++
literals are rounded to nearest-even) on bit patterns, with `Nat` arithmetic only.
Core Lean only.
-/
import SymVerif.Model.EvalG

namespace SymVerif.EvalG

/-- ⌊log₂ n⌋ for n > 0 -/
def log2Nat (n : Nat) : Nat := Nat.log2 n

/-- largest `e : Int` with `2^e ≤ a/d` (a, d > 0) -/
def floorLog2Q (a d : Nat) : Int :=
  let e0 : Int := (log2Nat a : Int) - (log2Nat d : Int)
  -- 2^e0 may exceed a/d by less than a factor 2: test a ≥ d·2^e0
  let ge (e : Int) : Bool := if e ≥ 0 then a ≥ d * 2 ^ e.toNat else a * 2 ^ (-e).toNat ≥ d
  if ge e0 then (if ge (e0 + 1) then e0 + 1 else e0) else e0 - 1

/-- quotient and "remainder is non-zero / compare with half" of a·2^s / d for integer s -/
def scaledDiv (a d : Nat) (s : Int) : Nat × Nat × Nat :=
  -- returns (q, r, den) with a·2^s = q·den' + r in the common scale, den = divisor used
  if s ≥ 0 then
    let num := a * 2 ^ s.toNat
    (num / d, num % d, d)
  else
    let den := d * 2 ^ (-s).toNat
    (a / den, a % den, den)

/-- bits of the double obtained from |n|/d by truncation (`nearest = false`) or round-to-nearest-even.
Normal range only; outside it returns `none` (the harness keeps its leaves inside). -/
def ratToBits (nearest : Bool) (n : Int) (d : Nat) : Option UInt64 :=
  if d == 0 then none else
  let a := n.natAbs
  let sign : UInt64 := if n < 0 then (0x8000000000000000 : UInt64) else 0
  if a == 0 then some 0 else
  let e := floorLog2Q a d
  let (q, r, den) := scaledDiv a d (52 - e)
  -- q ∈ [2^52, 2^53)
  let up : Bool := nearest && (2 * r > den || (2 * r == den && q % 2 == 1))
  let (m, e) := if up then (if q + 1 == 2 ^ 53 then (2 ^ 52, e + 1) else (q + 1, e)) else (q, e)
  if e < -1022 || e > 1023 then none else
  some (sign ||| (UInt64.ofNat ((e + 1023).toNat) <<< 52) ||| UInt64.ofNat (m - 2 ^ 52))

def qToFloat (nearest : Bool) (n : Int) (d : Nat) : Float :=
  match ratToBits nearest n d with
  | some b => Float.ofBits b
  | none => if nearest then Float.ofScientific n.natAbs false 0 / Float.ofNat d * (if n < 0 then -1.0 else 1.0)
            else Float.ofInt n / Float.ofNat d

/-- value of a finite double as an exact (unreduced) rational: (numerator, denominator) -/
def bitsToQ (b : UInt64) : Option (Int × Nat) :=
  let neg := (b >>> 63) == 1
  let ex := ((b >>> 52) &&& 0x7ff).toNat
  let fr := (b &&& 0xfffffffffffff).toNat
  if ex == 0x7ff then none else
  let (m, e) : Nat × Int := if ex == 0 then (fr, -1074) else (fr + 2 ^ 52, (ex : Int) - 1075)
  let (num, den) : Nat × Nat := if e ≥ 0 then (m * 2 ^ e.toNat, 1) else (m, 2 ^ (-e).toNat)
  some (if neg then -(num : Int) else (num : Int), den)

/-- special-function oracle entries: (function, operand bits, result bits) -/
abbrev SpecTable := List (Fn × UInt64 × UInt64)

def SpecTable.find (t : SpecTable) (f : Fn) (x : UInt64) : Option UInt64 :=
  match t with
  | [] => none
  | (g, a, r) :: rest => if g = f ∧ a = x then some r else SpecTable.find rest f x

def floatTrunc (x : Float) : Float := if x < 0 then Float.ceil x else Float.floor x

/-- `std::max(a, b)` = `(a < b) ? b : a`;  `std::min(a, b)` = `(b < a) ? b : a` -/
def stdMax (a b : Float) : Float := if a < b then b else a
def stdMin (a b : Float) : Float := if b < a then b else a

def floatOps (spec : SpecTable) : NumOps Float where
  ofQTrunc := qToFloat false
  ofQNear := qToFloat true
  ofBits := Float.ofBits
  inf := fun s => if s then Float.ofBits 0xfff0000000000000 else Float.ofBits 0x7ff0000000000000
  nan := Float.ofBits 0x7ffc000000000000
  add := (· + ·)
  sub := (· - ·)
  mul := (· * ·)
  div := (· / ·)
  neg := fun x => -x
  call1 := fun f x =>
    match f with
    | .sin => some x.sin | .cos => some x.cos | .tan => some x.tan
    | .asin => some x.asin | .acos => some x.acos | .atan => some x.atan
    | .sinh => some x.sinh | .cosh => some x.cosh | .tanh => some x.tanh
    | .asinh => some x.asinh | .acosh => some x.acosh | .atanh => some x.atanh
    | .exp => some x.exp | .log => some x.log | .abs => some x.abs
    | .floor => some x.floor | .ceil => some x.ceil | .trunc => some (floatTrunc x)
    | .sqrt => some x.sqrt | .cbrt => some x.cbrt
    | .isnan => some (if x.isNaN then 1.0 else 0.0)
    | .tgamma | .lgamma | .erf | .erfc => (spec.find f x.toBits).map Float.ofBits
    | _ => none
  call2 := fun f x y =>
    match f with
    | .atan2 => some (Float.atan2 x y)
    | .pow => some (Float.pow x y)
    | .max => some (stdMax x y)
    | .min => some (stdMin x y)
    | _ => none
  eq := fun a b => a == b
  lt := fun a b => a < b
  le := fun a b => a ≤ b

end SymVerif.EvalG
