/-
is_even / is_odd (test_visitors.cpp): `is_integer(b/2)` and `is_integer((b + 1)/2)`.  The quotient and the sum are
built by the arithmetic constructors; `half` and `addOne` model what `div(b, 2)` and `add(b, 1)` return, up to
the parts IntegerVisitor does not look at (an Add with a non-zero coefficient is never an integer for the visitor
once it is multiplied by 1/2, whatever its terms are).  Core Lean only.
-/
import SymVerif.Model.Queries

namespace SymVerif.Queries

/-- `c/2` for an exact real number; other Number classes keep their class (they are not Integers before or after) -/
def halfNum : Expr → Expr
  | .int n => if n % 2 == 0 then .int (n / 2) else .rat n 2
  | .rat n d => if n % 2 == 0 then .rat (n / 2) d else .rat n (2 * d)
  | e => e

/-- `div(b, integer(2))` = `mul(b, 1/2)`: a Number is divided, the coefficient of a Mul is divided (`Mul::from_dict`
    collapses `1 * b**x`), everything else becomes `(1/2) * b` -/
def half : Expr → Expr
  | .mul c fs =>
    let c' := halfNum c
    if isOne c' then
      match fs with
      | [(b, x)] => if isOne x then b else .pow b x
      | _ => .mul c' fs
    else .mul c' fs
  | .pow b x => .mul (.rat 1 2) [(b, x)]
  | e => if e.isNum then halfNum e else .mul (.rat 1 2) [(e, .int 1)]

def addOneNum : Expr → Expr
  | .int n => .int (n + 1)
  | .rat n d => .rat (n + d) d
  | e => e

/-- `add(b, integer(1))`: the number is folded into the coefficient of an Add, `0 + v*k` collapses to the term -/
def addOne : Expr → Expr
  | .add c ts =>
    let c' := addOneNum c
    if numIsZero c' then
      match ts with
      | [(k, v)] => if isOne v then k else termOf k v
      | _ => .add c' ts
    else .add c' ts
  | e => if e.isNum then addOneNum e else .add (.int 1) [(e, .int 1)]

def isEven (A : Assumptions) (e : Expr) : Tri := isInteger A (half e)
def isOdd (A : Assumptions) (e : Expr) : Tri := isInteger A (half (addOne e))

/-- inexact coefficients (whose halves / successors the model does not compute) -/
def inexactCoef : Expr → Bool
  | .add c _ => c.isNum && !(match c with | .int _ => true | .rat _ _ => true | .cplx _ _ => true | _ => false)
  | .mul c _ => c.isNum && !(match c with | .int _ => true | .rat _ _ => true | .cplx _ _ => true | _ => false)
  | _ => false

def queryParity (q : String) (A : Assumptions) (e : Expr) : Except Err Tri :=
  if isLogic e || hasLogic e || inexactCoef e then .error .unmodelled
  else if q == "even" then .ok (isEven A e)
  else if q == "odd" then .ok (isOdd A e)
  else .error .unmodelled


/-! ## PolynomialVisitor (`is_polynomial(b, variables)`) -/

def isPosInt : Expr → Bool
  | .int n => decide (0 < n)
  | _ => false

/-- `is_polynomial_` after visiting `e` (starting from `true`) with `variables_allowed_ = allowed`; an empty
    variable set means that every symbol is a variable -/
def polyF (vars : List Expr) : Nat → Bool → Expr → Bool
  | 0, _, _ => false
  | fuel + 1, allowed, e =>
    let checkPower := fun (b x : Expr) =>
      if allowed then
        if !(polyF vars fuel false x) then false
        else if polyF vars fuel false b then true
        else polyF vars fuel true b && isPosInt x
      else polyF vars fuel false b && polyF vars fuel false x
    match e with
    | .sym s => allowed || !(vars.isEmpty || Expr.memb (.sym s) vars)
    | .dummy _ _ => allowed || !vars.isEmpty
    | .const _ => true
    | .add c ts => (argsOf (.add c ts)).all (polyF vars fuel allowed)
    | .mul _ fs => fs.all fun p => checkPower p.1 p.2
    | .pow b x => checkPower b x
    | .app h args =>
      if setHeads.contains h || relHeads.contains h then false
      else args.all (polyF vars fuel false)
    | .fsym _ args => args.all (polyF vars fuel false)
    | .bool _ => true
    | e => e.isNum

def isPolynomial (vars : List Expr) (e : Expr) : Bool := polyF vars (2 * size e + 2) true e

end SymVerif.Queries
