/-
Model of `Basic::hash`, `eq` (`__eq__`) and `Basic::__cmp__` on the shared expression tree
`SymVerif.Expr` (C01, C02).  Core Lean only.

Mirrored code (symengine):
  basic-inl.h   Basic::hash, hash_combine, hash_combine_impl (integral / std::string / double)
  basic.cpp     Basic::__cmp__  (type code first, then the class's `compare`)
  basic.h       RCPBasicKeyLess (hash, then eq, then __cmp__ == -1), RCPBasicKeyEq, RCPBasicHash
  dict.h        unified_eq / ordered_eq / unordered_eq, unified_compare / ordered_compare
  integer.cpp rational.cpp complex.cpp real_double.cpp complex_double.cpp infinity.cpp nan.cpp
  symbol.cpp constants.cpp add.cpp mul.cpp pow.cpp     per-class __hash__, __eq__, compare
  functions.h   OneArgFunction, TwoArgBasic, MultiArgFunction; functions.cpp FunctionSymbol
  logic.cpp     BooleanAtom, Not, And, Or, Xor, Contains, relationals (TwoArgBasic<Boolean>)
  sets.cpp      Interval, FiniteSet, Union, Intersection, Complement, singleton sets

Representation.  The C++ ordered containers (`map_basic_basic` of Mul, `set_basic`/`set_boolean`/
`set_set` of FiniteSet/And/Or/Union…, and the `map_basic_num` that `Add::compare` builds from the
unordered dictionary) are sequences sorted by `RCPBasicKeyLess`.  The model stores exactly that
sequence: `hash`, `beq'`, `cmp` read the lists of a `mul`/`add`/set-like `app` node in list order, and
`Expr.norm` is the model of *constructing* those containers (insertion into the ordered container),
applied by the driver to what it parses from the wire.  `Expr.WF` states the container invariant
(strictly `keyLess`-sorted) together with the numeric-class invariants.  `Add::__hash__` iterates the
*unordered* dictionary; that its value does not depend on the iteration order is theorem
`hash_add_perm` (C01), so reading it off the sorted sequence loses nothing.
-/
import SymVerif.Model.Expr
import SymVerif.Gen.TypeCodes

namespace SymVerif
namespace Expr

open TC (Kind)

/-! ### hash_combine -/

/-- `hash_combine_impl` for integral `v`: `seed ^= v + 0x9e3779b9 + (seed << 6) + (seed >> 2)` -/
@[inline] def hashCombine (seed v : UInt64) : UInt64 :=
  seed ^^^ (v + (0x9e3779b9 : UInt64) + (seed <<< 6) + (seed >>> 2))

/-- `static_cast<hash_t>(c)` for a (signed) `char` given as a byte -/
def charToHash (b : UInt8) : UInt64 :=
  if b < 128 then b.toUInt64 else b.toUInt64 + (0xffffffffffffff00 : UInt64)

/-- `hash_combine_impl(seed, std::string)`: every byte, sign-extended -/
def hashStr (seed : UInt64) (s : String) : UInt64 :=
  s.toUTF8.data.toList.foldl (fun h b => hashCombine h (charToHash b)) seed

/-- `(hash_t)mpz_get_ui(i) * (hash_t)mpz_sgn(i)` -/
def hashInt (n : Int) : UInt64 :=
  let m := UInt64.ofNat (n.natAbs % 18446744073709551616)
  if n < 0 then 0 - m else m

/-- `mpz_get_si` (two's complement bits of the returned `long`):
positive: `zl & LONG_MAX`; negative: `-1 - (long)((zl - 1) & LONG_MAX)`; `zl` = low limb of |n| -/
def getSi (n : Int) : UInt64 :=
  let zl := UInt64.ofNat (n.natAbs % 18446744073709551616)
  if n > 0 then zl &&& (0x7fffffffffffffff : UInt64)
  else if n < 0 then (0 - 1) - ((zl - 1) &&& (0x7fffffffffffffff : UInt64))
  else 0

/-! ### IEEE-754 binary64 comparisons on bit patterns -/

def dblMag (b : UInt64) : UInt64 := b &&& (0x7fffffffffffffff : UInt64)
def dblIsNaN (b : UInt64) : Bool := dblMag b > (0x7ff0000000000000 : UInt64)
def dblNeg (b : UInt64) : Bool := b >>> 63 == 1
/-- order-preserving integer key of a non-NaN double (±0 ↦ 0) -/
def dblKey (b : UInt64) : Int := if dblNeg b then - (Int.ofNat (dblMag b).toNat) else Int.ofNat (dblMag b).toNat
/-- C++ `a == b` on doubles -/
def dblEq (a b : UInt64) : Bool := !dblIsNaN a && !dblIsNaN b && dblKey a == dblKey b
/-- C++ `a < b` on doubles -/
def dblLt (a b : UInt64) : Bool := !dblIsNaN a && !dblIsNaN b && decide (dblKey a < dblKey b)

def negZeroBits : UInt64 := 0x8000000000000000

/-! ### type codes -/

def ofName (h : String) : Option Nat := TC.table.lookup h
def kindOfCode (c : Nat) : Option Kind := TC.kinds.lookup c

/-- `get_type_code()`; an `app` head that is not a class name gets `TypeID_Count` -/
def typeCode : Expr → Nat
  | int _ => TC.cInteger
  | rat _ _ => TC.cRational
  | cplx _ _ => TC.cComplex
  | dbl _ => TC.cRealDouble
  | cdbl _ _ => TC.cComplexDouble
  | infty _ => TC.cInfty
  | nan => TC.cNaN
  | sym _ => TC.cSymbol
  | dummy _ _ => TC.cDummy
  | const _ => TC.cConstant
  | add _ _ => TC.cAdd
  | mul _ _ => TC.cMul
  | pow _ _ => TC.cPow
  | fsym _ _ => TC.cFunctionSymbol
  | app h _ => (ofName h).getD TC.count
  | bool _ => TC.cBooleanAtom

def kindOf (e : Expr) : Option Kind := kindOfCode (typeCode e)

def seedOf (c : Nat) : UInt64 := UInt64.ofNat c

/-! ### `Basic::hash` -/

/-- the double handed to `hash_combine<double>` by `RealDouble::__hash__` / `ComplexDouble::__hash__`:
the value itself in the code as it is (defect D1), `x == 0.0 ? 0.0 : x` once the proposed fix is applied.
Which of the two forms the source has is read by the translator (`TC.dblHashZeroNorm`, `TC.cdblHashZeroNorm`). -/
def hashedBits (zeroNorm : Bool) (b : UInt64) : UInt64 :=
  if zeroNorm && dblMag b == 0 then 0 else b

mutual
  /-- `Basic::hash()` (= `__hash__()`; the `hash_ == 0` cache does not change the value) -/
  def hash : Expr → UInt64
    | int n => hashInt n
    | rat n d => hashCombine (hashCombine (seedOf TC.cRational) (getSi n)) (getSi (Int.ofNat d))
    | cplx re im =>
      hashCombine (hashCombine (hashCombine (hashCombine (seedOf TC.cComplex) (getSi re.num))
        (getSi (Int.ofNat re.den))) (getSi im.num)) (getSi (Int.ofNat im.den))
    | dbl b => hashCombine (seedOf TC.cRealDouble) (hashedBits TC.dblHashZeroNorm b)
    | cdbl r i =>
      hashCombine (hashCombine (seedOf TC.cComplexDouble) (hashedBits TC.cdblHashZeroNorm r))
        (hashedBits TC.cdblHashZeroNorm i)
    | infty d => hashCombine (seedOf TC.cInfty) (hashInt d)
    | nan => seedOf TC.cNaN
    | sym n => hashStr 0 n
    | dummy n i => hashCombine (hashStr 0 n) (UInt64.ofNat i)
    | const n => hashStr (seedOf TC.cConstant) n
    | add c ts => hashAddTerms (hashCombine (seedOf TC.cAdd) (hash c)) ts
    | mul c fs => hashPairs (hashCombine (seedOf TC.cMul) (hash c)) fs
    | pow b e => hashCombine (hashCombine (seedOf TC.cPow) (hash b)) (hash e)
    | fsym n args => hashStr (hashArgs (seedOf TC.cFunctionSymbol) args) n
    | app h args =>
      let code := (ofName h).getD TC.count
      match kindOfCode code with
      | some Kind.interval => hashArgsIv (seedOf code) args
      | _ => hashArgs (seedOf code) args
    | bool b => seedOf TC.cBooleanAtom + (if b then 1 else 0)
  /-- `for (a : args) hash_combine<Basic>(seed, *a)` -/
  def hashArgs (seed : UInt64) : List Expr → UInt64
    | [] => seed
    | a :: t => hashArgs (hashCombine seed (hash a)) t
  /-- Interval::__hash__ over `get_args()` = [start_, end_, left_open_, right_open_]: the two numbers
  through `hash_combine<Basic>`, the two flags through `hash_combine<bool>` (0 / 1) -/
  def hashArgsIv (seed : UInt64) : List Expr → UInt64
    | [] => seed
    | bool b :: t => hashArgsIv (hashCombine seed (if b then 1 else 0)) t
    | a :: t => hashArgsIv (hashCombine seed (hash a)) t
  /-- `for (p : dict_) { hash_combine(seed, *p.first); hash_combine(seed, *p.second); }` (Mul) -/
  def hashPairs (seed : UInt64) : List (Expr × Expr) → UInt64
    | [] => seed
    | (k, v) :: t => hashPairs (hashCombine (hashCombine seed (hash k)) (hash v)) t
  /-- `for (p : dict_) { temp = p.first->hash(); hash_combine(temp, *p.second); seed ^= temp; }` (Add) -/
  def hashAddTerms (seed : UInt64) : List (Expr × Expr) → UInt64
    | [] => seed
    | (k, v) :: t => hashAddTerms (seed ^^^ hashCombine (hash k) (hash v)) t
end

/-! ### `eq` -/

mutual
  /-- `eq(a, b)` = `a.__eq__(b)` -/
  def beq' : Expr → Expr → Bool
    | int x, int y => x == y
    | rat n d, rat n' d' => n == n' && d == d'
    | cplx r i, cplx r' i' => r == r' && i == i'
    | dbl x, dbl y => dblEq x y
    | cdbl r i, cdbl r' i' => dblEq r r' && dblEq i i'
    | infty d, infty d' => d == d'
    | nan, nan => true
    | sym n, sym m => n == m
    | dummy n i, dummy m j => n == m && i == j
    | const n, const m => n == m
    | add c ts, add c' ts' =>
      -- unordered_eq: sizes, then every entry of `a` is found in `b` (hash + RCPBasicKeyEq) with an equal value
      beq' c c' && ts.length == ts'.length && allFind ts ts'
    | mul c fs, mul c' fs' => beq' c c' && beqPairs fs fs'
    | pow b e, pow b' e' => beq' b b' && beq' e e'
    | fsym n as, fsym m bs => n == m && beqArgs as bs
    | app h as, app h' bs =>
      -- is_same_type (type codes) and the stored fields pairwise `eq`
      (ofName h).getD TC.count == (ofName h').getD TC.count && beqArgs as bs
    | bool x, bool y => x == y
    | _, _ => false
  /-- ordered_eq on vectors / ordered sets: sizes, then element-wise -/
  def beqArgs : List Expr → List Expr → Bool
    | [], [] => true
    | a :: as, b :: bs => beq' a b && beqArgs as bs
    | _, _ => false
  /-- ordered_eq on `map_basic_basic` -/
  def beqPairs : List (Expr × Expr) → List (Expr × Expr) → Bool
    | [], [] => true
    | (k, v) :: t, (k', v') :: t' => beq' k k' && beq' v v' && beqPairs t t'
    | _, _ => false
  /-- the loop of unordered_eq: `b.find(p.first)` succeeds iff some key of `b` has the same hash and is `eq` -/
  def allFind : List (Expr × Expr) → List (Expr × Expr) → Bool
    | [], _ => true
    | (k, v) :: t, ts' =>
      ts'.any (fun p => hash p.1 == hash k && beq' k p.1 && beq' v p.2) && allFind t ts'
end

/-! ### `__cmp__` -/

/-- value returned where the C++ would perform a bad `down_cast` (cannot happen on well-formed input) -/
def cmpBad : Int := 99

def cmpInt (x y : Int) : Int := if x == y then 0 else if x < y then -1 else 1
def cmpNat (x y : Nat) : Int := if x == y then 0 else if x < y then -1 else 1
def cmpStr (x y : String) : Int := if x == y then 0 else if x < y then -1 else 1
/-- `mpq_class ==` then `<` (cross multiplication, denominators positive) -/
def cmpQ (n : Int) (d : Nat) (n' : Int) (d' : Nat) : Int :=
  if n == n' && d == d' then 0 else if n * Int.ofNat d' < n' * Int.ofNat d then -1 else 1
/-- `RealDouble::compare` -/
def cmpDbl (x y : UInt64) : Int := if dblEq x y then 0 else if dblLt x y then -1 else 1

/-- `left_open_`, `right_open_` of an Interval given as `get_args()` -/
def ivFlags : List Expr → Option (Bool × Bool)
  | [_, _, bool lo, bool ro] => some (lo, ro)
  | _ => none

/-- the `compare` of the generically modelled classes, given the results `cArgs` of the
ordered_compare loop over the stored fields and `cTwo` of TwoArgBasic's eq-then-cmp -/
def appCmp (k : Option Kind) (as bs : List Expr) (cArgs cTwo : Int) : Int :=
  match k with
  | some Kind.one =>
    -- OneArgFunction::compare / Not::compare: `arg->__cmp__(other arg)` (= the loop on one element)
    if as.length == 1 && bs.length == 1 then cArgs else cmpBad
  | some Kind.two =>
    -- TwoArgBasic::compare: `if (neq(a1, b1)) return a1->__cmp__(b1); else return a2->__cmp__(b2);`
    if as.length == 2 && bs.length == 2 then cTwo else cmpBad
  | some Kind.multi =>
    if as.length != bs.length then (if as.length < bs.length then -1 else 1) else cArgs
  | some Kind.set =>
    if as.length != bs.length then (if as.length < bs.length then -1 else 1) else cArgs
  | some (Kind.lex n) =>
    if as.length == n && bs.length == n then cArgs else cmpBad
  | some Kind.interval =>
    -- Interval::compare: the four flag tests, then start_, then end_.  In the last branch the flags
    -- are pairwise equal, so continuing the loop over the two flag atoms adds only zeros.
    match ivFlags as, ivFlags bs with
    | some (lo, ro), some (lo', ro') =>
      if lo && !lo' then -1
      else if !lo && lo' then 1
      else if ro && !ro' then 1
      else if !ro && ro' then -1
      else cArgs
    | _, _ => cmpBad
  | none => cmpBad

mutual
  /-- `Basic::__cmp__` -/
  def cmp (a b : Expr) : Int :=
      if typeCode a != typeCode b then (if typeCode a < typeCode b then -1 else 1) else
      match a, b with
      | int x, int y => cmpInt x y
      | rat n d, rat n' d' => cmpQ n d n' d'
      | cplx r i, cplx r' i' =>
        if r == r' then (if i == i' then 0 else cmpQ i.num i.den i'.num i'.den)
        else cmpQ r.num r.den r'.num r'.den
      | dbl x, dbl y => cmpDbl x y
      | cdbl r i, cdbl r' i' =>
        if dblEq r r' && dblEq i i' then 0
        else if dblEq r r' then (if dblLt i i' then -1 else 1)
        else (if dblLt r r' then -1 else 1)
      | infty d, infty d' => cmpInt d d'
      | nan, nan => 0
      | sym n, sym m => cmpStr n m
      | dummy n i, dummy m j => if n == m then cmpNat i j else (if n < m then -1 else 1)
      | const n, const m => cmpStr n m
      | add c ts, add c' ts' =>
        if ts.length != ts'.length then (if ts.length < ts'.length then -1 else 1) else
        let t := cmp c c'
        if t != 0 then t else cmpPairs ts ts'
      | mul c fs, mul c' fs' =>
        if fs.length != fs'.length then (if fs.length < fs'.length then -1 else 1) else
        let t := cmp c c'
        if t != 0 then t else cmpPairs fs fs'
      | pow b e, pow b' e' =>
        let t := cmp b b'
        if t == 0 then cmp e e' else t
      | fsym n as, fsym m bs =>
        if n == m then
          (if as.length != bs.length then (if as.length < bs.length then -1 else 1) else cmpArgs as bs)
        else (if n < m then -1 else 1)
      | app _ as, app _ bs => appCmp (kindOfCode (typeCode a)) as bs (cmpArgs as bs) (cmpTwo as bs)
      | bool x, bool y => if x then (if y then 0 else 1) else (if y then -1 else 0)
      | _, _ => cmpBad
  termination_by structural a
  /-- the loop of ordered_compare on vectors / ordered sets (sizes already known equal) -/
  def cmpArgs : List Expr → List Expr → Int
    | [], [] => 0
    | a :: as, b :: bs =>
      let t := cmp a b
      if t != 0 then t else cmpArgs as bs
    | _, _ => cmpBad
  termination_by structural as => as
  def cmpTwo : List Expr → List Expr → Int
    | x1 :: xs, y1 :: ys => if !(beq' x1 y1) then cmp x1 y1 else cmpArgs xs ys
    | _, _ => cmpBad
  termination_by structural as => as
  /-- the loop of ordered_compare on maps: unified_compare(pair) = key, then value -/
  def cmpPairs : List (Expr × Expr) → List (Expr × Expr) → Int
    | [], [] => 0
    | (k, v) :: t, (k', v') :: t' =>
      let c1 := cmp k k'
      if c1 != 0 then c1 else
      let c2 := cmp v v'
      if c2 != 0 then c2 else cmpPairs t t'
    | _, _ => cmpBad
  termination_by structural ps => ps
end

/-- `RCPBasicKeyLess` -/
def keyLess (x y : Expr) : Bool :=
  if hash x != hash y then decide (hash x < hash y)
  else if beq' x y then false
  else cmp x y == -1

/-! ### constructing the ordered containers -/

/-- insertion into a `std::set<…, RCPBasicKeyLess>` kept as a sorted list (an equivalent key is not inserted) -/
def insertKey (x : Expr) : List Expr → List Expr
  | [] => [x]
  | y :: t => if keyLess x y then x :: y :: t else if keyLess y x then y :: insertKey x t else y :: t

/-- `map[k] = v` on a `std::map<…, RCPBasicKeyLess>` kept as a sorted list -/
def insertPair (p : Expr × Expr) : List (Expr × Expr) → List (Expr × Expr)
  | [] => [p]
  | q :: t => if keyLess p.1 q.1 then p :: q :: t else if keyLess q.1 p.1 then q :: insertPair p t else (q.1, p.2) :: t

def sortKeys (l : List Expr) : List Expr := l.foldl (fun acc x => insertKey x acc) []
def sortPairs (l : List (Expr × Expr)) : List (Expr × Expr) := l.foldl (fun acc p => insertPair p acc) []

mutual
  /-- rebuild every ordered container bottom-up (what the C++ constructors / `Add::compare` do) -/
  def norm : Expr → Expr
    | add c ts => add (norm c) (sortPairs (normPairs ts))
    | mul c fs => mul (norm c) (sortPairs (normPairs fs))
    | pow b e => pow (norm b) (norm e)
    | fsym n args => fsym n (normArgs args)
    | app h args =>
      let args' := normArgs args
      match kindOfCode ((ofName h).getD TC.count) with
      | some Kind.set => app h (sortKeys args')
      | _ => app h args'
    | e => e
  def normArgs : List Expr → List Expr
    | [] => []
    | a :: t => norm a :: normArgs t
  def normPairs : List (Expr × Expr) → List (Expr × Expr)
    | [] => []
    | (k, v) :: t => (norm k, norm v) :: normPairs t
end

/-! ### well-formedness and the two exclusions -/

def pairwiseB {α : Type} (r : α → α → Bool) : List α → Bool
  | [] => true
  | a :: t => t.all (r a) && pairwiseB r t

def qCanon (n : Int) (d : Nat) : Bool := d > 0 && Nat.gcd n.natAbs d == 1

def arityOK (k : Kind) (args : List Expr) : Bool :=
  match k, args with
  | Kind.one, [_] => true
  | Kind.two, [_, _] => true
  | Kind.multi, _ => true
  | Kind.set, _ => true
  | Kind.lex n, _ => args.length == n
  | Kind.interval, [_, _, bool _, bool _] => true
  | _, _ => false

mutual
  /-- invariants of objects built by the library: canonical rationals, Infty direction in {-1,0,1},
  `app` heads that are modelled classes with the right number of fields, ordered containers strictly
  sorted by `RCPBasicKeyLess` -/
  def WF : Expr → Bool
    | int _ => true
    | rat n d => qCanon n d
    | cplx r i => qCanon r.num r.den && qCanon i.num i.den
    | dbl _ => true
    | cdbl _ _ => true
    | infty d => d == 1 || d == 0 || d == -1
    | nan => true
    | sym _ => true
    | dummy _ _ => true
    | const _ => true
    | add c ts => WF c && wfPairs ts && pairwiseB keyLess (ts.map Prod.fst)
    | mul c fs => WF c && wfPairs fs && pairwiseB keyLess (fs.map Prod.fst)
    | pow b e => WF b && WF e
    | fsym _ args => wfArgs args
    | app h args =>
      match kindOfCode ((ofName h).getD TC.count) with
      | none => false
      | some k => arityOK k args && wfArgs args && (k != Kind.set || pairwiseB keyLess args)
    | bool _ => true
  def wfArgs : List Expr → Bool
    | [] => true
    | a :: t => WF a && wfArgs t
  def wfPairs : List (Expr × Expr) → Bool
    | [] => true
    | (k, v) :: t => WF k && WF v && wfPairs t
end

mutual
  /-- `p` holds at every node -/
  def allNodes (p : Expr → Bool) : Expr → Bool
    | add c ts => p (add c ts) && allNodes p c && allPairs p ts
    | mul c fs => p (mul c fs) && allNodes p c && allPairs p fs
    | pow b e => p (pow b e) && allNodes p b && allNodes p e
    | fsym n args => p (fsym n args) && allArgs p args
    | app h args => p (app h args) && allArgs p args
    | e => p e
  def allArgs (p : Expr → Bool) : List Expr → Bool
    | [] => true
    | a :: t => allNodes p a && allArgs p t
  def allPairs (p : Expr → Bool) : List (Expr × Expr) → Bool
    | [] => true
    | (k, v) :: t => allNodes p k && allNodes p v && allPairs p t
end

def notNaNNode : Expr → Bool
  | dbl b => !dblIsNaN b
  | cdbl r i => !dblIsNaN r && !dblIsNaN i
  | _ => true

def notNegZeroNode : Expr → Bool
  | dbl b => b != negZeroBits
  | cdbl r i => r != negZeroBits && i != negZeroBits
  | _ => true

/-- no NaN double anywhere (D3: `RealDouble::compare` / `ComplexDouble::compare` are not an order on NaN) -/
def noNaN (e : Expr) : Bool := allNodes notNaNNode e
/-- no double `-0.0` anywhere (D1: `0.0 == -0.0` but the bit patterns are hashed) -/
def noSignedZero (e : Expr) : Bool := allNodes notNegZeroNode e

/-- every `app` head is a modelled class (else the driver prints SKIP) -/
def modelledNode : Expr → Bool
  | app h args => match kindOfCode ((ofName h).getD TC.count) with
    | some k => arityOK k args
    | none => false
  | dummy _ _ => true
  | _ => true
def modelled (e : Expr) : Bool := allNodes modelledNode e

end Expr
end SymVerif
