/-
Model of the two mutable fields of a shared expression node in a thread-safe build
(`WITH_SYMENGINE_THREAD_SAFE`): `Basic::hash_` (symengine/basic.h, basic-inl.h) and
`EnableRCPFromThis::refcount_` (symengine/symengine_rcp.h), under an interleaving semantics.

  hash_t Basic::hash() const { if (hash_ == 0) hash_ = __hash__(); return hash_; }
      atomic load; (compute, thread-local); atomic store; atomic load      -- three shared accesses
  RCP copy:     (ptr_->refcount_)++                    one atomic read-modify-write
  RCP release:  if (--(ptr_->refcount_) == 0) delete   one atomic read-modify-write; the `delete`
      is merged into the same step: once the counter is 0 no thread holds a reference, so no
      other thread can name the object and the deallocation commutes with all their steps.

Everything else a thread does with a shared expression (compare, print, differentiate,
substitute, expand, combine) only *reads* immutable content and builds thread-private objects;
it is represented by `read`, which returns the immutable `val`.  The dictionary steal is absent:
it is compiled out in thread-safe builds (checked on the source by tools/extract/c41_statics.py).

`step atomic s tid` performs one shared-memory access of thread `tid` (`atomic = false` gives the
non-thread-safe build, where `++`/`--` are a separate load and store — used only to show that the
theorems are not vacuous).  A schedule is any list of thread ids.

Core Lean only: linked into the native driver.
-/
namespace SymVerif.Conc

structure Node where
  val : Nat       -- immutable content
  H : Nat         -- `__hash__()`: a pure function of the content
  hash : Nat      -- `hash_`
  count : Nat     -- `refcount_`
  live : Bool
  deriving Repr, DecidableEq

inductive TOp where
  | hash (o : Nat)
  | read (o : Nat)
  | copy (o : Nat)
  | drop (o : Nat)
  deriving Repr, DecidableEq

/-- the shared object an operation works on -/
def TOp.target : TOp → Nat
  | .hash o => o
  | .read o => o
  | .copy o => o
  | .drop o => o

inductive Phase where
  | idle
  | hashMiss            -- read `hash_ == 0`: will compute and store
  | hashHit             -- `hash_` was non-zero or has just been stored: will load and return
  | rcLoaded (r : Nat)  -- non-atomic build only: counter value read by `++` / `--`
  deriving Repr, DecidableEq

inductive Fault where
  | notHeld     -- the thread's *program* is ill-formed: it uses an object it holds no reference to
  | uaf         -- access to a deleted object (undefined behaviour)
  | underflow   -- `--` on a zero counter
  deriving Repr, DecidableEq

structure Thread where
  prog : List TOp       -- remaining operations
  past : List TOp       -- completed operations (ghost)
  phase : Phase
  held : List Nat       -- references held (multiset of node ids)
  results : List Nat    -- values returned by completed `hash` / `read`
  fault : Option Fault
  deriving Repr, DecidableEq

structure State where
  nodes : List Node
  threads : List Thread
  deriving Repr, DecidableEq

def setThread (s : State) (tid : Nat) (t : Thread) : State := { s with threads := s.threads.set tid t }
def setNode (s : State) (o : Nat) (n : Node) : State := { s with nodes := s.nodes.set o n }

/-- finish the current operation -/
def Thread.complete (t : Thread) (op : TOp) (rest : List TOp) : Thread :=
  { t with prog := rest, past := t.past ++ [op], phase := .idle }

def Thread.fail (t : Thread) (f : Fault) : Thread := { t with fault := some f }

/-- one shared-memory access of thread `tid` -/
def step (atomic : Bool) (s : State) (tid : Nat) : State :=
  match s.threads[tid]? with
  | none => s
  | some t =>
    if t.fault.isSome then s else
    match t.prog with
    | [] => s
    | op :: rest =>
      let o := op.target
      if !t.held.contains o then setThread s tid (t.fail .notHeld) else
      match s.nodes[o]? with
      | none => setThread s tid (t.fail .uaf)
      | some n =>
        if !n.live then setThread s tid (t.fail .uaf) else
        match op with
        | .hash _ =>
          match t.phase with
          | .hashMiss => setThread (setNode s o { n with hash := n.H }) tid { t with phase := .hashHit }
          | .hashHit => setThread s tid { (t.complete op rest) with results := t.results ++ [n.hash] }
          | _ => setThread s tid { t with phase := if n.hash = 0 then .hashMiss else .hashHit }
        | .read _ => setThread s tid { (t.complete op rest) with results := t.results ++ [n.val] }
        | .copy _ =>
          if atomic then
            setThread (setNode s o { n with count := n.count + 1 }) tid { (t.complete op rest) with held := o :: t.held }
          else
            match t.phase with
            | .rcLoaded r =>
              setThread (setNode s o { n with count := r + 1 }) tid { (t.complete op rest) with held := o :: t.held }
            | _ => setThread s tid { t with phase := .rcLoaded n.count }
        | .drop _ =>
          if atomic then
            if n.count = 0 then setThread s tid (t.fail .underflow) else
            setThread (setNode s o { n with count := n.count - 1, live := n.count - 1 != 0 }) tid
              { (t.complete op rest) with held := t.held.erase o }
          else
            match t.phase with
            | .rcLoaded r =>
              if r = 0 then setThread s tid (t.fail .underflow) else
              setThread (setNode s o { n with count := r - 1, live := r - 1 != 0 }) tid
                { (t.complete op rest) with held := t.held.erase o }
            | _ => setThread s tid { t with phase := .rcLoaded n.count }

def runSched (atomic : Bool) (s : State) : List Nat → State
  | [] => s
  | tid :: rest => runSched atomic (step atomic s tid) rest

/-- what a thread obtains when it runs alone: `hash` returns `H`, `read` returns the content -/
def seqResults (nodes : List Node) : List TOp → List Nat
  | [] => []
  | .hash o :: ops => (match nodes[o]? with | some n => n.H | none => 0) :: seqResults nodes ops
  | .read o :: ops => (match nodes[o]? with | some n => n.val | none => 0) :: seqResults nodes ops
  | _ :: ops => seqResults nodes ops

/-- references to `o` held by all threads -/
def totalHeld (s : State) (o : Nat) : Nat := (s.threads.map (fun t => t.held.count o)).sum

def cnt (s : State) (o : Nat) : Nat :=
  match s.nodes[o]? with
  | some n => if n.live then n.count else 0
  | none => 0

def mkThread (prog : List TOp) (held : List Nat) : Thread :=
  { prog := prog, past := [], phase := .idle, held := held, results := [], fault := none }

/-- all threads finished or faulted -/
def allDone (s : State) : Bool := s.threads.all (fun t => t.prog.isEmpty || t.fault.isSome)

end SymVerif.Conc
