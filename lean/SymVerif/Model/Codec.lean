/-
Byte-level model of symengine's serialisation (C19, C20).

Anchors
  symengine/serialize-cereal.h   RCPBasicAwareOutputArchive::save_rcp_basic, RCPBasicAwareInputArchive::load_rcp_basic,
                                 every save_basic / load_basic overload, load_helper, save_typeid / load_typeid
  symengine/basic.cpp            Basic::dumps / Basic::loads (endianness byte, u16 major, u16 minor, root object)
  symengine/dense_matrix.cpp     DenseMatrix::dumps / loads (…, u32 rows, u32 cols, vector of objects)
  cereal/archives/portable_binary.hpp, cereal/types/{string,vector,map,set,utility}.hpp
                                 fixed-width little-endian scalars (byte-swapped when the first stream byte is not 1),
                                 u64 size prefixes; std::string and std::vector are resize()d *before* their payload is read,
                                 the associative containers are filled element by element.

Structure of the model
  * `T` / `Fld`  the object graph as the archive sees it: every pointer slot is a node with its *address*, its type code
                 and its stored fields.  Sharing = two nodes carrying the same address.
  * `encT`       save_rcp_basic: the address set, `first_seen`, back-references.
  * `decT`       load_rcp_basic: fuel-bounded (fuel = nesting depth), total; performs exactly the loader's checks
                 (first_seen ∈ {0,1}, known back-reference, type-code range / availability / implemented loader,
                 integer-string validation, the `is_base_of<T, Class>` cast checks, length checks of every read) and
                 none of the checks the loader does not perform (no canonical-form validation).
  * `semT`       what the load_basic overloads *construct* from the fields (an `Expr`), in a build without assertions.
  * `toT`        what the save_basic overloads write for an `Expr` (the inverse of `semT` on serialisable expressions).
Core Lean only.
-/
import SymVerif.Model.Expr
import SymVerif.Gen.SerialCodes

namespace SymVerif.Codec
open SymVerif

abbrev Bytes := List UInt8

/-! ### cereal portable-binary scalars -/

/-- `w` little-endian bytes of `n` -/
def leN : Nat → Nat → Bytes
  | 0, _ => []
  | k + 1, n => UInt8.ofNat (n % 256) :: leN k (n / 256)

def ofLE : Bytes → Nat
  | [] => 0
  | b :: t => b.toNat + 256 * ofLE t

def le64 (v : UInt64) : Bytes := leN 8 v.toNat

inductive Err where
  | hdrEof        -- cereal::Exception outside load_rcp_basic's try block (archive constructor, version words)
  | version       -- SerializationError: wrong major/minor
  | eof           -- cereal::Exception "Failed to read" converted to SerializationError
  | firstSeen     -- first_seen >= 2
  | badRef        -- "Invalid shared pointer"
  | badCast       -- "Cannot convert to given type"
  | tcRange       -- "TypeID out of range"
  | unknownTc     -- "Unknown typeID" (class compiled out)
  | notImpl       -- "Loading of this type is not implemented."
  | invalidInt    -- load_helper: "invalid integer"
  | invalidObj    -- SerializationError raised by a (patched) load_basic overload that validates its parts
  | lengthError   -- std::length_error from string/vector::resize
  | badAlloc      -- std::bad_alloc (allocation above the harness cap)
  | ctor (tok : String)        -- exception thrown by a constructor called from load_basic
  | unmodelled (why : String)  -- the construction leaves the fragment of `Expr` the model represents
  | fuel          -- never returned by `decode` (theorem `decode_ne_fuel`)
  deriving Repr, DecidableEq, Inhabited

/-- static type `T` at a `load_rcp_basic<T>` call site -/
inductive Cls where
  | basic | number | integer | boolean | set
  deriving Repr, DecidableEq, Inhabited

/-- one serialised field of a class -/
inductive Kind where
  | str | u64 | f64 | byte
  | ptr (c : Cls)
  /-- size-prefixed sequence of groups of `cs.length` pointers; `elem` > 0: a std::vector whose elements take
      `elem` bytes and which is resize()d up front; `elem` = 0: map / set / multiset filled one by one -/
  | seq (elem : Nat) (cs : List Cls)
  deriving Repr, DecidableEq, Inhabited

mutual
  inductive T where
    | mk (addr : UInt64) (tc : UInt8) (flds : List Fld)
  inductive Fld where
    | str (s : Bytes)
    | u64 (v : UInt64)
    | f64 (v : UInt64)
    | byte (b : UInt8)
    | ptr (t : T)
    | seq (stride : Nat) (l : List T)
end

instance : Inhabited T := ⟨.mk 0 0 []⟩

def T.addr : T → UInt64 | .mk a _ _ => a
def T.tc : T → UInt8 | .mk _ t _ => t
def T.flds : T → List Fld | .mk _ _ f => f

/-! ### class table -/

open SymVerif.Gen.SerialCodes

def count : Nat := names.length

def className (tc : UInt8) : String := names.getD tc.toNat ""

def codeOf (n : String) : UInt8 := UInt8.ofNat (names.idxOf n)

/-- how the save_basic / load_basic pair of a class lays out its fields -/
inductive NK where
  | integer | rational | complex | cdouble | rdouble | infty | nan
  | symbol | dummy | constant | mul | add | pow | fsym | boolAtom
  | args (cs : List Cls)                       -- fixed number of pointers (function / relational / set classes)
  | vec (elem : Nat) (c : Cls) (dedup : Bool)  -- one container of pointers
  | interval | derivative | subs | piecewise
  | notImpl                                    -- generic load_basic: throws
  | unavailable                                -- compiled out
  deriving Repr, DecidableEq, Inhabited

def oneArgNames : List String :=
  ["Log", "Conjugate", "Sign", "Floor", "Ceiling", "Sin", "Cos", "Tan", "Cot", "Csc", "Sec", "ASin", "ACos",
   "ASec", "ACsc", "ATan", "ACot", "Sinh", "Csch", "Cosh", "Sech", "Tanh", "Coth", "ASinh", "ACsch", "ACosh",
   "ATanh", "ACoth", "ASech", "LambertW", "Dirichlet_eta", "Erf", "Erfc", "Gamma", "LogGamma", "Abs",
   "Truncate", "PrimePi", "Primorial", "UnevaluatedExpr"]

def twoArgNames : List String :=
  ["ATan2", "Zeta", "KroneckerDelta", "PolyGamma", "LowerGamma", "UpperGamma", "Beta",
   "Equality", "Unequality", "LessThan", "StrictLessThan"]

def kindByName : List (String × NK) :=
  [("Integer", .integer), ("Rational", .rational), ("Complex", .complex), ("ComplexDouble", .cdouble),
   ("RealDouble", .rdouble), ("Infty", .infty), ("NaN", .nan), ("Symbol", .symbol), ("Dummy", .dummy),
   ("Constant", .constant), ("Mul", .mul), ("Add", .add), ("Pow", .pow), ("FunctionSymbol", .fsym),
   ("BooleanAtom", .boolAtom),
   ("LeviCivita", .vec 8 .basic false), ("Max", .vec 8 .basic false), ("Min", .vec 8 .basic false),
   ("Xor", .vec 8 .boolean false), ("And", .vec 0 .boolean true), ("Or", .vec 0 .boolean true),
   ("FiniteSet", .vec 0 .basic true), ("Union", .vec 0 .set true),
   ("Not", .args [.boolean]), ("Contains", .args [.basic, .set]), ("Complement", .args [.set, .set]),
   ("ImageSet", .args [.basic, .basic, .set]), ("ConditionSet", .args [.basic, .boolean]),
   ("EmptySet", .args []), ("Reals", .args []), ("Rationals", .args []), ("Integers", .args []),
   ("UniversalSet", .args []),
   ("Interval", .interval), ("Derivative", .derivative), ("Subs", .subs), ("Piecewise", .piecewise)]
  ++ oneArgNames.map (fun n => (n, .args [.basic]))
  ++ twoArgNames.map (fun n => (n, .args [.basic, .basic]))

def kindOfName (n : String) : NK :=
  if optional.contains n then .unavailable
  else match kindByName.lookup n with
    | some k => k
    | none => .notImpl

def layoutOf : NK → Option (List Kind)
  | .integer => some [.str]
  | .rational => some [.ptr .integer, .ptr .integer]
  | .complex => some [.ptr .number, .ptr .number]
  | .cdouble => some [.ptr .number, .ptr .number]
  | .rdouble => some [.f64]
  | .infty => some [.ptr .number]
  | .nan => some []
  | .symbol => some [.str]
  | .dummy => some [.str, .u64]
  | .constant => some [.str]
  | .mul => some [.ptr .number, .seq 0 [.basic, .basic]]
  | .add => some [.ptr .number, .seq 0 [.basic, .number]]
  | .pow => some [.ptr .basic, .ptr .basic]
  | .fsym => some [.str, .seq 8 [.basic]]
  | .boolAtom => some [.byte]
  | .args cs => some (cs.map .ptr)
  | .vec elem c _ => some [.seq elem [c]]
  | .interval => some [.byte, .ptr .number, .byte, .ptr .number]
  | .derivative => some [.ptr .basic, .seq 0 [.basic]]
  | .subs => some [.ptr .basic, .seq 0 [.basic, .basic]]
  | .piecewise => some [.seq 16 [.basic, .boolean]]
  | .notImpl => none
  | .unavailable => none

def numberNames : List String :=
  ["Integer", "Rational", "Complex", "ComplexDouble", "RealMPFR", "ComplexMPC", "RealDouble", "Infty", "NaN",
   "URatPSeriesPiranha", "UPSeriesPiranha", "URatPSeriesFlint", "NumberWrapper", "UnivariateSeries"]
def booleanNames : List String :=
  ["Contains", "BooleanAtom", "Not", "And", "Or", "Xor", "Equality", "Unequality", "LessThan", "StrictLessThan"]
def setNames : List String :=
  ["EmptySet", "FiniteSet", "Interval", "Complexes", "Reals", "Rationals", "Integers", "Naturals", "Naturals0",
   "ConditionSet", "Union", "Intersection", "Complement", "ImageSet", "UniversalSet"]

/-- `std::is_base_of<T, Class>` for the five static types used at load sites -/
def isA (c : Cls) (n : String) : Bool :=
  match c with
  | .basic => true
  | .number => numberNames.contains n
  | .integer => n == "Integer"
  | .boolean => booleanNames.contains n
  | .set => setNames.contains n

/-! ### what load_basic constructs -/

/-- field values after the pointers have been resolved to the constructed objects -/
inductive FV where
  | str (s : Bytes) | u64 (v : UInt64) | f64 (v : UInt64) | byte (b : UInt8)
  | ptr (e : Expr) | seq (l : List Expr)
  deriving Inhabited

def Expr.className : Expr → String
  | .int _ => "Integer" | .rat _ _ => "Rational" | .cplx _ _ => "Complex" | .dbl _ => "RealDouble"
  | .cdbl _ _ => "ComplexDouble" | .infty _ => "Infty" | .nan => "NaN" | .sym _ => "Symbol"
  | .dummy _ _ => "Dummy" | .const _ => "Constant" | .add _ _ => "Add" | .mul _ _ => "Mul" | .pow _ _ => "Pow"
  | .fsym _ _ => "FunctionSymbol" | .app h _ => h | .bool _ => "BooleanAtom"

def isDigit (b : UInt8) : Bool := 48 ≤ b && b ≤ 57

/-- load_helper(integer_class&): non-empty, first char '-' or digit, the rest digits -/
def validInt : Bytes → Bool
  | [] => false
  | c :: t => (c == 45 || isDigit c) && t.all isDigit

def digitsVal (t : Bytes) : Nat := t.foldl (fun acc b => acc * 10 + (b.toNat - 48)) 0

/-- `integer_class(std::string)` (mpz_set_str base 10) on a string accepted by `validInt`; "-" gives 0 -/
def parseInt : Bytes → Int
  | 45 :: t => - (digitsVal t : Int)
  | s => (digitsVal s : Int)

/-- decimal digits, most significant first (structural in the fuel so that it also evaluates in the kernel) -/
def natDecF : Nat → Nat → Bytes
  | 0, _ => []
  | f + 1, n => if n < 10 then [UInt8.ofNat (48 + n)] else natDecF f (n / 10) ++ [UInt8.ofNat (48 + n % 10)]

def natDec (n : Nat) : Bytes := natDecF (n + 1) n

def intBytes (n : Int) : Bytes :=
  if n < 0 then 45 :: natDec n.natAbs else natDec n.natAbs

/-- names the S-expression wire format can carry: non-empty printable ASCII without blanks and parentheses -/
def plainByte (b : UInt8) : Bool := 33 ≤ b && b ≤ 126 && b != 40 && b != 41

def nameOfBytes (s : Bytes) : Option String :=
  if s.isEmpty || !s.all plainByte then none
  else some (String.ofList (s.map fun b => Char.ofNat b.toNat))

def bytesOfName (s : String) : Bytes := s.toList.map fun c => UInt8.ofNat c.toNat

/-- Rational::from_two_ints -/
def fromTwoInts (n d : Int) : Expr :=
  if d == 0 then (if n == 0 then .nan else .infty 0)
  else
    let g := Nat.gcd n.natAbs d.natAbs
    let s : Int := if d < 0 then -1 else 1
    let n' := s * n / (g : Int)
    let d' := d.natAbs / g
    if d' == 1 then .int n' else .rat n' d'

def qOf : Expr → Option Q
  | .int n => some ⟨n, 1⟩
  | .rat n d => some ⟨n, d⟩
  | _ => none

/-- Complex::from_two_nums -/
def fromTwoNums (re im : Expr) : Except Err Expr :=
  match qOf re, qOf im with
  | some r, some i => if i.num == 0 then .ok re else .ok (.cplx r i)
  | _, _ => .error (.ctor "E:Runtime")

/-- first occurrence wins (std::map / std::unordered_map / std::set emplace), keys compared like `eq` -/
def dedupPairs : List (Expr × Expr) → List String → List (Expr × Expr)
  | [], _ => []
  | (k, v) :: t, seen =>
    let d := Expr.dumpCanon k
    if seen.contains d then dedupPairs t seen else (k, v) :: dedupPairs t (d :: seen)

def dedupArgs : List Expr → List String → List Expr
  | [], _ => []
  | a :: t, seen =>
    let d := Expr.dumpCanon a
    if seen.contains d then dedupArgs t seen else a :: dedupArgs t (d :: seen)

def pairUp : List Expr → Option (List (Expr × Expr))
  | [] => some []
  | a :: b :: t => (pairUp t).map ((a, b) :: ·)
  | [_] => none

def interleave {α : Type} : List α → List α → List α
  | a :: as, b :: bs => a :: b :: interleave as bs
  | _, _ => []

def ptrs : List FV → Option (List Expr)
  | [] => some []
  | .ptr e :: t => (ptrs t).map (e :: ·)
  | _ :: _ => none

/-- the object a load_basic overload builds from the loaded fields (no canonical-form validation) -/
def build (k : NK) (name : String) (fvs : List FV) : Except Err Expr :=
  match k, fvs with
  | .integer, [.str s] => if validInt s then .ok (.int (parseInt s)) else .error .invalidInt
  | .rational, [.ptr (.int n), .ptr (.int d)] => .ok (fromTwoInts n d)
  | .complex, [.ptr re, .ptr im] => fromTwoNums re im
  | .cdouble, [.ptr (.dbl re), .ptr (.dbl im)] => .ok (.cdbl re im)
  | .cdouble, [.ptr _, .ptr _] => .error .invalidObj
  | .rdouble, [.f64 v] => .ok (.dbl v)
  | .infty, [.ptr (.int d)] => .ok (.infty d)
  | .infty, [.ptr _] => .error (.unmodelled "Infty with a non-integer direction")
  | .nan, [] => .ok .nan
  | .symbol, [.str s] =>
    match nameOfBytes s with | some n => .ok (.sym n) | none => .error (.unmodelled "name not representable")
  | .dummy, [.str s, .u64 i] =>
    match nameOfBytes s with | some n => .ok (.dummy n i.toNat) | none => .error (.unmodelled "name not representable")
  | .constant, [.str s] =>
    match nameOfBytes s with | some n => .ok (.const n) | none => .error (.unmodelled "name not representable")
  | .mul, [.ptr c, .seq l] =>
    match pairUp l with | some ps => .ok (.mul c (dedupPairs ps [])) | none => .error (.unmodelled "odd")
  | .add, [.ptr c, .seq l] =>
    match pairUp l with | some ps => .ok (.add c (dedupPairs ps [])) | none => .error (.unmodelled "odd")
  | .pow, [.ptr b, .ptr e] => .ok (.pow b e)
  | .fsym, [.str s, .seq l] =>
    match nameOfBytes s with | some n => .ok (.fsym n l) | none => .error (.unmodelled "name not representable")
  | .boolAtom, [.byte b] => .ok (.bool (b != 0))
  | .args _, fvs =>
    match ptrs fvs with | some es => .ok (.app name es) | none => .error (.unmodelled "args")
  | .vec _ _ dd, [.seq l] => .ok (.app name (if dd then dedupArgs l [] else l))
  | .interval, [.byte lo, .ptr s, .byte ro, .ptr e] => .ok (.app name [s, e, .bool (lo != 0), .bool (ro != 0)])
  | .derivative, [.ptr a, .seq l] => .ok (.app name (a :: l))
  | .subs, [.ptr a, .seq l] =>
    match pairUp l with
    | some ps => let ps := dedupPairs ps []; .ok (.app name (a :: ps.map (·.1) ++ ps.map (·.2)))
    | none => .error (.unmodelled "odd")
  | .piecewise, [.seq l] => .ok (.app name l)
  | _, _ => .error (.unmodelled "field shape")

mutual
  def semT : T → Except Err Expr
    | .mk _ tc flds =>
      match semFlds flds with
      | .error e => .error e
      | .ok fvs => build (kindOfName (className tc)) (className tc) fvs
  def semFlds : List Fld → Except Err (List FV)
    | [] => .ok []
    | f :: fs =>
      match semFld f with
      | .error e => .error e
      | .ok v => match semFlds fs with
        | .error e => .error e
        | .ok vs => .ok (v :: vs)
  def semFld : Fld → Except Err FV
    | .str s => .ok (.str s)
    | .u64 v => .ok (.u64 v)
    | .f64 v => .ok (.f64 v)
    | .byte b => .ok (.byte b)
    | .ptr t => match semT t with | .error e => .error e | .ok e => .ok (.ptr e)
    | .seq _ l => match semTs l with | .error e => .error e | .ok es => .ok (.seq es)
  def semTs : List T → Except Err (List Expr)
    | [] => .ok []
    | t :: ts =>
      match semT t with
      | .error e => .error e
      | .ok e => match semTs ts with
        | .error e => .error e
        | .ok es => .ok (e :: es)
end

/-! ### the encoder: save_rcp_basic -/

def encStr (s : Bytes) : Bytes := leN 8 s.length ++ s

mutual
  /-- `seen` = RCPBasicAwareOutputArchive::_addresses -/
  def encT : T → List UInt64 → Bytes × List UInt64
    | .mk a tc fs, seen =>
      if seen.contains a then (le64 a ++ [0], seen)
      else
        let r := encFlds fs seen
        (le64 a ++ [1, tc] ++ r.1, a :: r.2)
  def encFlds : List Fld → List UInt64 → Bytes × List UInt64
    | [], seen => ([], seen)
    | f :: fs, seen =>
      let r1 := encFld f seen
      let r2 := encFlds fs r1.2
      (r1.1 ++ r2.1, r2.2)
  def encFld : Fld → List UInt64 → Bytes × List UInt64
    | .str s, seen => (encStr s, seen)
    | .u64 v, seen => (le64 v, seen)
    | .f64 v, seen => (le64 v, seen)
    | .byte b, seen => ([b], seen)
    | .ptr t, seen => encT t seen
    | .seq stride l, seen =>
      let r := encTs l seen
      (leN 8 (l.length / stride) ++ r.1, r.2)
  def encTs : List T → List UInt64 → Bytes × List UInt64
    | [], seen => ([], seen)
    | t :: ts, seen =>
      let r1 := encT t seen
      let r2 := encTs ts r1.2
      (r1.1 ++ r2.1, r2.2)
end

def header : Bytes := 1 :: (leN 2 verMajor ++ leN 2 verMinor)

/-- Basic::dumps on the object graph `t` -/
def encodeT (t : T) : Bytes := header ++ (encT t []).1

/-! ### the decoder: load_rcp_basic -/

structure Cfg where
  swap : Bool   -- itsConvertEndianness
  cap : Nat     -- largest single allocation the host grants (bytes)
  deriving Repr

abbrev Map := List (UInt64 × T)
abbrev R (α : Type) := Except Err (α × Map × Bytes)

def rdNat (swap : Bool) (w : Nat) (bs : Bytes) : Except Err (Nat × Bytes) :=
  if w ≤ bs.length then
    let h := bs.take w
    .ok (ofLE (if swap then h.reverse else h), bs.drop w)
  else .error .eof

def rdStr (cfg : Cfg) (bs : Bytes) : Except Err (Bytes × Bytes) :=
  match rdNat cfg.swap 8 bs with
  | .error e => .error e
  | .ok (n, bs) =>
    if n ≥ 2 ^ 62 then .error .lengthError
    else if n > 15 ∧ n + 1 > cfg.cap then .error .badAlloc
    else if n ≤ bs.length then .ok (bs.take n, bs.drop n) else .error .eof

def decSeq (rec : Cls → Map → Bytes → R T) (cs : List Cls) : Nat → Nat → Map → Bytes → R (List T)
  | 0, _, m, bs => .ok ([], m, bs)
  | k + 1, j, m, bs =>
    match rec (cs.getD (j % cs.length) .basic) m bs with
    | .error e => .error e
    | .ok (t, m, bs) =>
      match decSeq rec cs k (j + 1) m bs with
      | .error e => .error e
      | .ok (ts, m, bs) => .ok (t :: ts, m, bs)

def decFld (cfg : Cfg) (rec : Cls → Map → Bytes → R T) : Kind → Map → Bytes → R Fld
  | .str, m, bs =>
    match rdStr cfg bs with
    | .error e => .error e
    | .ok (s, bs) => .ok (.str s, m, bs)
  | .u64, m, bs =>
    match rdNat cfg.swap 8 bs with
    | .error e => .error e
    | .ok (n, bs) => .ok (.u64 (UInt64.ofNat n), m, bs)
  | .f64, m, bs =>
    match rdNat cfg.swap 8 bs with
    | .error e => .error e
    | .ok (n, bs) => .ok (.f64 (UInt64.ofNat n), m, bs)
  | .byte, m, bs =>
    match rdNat cfg.swap 1 bs with
    | .error e => .error e
    | .ok (n, bs) => .ok (.byte (UInt8.ofNat n), m, bs)
  | .ptr c, m, bs =>
    match rec c m bs with
    | .error e => .error e
    | .ok (t, m, bs) => .ok (.ptr t, m, bs)
  | .seq elem cs, m, bs =>
    match rdNat cfg.swap 8 bs with
    | .error e => .error e
    | .ok (n, bs) =>
      if elem > 0 ∧ n * elem ≥ 2 ^ 63 then .error .lengthError
      else if elem > 0 ∧ n * elem > cfg.cap then .error .badAlloc
      else
        match decSeq rec cs (n * cs.length) 0 m bs with
        | .error e => .error e
        | .ok (ts, m, bs) => .ok (.seq cs.length ts, m, bs)

def decFlds (cfg : Cfg) (rec : Cls → Map → Bytes → R T) : List Kind → Map → Bytes → R (List Fld)
  | [], m, bs => .ok ([], m, bs)
  | k :: ks, m, bs =>
    match decFld cfg rec k m bs with
    | .error e => .error e
    | .ok (f, m, bs) =>
      match decFlds cfg rec ks m bs with
      | .error e => .error e
      | .ok (fs, m, bs) => .ok (f :: fs, m, bs)

/-- cast check on a back-reference: the *dynamic* class of the stored object -/
def castRef (c : Cls) (t : T) : Bool :=
  match semT t with
  | .ok e => isA c (Expr.className e)
  | .error _ => false

def decT (cfg : Cfg) : Nat → Cls → Map → Bytes → R T
  | 0, _, _, _ => .error .fuel
  | fuel + 1, c, m, bs =>
    match rdNat cfg.swap 8 bs with
    | .error e => .error e
    | .ok (a, bs) =>
    match rdNat cfg.swap 1 bs with
    | .error e => .error e
    | .ok (fs, bs) =>
      if fs ≥ 2 then .error .firstSeen
      else if fs = 0 then
        match m.lookup (UInt64.ofNat a) with
        | none => .error .badRef
        | some t => if castRef c t then .ok (t, m, bs) else .error .badCast
      else
        match rdNat cfg.swap 1 bs with
        | .error e => .error e
        | .ok (tc, bs) =>
          if tc ≥ count then .error .tcRange
          else
            let tc8 := UInt8.ofNat tc
            let nk := kindOfName (className tc8)
            match layoutOf nk with
            | none => .error (if nk = .unavailable then .unknownTc else .notImpl)
            | some ks =>
              match decFlds cfg (decT cfg fuel) ks m bs with
              | .error e => .error e
              | .ok (flds, m, bs) =>
                let t := T.mk (UInt64.ofNat a) tc8 flds
                match semT t with
                | .error e => .error e
                | .ok _ =>
                  -- `_rcp_map[addr] = basic_ptr;` happens before the cast check
                  let m := (UInt64.ofNat a, t) :: m
                  if isA c (className tc8) then .ok (t, m, bs) else .error .badCast

/-- the stream header: endianness byte, u16 major, u16 minor -/
def decHeader (bs : Bytes) : Except Err (Bool × Bytes) :=
  match bs with
  | [] => .error .hdrEof
  | e :: bs =>
    let swap := e != 1
    match rdNat swap 2 bs with
    | .error _ => .error .hdrEof
    | .ok (major, bs) =>
      match rdNat swap 2 bs with
      | .error _ => .error .hdrEof
      | .ok (minor, bs) =>
        if major = verMajor ∧ minor = verMinor then .ok (swap, bs) else .error .version

/-- Basic::loads, up to the object graph -/
def decodeT (cap : Nat) (bs : Bytes) : Except Err T :=
  match decHeader bs with
  | .error e => .error e
  | .ok (swap, bs) =>
    match decT ⟨swap, cap⟩ (bs.length + 1) .basic [] bs with
    | .error e => .error e
    | .ok (t, _, _) => .ok t

/-- Basic::loads -/
def decode (cap : Nat) (bs : Bytes) : Except Err Expr :=
  match decodeT cap bs with
  | .error e => .error e
  | .ok t => semT t

/-! ### DenseMatrix::dumps / loads: header, u32 rows, u32 cols, vec_basic (one archive: addresses shared) -/

def encodeMatrix (rows cols : Nat) (ts : List T) : Bytes :=
  header ++ leN 4 rows ++ leN 4 cols ++ leN 8 ts.length ++ (encTs ts []).1

def decodeMatrixT (cap : Nat) (bs : Bytes) : Except Err (Nat × Nat × List T) :=
  match decHeader bs with
  | .error e => .error e
  | .ok (swap, bs) =>
    -- row, col and the vector are read outside any try block: a short read escapes as cereal::Exception
    match rdNat swap 4 bs with
    | .error _ => .error .hdrEof
    | .ok (r, bs) =>
      match rdNat swap 4 bs with
      | .error _ => .error .hdrEof
      | .ok (c, bs) =>
        match rdNat swap 8 bs with
        | .error _ => .error .hdrEof
        | .ok (n, bs) =>
          if n * 8 ≥ 2 ^ 63 then .error .lengthError
          else if n * 8 > cap then .error .badAlloc
          else
            match decSeq (decT ⟨swap, cap⟩ (bs.length + 1)) [.basic] n 0 [] bs with
            | .error e => .error e
            | .ok (ts, _, _) => .ok (r, c, ts)

/-! ### what save_basic writes for an expression (`lab` names the addresses of the pointer slots by tree path) -/

def intNode (lab : List Nat → UInt64) (p : List Nat) (n : Int) : T :=
  .mk (lab p) (codeOf "Integer") [.str (intBytes n)]

/-- Integer or Rational object for one component of a Complex -/
def qNode (lab : List Nat → UInt64) (p : List Nat) (q : Q) : T :=
  if q.den == 1 then intNode lab p q.num
  else .mk (lab p) (codeOf "Rational") [.ptr (intNode lab (p ++ [0]) q.num), .ptr (intNode lab (p ++ [1]) q.den)]

def dblNode (lab : List Nat → UInt64) (p : List Nat) (b : UInt64) : T :=
  .mk (lab p) (codeOf "RealDouble") [.f64 b]

def boolByte (b : Bool) : UInt8 := if b then 1 else 0

mutual
  def toT (lab : List Nat → UInt64) : List Nat → Expr → Option T
    | p, .int n => some (intNode lab p n)
    | p, .rat n d => some (qNode lab p ⟨n, d⟩)
    | p, .cplx re im => some (.mk (lab p) (codeOf "Complex") [.ptr (qNode lab (p ++ [0]) re), .ptr (qNode lab (p ++ [1]) im)])
    | p, .dbl b => some (dblNode lab p b)
    | p, .cdbl re im =>
      some (.mk (lab p) (codeOf "ComplexDouble") [.ptr (dblNode lab (p ++ [0]) re), .ptr (dblNode lab (p ++ [1]) im)])
    | p, .infty d => some (.mk (lab p) (codeOf "Infty") [.ptr (intNode lab (p ++ [0]) d)])
    | p, .nan => some (.mk (lab p) (codeOf "NaN") [])
    | p, .sym s => some (.mk (lab p) (codeOf "Symbol") [.str (bytesOfName s)])
    | p, .dummy s i => some (.mk (lab p) (codeOf "Dummy") [.str (bytesOfName s), .u64 (UInt64.ofNat i)])
    | p, .const s => some (.mk (lab p) (codeOf "Constant") [.str (bytesOfName s)])
    | p, .add c ts =>
      match toT lab (p ++ [0]) c, toTPairs lab p 1 ts with
      | some c', some l => some (.mk (lab p) (codeOf "Add") [.ptr c', .seq 2 l])
      | _, _ => none
    | p, .mul c ts =>
      match toT lab (p ++ [0]) c, toTPairs lab p 1 ts with
      | some c', some l => some (.mk (lab p) (codeOf "Mul") [.ptr c', .seq 2 l])
      | _, _ => none
    | p, .pow b e =>
      match toT lab (p ++ [0]) b, toT lab (p ++ [1]) e with
      | some b', some e' => some (.mk (lab p) (codeOf "Pow") [.ptr b', .ptr e'])
      | _, _ => none
    | p, .fsym n args =>
      match toTs lab p 0 args with
      | some l => some (.mk (lab p) (codeOf "FunctionSymbol") [.str (bytesOfName n), .seq 1 l])
      | none => none
    | p, .bool b => some (.mk (lab p) (codeOf "BooleanAtom") [.byte (boolByte b)])
    | p, .app h args =>
      match toTs lab p 0 args with
      | none => none
      | some l =>
        match kindOfName h, l, args with
        | .args _, l, _ => some (.mk (lab p) (codeOf h) (l.map .ptr))
        | .vec _ _ _, l, _ => some (.mk (lab p) (codeOf h) [.seq 1 l])
        | .interval, [s, e, _, _], [_, _, .bool lo, .bool ro] =>
          some (.mk (lab p) (codeOf h) [.byte (boolByte lo), .ptr s, .byte (boolByte ro), .ptr e])
        | .derivative, a :: l, _ => some (.mk (lab p) (codeOf h) [.ptr a, .seq 1 l])
        | .subs, a :: l, _ =>
          let n := l.length / 2
          some (.mk (lab p) (codeOf h) [.ptr a, .seq 2 (interleave (l.take n) (l.drop n))])
        | .piecewise, l, _ => some (.mk (lab p) (codeOf h) [.seq 2 l])
        | _, _, _ => none
  def toTs (lab : List Nat → UInt64) : List Nat → Nat → List Expr → Option (List T)
    | _, _, [] => some []
    | p, i, a :: t =>
      match toT lab (p ++ [i]) a, toTs lab p (i + 1) t with
      | some a', some t' => some (a' :: t')
      | _, _ => none
  def toTPairs (lab : List Nat → UInt64) : List Nat → Nat → List (Expr × Expr) → Option (List T)
    | _, _, [] => some []
    | p, i, (k, v) :: t =>
      match toT lab (p ++ [i]) k, toT lab (p ++ [i + 1]) v, toTPairs lab p (i + 2) t with
      | some k', some v', some t' => some (k' :: v' :: t')
      | _, _, _ => none
end

/-- Basic::dumps of the expression `e` whose pointer slots live at the addresses `lab` -/
def encode (lab : List Nat → UInt64) (e : Expr) : Bytes :=
  match toT lab [] e with
  | some t => encodeT t
  | none => []

end SymVerif.Codec
