/-
Model of `StrPrinter` (symengine/printers/strprinter.cpp) on the shared expression tree (C16).  Core Lean only.

  Precedence::bvisit(...)            ->  `cprec`
  StrPrinter::parenthesizeLT / LE    ->  `parLT`, `parLE`
  StrPrinter::bvisit(Integer, Rational, Complex, RealDouble, ComplexDouble, Infty, NaN, Symbol, Constant,
                     BooleanAtom, Add, Mul, Pow, Function, FunctionSymbol, Equality, Unequality, LessThan,
                     StrictLessThan, And, Or, Xor, Not)           ->  `layout`
  StrPrinter::_print_pow             ->  `powP`
  print_double                       ->  `printDouble` (exact decimal conversion, 15 significant digits, `%g`)
  PrinterBasicCmp + std::map         ->  `termLess`, `insertTerm`, `sortTerms`

The printer is factored into two stages:

  `layout : Expr → PExpr`   every *decision* of the C++ code (term order, numerator/denominator split, which
                            operands get parentheses, `exp(`/`sqrt(` forms, sign merging `a + -b ↦ a - b`) produces
                            a syntax tree in which parentheses are explicit nodes; the tree is shaped the way the
                            *parser* groups the emitted tokens (e.g. `-x*y` is `(-x)*y`, `2*x*y` is `(2*x)*y`);
  `flat : PExpr → List Tok` decision-free flattening, `Tok.text` the text of a token with the printer's spacing.

`render e = concat (map text (flat (layout e)))` is what the driver prints and what is compared with `str(e)`.
`Props/C16.lean` proves that `flat` followed by the precedence-climbing parser of `Model/StrParse.lean` gives
the tree back whenever the tree is well-parenthesised (`WP`), and that `layout` only produces such trees.

Container orders: the driver applies `Expr.norm` (Model/ExprHash.lean) first, so `Mul` dictionaries and the
`And/Or/Xor` containers are in `RCPBasicKeyLess` order (hash first), which is the iteration order the C++ printer
sees; `Add` terms are re-sorted here by `PrinterBasicCmp` (`__cmp__`).
-/
import SymVerif.Model.ExprHash
import SymVerif.Gen.PrintNames

namespace SymVerif
namespace StrP
open Expr

/-! ### print_double -/

/-- round-half-even of `num / den` (`den > 0`) -/
def divRoundEven (num den : Nat) : Nat :=
  let q := num / den
  let r := num % den
  if 2 * r < den then q else if 2 * r > den then q + 1 else if q % 2 == 0 then q else q + 1

/-- smallest `k ≥ start` with `num * 10^k ≥ den` (fuel-bounded; doubles need k ≤ 324) -/
def findK (num den : Nat) : Nat → Nat → Nat
  | 0, k => k
  | f + 1, k => if num * 10 ^ k ≥ den then k else findK num den f (k + 1)

/-- the decimal exponent `X` with `10^X ≤ num/den < 10^(X+1)` (`num, den > 0`) -/
def decExp (num den : Nat) : Int :=
  if num ≥ den then Int.ofNat ((toString (num / den)).length - 1)
  else - Int.ofNat (findK num den 400 1)

/-- `P` significant decimal digits of `num/den`, correctly rounded (nearest, ties to even):
the `P`-digit integer and the decimal exponent of its first digit -/
def sigDigits (num den P : Nat) : Nat × Int :=
  let X := decExp num den
  let sh : Int := (Int.ofNat P - 1) - X
  let q := if sh ≥ 0 then divRoundEven (num * 10 ^ sh.toNat) den else divRoundEven num (den * 10 ^ (-sh).toNat)
  if q ≥ 10 ^ P then (q / 10, X + 1) else (q, X)

def dropTrailingZeros (ds : List Char) : List Char := (ds.reverse.dropWhile (· == '0')).reverse

/-- `%g` layout of the digit string `ds` (no trailing zeros, first digit non-zero) with decimal exponent `X` -/
def fmtG (ds : List Char) (X : Int) (P : Nat) : String :=
  if X < -4 || X ≥ Int.ofNat P then
    let mant := match ds with
      | [] => "0"
      | d :: r => if r.isEmpty then String.singleton d else String.singleton d ++ "." ++ String.ofList r
    let ex := X.natAbs
    let exs := if ex < 10 then "0" ++ toString ex else toString ex
    mant ++ "e" ++ (if X < 0 then "-" else "+") ++ exs
  else if X ≥ 0 then
    let n := X.toNat + 1
    let ip := ds.take n ++ List.replicate (n - ds.length) '0'
    let fp := ds.drop n
    if fp.isEmpty then String.ofList ip else String.ofList ip ++ "." ++ String.ofList fp
  else
    "0." ++ String.ofList (List.replicate (X.natAbs - 1) '0' ++ ds)

/-- `ostream << d` with `precision(P)` and default float field (`%.Pg`), without the sign -/
def printGAbs (bits : UInt64) (P : Nat) : String :=
  let expo := ((bits >>> 52) &&& 0x7ff).toNat
  let frac := (bits &&& 0xfffffffffffff).toNat
  if expo == 2047 then (if frac == 0 then "inf" else "nan")
  else if expo == 0 && frac == 0 then "0"
  else
    let m := if expo == 0 then frac else frac + 2 ^ 52
    let e2 : Int := if expo == 0 then -1074 else Int.ofNat expo - 1075
    let num := if e2 ≥ 0 then m * 2 ^ e2.toNat else m
    let den := if e2 ≥ 0 then 1 else 2 ^ (-e2).toNat
    let (q, X) := sigDigits num den P
    fmtG (dropTrailingZeros (toString q).toList) X P

def dblSign (bits : UInt64) : Bool := bits >>> 63 == 1

/-- the tail `print_double` appends when the text has neither `.` nor `e`.  `digits10 - str_.size() > 0` is an
unsigned comparison in the C++: it is false only when the size is exactly `digits10`. -/
def doubleTail (s : String) (P : Nat) : String :=
  if s.toList.contains '.' || s.toList.contains 'e' then "" else if s.length == P then "." else ".0"

/-- `print_double(d)` split into sign and unsigned text -/
def printDoubleAbs (bits : UInt64) : String :=
  let P := Gen.PrintNames.doubleDigits
  let a := printGAbs bits P
  let full := (if dblSign bits then "-" else "") ++ a
  a ++ doubleTail full P

def printDouble (bits : UInt64) : String := (if dblSign bits then "-" else "") ++ printDoubleAbs bits

/-! ### syntax trees and tokens -/

inductive BinOp where
  | add | sub | mul | div | pow | eq | ne | le | lt | gt | ge
  deriving DecidableEq, Repr, Inhabited

inductive PExpr where
  | num (s : String)
  | id (s : String)
  | neg (e : PExpr)
  | bin (o : BinOp) (a b : PExpr)
  | call (f : String) (args : List PExpr)
  | paren (e : PExpr)
  deriving Repr, Inhabited, BEq

/-- `minus true` is the binary minus the printer writes as `" - "`, `minus false` the prefix `"-"`;
the tokenizer (and the model parser) cannot tell them apart -/
inductive Tok where
  | num (s : String)
  | id (s : String)
  | plus
  | minus (spaced : Bool)
  | star | slash | pow
  | rel (o : BinOp)
  | lp | rp | comma
  deriving DecidableEq, Repr, Inhabited

def relText : BinOp → String
  | .eq => " == " | .ne => " != " | .le => " <= " | .lt => " < " | .gt => " > " | .ge => " >= "
  | _ => "?"

def Tok.text : Tok → String
  | .num s => s
  | .id s => s
  | .plus => " + "
  | .minus true => " - "
  | .minus false => "-"
  | .star => Gen.PrintNames.printMul
  | .slash => "/"
  | .pow => Gen.PrintNames.powOp
  | .rel o => relText o
  | .lp => "("
  | .rp => ")"
  | .comma => ", "

def opTok : BinOp → Tok
  | .add => .plus | .sub => .minus true | .mul => .star | .div => .slash | .pow => .pow
  | o => .rel o

mutual
  def flat : PExpr → List Tok
    | .num s => [.num s]
    | .id s => [.id s]
    | .neg e => .minus false :: flat e
    | .bin o a b => flat a ++ opTok o :: flat b
    | .call f args => .id f :: .lp :: (flatArgs args ++ [.rp])
    | .paren e => .lp :: (flat e ++ [.rp])
  def flatArgs : List PExpr → List Tok
    | [] => []
    | a :: t => flat a ++ flatRest t
  def flatRest : List PExpr → List Tok
    | [] => []
    | a :: t => .comma :: (flat a ++ flatRest t)
end

def toksText (ts : List Tok) : String := String.join (ts.map Tok.text)

/-! ### binding levels of parser.yy (translated table) -/

/-- 1-based index of the `%left/%right` line that declares `key`; 0 if undeclared -/
def levelIn (tbl : List (String × List String)) (key : String) : Nat :=
  let rec go : List (String × List String) → Nat → Nat
    | [], _ => 0
    | (_, ks) :: t, i => if ks.contains key then i else go t (i + 1)
  go tbl 1

def BinOp.key : BinOp → String
  | .add => "'+'" | .sub => "'-'" | .mul => "'*'" | .div => "'/'" | .pow => "POW"
  | .eq => "EQ" | .ne => "NE" | .le => "LE" | .lt => "'<'" | .gt => "'>'" | .ge => "GE"

def level (o : BinOp) : Nat := levelIn Gen.PrintNames.precTable o.key
def levelNeg : Nat := levelIn Gen.PrintNames.precTable "UMINUS"
def levelAtom : Nat := Gen.PrintNames.precTable.length + 1

def isRightAssoc (o : BinOp) : Bool :=
  match Gen.PrintNames.precTable.find? (fun l => l.2.contains o.key) with
  | some (a, _) => a == "right"
  | none => false

/-- syntactic level of the root of a tree -/
def lv : PExpr → Nat
  | .bin o _ _ => level o
  | .neg _ => levelNeg
  | _ => levelAtom

/-! ### the decisions of the C++ printer -/

/-- the four printed relational classes -/
def relOp? (h : String) : Option BinOp :=
  if h == "Equality" then some .eq
  else if h == "Unequality" then some .ne
  else if h == "LessThan" then some .le
  else if h == "StrictLessThan" then some .lt
  else none

def qIsOne (q : Q) : Bool := q.num == 1 && q.den == 1

/-- `RealDouble::is_negative()` is `i < 0` -/
def dblIsNeg (b : UInt64) : Bool := dblLt b 0

/-- `Precedence::getPrecedence` as the index in `PrecedenceEnum` (Relational 0, Add 1, Mul 2, Pow 3, Atom 4) -/
def cprec : Expr → Nat
  | add _ _ => 1
  | mul _ _ => 2
  | pow _ _ => 3
  | rat _ _ => 1
  | cplx re im => if re.num == 0 then (if qIsOne im then 4 else 2) else 1
  | int n => if n < 0 then 2 else 4
  | dbl b => if dblIsNeg b then 2 else 4
  | cdbl _ _ => 1
  | infty d => if d < 0 then 2 else 4      -- Precedence::bvisit(const Infty &): "-oo" starts with a unary minus
  | app h _ => if (relOp? h).isSome then 0 else 4
  | _ => 4

def parLT (e : Expr) (t : PExpr) (p : Nat) : PExpr := if cprec e < p then .paren t else t
def parLE (e : Expr) (t : PExpr) (p : Nat) : PExpr := if cprec e ≤ p then .paren t else t

/-- unsigned text / sign of an `mpz`, `mpq` -/
def natP (n : Nat) : PExpr := .num (toString n)
def intP (n : Int) : PExpr := if n < 0 then .neg (natP n.natAbs) else natP n.natAbs
/-- `s << mpq`: `n/d`, or `n` when the denominator is 1 -/
def ratAbsP (n : Nat) (d : Nat) : PExpr := if d == 1 then natP n else .bin .div (natP n) (natP d)
def ratP (n : Int) (d : Nat) : PExpr :=
  if d == 1 then intP n else .bin .div (intP n) (natP d)

def imagP : PExpr := .id Gen.PrintNames.imagSym

/-- `StrPrinter::bvisit(const Complex &)` -/
def cplxP (re im : Q) : PExpr :=
  let unit := im.den == 1 && (im.num == 1 || im.num == -1)      -- imaginary_ == sign(imaginary_)
  if re.num != 0 then
    let r := ratP re.num re.den
    let i := if unit then imagP else .bin .mul (ratAbsP im.num.natAbs im.den) imagP
    if im.num > 0 then .bin .add r i else .bin .sub r i
  else
    if unit then (if im.num > 0 then imagP else .neg imagP)
    else .bin .mul (ratP im.num im.den) imagP

def dblP (b : UInt64) : PExpr :=
  if dblSign b then .neg (.num (printDoubleAbs b)) else .num (printDoubleAbs b)

/-- `StrPrinter::bvisit(const ComplexDouble &)`: `x.i.imag() < 0` decides the sign, `-imag` is printed -/
def cdblP (r i : UInt64) : PExpr :=
  if dblIsNeg i then .bin .sub (dblP r) (.bin .mul (dblP (i ^^^ negZeroBits)) imagP)
  else .bin .add (dblP r) (.bin .mul (dblP i) imagP)

def isInt (e : Expr) (k : Int) : Bool := match e with | int n => n == k | _ => false
def isE (e : Expr) : Bool := match e with | const n => n == "E" | _ => false
def isHalf (e : Expr) : Bool := match e with | rat n d => n == 1 && d == 2 | _ => false

/-- `(is_a<Integer>(e) or is_a<Rational>(e)) and e.is_negative()` -/
def isNegRat (e : Expr) : Bool := match e with | int n => n < 0 | rat n _ => n < 0 | _ => false
def negNum : Expr → Expr
  | int n => int (-n)
  | rat n d => rat (-n) d
  | e => e
def numP : Expr → PExpr
  | int n => intP n
  | rat n d => ratP n d
  | _ => .id "?"

/-- `StrPrinter::_print_pow` -/
def powP (b e : Expr) (tb te : PExpr) : PExpr :=
  if isE b then .call "exp" [te]
  else if isHalf e then .call "sqrt" [tb]
  else .bin .pow (parLE b tb 3) (parLE e te 3)

/-- the tree of `'-' tokens(t)` as the parser groups it: the prefix minus binds tighter than every binary
operator except POW, so it attaches below the `+ - * /` (and relational) nodes of the left spine -/
def negLeft : PExpr → PExpr
  | .bin o a b => if level o < levelNeg then .bin o (negLeft a) b else .neg (.bin o a b)
  | t => .neg t

/-- the tree of `tokens(c) '*' tokens(t)`: `*` is left associative, the product attaches at the bottom of the
left spine of `t` -/
def mulLeft (c : PExpr) : PExpr → PExpr
  | .bin o a b => if level o < levelNeg then .bin o (mulLeft c a) b else .bin .mul c (.bin o a b)
  | t => .bin .mul c t

/-- if the first token of `flat t` is a minus: the tree of the remaining tokens -/
def stripNeg : PExpr → Option PExpr
  | .neg e => some e
  | .bin o a b => (stripNeg a).map fun a' => .bin o a' b
  | _ => none

/-- one `Add` dictionary entry `key ↦ coef` -/
def termP (k v : Expr) (tk tv : PExpr) : PExpr :=
  if isInt v 1 then parLT k tk 1
  else if isInt v (-1) then negLeft (parLT k tk 2)
  else mulLeft (parLT v tv 2) (parLT k tk 2)

/-- `PrinterBasicCmp` -/
def termLess (a b : Expr) : Bool := !(beq' a b) && cmp a b == -1

abbrev Item := Expr × Expr × PExpr × PExpr

/-- insertion into `std::map<…, PrinterBasicCmp>` kept as a sorted list (an equivalent key is not inserted) -/
def insertTerm (x : Item) : List Item → List Item
  | [] => [x]
  | y :: t => if termLess x.1 y.1 then x :: y :: t else if termLess y.1 x.1 then y :: insertTerm x t else y :: t

def sortTerms (l : List Item) : List Item := l.foldl (fun acc x => insertTerm x acc) []

/-- the `" + "` / `" - "` chain of `StrPrinter::bvisit(const Add &)`; `t[0] == '-'` is `stripNeg` -/
def chainAdd : List PExpr → PExpr
  | [] => .id ""
  | t :: rest => rest.foldl (fun acc u => match stripNeg u with
      | some u' => .bin .sub acc u'
      | none => .bin .add acc u) t

def addP (c : Expr) (tc : PExpr) (items : List Item) : PExpr :=
  let ts := (sortTerms items).map fun (k, v, tk, tv) => termP k v tk tv
  chainAdd (if isInt c 0 then ts else tc :: ts)

def chainMul : List PExpr → PExpr
  | [] => .num "1"
  | t :: rest => rest.foldl (fun acc u => .bin .mul acc u) t

/-- `StrPrinter::bvisit(const Mul &)` (`split_mul_coef()` is false for the plain printer) -/
def mulP (c : Expr) (tc : PExpr) (fs : List Item) : PExpr :=
  let isDen (b e : Expr) : Bool := isNegRat e && !(isE b)
  let numFs := (fs.filter fun (b, e, _, _) => !(isDen b e)).map fun (b, e, tb, te) =>
    if isInt e 1 then parLT b tb 2 else powP b e tb te
  let denFs := (fs.filter fun (b, e, _, _) => isDen b e).map fun (b, e, tb, _) =>
    if isInt e (-1) then parLT b tb 2 else powP b (negNum e) tb (numP (negNum e))
  let minus := isInt c (-1)
  let coefItems := if minus || isInt c 1 then [] else [parLT c tc 2]
  let numT := chainMul (coefItems ++ numFs)
  let whole := match denFs with
    | [] => numT
    | [d] => .bin .div numT d
    | ds => .bin .div numT (.paren (chainMul ds))
  if minus then negLeft whole else whole

def boolHeads : List String := ["And", "Or", "Xor", "Not"]

def appP (h : String) (targs : List PExpr) : PExpr :=
  match relOp? h, targs with
  | some o, [a, b] => .bin o a b
  | _, _ =>
    if boolHeads.contains h then .call h targs
    else match Gen.PrintNames.printNames.lookup h with
      | some nm => .call nm targs
      | none => .id "?"

mutual
  def layout : Expr → PExpr
    | int n => intP n
    | rat n d => ratP n d
    | cplx re im => cplxP re im
    | dbl b => dblP b
    | cdbl r i => cdblP r i
    | infty d => if d < 0 then .neg (.id "oo") else if d > 0 then .id "oo" else .id "zoo"
    | nan => .id "nan"
    | sym n => .id n
    | dummy n _ => .id n
    | const n => .id n
    | add c ts => addP c (layout c) (layoutPairs ts)
    | mul c fs => mulP c (layout c) (layoutPairs fs)
    | pow b e => powP b e (layout b) (layout e)
    | fsym n args => .call n (layoutArgs args)
    | app h args => appP h (layoutArgs args)
    | Expr.bool b => .id (if b then "True" else "False")
  def layoutArgs : List Expr → List PExpr
    | [] => []
    | a :: t => layout a :: layoutArgs t
  def layoutPairs : List (Expr × Expr) → List Item
    | [] => []
    | (k, v) :: t => (k, v, layout k, layout v) :: layoutPairs t
end

def toks (e : Expr) : List Tok := flat (layout e)

/-- `str(e)` -/
def render (e : Expr) : String := toksText (toks e)

/-! ### the fragment the driver answers for -/

def isIdStart (c : Char) : Bool := c.isAlpha || c == '_' || c.toNat ≥ 128
def isIdCont (c : Char) : Bool := isIdStart c || c.isDigit

/-- `ident = char (char | dig)*` of tokenizer.re (on the UTF-8 text: every non-ASCII byte is a `char`) -/
def isIdent (s : String) : Bool :=
  match s.toList with
  | [] => false
  | c :: r => isIdStart c && r.all isIdCont

def arityOf (h : String) : Option TC.Kind := kindOfCode ((ofName h).getD TC.count)

/-- nodes whose printing is modelled -/
def printedNode : Expr → Bool
  | sym n => isIdent n
  | const n => isIdent n
  | fsym n args => isIdent n && !args.isEmpty
  | dummy _ _ => false
  | app h args =>
    if (relOp? h).isSome then args.length == 2
    else if h == "Not" then args.length == 1
    else if boolHeads.contains h then !args.isEmpty
    else (Gen.PrintNames.printNames.lookup h).isSome && !args.isEmpty
  | add _ ts => !ts.isEmpty
  | _ => true

def printed (e : Expr) : Bool := modelled e && allNodes printedNode e

end StrP
end SymVerif
