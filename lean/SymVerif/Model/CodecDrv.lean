/-
Driver logic shared by the C19 and C20 drivers (certificate-checking mode: each input line is
`op<TAB>implementation output`, the answer is `ok`, `SKIP:<why>` or a reason).

ops
  tc <n>                 class table: name, is_base_of flags (Number Integer Boolean Set), loader status
  ld <hex>               Basic::loads on the bytes: canonical dump of the loaded object or the exception token
  rt <mode> <sexp>       implementation output = hex of the real `dumps()`; the checker decodes it with the model,
                         compares the decoded tree with <sexp>, and re-encodes the decoded graph (same addresses,
                         same entry order) to exactly the same bytes
  mrt <r> <c> <sexp>…    the same for DenseMatrix::dumps
  mld <hex>              DenseMatrix::loads
-/
import SymVerif.DrvCommon
import SymVerif.Model.Codec

namespace SymVerif.Codec

/-- allocation cap of the harness (`operator new` above this throws std::bad_alloc) -/
def harnessCap : Nat := 2 ^ 24

def hexVal (c : Char) : Option Nat :=
  if '0' ≤ c ∧ c ≤ '9' then some (c.toNat - 48)
  else if 'a' ≤ c ∧ c ≤ 'f' then some (c.toNat - 87) else none

def unhexL : List Char → Option Bytes
  | [] => some []
  | a :: b :: t => do
    let x ← hexVal a
    let y ← hexVal b
    let r ← unhexL t
    pure (UInt8.ofNat (x * 16 + y) :: r)
  | [_] => none

def unhex (s : String) : Option Bytes := unhexL s.toList

def hexOf (bs : Bytes) : String :=
  String.ofList (bs.foldr (fun b acc => Expr.hexDigit (b.toNat / 16) :: Expr.hexDigit (b.toNat % 16) :: acc) [])

def errTok : Err → String
  | .hdrEof => "E:Other"
  | .lengthError => "E:Other"
  | .badAlloc => "E:BadAlloc"
  | .ctor t => t
  | .unmodelled w => "SKIP:unmodelled:" ++ w
  | .fuel => "E:fuel"
  | _ => "E:Serialization"

mutual
  /-- objects whose argument order in the dump depends on hash values (multiset / map iteration) -/
  def unstable : Expr → Bool
    | .add c ts => unstable c || unstablePairs ts
    | .mul c ts => unstable c || unstablePairs ts
    | .pow b e => unstable b || unstable e
    | .fsym _ args => unstableList args
    | .app h args =>
      (h == "Derivative" && !((args.drop 1).map Expr.dumpCanon).all (fun d => some d == ((args.drop 1).map Expr.dumpCanon).head?))
        || (h == "Subs" && args.length > 3) || unstableList args
    | _ => false
  def unstableList : List Expr → Bool
    | [] => false
    | a :: t => unstable a || unstableList t
  def unstablePairs : List (Expr × Expr) → Bool
    | [] => false
    | (k, v) :: t => unstable k || unstable v || unstablePairs t
end

def showRes : Except Err Expr → String
  | .ok e => if unstable e then "SKIP:order" else Expr.dumpCanon e
  | .error e => errTok e

def flagsOf (n : String) : String :=
  String.ofList [if isA .number n then 'N' else '-', if isA .integer n then 'I' else '-',
                 if isA .boolean n then 'B' else '-', if isA .set n then 'S' else '-']

def tcLine (n : Nat) : String :=
  if n ≥ count then "- range"
  else
    let nm := className (UInt8.ofNat n)
    let k := kindOfName nm
    let st := if k = .unavailable then "unknown" else if (layoutOf k).isSome then "impl" else "notimpl"
    nm ++ " " ++ (if k = .unavailable then "----" else flagsOf nm) ++ " " ++ st

mutual
  def symAddrs : T → List (Bytes × UInt64)
    | .mk a tc flds =>
      (if className tc == "Symbol" then
        match flds with | [.str s] => [(s, a)] | _ => []
       else []) ++ symAddrsF flds
  def symAddrsF : List Fld → List (Bytes × UInt64)
    | [] => []
    | .ptr t :: fs => symAddrs t ++ symAddrsF fs
    | .seq _ l :: fs => symAddrsL l ++ symAddrsF fs
    | _ :: fs => symAddrsF fs
  def symAddrsL : List T → List (Bytes × UInt64)
    | [] => []
    | t :: ts => symAddrs t ++ symAddrsL ts
end

/-- with maximal sharing every symbol name is one object: one address per name -/
def symbolsShared (t : T) : Bool :=
  let l := symAddrs t
  l.all fun (s, a) => l.all fun (s', a') => s != s' || a == a'

def checkRt (mode : String) (sexp : String) (impl : String) : String :=
  match Expr.parse sexp with
  | none => "bad-sexp"
  | some e =>
    match unhex impl with
    | none => "impl-not-hex:" ++ impl
    | some bs =>
      match decodeT harnessCap bs with
      | .error er => "model-decode:" ++ errTok er
      | .ok t =>
        match semT t with
        | .error er => "model-sem:" ++ errTok er
        | .ok e' =>
          if unstable e then "SKIP:order"
          else if Expr.dumpCanon e' != Expr.dumpCanon e then "decoded=" ++ Expr.dumpCanon e'
          else if encodeT t != bs then "reencode-differs"
          else if mode == "share" && !symbolsShared t then "symbol-not-shared"
          else "ok"

def checkMrt (r c : Nat) (sexps : String) (impl : String) : String :=
  match Expr.parseMany sexps with
  | none => "bad-sexp"
  | some es =>
    match unhex impl with
    | none => "impl-not-hex:" ++ impl
    | some bs =>
      match decodeMatrixT harnessCap bs with
      | .error er => "model-decode:" ++ errTok er
      | .ok (r', c', ts) =>
        match semTs ts with
        | .error er => "model-sem:" ++ errTok er
        | .ok es' =>
          if r' != r || c' != c then s!"dims={r'}x{c'}"
          else if es'.map Expr.dumpCanon != es.map Expr.dumpCanon then "decoded-differs"
          else if encodeMatrix r c ts != bs then "reencode-differs"
          else "ok"

def showMld (bs : Bytes) : String :=
  match decodeMatrixT harnessCap bs with
  | .error e => errTok e
  | .ok (r, c, ts) =>
    match semTs ts with
    | .error e => errTok e
    | .ok es =>
      if es.length != r * c then s!"{r} {c} MISMATCH {es.length}"
      else if es.any unstable then "SKIP:order"
      else " ".intercalate (toString r :: toString c :: es.map Expr.dumpCanon)

/-- child `i` of an expression in the slot numbering of `toT` (enough for symbols inside Add/Mul/Pow/functions) -/
def childAt : Expr → Nat → Option Expr
  | .add c ts, i => if i == 0 then some c else
      (ts.foldr (fun p acc => p.1 :: p.2 :: acc) [])[i - 1]?
  | .mul c ts, i => if i == 0 then some c else
      (ts.foldr (fun p acc => p.1 :: p.2 :: acc) [])[i - 1]?
  | .pow b e, i => if i == 0 then some b else if i == 1 then some e else none
  | .fsym _ args, i => args[i]?
  | .app _ args, i => args[i]?
  | _, _ => none

def subtermAt (e : Expr) : List Nat → Option Expr
  | [] => some e
  | i :: p => (childAt e i).bind (fun c => subtermAt c p)

def pathAddr (p : List Nat) : UInt64 := UInt64.ofNat (p.foldl (fun acc d => acc * 64 + d + 1) 0x5000)

/-- addresses for `enc`: every slot its own address; in mode "share" all occurrences of a symbol share one -/
def encLab (share : Bool) (e : Expr) (p : List Nat) : UInt64 :=
  match subtermAt e p with
  | some (.sym s) => if share then UInt64.ofNat (0x7000000000 + (s.toList.foldl (fun acc c => (acc * 131 + c.toNat) % 1000000007) 7)) else pathAddr p
  | _ => pathAddr p

def verdict (model impl : String) : String :=
  if model.startsWith "SKIP" then model
  else if model == impl then "ok" else "model=" ++ model

def restAfter (line : String) (n : Nat) : String := (line.drop n).toString

def handleV (line : String) : String :=
  match line.splitOn "\t" with
  | [op, impl] =>
    match op.splitOn " " with
    | ["tc", n] => match n.toNat? with
      | some n => verdict (tcLine n) impl
      | none => "bad-op"
    | ["ld", h] => match unhex h with
      | some bs => verdict (showRes (decode harnessCap bs)) impl
      | none => "bad-op"
    | ["deep", _, _] => "SKIP:oracle-only"
    | ["mld", h] => match unhex h with
      | some bs => verdict (showMld bs) impl
      | none => "bad-op"
    | "enc" :: mode :: _ =>
      match Expr.parse (restAfter op (5 + mode.length)) with
      | some e => hexOf (encode (encLab (mode == "share") e) e)
      | none => "bad-sexp"
    | "rt" :: mode :: _ => checkRt mode (restAfter op (4 + mode.length)) impl
    | "mrt" :: r :: c :: _ =>
      match r.toNat?, c.toNat? with
      | some rn, some cn => checkMrt rn cn (restAfter op (6 + r.length + c.length)) impl
      | _, _ => "bad-op"
    | _ => "bad-op"
  | _ => "bad-line"

end SymVerif.Codec
