/-
Model of symengine/sets.cpp + set_funcs.cpp on the fragment

  Interval / FiniteSet over Q ∪ {-oo, +oo}, EmptySet, UniversalSet, Reals, Rationals, Integers, Naturals,
  Naturals0, Union, Intersection, Complement

(no Complexes, ConditionSet, ImageSet, no symbolic endpoints / elements).  Every class's `contains`, `set_union`,
`set_intersection`, `set_complement`, the free functions `set_union`, `set_intersection`, `set_complement(_helper)`
and `sup`, `inf`, `boundary`, `interior`, `closure` are mirrored branch by branch.

Containers.  `set_basic` / `set_set` are `std::set`s ordered by `RCPBasicKeyLess` = by `hash()` first.  Several
algorithms iterate them and their result depends on the order, so the model keeps every container as a list *in
iteration order* and reproduces the hash (`ENum.hash`, `SetE.hash`; the TypeID seeds are re-read from
type_codes.inc by tools/extract/c27_typecodes.py).  Two different elements with the same hash would be ordered by
`__cmp__` in the C++; the model puts the new one behind (not observed for the inputs of the harness).

Recursion.  The C++ methods call each other through virtual dispatch without any syntactic decrease (and some
call chains of the original code never return).  The model ties the knot through fuel: `ops (n+1)` is one
unfolding of all methods on top of `ops n`, `ops 0` answers `Err.fuel`.

The code modelled is the code *as repaired* (see docs/C27.md): the `…Orig` definitions at the end keep the
original shape of the repaired branches so that the defects can be stated and refuted in Props/C27.lean.

Core Lean only: this file is linked into the native driver.
-/
import SymVerif.Gen.SetsTypeCodes

namespace SymVerif.Sets
open SymVerif.Gen.SetsTC

inductive Err where
  | assert     -- a SYMENGINE_ASSERT fails (assertion builds)
  | notImpl    -- NotImplementedError
  | runtime    -- SymEngineException
  | fuel       -- recursion fuel exhausted (the C++ would not return)
  | oob        -- undefined behaviour in the C++ (`*in.begin()` of an empty container)
  | null       -- a visitor returned a null RCP
  | defect     -- a branch of the C++ that is known to be wrong and is deliberately not modelled
               -- (Complement::set_union, Complement::set_complement, Intersection::set_complement)
  deriving Repr, DecidableEq

/-- Numbers of the fragment: `Infty(-1)`, `Integer`/`Rational`, `Infty(1)`. -/
inductive ENum where
  | ninf
  | fin (q : Rat)
  | pinf
  deriving DecidableEq, Repr

namespace ENum

/-- numeric `<` on the extended rationals -/
def lt : ENum → ENum → Bool
  | ninf, ninf => false
  | ninf, _ => true
  | fin _, ninf => false
  | fin a, fin b => decide (a < b)
  | fin _, pinf => true
  | pinf, _ => false

/-- `max({a, b})` of functions.cpp on two numbers -/
def max2 (a b : ENum) : ENum := if lt a b then b else a
/-- `min({a, b})` -/
def min2 (a b : ENum) : ENum := if lt b a then b else a

/-- `is_a<Integer>` -/
def isInteger : ENum → Bool
  | fin q => q.den == 1
  | _ => false

/-- `is_a<Integer>(x) and x.is_positive()` -/
def isPosInteger : ENum → Bool
  | fin q => q.den == 1 && decide (0 < q.num)
  | _ => false

/-- `is_a<Integer>(x) and not x.is_negative()` -/
def isNonnegInteger : ENum → Bool
  | fin q => q.den == 1 && decide (0 ≤ q.num)
  | _ => false

/-- `Number::is_exact` (false for `Infty`) -/
def isExact : ENum → Bool
  | fin _ => true
  | _ => false

def isInf : ENum → Bool
  | fin _ => false
  | _ => true

/-- `hash_combine` for integral values (basic-inl.h) -/
def hcomb (seed v : UInt64) : UInt64 :=
  seed ^^^ (v + (0x9e3779b9 : UInt64) + (seed <<< 6) + (seed >>> 2))

/-- `Integer::__hash__`, `Rational::__hash__`, `Infty::__hash__` -/
def hash : ENum → UInt64
  | fin q =>
    if q.den == 1 then UInt64.ofInt q.num
    else hcomb (hcomb tcRational (UInt64.ofInt q.num)) (UInt64.ofInt (Int.ofNat q.den))
  | pinf => hcomb tcInfty (UInt64.ofInt 1)
  | ninf => hcomb tcInfty (UInt64.ofInt (-1))

end ENum

open ENum (hcomb)

/-- Set objects.  `fs`, `un`, `inter` keep their container in iteration (hash) order. -/
inductive SetE where
  | empty | univ | reals | rats | ints | nats | nats0
  | iv (a b : ENum) (lo ro : Bool)
  | fs (l : List ENum)
  | un (l : List SetE)
  | inter (l : List SetE)
  | co (u a : SetE)
  deriving Repr, Inhabited

mutual
/-- structural equality = `eq(a, b)` on canonical objects -/
def SetE.beq' : SetE → SetE → Bool
  | .empty, .empty | .univ, .univ | .reals, .reals | .rats, .rats | .ints, .ints | .nats, .nats
  | .nats0, .nats0 => true
  | .iv a b l r, .iv a' b' l' r' => a == a' && b == b' && l == l' && r == r'
  | .fs l, .fs l' => l == l'
  | .un l, .un l' => SetE.beqL l l'
  | .inter l, .inter l' => SetE.beqL l l'
  | .co u a, .co u' a' => SetE.beq' u u' && SetE.beq' a a'
  | _, _ => false
def SetE.beqL : List SetE → List SetE → Bool
  | [], [] => true
  | a :: l, b :: l' => SetE.beq' a b && SetE.beqL l l'
  | _, _ => false
end

instance : BEq SetE := ⟨SetE.beq'⟩

mutual
/-- `__hash__` of the set classes -/
def SetE.hash : SetE → UInt64
  | .empty => tcEmptyset
  | .univ => tcUniversalset
  | .reals => tcReals
  | .rats => tcRationals
  | .ints => tcIntegers
  | .nats => tcNaturals
  | .nats0 => tcNaturals0
  | .iv a b lo ro =>
    hcomb (hcomb (hcomb (hcomb tcInterval a.hash) b.hash) (if lo then 1 else 0)) (if ro then 1 else 0)
  | .fs l => l.foldl (fun s e => hcomb s e.hash) tcFiniteset
  | .un l => SetE.hashL tcUnion l
  | .inter l => SetE.hashL tcIntersection l
  | .co u a => hcomb (hcomb tcComplement u.hash) a.hash
def SetE.hashL : UInt64 → List SetE → UInt64
  | s, [] => s
  | s, x :: t => SetE.hashL (hcomb s x.hash) t
end

/-! ### Containers (`std::set<…, RCPBasicKeyLess>`) as lists in iteration order -/

/-- `container.insert(x)` -/
def insertK {α : Type} [BEq α] (key : α → UInt64) (x : α) : List α → List α
  | [] => [x]
  | y :: t => if x == y then y :: t else if key x < key y then x :: y :: t else y :: insertK key x t

/-- a `set_basic` built from the listed numbers -/
def mkSB (l : List ENum) : List ENum := l.foldl (fun acc x => insertK ENum.hash x acc) []
/-- a `set_set` built from the listed sets -/
def mkSS (l : List SetE) : List SetE := l.foldl (fun acc x => insertK SetE.hash x acc) []
/-- insert all elements of `l` into the container `acc` -/
def insertAllSB (acc l : List ENum) : List ENum := l.foldl (fun acc x => insertK ENum.hash x acc) acc

/-- `container.erase(it)` for the first element equal to `x` -/
def eraseK {α : Type} [BEq α] (x : α) : List α → List α
  | [] => []
  | y :: t => if x == y then t else y :: eraseK x t

/-! ### Constructors -/

/-- `finiteset(container)` -/
def finiteset (l : List ENum) : SetE := if l.isEmpty then .empty else .fs l

/-- `Interval::is_canonical` -/
def ivCanonical (s e : ENum) : Bool :=
  if e == s then false else if ENum.min2 s e == e then false else true

/-- `interval(start, end, left_open, right_open)` -/
def interval (s e : ENum) (lo ro : Bool) : SetE :=
  if ivCanonical s e then .iv s e lo ro
  else if s == e && !(lo || ro) then finiteset (mkSB [s])
  else .empty

def SetE.isFs : SetE → Bool
  | .fs _ => true
  | _ => false

/-- `Union::is_canonical` -/
def unionCanonical (l : List SetE) : Bool :=
  decide (l.length > 1) && decide ((l.filter SetE.isFs).length < 2)

/-- `make_set_union(in)` (static helper of sets.cpp) -/
def makeUnion (l : List SetE) : Except Err SetE :=
  match l with
  | [] => .error .oob
  | [x] => .ok x
  | _ => if unionCanonical l then .ok (.un l) else .error .assert

/-- `make_set_intersection(in)` -/
def makeInter (l : List SetE) : Except Err SetE :=
  match l with
  | [] => .error .oob
  | [x] => .ok x
  | _ => .ok (.inter l)

/-! ### `contains` (always a definite answer on this fragment) -/

/-- `Interval::contains` -/
def ivContains (s e : ENum) (lo ro : Bool) (a : ENum) : Bool :=
  if s == a then !lo
  else if e == a then !ro
  else if ENum.min2 e a == e || ENum.max2 s a == s then false
  else true

mutual
def contains : SetE → ENum → Bool
  | .empty, _ => false
  | .univ, _ => true
  | .reals, _ => true
  | .rats, a => a.isExact
  | .ints, a => a.isInteger
  | .nats, a => a.isPosInteger
  | .nats0, a => a.isNonnegInteger
  | .iv s e lo ro, a => ivContains s e lo ro a
  | .fs l, a => l.contains a
  | .un l, a => containsAny l a
  | .inter l, a => containsAll l a
  | .co u c, a => contains u a && !contains c a
/-- `Union::contains` : the first member that answers True -/
def containsAny : List SetE → ENum → Bool
  | [], _ => false
  | x :: t, a => contains x a || containsAny t a
/-- `Intersection::contains` (repaired: the first member that answers False) -/
def containsAll : List SetE → ENum → Bool
  | [], _ => true
  | x :: t, a => contains x a && containsAll t a
end

/-! ### Interval with Interval -/

/-- `Interval::set_intersection(Interval)` -/
def ivInterIv (s1 e1 : ENum) (lo1 ro1 : Bool) (s2 e2 : ENum) (lo2 ro2 : Bool) : SetE :=
  let start_end := ENum.min2 s1 e2
  let end_start := ENum.min2 e1 s2
  if s1 == start_end && s2 == end_start then
    let start_start := ENum.min2 s1 s2
    let end_end := ENum.min2 e1 e2
    let start := if s1 != s2 then (if s1 == start_start then s2 else s1) else s1
    let lo := if s1 != s2 then (if s1 == start_start then lo2 else lo1) else (lo1 || lo2)
    let end_ := if e1 != e2 then (if e1 == end_end then e1 else e2) else e1
    let ro := if e1 != e2 then (if e1 == end_end then ro1 else ro2) else (ro1 || ro2)
    interval start end_ lo ro
  else .empty

/-- `Interval::set_union(Interval)`; `touchFix` selects the repaired test for two intervals that touch. -/
def ivUnionIvWith (touchFix : Bool) (s1 e1 : ENum) (lo1 ro1 : Bool) (s2 e2 : ENum) (lo2 ro2 : Bool) :
    Except Err SetE :=
  let start_start := ENum.max2 s1 s2
  let end_end := ENum.min2 e1 e2
  let m := ENum.min2 start_start end_end
  if (end_end == start_start && end_end == m
        && ((end_end == e1 && ro1 && (lo2 || !touchFix)) || (end_end == e2 && ro2 && (lo1 || !touchFix))))
      || (end_end == m && !(end_end == start_start)) then
    makeUnion (mkSS [.iv s1 e1 lo1 ro1, .iv s2 e2 lo2 ro2])
  else
    let start := if ENum.min2 s1 s2 == s1 then s1 else s2
    let end_ := if ENum.max2 e1 e2 == e1 then e1 else e2
    let lo := (s1 != start || lo1) && (s2 != start || lo2)
    let ro := (e1 != end_ || ro1) && (e2 != end_ || ro2)
    .ok (interval start end_ lo ro)

def ivUnionIv := ivUnionIvWith true

/-- the two candidate pieces of `Interval::set_complement(Interval)` (`other \ this`) -/
def ivComplPieces (s1 e1 : ENum) (lo1 ro1 : Bool) (s2 e2 : ENum) (lo2 ro2 : Bool) : List SetE :=
  let c1 := if ENum.max2 s1 s2 == s1 then [interval s2 s1 lo2 (!lo1)] else []
  let c2 := if ENum.min2 e1 e2 == e1 then [interval e1 e2 (!ro1) ro2] else []
  mkSS (c1 ++ c2)

/-! ### Interval with Integers / Naturals / Naturals0 -/

/-- the integers `first, first+1, …` (`count` of them), as numbers -/
def intRange (first : Int) : Nat → List ENum
  | 0 => []
  | n + 1 => ENum.fin (first : Rat) :: intRange (first + 1) n

/-- `Interval::set_intersection(o)` for `o` ∈ {Integers, Naturals, Naturals0}, finite end points.
    `kind`: 0 Integers, 1 Naturals, 2 Naturals0 -/
def ivInterInts (s e : Rat) (lo ro : Bool) (kind : Nat) : SetE :=
  let first0 := s.ceil
  let last0 := e.floor
  let first1 := if kind == 1 && !(decide (0 < first0)) then 1 else if kind == 2 && decide (first0 < 0) then 0 else first0
  let first := if ((first1 : Int) : Rat) == s && lo then first1 + 1 else first1
  let last := if ((last0 : Int) : Rat) == e && ro then last0 - 1 else last0
  if last < first then .empty
  else finiteset (mkSB (intRange first (last - first + 1).toNat))

/-! ### FiniteSet with Interval / number sets -/

/-- loop state of `FiniteSet::set_union(Interval)` -/
structure FsUnionSt where
  left : Bool
  right : Bool
  container : List ENum

/-- `FiniteSet::set_union(Interval)` -/
def fsUnionIv (l : List ENum) (s e : ENum) (lo ro : Bool) : Except Err SetE :=
  let st := l.foldl (fun (st : FsUnionSt) a =>
      if ivContains s e lo ro a then st
      else if st.left && s == a then { st with left := false }
      else if st.right && e == a then { st with right := false }
      else { st with container := insertK ENum.hash a st.container })
    { left := lo, right := ro, container := [] }
  let o := SetE.iv s e lo ro
  if !st.container.isEmpty then
    if st.left == lo && st.right == ro then makeUnion (mkSS [finiteset st.container, o])
    else makeUnion (mkSS [finiteset st.container, interval s e st.left st.right])
  else
    if st.left == lo && st.right == ro then .ok o
    else .ok (interval s e st.left st.right)

/-- insertion sort by numeric value (the repaired `FiniteSet::set_complement(Interval)` sorts its elements) -/
def insertNum (x : ENum) : List ENum → List ENum
  | [] => [x]
  | y :: t => if ENum.lt x y then x :: y :: t else y :: insertNum x t
def sortNum (l : List ENum) : List ENum := l.foldl (fun acc x => insertNum x acc) []

/-- loop state of `FiniteSet::set_complement(Interval)`: `last`, `left_open`, `right_open`, `intervals` -/
structure FsComplSt where
  last : ENum
  lo : Bool
  ro : Bool
  intervals : List SetE

/-- the element loop of `FiniteSet::set_complement(Interval)` (`continue` / `break` / cut) -/
def fsComplLoop (s e : ENum) : List ENum → FsComplSt → FsComplSt
  | [], st => st
  | a :: t, st =>
    if ENum.max2 a s == s then fsComplLoop s e t (if a == s then { st with lo := true } else st)
    else if ENum.max2 a e == a then (if a == e then { st with ro := true } else st)
    else fsComplLoop s e t
      { st with intervals := insertK SetE.hash (interval st.last a st.lo true) st.intervals, last := a, lo := true }

/-- `FiniteSet::set_complement(Interval)` over the element sequence `elems` (numerically sorted in the repaired
    code, the hash-ordered container in the original) -/
def fsComplIvOn (elems : List ENum) (s e : ENum) (lo ro : Bool) : Except Err SetE :=
  let st := fsComplLoop s e elems { last := s, lo := lo, ro := ro, intervals := [] }
  let ivs := if ENum.max2 st.last e == e then insertK SetE.hash (interval st.last e st.lo st.ro) st.intervals
             else st.intervals
  makeUnion ivs

def fsComplIv (l : List ENum) (s e : ENum) (lo ro : Bool) : Except Err SetE :=
  fsComplIvOn (sortNum l) s e lo ro

/-- membership test used by the FiniteSet/number-set branches; `kind` as in `ivInterInts` -/
def inNumSet (kind : Nat) (a : ENum) : Bool :=
  if kind == 0 then a.isInteger else if kind == 1 then a.isPosInteger else a.isNonnegInteger

def numSet (kind : Nat) : SetE := if kind == 0 then .ints else if kind == 1 then .nats else .nats0

/-! ### The mutually recursive methods, one unfolding on top of `r` -/

/-- The recursive entry points: methods `a->set_union(b)` …, and the free functions on a `set_set`. -/
structure Ops where
  mu : SetE → SetE → Except Err SetE      -- a->set_union(b)
  mi : SetE → SetE → Except Err SetE      -- a->set_intersection(b)
  mc : SetE → SetE → Except Err SetE      -- a->set_complement(b)   ( = b \ a )
  nu : List SetE → Except Err SetE        -- SymEngine::set_union(set_set)
  ni : List SetE → Except Err SetE        -- SymEngine::set_intersection(set_set)

def Ops.bottom : Ops :=
  { mu := fun _ _ => .error .fuel, mi := fun _ _ => .error .fuel, mc := fun _ _ => .error .fuel,
    nu := fun _ => .error .fuel, ni := fun _ => .error .fuel }

/-- map a fallible function over a list -/
def mapE {α β : Type} (f : α → Except Err β) : List α → Except Err (List β)
  | [] => .ok []
  | x :: t => do
    let y ← f x
    let ys ← mapE f t
    pure (y :: ys)

/-- left fold with a fallible step -/
def foldE {α β : Type} (f : β → α → Except Err β) : β → List α → Except Err β
  | b, [] => .ok b
  | b, x :: t => do
    let b' ← f b x
    foldE f b' t

/-- `set_complement_helper(container, uni)` = `uni \ container` -/
def complHelper (r : Ops) (container uni : SetE) : Except Err SetE :=
  match uni with
  | .un l => do
    let parts ← mapE (fun a => r.mc container a) l
    r.nu (mkSS parts)
  | .empty => .ok .empty
  | .fs l => .ok (finiteset (l.filter (fun a => !contains container a)))
  | _ => .ok (.co uni container)

/-- `temp` is just the unsimplified union of `o` and `it` (repaired comparison, no temporary `Union`) -/
def unionUnchanged (temp o it : SetE) : Bool :=
  let pair := mkSS [o, it]
  match pair with
  | [x] => temp == x
  | _ => (match temp with
          | .un c => SetE.beqL c pair
          | _ => false)

/-- the member loop of `Union::set_union(o)` -/
def unionLoop (r : Ops) (o : SetE) (container : List SetE) : List SetE → Except Err SetE
  | [] => makeUnion (insertK SetE.hash o container)
  | it :: rest => do
    let temp ← r.mu o it
    if !unionUnchanged temp o it then r.nu (insertK SetE.hash temp (eraseK it container))
    else unionLoop r o container rest

/-- the member loop of `Intersection::set_intersection(o)` -/
def interLoop (r : Ops) (o : SetE) (container : List SetE) : List SetE → Except Err SetE
  | [] => makeInter (insertK SetE.hash o container)
  | it :: rest => do
    let temp ← r.mi o it
    let un ← makeInter (mkSS [o, it])
    if !(temp == un) then r.ni (insertK SetE.hash temp (eraseK it container))
    else interLoop r o container rest

/-- `x->set_union(o)` -/
def muStep (r : Ops) (x o : SetE) : Except Err SetE :=
  match x with
  | .empty => .ok o
  | .univ => .ok .univ
  | .reals =>
    match o with
    | .iv .. | .empty | .reals | .ints | .rats | .nats | .nats0 => .ok .reals
    | .fs _ => r.mu o x
    | .un _ | .univ => r.mu o x
    | _ => makeUnion (mkSS [x, o])
  | .rats =>
    match o with
    | .empty | .ints | .rats | .nats | .nats0 => .ok .rats
    | .fs _ | .reals => r.mu o x
    | .iv .. => makeUnion (mkSS [x, o])
    | .un _ | .univ => r.mu o x
    | _ => makeUnion (mkSS [x, o])
  | .ints =>
    match o with
    | .ints | .empty | .nats | .nats0 => .ok .ints
    | .reals => .ok .reals
    | .rats => .ok .rats
    | .fs _ => r.mu o x
    | .univ => .ok .univ
    | _ => makeUnion (mkSS [x, o])
  | .nats =>
    match o with
    | .empty => .ok .nats
    | .nats | .nats0 | .ints | .reals | .rats | .univ => .ok o
    | .fs _ => r.mu o x
    | _ => makeUnion (mkSS [x, o])
  | .nats0 =>
    match o with
    | .empty | .nats => .ok .nats0
    | .nats0 | .ints | .reals | .rats | .univ => .ok o
    | .fs _ => r.mu o x
    | _ => makeUnion (mkSS [x, o])
  | .iv s1 e1 lo1 ro1 =>
    match o with
    | .iv s2 e2 lo2 ro2 => ivUnionIv s1 e1 lo1 ro1 s2 e2 lo2 ro2
    | .univ | .empty | .fs _ | .un _ | .reals | .rats | .ints | .nats | .nats0 => r.mu o x
    | _ => makeUnion (mkSS [x, o])
  | .fs l =>
    match o with
    | .fs l2 => .ok (finiteset (insertAllSB l l2))
    | .iv s e lo ro => fsUnionIv l s e lo ro
    | .reals => .ok .reals
    | .rats => .ok .rats
    | .ints | .nats | .nats0 =>
      let kind := match o with | .ints => 0 | .nats => 1 | _ => 2
      let container := l.filter (fun a => !inNumSet kind a)
      if container.isEmpty then .ok o else makeUnion (mkSS [o, finiteset container])
    | .univ | .empty | .un _ => r.mu o x
    | _ => makeUnion (mkSS [x, o])
  | .un c => unionLoop r o c c
  | .inter c => do
    let parts ← mapE (fun a => r.mu a o) c
    r.ni (mkSS parts)
  | .co _ _ => .error .defect          -- Complement::set_union drops the part of `o` outside the universe

/-- `x->set_intersection(o)` -/
def miStep (r : Ops) (x o : SetE) : Except Err SetE :=
  match x with
  | .empty => .ok .empty
  | .univ => .ok o
  | .reals =>
    match o with
    | .iv .. | .empty | .reals | .rats | .ints | .nats | .nats0 => .ok o
    | .fs _ => r.mi o x
    | _ => r.ni (mkSS [x, o])
  | .rats =>
    match o with
    | .empty | .rats | .ints | .nats | .nats0 => .ok o
    | .fs _ | .reals => r.mi o x
    | .iv .. => makeInter (mkSS [x, o])
    | _ => r.ni (mkSS [x, o])
  | .ints =>
    match o with
    | .empty | .ints | .nats | .nats0 => .ok o
    | .reals | .rats => .ok .ints
    | .fs _ | .iv .. => r.mi o x
    | _ => r.ni (mkSS [x, o])
  | .nats =>
    match o with
    | .empty | .nats => .ok o
    | .nats0 | .ints | .reals | .rats => .ok .nats
    | .fs _ | .iv .. => r.mi o x
    | _ => r.ni (mkSS [x, o])
  | .nats0 =>
    match o with
    | .empty | .nats | .nats0 => .ok o
    | .ints | .reals | .rats => .ok .nats0
    | .fs _ | .iv .. => r.mi o x
    | _ => r.ni (mkSS [x, o])
  | .iv s1 e1 lo1 ro1 =>
    match o with
    | .iv s2 e2 lo2 ro2 => .ok (ivInterIv s1 e1 lo1 ro1 s2 e2 lo2 ro2)
    | .ints | .nats | .nats0 =>
      let kind := match o with | .ints => 0 | .nats => 1 | _ => 2
      match s1, e1 with
      | .fin s, .fin e => .ok (ivInterInts s e lo1 ro1 kind)
      | _, _ => makeInter (mkSS [x, o])
    | .univ | .empty | .fs _ | .un _ | .rats | .reals => r.mi o x
    | _ => makeInter (mkSS [x, o])
  | .fs l =>
    match o with
    | .fs _ => r.ni (mkSS [x, o])
    | .iv s e lo ro => .ok (finiteset (l.filter (fun a => ivContains s e lo ro a)))
    | .reals => .ok (finiteset l)
    | .rats => .ok (finiteset (l.filter ENum.isExact))
    | .ints | .nats | .nats0 =>
      let kind := match o with | .ints => 0 | .nats => 1 | _ => 2
      .ok (finiteset (l.filter (inNumSet kind)))
    | .univ | .empty | .un _ => r.mi o x
    | _ => makeInter (mkSS [x, o])
  | .un c => do
    let parts ← mapE (fun a => r.mi a o) c
    r.nu (mkSS parts)
  | .inter c => interLoop r o c c
  | .co _ _ => r.ni (mkSS [x, o])

/-- `x->set_complement(o)` = `o \ x` -/
def mcStep (r : Ops) (x o : SetE) : Except Err SetE :=
  match x with
  | .empty => .ok o
  | .univ => .ok .empty
  | .reals =>
    match o with
    | .empty | .reals | .rats | .ints | .iv .. | .nats | .nats0 => .ok .empty
    | .univ => .ok (.co o .reals)
    | _ => complHelper r x o
  | .rats =>
    match o with
    | .empty | .rats | .ints | .nats | .nats0 => .ok .empty
    | .univ | .reals | .iv .. => .ok (.co o .rats)
    | _ => complHelper r x o
  | .ints =>
    match o with
    | .empty | .ints | .nats | .nats0 => .ok .empty
    | .univ | .rats | .reals => .ok (.co o .ints)
    | _ => complHelper r x o
  | .nats =>
    match o with
    | .empty | .nats => .ok .empty
    | .univ | .ints | .rats | .reals => .ok (.co o .nats)
    | _ => complHelper r x o
  | .nats0 =>
    match o with
    | .empty | .nats0 | .nats => .ok .empty
    | .univ | .ints | .rats | .reals => .ok (.co o .nats0)
    | _ => complHelper r x o
  | .iv s1 e1 lo1 ro1 =>
    match o with
    | .iv s2 e2 lo2 ro2 =>
      match ivInterIv s1 e1 lo1 ro1 s2 e2 lo2 ro2 with
      | .empty => .ok o                                        -- repaired: disjoint intervals
      | _ => r.nu (ivComplPieces s1 e1 lo1 ro1 s2 e2 lo2 ro2)
    | _ => complHelper r x o
  | .fs l =>
    match o with
    | .fs l2 => .ok (finiteset (l2.filter (fun a => !l.contains a)))
    | .iv s e lo ro => fsComplIv l s e lo ro
    | _ => complHelper r x o
  | .un c => do
    let parts ← mapE (fun a => r.mc a o) c
    r.ni (mkSS parts)
  | .inter _ => .error .defect         -- Intersection::set_complement intersects the member complements
  | .co _ _ => .error .defect          -- Complement::set_complement computes (o ∪ U) \ A

def SetE.isUn : SetE → Bool
  | .un _ => true
  | _ => false
def SetE.isCo : SetE → Bool
  | .co _ _ => true
  | _ => false
def SetE.isEmptySet : SetE → Bool
  | .empty => true
  | _ => false
def SetE.isUniv : SetE → Bool
  | .univ => true
  | _ => false

/-- free function `set_union(const set_set &in)` -/
def nuStep (r : Ops) (l : List SetE) : Except Err SetE :=
  if l.any SetE.isUniv then .ok .univ
  else
    let combined := l.foldl (fun acc s => match s with | .fs e => insertAllSB acc e | _ => acc) []
    let input := l.filter (fun s => !s.isFs && !s.isEmptySet)
    match input with
    | [] => .ok (finiteset combined)
    | [x] => if combined.isEmpty then .ok x else r.mu (finiteset combined) x
    | _ => foldE (fun acc it => r.mu acc it) (finiteset combined) input

/-- free function `set_intersection(const set_set &in)` -/
def niStep (r : Ops) (l : List SetE) : Except Err SetE :=
  if l.isEmpty then .ok .univ
  else if l.any SetE.isEmptySet then .ok .empty
  else
    let incopy := l.filter (fun s => !s.isUniv)
    match incopy with
    | [] => .ok .univ
    | [x] => .ok x
    | _ =>
      let fsets := incopy.filter SetE.isFs
      let others := incopy.filter (fun s => !s.isFs)
      match fsets with
      | .fs cont :: rest =>
        .ok (finiteset (cont.filter (fun e => rest.all (fun s => contains s e) && others.all (fun s => contains s e))))
      | _ =>
        match incopy.find? SetE.isUn with
        | some (.un container) => do
          let incopy' := eraseK (SetE.un container) incopy
          let other ← r.ni incopy'
          let usets ← mapE (fun c => r.ni (mkSS [c, other])) container
          r.nu (mkSS usets)
        | _ =>
          match incopy.find? SetE.isCo with
          | some (.co uni container) => do
            let incopy' := insertK SetE.hash uni (eraseK (SetE.co uni container) incopy)
            let other ← r.ni incopy'
            r.mc container other
          | _ =>
            match incopy with
            | first :: rest => foldE (fun acc it => r.mi acc it) first rest
            | [] => .error .oob

/-- `ops n`: all methods with call depth at most `n` -/
def ops : Nat → Ops
  | 0 => Ops.bottom
  | n + 1 =>
    let r := ops n
    { mu := muStep r, mi := miStep r, mc := mcStep r, nu := nuStep r, ni := niStep r }

/-- call-depth budget used by the driver (the deepest chain seen on harness inputs is below 20) -/
def topFuel : Nat := 60
def top : Ops := ops topFuel

/-! ### sup / inf -/

def maxList : List ENum → Except Err ENum
  | [] => .error .runtime
  | x :: t => .ok (t.foldl ENum.max2 x)
def minList : List ENum → Except Err ENum
  | [] => .error .runtime
  | x :: t => .ok (t.foldl ENum.min2 x)

mutual
/-- `sup(s)` (`isSup = true`) / `inf(s)` -/
def supInf (isSup : Bool) : SetE → Except Err ENum
  | .reals | .rats | .ints => .ok (if isSup then .pinf else .ninf)
  | .nats => .ok (if isSup then .pinf else .fin 1)
  | .nats0 => .ok (if isSup then .pinf else .fin 0)
  | .iv s e _ _ => .ok (if isSup then e else s)
  | .fs l => if isSup then maxList l else minList l
  | .un l => do
    let vs ← supInfL isSup l
    if isSup then maxList vs else minList vs
  | .co _ _ => .error .notImpl
  | .empty | .univ | .inter _ => .error .runtime
def supInfL (isSup : Bool) : List SetE → Except Err (List ENum)
  | [] => .ok []
  | x :: t => do
    let v ← supInf isSup x
    let vs ← supInfL isSup t
    pure (v :: vs)
end

/-! ### boundary / interior / closure -/

/-- all elements of `l` except the one at position `i` -/
def dropIdx {α : Type} : Nat → List α → List α
  | _, [] => []
  | 0, _ :: t => t
  | n + 1, x :: t => x :: dropIdx n t

def boundary : Nat → SetE → Except Err SetE
  | 0, _ => .error .fuel
  | fuel + 1, s =>
    match s with
    | .empty | .univ | .reals => .ok .empty
    | .rats => .ok .reals
    | .ints => .ok .ints
    | .nats => .ok .nats
    | .nats0 => .ok .nats0
    | .iv a b _ _ => .ok (finiteset (mkSB [a, b]))
    | .fs l => .ok (.fs l)
    | .un l => do
      let idx := List.range l.length
      let pieces ← mapE (fun i => do
          let it := l.getD i .empty
          let interiors ← mapE (fun o => do
              let b ← boundary fuel o
              top.mc b o) (dropIdx i l)
          let bi ← boundary fuel it
          let u ← top.nu (mkSS interiors)
          top.mc u bi) idx
      top.nu (mkSS pieces)
    | .co _ _ => .error .notImpl
    | .inter _ => .error .null

def interior (s : SetE) : Except Err SetE := do
  let b ← boundary topFuel s
  top.mc b s

def closure (s : SetE) : Except Err SetE := do
  let b ← boundary topFuel s
  top.mu s b

/-! ### Expressions: every compound node is an operation of the library (the line protocol of the driver) -/

inductive Expr where
  | lit (s : SetE)                       -- empty univ reals rats ints nats nats0
  | iv (a b : ENum) (lo ro : Bool)       -- interval(a, b, lo, ro)
  | fs (l : List ENum)                   -- finiteset({…})
  | un (l : List Expr)                   -- set_union({…})
  | inn (l : List Expr)                  -- set_intersection({…})
  | co (u a : Expr)                      -- set_complement(u, a)
  | mu (a b : Expr)                      -- a->set_union(b)
  | mi (a b : Expr)
  | mc (a b : Expr)                      -- a->set_complement(b)
  | bd (a : Expr)
  | ir (a : Expr)
  | cl (a : Expr)
  deriving Repr, Inhabited

mutual
def evalE : Expr → Except Err SetE
  | .lit s => .ok s
  | .iv a b lo ro => .ok (interval a b lo ro)
  | .fs l => .ok (finiteset (mkSB l))
  | .un l => do
    let ss ← evalL l
    top.nu (mkSS ss)
  | .inn l => do
    let ss ← evalL l
    top.ni (mkSS ss)
  | .co u a => do
    let u' ← evalE u
    let a' ← evalE a
    top.mc a' u'
  | .mu a b => do
    let a' ← evalE a
    let b' ← evalE b
    top.mu a' b'
  | .mi a b => do
    let a' ← evalE a
    let b' ← evalE b
    top.mi a' b'
  | .mc a b => do
    let a' ← evalE a
    let b' ← evalE b
    top.mc a' b'
  | .bd a => do
    let a' ← evalE a
    boundary topFuel a'
  | .ir a => do
    let a' ← evalE a
    interior a'
  | .cl a => do
    let a' ← evalE a
    closure a'
def evalL : List Expr → Except Err (List SetE)
  | [] => .ok []
  | x :: t => do
    let s ← evalE x
    let ss ← evalL t
    pure (s :: ss)
end

/-! ### The original shape of the repaired branches (for the refutations in Props/C27.lean) -/

/-- original `Interval::set_complement(Interval)`: no test for disjoint intervals -/
def ivComplIvOrig (r : Ops) (s1 e1 : ENum) (lo1 ro1 : Bool) (s2 e2 : ENum) (lo2 ro2 : Bool) : Except Err SetE :=
  r.nu (ivComplPieces s1 e1 lo1 ro1 s2 e2 lo2 ro2)

/-- original `FiniteSet::set_complement(Interval)`: walks the hash-ordered container -/
def fsComplIvOrig (l : List ENum) (s e : ENum) (lo ro : Bool) : Except Err SetE :=
  fsComplIvOn l s e lo ro

/-- original `Intersection::contains`: True as soon as one member answers True -/
def containsAllOrig (l : List SetE) (a : ENum) : Bool := containsAny l a

/-- original `Naturals0::set_complement` for a number-set uni: `uni \ Naturals` -/
def nats0ComplOrig (o : SetE) : SetE := .co o .nats

/-- original `Interval::set_union(Interval)` -/
def ivUnionIvOrig := ivUnionIvWith false

end SymVerif.Sets
