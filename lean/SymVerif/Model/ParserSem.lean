/-
What a syntax tree of the model parser *means*, and the certificate checks that tie the library's canonical
result of `parse(s)` to that meaning (C17).  Core Lean only.

  `check`      the part of the semantic actions that can throw `ParseError`: logical operators / Boolean
               functions / Piecewise conditions applied to a non-Boolean (parser.yy, functionify)
  `denoteA`    the arithmetic fragment as a (non-canonical) `Expr` tree: `a+b` is `Add{1·a, 1·b}`, `a/b` is
               `Mul{a^1, b^-1}`, ... so that the proven-sound normaliser `NF` can compare it with the dump of the
               expression the library returned
  `judgeValue` the certificate check `NF.equivF (normT (denoteA ast)) (normT real)`
  `floatOk`    exact (integer arithmetic) check that a returned double is a nearest double of a decimal literal
  `resolveCall`/`expectCall`   functionify's table dispatch on the translated name tables
-/
import SymVerif.Model.Parser
import SymVerif.Model.NF

namespace SymVerif
namespace Parser

/-- identifier / literal bytes as a `String` (bytes ≥ 128 become the code points of the same number) -/
def bytesToString (b : Bytes) : String := String.ofList (b.map fun c => Char.ofNat c.toNat)

def stringToBytes (s : String) : Bytes := s.toUTF8.toList

def lookup (tbl : List (String × String)) (k : String) : Option String :=
  (tbl.find? (fun p => p.1 == k)).map (·.2)

/-! ### the ParseError-throwing part of the semantic actions -/

inductive Ty where
  | bool      -- certainly `is_a_Boolean`
  | arith     -- certainly not
  | unknown   -- depends on what the smart constructors return (e.g. `(x < y)**1`)
  deriving Repr, DecidableEq, Inhabited

inductive Chk where
  | ok (t : Ty)
  | parseError          -- an action throws ParseError
  | unknown             -- cannot be decided on the tree
  deriving Repr, DecidableEq, Inhabited

def arithOf : List Ty → Ty
  | [] => .arith
  | .arith :: t => arithOf t
  | _ :: _ => .unknown

open Gen.Syntax in
/-- result type of `functionify(name, params)` and whether it insists on Boolean arguments -/
def callKind (name : String) (n : Nat) : String :=
  if n == 1 && (lookup singleArgFuncs name).isSome then "arith"
  else if n == 1 && (lookup singleArgBoolFuncs name).isSome then "rel"
  else if n == 1 && (lookup singleArgBoolBoolFuncs name).isSome then "logic"
  else if n == 2 && (lookup doubleArgFuncs name).isSome then "arith"
  else if n == 2 && (lookup doubleArgBoolFuncs name).isSome then "rel"
  else if (lookup multiArgFuncs name).isSome then "arith"
  else if (lookup multiArgVecBoolFuncs name).isSome then "logic"
  else if (lookup multiArgSetBoolFuncs name).isSome then "logic"
  else "fsym"

open Gen.Syntax in
def identTy (name : String) : Ty :=
  match lookup constants name with
  | some "boolTrue" => .bool
  | some "boolFalse" => .bool
  | _ => .arith

mutual
  def check : PExpr → Chk
    | .int _ => .ok .arith
    | .float _ => .ok .arith
    | .ident s => .ok (identTy (bytesToString s))
    | .un .not e =>
      match check e with
      | .ok .bool => .ok .bool
      | .ok .arith => .parseError
      | .ok .unknown => .unknown
      | c => c
    | .un .pos e => check e
    | .un .neg e =>
      match check e with
      | .ok .arith => .ok .arith
      | .ok _ => .ok .unknown
      | c => c
    | .bin o a b =>
      match check a, check b with
      | .ok ta, .ok tb =>
        match o with
        | .or | .and | .xor =>
          if ta = .arith || tb = .arith then .parseError
          else if ta = .bool && tb = .bool then .ok .bool else .unknown
        | .lt | .gt | .ne | .le | .ge | .eq => .ok .bool
        | _ => .ok (arithOf [ta, tb])
      | .parseError, _ => .parseError
      | .ok _, .parseError => .parseError
      | _, _ => .unknown
    | .call f args =>
      match checkList args with
      | .error c => c
      | .ok ts =>
        match callKind (bytesToString f) ts.length with
        | "logic" =>
          if ts.any (· = .arith) then .parseError
          else if ts.all (· = .bool) then .ok .bool else .unknown
        | "rel" => .ok .bool
        | "arith" => .ok (arithOf ts)
        | _ => .ok .arith                       -- function_symbol(name, params)
    | .pwise ps => checkPairs ps
  /-- left to right: the first action that throws decides -/
  def checkList : List PExpr → Except Chk (List Ty)
    | [] => .ok []
    | a :: t =>
      match check a with
      | .ok ta =>
        match checkList t with
        | .ok ts => .ok (ta :: ts)
        | .error c => .error c
      | c => .error c
  def checkPairs : List (PExpr × PExpr) → Chk
    | [] => .ok .arith
    | (v, c) :: t =>
      match check v, check c with
      | .ok _, .ok .bool => checkPairs t
      | .ok _, .ok .arith => .parseError      -- "Not of Boolean type in Piecewise arguments"
      | .ok _, .ok .unknown => .unknown
      | .parseError, _ => .parseError
      | .ok _, .parseError => .parseError
      | _, _ => .unknown
end

/-! ### the arithmetic fragment as an `Expr` for the normaliser -/

/-- exponent trees that are integer constants -/
def constInt? : PExpr → Option Int
  | .int n => some n
  | .un .neg e => (constInt? e).map (fun v => -v)
  | .un .pos e => constInt? e
  | .bin .add a b => do let x ← constInt? a; let y ← constInt? b; pure (x + y)
  | .bin .sub a b => do let x ← constInt? a; let y ← constInt? b; pure (x - y)
  | .bin .mul a b => do let x ← constInt? a; let y ← constInt? b; pure (x * y)
  | .bin .pow a b => do
    let x ← constInt? a
    let y ← constInt? b
    if 0 ≤ y && y ≤ 8 && x.natAbs ≤ 16 then pure (x ^ y.toNat) else none
  | _ => none

open Gen.Syntax in
/-- `Parser::parse_identifier` (without local constants) on the exact fragment -/
def identExpr (name : String) : Option Expr :=
  match lookup constants name with
  | none => some (.sym name)
  | some "E" => some (.const "E")
  | some "pi" => some (.const "pi")
  | some "EulerGamma" => some (.const "EulerGamma")
  | some "Catalan" => some (.const "Catalan")
  | some "GoldenRatio" => some (.const "GoldenRatio")
  | some "I" => some (.cplx ⟨0, 1⟩ ⟨1, 1⟩)
  | some _ => none                                -- oo zoo nan True False: outside the fragment

/-- one-argument functions whose application to a *symbol* stays an un-evaluated application:
(C++ function, class name in the dump) -/
def opaqueFuncs : List (String × String) :=
  [("sin", "Sin"), ("cos", "Cos"), ("tan", "Tan"), ("sinh", "Sinh"), ("cosh", "Cosh"), ("tanh", "Tanh"),
   ("erf", "Erf"), ("gamma", "Gamma")]

def symArg? : PExpr → Option Expr
  | .ident s =>
    match identExpr (bytesToString s) with
    | some (.sym n) => some (.sym n)
    | _ => none
  | _ => none

def symArgs? : List PExpr → Option (List Expr)
  | [] => some []
  | a :: t => do let x ← symArg? a; let r ← symArgs? t; pure (x :: r)

open Gen.Syntax in
def denoteA : PExpr → Option Expr
  | .int n => some (.int n)
  | .float _ => none
  | .ident s => identExpr (bytesToString s)
  | .un .neg e => (denoteA e).map fun x => .mul (.int (-1)) [(x, .int 1)]
  | .un .pos e => denoteA e
  | .un .not _ => none
  | .bin .add a b => do
    let x ← denoteA a; let y ← denoteA b
    pure (.add (.int 0) [(x, .int 1), (y, .int 1)])
  | .bin .sub a b => do
    let x ← denoteA a; let y ← denoteA b
    pure (.add (.int 0) [(x, .int 1), (y, .int (-1))])
  | .bin .mul a b => do
    let x ← denoteA a; let y ← denoteA b
    pure (.mul (.int 1) [(x, .int 1), (y, .int 1)])
  | .bin .div a b => do
    let x ← denoteA a; let y ← denoteA b
    pure (.mul (.int 1) [(x, .int 1), (y, .int (-1))])
  | .bin .pow a b => do
    let x ← denoteA a
    let n ← constInt? b
    pure (.pow x (.int n))
  | .bin _ _ _ => none
  | .call f args =>
    let name := bytesToString f
    match callKind name args.length, args with
    | "arith", [a] => do
      let cpp ← lookup singleArgFuncs name
      let cls ← lookup opaqueFuncs cpp
      let x ← symArg? a
      pure (.app cls [x])
    | "fsym", _ => do
      let xs ← symArgs? args
      pure (.fsym name xs)
    | _, _ => none
  | .pwise _ => none

inductive Verdict where
  | ok
  | skip (why : String)
  | fail (why : String)
  deriving Repr, DecidableEq

def Verdict.toString : Verdict → String
  | .ok => "ok"
  | .skip w => "SKIP:" ++ w
  | .fail w => "FAIL:" ++ w

/-- the acceptance test of the value certificate -/
def acceptsValue (d real : Expr) : Bool :=
  (NF.firstErr d).isNone && (NF.firstErr real).isNone && NF.equivF (NF.normT d) (NF.normT real)

/-- certificate check: does the library's result `real` denote the value of the tree? -/
def judgeValue (ast : PExpr) (real : Expr) : Verdict :=
  match denoteA ast with
  | none => .skip "outside-nf-fragment"
  | some d =>
    match NF.firstErr d with
    | some e => .skip ("ast-" ++ e.toString)
    | none =>
      match NF.firstErr real with
      | some .expTooLarge => .skip "result-exponent-too-large"
      | some e => .fail ("result-outside-fragment-" ++ e.toString)
      | none => if acceptsValue d real then .ok else .fail "value-differs"

/-! ### decimal literals and IEEE doubles -/

/-- a float literal text as `mantissa × 10^exp10` (exact) -/
def decimalOf (text : Bytes) : Option (Nat × Int) :=
  let a := text.takeWhile isDig
  let r1 := text.dropWhile isDig
  let (b, r2) :=
    match r1 with
    | 46 :: r => (r.takeWhile isDig, r.dropWhile isDig)
    | _ => ([], r1)
  if a.isEmpty && b.isEmpty then none else
  let m := ofDigits 10 (a ++ b)
  match r2 with
  | [] => some (m, -(b.length : Int))
  | e :: r =>
    if e == 101 || e == 69 then
      let (neg, ds) :=
        match r with
        | 45 :: r' => (true, r')
        | 43 :: r' => (false, r')
        | _ => (false, r)
      if ds.isEmpty || !ds.all isDig then none
      else
        let x : Int := ofDigits 10 ds
        some (m, (if neg then -x else x) - (b.length : Int))
    else none

def infBits : Nat := 0x7FF0000000000000

/-- `2^1074 ×` the value of the non-negative double with bit pattern `b ≤ infBits` (the pattern of `+inf`
stands for `2^1024`, the first value beyond the finite range) -/
def scaledVal (b : Nat) : Nat :=
  let E := b / 2 ^ 52
  let M := b % 2 ^ 52
  if E = 0 then M else (2 ^ 52 + M) * 2 ^ (E - 1)

/-- Is the double with bit pattern `b` a round-to-nearest-even image of `N / D`?  (`D > 0`.)
Compared with the midpoints to the neighbouring doubles `b-1`, `b+1`; a tie is accepted only for an even
significand.  Everything is scaled by `2^1075 · D` into `Nat`. -/
def nearestOk (N D b : Nat) : Bool :=
  let q2 := N * 2 ^ 1075
  decide (b ≤ infBits) &&
  (b == 0 ||
    (let mid := (scaledVal (b - 1) + scaledVal b) * D
     decide (mid < q2) || (mid == q2 && b % 2 == 0))) &&
  (b == infBits ||
    (let mid := (scaledVal b + scaledVal (b + 1)) * D
     decide (q2 < mid) || (mid == q2 && b % 2 == 0)))

def maxDecExp : Nat := 6000

/-- certificate check for a float literal: `none` when the exponent is too large to expand -/
def floatOk (text : Bytes) (bits : Nat) : Option Bool :=
  match decimalOf text with
  | none => some false
  | some (m, e) =>
    if e.natAbs > maxDecExp then none
    else if e ≥ 0 then some (nearestOk (m * 10 ^ e.toNat) 1 bits)
    else some (nearestOk m (10 ^ e.natAbs) bits)

end Parser
end SymVerif

namespace SymVerif
namespace Parser

/-! ### functionify on symbol arguments: the dump the library must return -/

/-- C++ function of the one-argument table -> class name printed by `vsexp::dump` -/
def classOf : List (String × String) :=
  [("sin", "Sin"), ("cos", "Cos"), ("tan", "Tan"), ("cot", "Cot"), ("csc", "Csc"), ("sec", "Sec"),
   ("asin", "ASin"), ("acos", "ACos"), ("atan", "ATan"), ("asec", "ASec"), ("acsc", "ACsc"), ("acot", "ACot"),
   ("sinh", "Sinh"), ("cosh", "Cosh"), ("tanh", "Tanh"), ("coth", "Coth"), ("sech", "Sech"), ("csch", "Csch"),
   ("asinh", "ASinh"), ("acosh", "ACosh"), ("atanh", "ATanh"), ("asech", "ASech"), ("acoth", "ACoth"),
   ("acsch", "ACsch"), ("gamma", "Gamma"), ("abs", "Abs"), ("sign", "Sign"), ("erf", "Erf"), ("erfc", "Erfc"),
   ("loggamma", "LogGamma"), ("lambertw", "LambertW"), ("dirichlet_eta", "Dirichlet_eta"), ("floor", "Floor"),
   ("ceiling", "Ceiling"), ("log", "Log"), ("primepi", "PrimePi"), ("primorial", "Primorial")]

def classOf2 : List (String × String) :=
  [("zeta", "Zeta"), ("lowergamma", "LowerGamma"), ("uppergamma", "UpperGamma"), ("polygamma", "PolyGamma"),
   ("kronecker_delta", "KroneckerDelta"), ("atan2", "ATan2")]

/-- names of plain-symbol arguments (identifiers that are not parser constants) -/
def plainSyms? : List PExpr → Option (List String)
  | [] => some []
  | .ident s :: t =>
    match identExpr (bytesToString s) with
    | some (.sym n) => (plainSyms? t).map (n :: ·)
    | _ => none
  | _ :: _ => none

open Gen.Syntax in
/-- the exact dump of `name(a₁, …, aₖ)` for plain symbols `aᵢ`, where it is predictable without modelling the
smart constructors (`none` otherwise) -/
def expectCall (name : String) (args : List String) : Option String :=
  let sy (a : String) := "(s " ++ a ++ ")"
  match callKind name args.length, args with
  | "arith", [a] =>
    match lookup singleArgFuncs name with
    | some "sqrt" => some ("(^ " ++ sy a ++ " 1/2)")
    | some "exp" => some ("(^ (k E) " ++ sy a ++ ")")
    | some "zeta" => some ("(Zeta " ++ sy a ++ " 1)")
    | some f => (lookup classOf f).map fun c => "(" ++ c ++ " " ++ sy a ++ ")"
    | none => none
  | "rel", [a] => some ("(Equality 0 " ++ sy a ++ ")")
  | "arith", [a, b] =>
    if args.length != 2 then none else
    match lookup doubleArgFuncs name with
    | some "pow" => some ("(^ " ++ sy a ++ " " ++ sy b ++ ")")
    | some f => (lookup classOf2 f).map fun c => "(" ++ c ++ " " ++ sy a ++ " " ++ sy b ++ ")"
    | none => none
  | "rel", [a, b] =>
    let lo := if a < b then a else b
    let hi := if a < b then b else a
    if a == b then none else
    match lookup doubleArgBoolFuncs name with
    | some "Lt" => some ("(StrictLessThan " ++ sy a ++ " " ++ sy b ++ ")")
    | some "Le" => some ("(LessThan " ++ sy a ++ " " ++ sy b ++ ")")
    | some "Gt" => some ("(StrictLessThan " ++ sy b ++ " " ++ sy a ++ ")")
    | some "Ge" => some ("(LessThan " ++ sy b ++ " " ++ sy a ++ ")")
    | some "Eq" => some ("(Equality " ++ sy lo ++ " " ++ sy hi ++ ")")
    | some "Ne" => some ("(Unequality " ++ sy lo ++ " " ++ sy hi ++ ")")
    | _ => none
  | "fsym", _ => some ("(F " ++ name ++ String.join (args.map fun a => " " ++ sy a) ++ ")")
  | _, _ => none

/-- dump of a named constant -/
def expectIdent (name : String) : Option String :=
  match lookup Gen.Syntax.constants name with
  | none => some ("(s " ++ name ++ ")")
  | some "E" => some "(k E)"
  | some "pi" => some "(k pi)"
  | some "EulerGamma" => some "(k EulerGamma)"
  | some "Catalan" => some "(k Catalan)"
  | some "GoldenRatio" => some "(k GoldenRatio)"
  | some "I" => some "(C 0 1)"
  | some "Inf" => some "(oo 1)"
  | some "ComplexInf" => some "(oo 0)"
  | some "Nan" => some "nan"
  | some "boolTrue" => some "true"
  | some "boolFalse" => some "false"
  | some _ => none

end Parser
end SymVerif

namespace SymVerif
namespace Parser

def BinOp.name : BinOp → String
  | .add => "+" | .sub => "-" | .mul => "*" | .div => "/" | .pow => "^"
  | .lt => "<" | .gt => ">" | .ne => "!=" | .le => "<=" | .ge => ">=" | .eq => "=="
  | .or => "|" | .and => "&" | .xor => "xor"

mutual
  /-- one-line rendering of a tree (the S-expression format of the harness op lines) -/
  def showAst : PExpr → String
    | .int n => "(i " ++ toString n ++ ")"
    | .float t => "(fl " ++ bytesToString t ++ ")"
    | .ident s => "(s " ++ bytesToString s ++ ")"
    | .un .neg e => "(n " ++ showAst e ++ ")"
    | .un .pos e => "(p " ++ showAst e ++ ")"
    | .un .not e => "(not " ++ showAst e ++ ")"
    | .bin o a b => "(" ++ o.name ++ " " ++ showAst a ++ " " ++ showAst b ++ ")"
    | .call f args => "(c " ++ bytesToString f ++ showAstList args ++ ")"
    | .pwise ps => "(pw" ++ showAstPairs ps ++ ")"
  def showAstList : List PExpr → String
    | [] => ""
    | a :: t => " " ++ showAst a ++ showAstList t
  def showAstPairs : List (PExpr × PExpr) → String
    | [] => ""
    | (a, c) :: t => " (" ++ showAst a ++ " " ++ showAst c ++ ")" ++ showAstPairs t
end

end Parser
end SymVerif
