import SymVerif.Gen.CApi
import SymVerif.Model.SExp
/-!
# C42 — model of the C API glue (`symengine/cwrapper.cpp`) and of the `Expression` wrapper

Core Lean only (linked into the native driver `drv_c42`).

* `Thrown`, `handle`, `callWrapped`: what `CWRAPPER_BEGIN … CWRAPPER_END` does with the outcome of the C++ call
  it encloses.  The catch clauses, the error-code enum and the exception-class hierarchy are **not** written
  here: they are the tables `Gen.CApi.catchClauses / excEnum / excClasses` regenerated from the sources, and
  `handle` is an interpreter of those tables.
* `Vec`, `SetM`, `MapM`, `VInt`: the four C container types as state machines
  (`vecbasic_*`, `setbasic_*`, `mapbasicbasic_*`, `vectorint_*`).
  Elements are canonical S-expression dumps; key equality is string equality of the dumps (the harness checks that
  `eq` on the real objects coincides with dump equality for every pair it uses).
* `exprIntended`: the hand-written specification "which core function each `Expression` operator must forward to",
  compared with the translated table by `Props/C42.lean`.
-/
namespace SymVerif.CApi
open SymVerif.Gen.CApi

/-! ## Exceptions and `CWRAPPER_END` -/

/-- What a C++ body can throw, as far as the catch clauses can distinguish. -/
inductive Thrown where
  /-- an object whose dynamic class is `cls` (⊑ SymEngineException) carrying `code` -/
  | sym (cls : String) (code : Nat)
  /-- anything else (`std::exception`s, `VerifAssertError`, …) -/
  | other (what : String)
  deriving DecidableEq, Repr

def lookup (tbl : List (String × Nat)) (k : String) : Option Nat :=
  match tbl with
  | [] => none
  | (a, v) :: t => if a == k then some v else lookup t k

/-- base class of an exception class in the translated hierarchy -/
def baseOf (classes : List (String × String × List String)) (c : String) : Option String :=
  match classes with
  | [] => none
  | (n, b, _) :: t => if n == c then some b else baseOf t c

/-- `c` is `target` or derives from it (fuel = length of the class table: chains cannot be longer) -/
def derivesFrom (classes : List (String × String × List String)) : Nat → String → String → Bool
  | 0, c, target => c == target
  | n + 1, c, target =>
    c == target ||
      match baseOf classes c with
      | some b => derivesFrom classes n b target
      | none => false

/-- does `catch (ty &)` catch the thrown object? -/
def matchesClause (classes : List (String × String × List String)) (ty : String) (e : Thrown) : Bool :=
  if ty == "..." then true
  else match e with
    | .sym cls _ => derivesFrom classes classes.length cls ty
    | .other _ => false

/-- value of the `return <expr>;` of a handler -/
def evalRet (enum : List (String × Nat)) (expr : String) (e : Thrown) : Option Nat :=
  if expr == "e.error_code()" then
    match e with
    | .sym _ c => some c
    | .other _ => none
  else lookup enum expr

/-- Interpreter of a catch-clause list: first matching clause wins; `none` = the exception escapes
(or a handler returns something the model cannot evaluate). -/
def handleWith (classes : List (String × String × List String)) (enum : List (String × Nat)) :
    List (String × String) → Thrown → Option Nat
  | [], _ => none
  | (ty, expr) :: rest, e =>
    if matchesClause classes ty e then evalRet enum expr e else handleWith classes enum rest e

/-- `CWRAPPER_END` as it is in the source now -/
def handle (e : Thrown) : Option Nat := handleWith excClasses excEnum catchClauses e

/-- result of the enclosed C++ computation -/
inductive Outcome (α : Type) where
  | ok (v : α)
  | threw (e : Thrown)

/-- `CWRAPPER_BEGIN  out = <C++ call>;  CWRAPPER_END` : returned code and final content of the out-handle.
`none` = an exception escapes to the C caller. -/
def callWrapped {α : Type} (old : α) : Outcome α → Option (Nat × α)
  | .ok v => (lookup excEnum okCode).map (fun c => (c, v))
  | .threw e => (handle e).map (fun c => (c, old))

/-! ## Containers -/

abbrev Elem := String

inductive Err where
  | oob
  deriving DecidableEq, Repr

/-- `CVecBasic` (std::vector<RCP<const Basic>>) -/
inductive VecOp where
  | push (e : Elem) | get (n : Nat) | set (n : Nat) (e : Elem) | erase (n : Nat) | size
  deriving Repr

def showRes : Except Err String → String
  | .ok s => s
  | .error .oob => "E:oob"

/-- one `vecbasic_*` call: new state and printed result.  Out-of-range indices are UB in a release build
(`SYMENGINE_ASSERT` only): the model says `E:oob` and leaves the state unchanged. -/
def Vec.step (s : List Elem) : VecOp → List Elem × Except Err String
  | .push e => (s ++ [e], .ok "0")
  | .get n => match s[n]? with
    | some e => (s, .ok ("0:" ++ e))
    | none => (s, .error .oob)
  | .set n e => if n < s.length then (s.set n e, .ok "0") else (s, .error .oob)
  | .erase n => if n < s.length then (s.eraseIdx n, .ok "0") else (s, .error .oob)
  | .size => (s, .ok (toString s.length))

def Vec.run (s : List Elem) : List VecOp → List Elem × List (Except Err String)
  | [] => (s, [])
  | op :: ops =>
    let (s1, o) := Vec.step s op
    let (s2, os) := Vec.run s1 ops
    (s2, o :: os)

/-- `CSetBasic` (std::set<RCP<const Basic>, RCPBasicKeyLess>).  State: duplicate-free list. -/
inductive SetOp where
  | insert (e : Elem) | find (e : Elem) | erase (e : Elem) | size | all
  deriving Repr

/-- structured result of one `setbasic_*` call (printed by `SetRes.print`) -/
inductive SetRes where
  | flag (b : Bool) | num (n : Nat) | elems (l : List Elem)
  deriving Repr

def SetRes.print : SetRes → String
  | .flag b => if b then "1" else "0"
  | .num n => toString n
  | .elems l => "{" ++ " ".intercalate l ++ "}"

def SetM.stepR (s : List Elem) : SetOp → List Elem × SetRes
  | .insert e => if s.contains e then (s, .flag false) else (e :: s, .flag true)
  | .find e => (s, .flag (s.contains e))
  | .erase e => if s.contains e then (s.erase e, .flag true) else (s, .flag false)
  | .size => (s, .num s.length)
  | .all => (s, .elems (sortStrs s))

def SetM.runR (s : List Elem) : List SetOp → List Elem × List SetRes
  | [] => (s, [])
  | op :: ops =>
    let r := SetM.stepR s op
    let rs := SetM.runR r.1 ops
    (rs.1, r.2 :: rs.2)

def SetM.run (s : List Elem) (ops : List SetOp) : List Elem × List String :=
  let r := SetM.runR s ops
  (r.1, r.2.map SetRes.print)

/-- `CMapBasicBasic` (std::map<RCP<const Basic>, RCP<const Basic>, RCPBasicKeyLess>).
State: association list with distinct keys. -/
inductive MapOp where
  | insert (k v : Elem) | get (k : Elem) | size
  deriving Repr

def assocSet (k v : Elem) : List (Elem × Elem) → List (Elem × Elem)
  | [] => [(k, v)]
  | (a, b) :: t => if a == k then (a, v) :: t else (a, b) :: assocSet k v t

def assocGet (k : Elem) : List (Elem × Elem) → Option Elem
  | [] => none
  | (a, b) :: t => if a == k then some b else assocGet k t

inductive MapRes where
  | unit | found (v : Option Elem) | num (n : Nat)
  deriving Repr

def MapRes.print : MapRes → String
  | .unit => "-"
  | .found (some v) => "1:" ++ v
  | .found none => "0"
  | .num n => toString n

def MapM.stepR (s : List (Elem × Elem)) : MapOp → List (Elem × Elem) × MapRes
  | .insert k v => (assocSet k v s, .unit)
  | .get k => (s, .found (assocGet k s))
  | .size => (s, .num s.length)

def MapM.runR (s : List (Elem × Elem)) : List MapOp → List (Elem × Elem) × List MapRes
  | [] => (s, [])
  | op :: ops =>
    let r := MapM.stepR s op
    let rs := MapM.runR r.1 ops
    (rs.1, r.2 :: rs.2)

def MapM.run (s : List (Elem × Elem)) (ops : List MapOp) : List (Elem × Elem) × List String :=
  let r := MapM.runR s ops
  (r.1, r.2.map MapRes.print)

/-- `CVectorInt` (std::vector<int>): the C API has only push_back and get. -/
inductive VIntOp where
  | push (v : Int) | get (n : Nat)
  deriving Repr

def VInt.step (s : List Int) : VIntOp → List Int × Except Err String
  | .push v => (s ++ [v], .ok "-")
  | .get n => match s[n]? with
    | some v => (s, .ok (toString v))
    | none => (s, .error .oob)

def VInt.run (s : List Int) : List VIntOp → List Int × List (Except Err String)
  | [] => (s, [])
  | op :: ops =>
    let (s1, o) := VInt.step s op
    let (s2, os) := VInt.run s1 ops
    (s2, o :: os)

/-! ## `Expression` operators: the intended core function (hand-written specification) -/

/-- operator ↦ (core function, is the argument list "operands in order"?) -/
def exprIntended : String → Option String
  | "operator+" => some "add"
  | "operator+=" => some "add"
  | "operator-" => some "sub"
  | "operator-=" => some "sub"
  | "operator*" => some "mul"
  | "operator*=" => some "mul"
  | "operator/" => some "div"
  | "operator/=" => some "div"
  | "operator==" => some "eq"
  | "operator!=" => some "not operator=="
  | "pow" => some "pow"
  | "expand" => some "expand"
  | "subs" => some "subs"
  | _ => none

/-- Does one translated entry forward to the intended core function with the operands in order?
`diff` is split by the operand kind (Symbol ↦ `diff`, Basic ↦ `sdiff`); unary minus is `mul(self, -1)`. -/
def exprOpOk (o : ExprOp) : Bool :=
  let operands := (if o.member then ["self"] else []) ++ o.params
  if o.op == "operator-" && o.kinds == "" then o.core == "mul" && o.args == ["self", "-1"]
  else if o.op == "diff" then
    (o.kinds == "Sb" && o.core == "diff" || o.kinds == "Bb" && o.core == "sdiff") && o.args == operands
  else exprIntended o.op == some o.core && o.args == operands

def findExprOp (op kinds : String) : Option ExprOp :=
  exprOps.find? (fun o => o.op == op && o.kinds == kinds)

/-- the hash the translator stores in `CFun.nameH` -/
def nameHash (s : String) : Nat := s.toList.foldl (fun h c => (h * 131 + c.toNat) % 2305843009213693951) 7

/-- table lookup by name (hash first, then the name itself) -/
def findFun (name : String) : Option CFun :=
  let h := nameHash name
  cApi.find? (fun f => f.nameH == h && f.name == name)

end SymVerif.CApi
