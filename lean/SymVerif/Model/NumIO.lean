import SymVerif.Model.Num
/-!
Text protocol shared by the C05 / C06 / C29 drivers (core Lean only).

value tokens  `i<int>` | `r<n>/<d>` | `c<n>/<d>,<n>/<d>` | `d<16 hex>` | `z<16 hex>,<16 hex>` | `oo` | `-oo` | `zoo` | `nan`
dump          `I:<n>` | `Q:<n>/<d>` | `C:<n>/<d>,<n>/<d>` | `D:<16 hex|nan>` | `Z:<..>,<..>` | `oo` | `-oo` | `zoo` | `nan`
              `E:NotImplemented` | `E:Runtime` | `SKIP` (cell not modelled)
-/
namespace SymVerif.Num.IO
open SymVerif.Num

abbrev N := Num Float

def hexDigit (c : Char) : Option Nat :=
  if '0' ≤ c && c ≤ '9' then some (c.toNat - '0'.toNat)
  else if 'a' ≤ c && c ≤ 'f' then some (c.toNat - 'a'.toNat + 10)
  else if 'A' ≤ c && c ≤ 'F' then some (c.toNat - 'A'.toNat + 10)
  else none

def parseHex (s : String) : Option Nat :=
  if s.isEmpty then none else
  s.toList.foldl (fun acc c => do let a ← acc; let d ← hexDigit c; pure (a * 16 + d)) (some 0)

def parseFloat (s : String) : Option Float := do
  let n ← parseHex s
  pure (Float.ofBits (UInt64.ofNat n))

/-- `Rational::from_two_ints` -/
def fromTwoInts (n d : Int) : N :=
  if d == 0 then (if n == 0 then .nan else .infty 0) else fromMpq (Q.make n d)

def parseQ (s : String) : Option N :=
  match s.splitOn "/" with
  | [a] => do let n ← a.toInt?; pure (.int n)
  | [a, b] => do let n ← a.toInt?; let d ← b.toInt?; pure (fromTwoInts n d)
  | _ => none

def asQ : N → Option Q
  | .int n => some ⟨n, 1⟩
  | .rat q => some q
  | _ => none

def parseNum (t : String) : Option N :=
  if t == "oo" then some (.infty 1)
  else if t == "-oo" then some (.infty (-1))
  else if t == "zoo" then some (.infty 0)
  else if t == "nan" then some .nan
  else
    let r := (t.drop 1).toString
    match t.front with
    | 'i' => r.toInt?.map .int
    | 'r' => parseQ r
    | 'c' =>
      match r.splitOn "," with
      | [a, b] => do
          let x ← parseQ a; let y ← parseQ b
          let re ← asQ x; let im ← asQ y
          pure (cFromMpq re im)
      | _ => none
    | 'd' => (parseFloat r).map .dbl
    | 'z' =>
      match r.splitOn "," with
      | [a, b] => do let x ← parseFloat a; let y ← parseFloat b; pure (.cdbl x y)
      | _ => none
    | _ => none

def hexChar (n : Nat) : Char :=
  if n < 10 then Char.ofNat ('0'.toNat + n) else Char.ofNat ('a'.toNat + n - 10)

def hex16 (f : Float) : String :=
  if f.isNaN then "nan" else
  let n := f.toBits.toNat
  String.ofList ((List.range 16).map (fun i => hexChar ((n >>> (4 * (15 - i))) % 16)))

def showQ (q : Q) : String := s!"{q.num}/{q.den}"

def showNum : N → String
  | .int n => s!"I:{n}"
  | .rat q => "Q:" ++ showQ q
  | .cplx re im => "C:" ++ showQ re ++ "," ++ showQ im
  | .dbl d => "D:" ++ hex16 d
  | .cdbl a b => "Z:" ++ hex16 a ++ "," ++ hex16 b
  | .infty d => if d == 1 then "oo" else if d == -1 then "-oo" else if d == 0 then "zoo" else s!"INFTY-NONCANONICAL({d})"
  | .nan => "nan"

def showErr : Err → String
  | .notImpl => "E:NotImplemented"
  | .runtime => "E:Runtime"
  | .skip => "SKIP"

def showRes : Res Float → String
  | .ok v => showNum v
  | .error e => showErr e

def showBool : Except Err Bool → String
  | .ok true => "T"
  | .ok false => "F"
  | .error e => showErr e

/-- one op line → one output line -/
def handle (line : String) : String :=
  match line.splitOn " " with
  | [op, ta, tb] =>
    match parseNum ta, parseNum tb with
    | some a, some b =>
      match op with
      | "add" => showRes (add a b)
      | "sub" => showRes (sub a b)
      | "mul" => showRes (mul a b)
      | "div" => showRes (div a b)
      | "pow" => showRes (pow a b)
      | "tpow" => match b with
                  | .int e => showRes (powTop a e)
                  | _ => "bad-op"
      | "eq" => showBool (relEq a b)
      | "ne" => showBool (relNe a b)
      | "lt" => showBool (relLt a b)
      | "le" => showBool (relLe a b)
      | "gt" => showBool (relGt a b)
      | "ge" => showBool (relGe a b)
      -- relation built on symbols, then `subs {x: a, y: b}`: `Relational::create` calls the same constructor
      | "seq" => showBool (relEq a b)
      | "sne" => showBool (relNe a b)
      | "slt" => showBool (relLt a b)
      | "sle" => showBool (relLe a b)
      | "sgt" => showBool (relGt a b)
      | "sge" => showBool (relGe a b)
      | _ => "bad-op"
    | _, _ => "bad-value"
  | _ => "bad-op"

end SymVerif.Num.IO
