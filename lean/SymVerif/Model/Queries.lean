/-
Model of the property queries of symengine/test_visitors.{h,cpp} under the assumptions of
symengine/assumptions.{h,cpp}, with the tribool algebra of symengine/tribool.h.

  Tri                         tribool.h (and/or/not/andwk/orwk as coded)
  Assumptions, build          Assumptions::Assumptions(set_basic), set_map, from_map, is_*
  argsOf                      Add::get_args / Mul::get_args (rebuilds coef*key and base**exp)
  isZero … isAlgebraic        ZeroVisitor, PositiveVisitor, NonPositiveVisitor, NegativeVisitor,
                              NonNegativeVisitor, IntegerVisitor, RealVisitor, ComplexVisitor,
                              RationalVisitor, FiniteVisitor, AlgebraicVisitor
  isEven / isOdd              is_even / is_odd (through models of div(b, 2) and add(b, 1))
  isPolynomial                PolynomialVisitor

The visitors walk the tree through `get_args()`, which *rebuilds* objects, so the recursive
visitors are written with fuel (`size e + 1` is supplied by the wrappers; running out of fuel
gives `indeterminate`, about which the soundness theorems claim nothing).
Dictionaries are walked in the order of the wire format; every modelled rule except
ComplexVisitor::bvisit(Add/Mul) is independent of that order (see `orderSensitive`).
Core Lean only.
-/
import SymVerif.Model.ExprEq

namespace SymVerif.Queries
open SymVerif

/-! ## tribool -/

inductive Tri where
  | t | f | i
  deriving DecidableEq, Repr, Inhabited

namespace Tri
def ofBool (b : Bool) : Tri := if b then .t else .f

/-- `and_tribool`: `!(a & b) ? false : a | b` on the unsigned images of -1, 0, 1 -/
def and : Tri → Tri → Tri
  | .f, _ => .f
  | _, .f => .f
  | .t, .t => .t
  | _, _ => .i

def or : Tri → Tri → Tri
  | .t, _ => .t
  | _, .t => .t
  | .i, _ => .i
  | _, .i => .i
  | .f, .f => .f

def not : Tri → Tri
  | .i => .i
  | .t => .f
  | .f => .t

/-- weak Kleene conjunction -/
def andwk : Tri → Tri → Tri
  | .i, _ => .i
  | _, .i => .i
  | .t, .t => .t
  | _, _ => .f

def orwk : Tri → Tri → Tri
  | .i, _ => .i
  | _, .i => .i
  | .f, .f => .f
  | _, _ => .t

def toStr : Tri → String
  | .t => "T"
  | .f => "F"
  | .i => "I"
end Tri

/-! ## predicates of the Number classes -/

def dblMag (b : UInt64) : UInt64 := b &&& (0x7fffffffffffffff : UInt64)
def dblIsNaN (b : UInt64) : Bool := dblMag b > (0x7ff0000000000000 : UInt64)
def dblSign (b : UInt64) : Bool := (b >>> 63) == 1
def dblIsZero (b : UInt64) : Bool := dblMag b == 0
def dblIsPos (b : UInt64) : Bool := !dblSign b && dblMag b != 0 && !dblIsNaN b
def dblIsNeg (b : UInt64) : Bool := dblSign b && dblMag b != 0 && !dblIsNaN b
def dblOne : UInt64 := (0x3ff0000000000000 : UInt64)

/-- `Number::is_zero()` -/
def numIsZero : Expr → Bool
  | .int n => n == 0
  | .rat n _ => n == 0
  | .dbl b => dblIsZero b
  | .cdbl r i => dblIsZero r && dblIsZero i
  | _ => false

/-- `Number::is_positive()` -/
def numIsPos : Expr → Bool
  | .int n => decide (0 < n)
  | .rat n _ => decide (0 < n)
  | .dbl b => dblIsPos b
  | .infty d => decide (0 < d)
  | _ => false

/-- `Number::is_negative()` -/
def numIsNeg : Expr → Bool
  | .int n => decide (n < 0)
  | .rat n _ => decide (n < 0)
  | .dbl b => dblIsNeg b
  | .infty d => decide (d < 0)
  | _ => false

/-- `is_a_Complex(x)` (Complex, ComplexDouble) -/
def numIsComplexCls : Expr → Bool
  | .cplx _ _ => true
  | .cdbl _ _ => true
  | _ => false

/-- `Number::is_complex()` (also true for zoo) -/
def numIsComplexMeth : Expr → Bool
  | .cplx _ _ => true
  | .cdbl _ _ => true
  | .infty d => d == 0
  | _ => false

/-- `eq(x, *one)` / `Number::is_one()` (only the Integer 1) -/
def isOne : Expr → Bool
  | .int n => n == 1
  | _ => false

def isInftyOrNaN : Expr → Bool
  | .infty _ => true
  | .nan => true
  | _ => false

/-- `(x - 1).is_zero()` for a Number `x` -/
def numSubOneIsZero : Expr → Bool
  | .int n => n == 1
  | .dbl b => b == dblOne
  | .cdbl r i => r == dblOne && dblIsZero i
  | _ => false

def setHeads : List String :=
  ["EmptySet", "UniversalSet", "FiniteSet", "Interval", "Complexes", "Reals", "Rationals", "Integers",
   "Naturals", "Naturals0", "Union", "Intersection", "Complement", "ConditionSet", "ImageSet"]
def relHeads : List String := ["Equality", "Unequality", "LessThan", "StrictLessThan"]
def boolHeads : List String := ["Contains", "And", "Or", "Not", "Xor"]

/-- Set, Relational or Boolean object (the classes for which several visitors throw) -/
def isLogic : Expr → Bool
  | .bool _ => true
  | .app h _ => setHeads.contains h || relHeads.contains h || boolHeads.contains h
  | _ => false

def knownConsts : List String := ["pi", "E", "EulerGamma", "Catalan", "GoldenRatio"]

/-! ## Assumptions -/

inductive MapId where
  | pos | nonneg | neg | nonpos | nonzero | zero
  deriving DecidableEq, Repr

/-- one elementary update performed by the constructor -/
inductive Upd where
  | c (s : String) | r (s : String) | q (s : String) | z (s : String)
  | m (id : MapId) (s : String) (v : Bool)
  deriving Repr

structure Assumptions where
  complexS : List String := []
  realS : List String := []
  ratS : List String := []
  intS : List String := []
  positive : List (String × Bool) := []
  nonneg : List (String × Bool) := []
  negative : List (String × Bool) := []
  nonpos : List (String × Bool) := []
  nonzero : List (String × Bool) := []
  zero : List (String × Bool) := []
  deriving Repr, Inhabited

def Assumptions.empty : Assumptions := {}

def Assumptions.getMap (A : Assumptions) : MapId → List (String × Bool)
  | .pos => A.positive
  | .nonneg => A.nonneg
  | .neg => A.negative
  | .nonpos => A.nonpos
  | .nonzero => A.nonzero
  | .zero => A.zero

def Assumptions.setMapRaw (A : Assumptions) (id : MapId) (m : List (String × Bool)) : Assumptions :=
  match id with
  | .pos => { A with positive := m }
  | .nonneg => { A with nonneg := m }
  | .neg => { A with negative := m }
  | .nonpos => { A with nonpos := m }
  | .nonzero => { A with nonzero := m }
  | .zero => { A with zero := m }

def lookupB (m : List (String × Bool)) (s : String) : Option Bool :=
  match m with
  | [] => none
  | (k, v) :: t => if k == s then some v else lookupB t s

/-- `Assumptions::from_map` -/
def fromMap (m : List (String × Bool)) (s : String) : Tri :=
  match lookupB m s with
  | some b => Tri.ofBool b
  | none => .i

/-- membership in one of the symbol sets: true or indeterminate -/
def fromSet (l : List String) (s : String) : Tri := if l.contains s then .t else .i

inductive Err where
  | runtime       -- SymEngineException (E:Runtime)
  | unmodelled    -- node outside the modelled fragment
  deriving Repr, DecidableEq

/-- one update; `set_map` throws on a contradicting entry -/
def applyUpd (A : Assumptions) : Upd → Except Err Assumptions
  | .c s => .ok { A with complexS := s :: A.complexS }
  | .r s => .ok { A with realS := s :: A.realS }
  | .q s => .ok { A with ratS := s :: A.ratS }
  | .z s => .ok { A with intS := s :: A.intS }
  | .m id s v =>
    match lookupB (A.getMap id) s with
    | some b => if b == v then .ok (A.setMapRaw id ((s, v) :: A.getMap id)) else .error .runtime
    | none => .ok (A.setMapRaw id ((s, v) :: A.getMap id))

def applyUpds (A : Assumptions) : List Upd → Except Err Assumptions
  | [] => .ok A
  | u :: t => match applyUpd A u with
    | .ok A' => applyUpds A' t
    | .error e => .error e

open MapId in
/-- updates for "x is positive" -/
def updsPositive (x : String) : List Upd :=
  [.m nonneg x true, .m pos x true, .m neg x false, .m nonpos x false, .m nonzero x true, .m zero x false]
open MapId in
def updsNegative (x : String) : List Upd :=
  [.m nonneg x false, .m pos x false, .m neg x true, .m nonpos x true, .m nonzero x true, .m zero x false]

open MapId in
/-- the elementary updates the constructor performs for one statement -/
def stmtUpds (s : Expr) : List Upd :=
  match s with
  | .app h [a, b] =>
    if h == "Contains" then
      match a, b with
      | .sym x, .app st [] =>
        if st == "Complexes" then [.c x]
        else if st == "Reals" then [.c x, .r x]
        else if st == "Rationals" then [.c x, .r x, .q x]
        else if st == "Integers" then [.c x, .r x, .q x, .z x]
        else []
      | _, _ => []
    else if h == "LessThan" then
      match a, b with
      | a, .sym x =>
        if a.isNum then
          .r x :: (if numIsPos a then updsPositive x
                   else if numIsZero a then [.m nonneg x true, .m neg x false] else [])
        else []
      | .sym x, b =>
        if b.isNum then
          .r x :: (if numIsNeg b then updsNegative x
                   else if numIsZero b then [.m nonpos x true, .m pos x false] else [])
        else []
      | _, _ => []
    else if h == "StrictLessThan" then
      match a, b with
      | a, .sym x =>
        if a.isNum then .r x :: (if !numIsNeg a then updsPositive x else []) else []
      | .sym x, b =>
        if b.isNum then .r x :: (if !numIsPos b then updsNegative x else []) else []
      | _, _ => []
    else if h == "Equality" then
      match a, b with
      | a, .sym x =>
        if a.isNum then
          .c x :: (if numIsZero a then
                     [.m zero x true, .r x, .q x, .z x, .m pos x false, .m neg x false,
                      .m nonpos x true, .m nonneg x true, .m nonzero x false]
                   else [.m zero x false, .m nonzero x true])
        else []
      | _, _ => []
    else if h == "Unequality" then
      match a, b with
      | a, .sym x =>
        if a.isNum then (if numIsZero a then [.m zero x false, .m nonzero x true] else []) else []
      | _, _ => []
    else []
  | _ => []

/-- `Assumptions::Assumptions(statements)` -/
def build (stmts : List Expr) : Except Err Assumptions :=
  applyUpds Assumptions.empty (stmts.map stmtUpds).flatten

/-! ## get_args -/

/-- `Add::from_dict(zero, {{key, c}})` for one entry with a coefficient ≠ 1 -/
def termOf (k c : Expr) : Expr :=
  match k with
  | .mul _ facs => .mul c facs
  | .pow b e => .mul c [(b, e)]
  | k => .mul c [(k, .int 1)]

def addArgs : List (Expr × Expr) → List Expr
  | [] => []
  | (k, c) :: t => (if isOne c then k else termOf k c) :: addArgs t

def mulArgs : List (Expr × Expr) → List Expr
  | [] => []
  | (b, e) :: t => (if isOne e then b else .pow b e) :: mulArgs t

/-- `get_args()` of Add and Mul on the stored fields -/
def argsOf : Expr → List Expr
  | .add c ts => (if numIsZero c then [] else [c]) ++ addArgs ts
  | .mul c fs => (if isOne c then [] else [c]) ++ mulArgs fs
  | _ => []

mutual
  /-- a measure that dominates `argsOf` -/
  def size : Expr → Nat
    | .add c ts => 3 + size c + sizePairs ts
    | .mul c fs => 3 + size c + sizePairs fs
    | .pow b e => 3 + size b + size e
    | .fsym _ args => 3 + sizeList args
    | .app _ args => 3 + sizeList args
    | _ => 1
  def sizeList : List Expr → Nat
    | [] => 0
    | a :: t => 1 + size a + sizeList t
  def sizePairs : List (Expr × Expr) → Nat
    | [] => 0
    | (k, v) :: t => 4 + size k + size v + sizePairs t
end

/-! ## canonical-form facts used by the theorems (checked by the driver on every input) -/

def isIntZero : Expr → Bool
  | .int n => n == 0
  | _ => false

def mulCoefOne : Expr → Bool
  | .mul c _ => isOne c
  | _ => true

def isAddNode : Expr → Bool
  | .add _ _ => true
  | _ => false

mutual
  /-- stored-field invariants of canonical objects that the semantic lemmas rely on: rationals are in
      lowest terms with denominator > 1; the coefficient of an Add / Mul is a Number; an Add has at least one
      term, its coefficient is zero only as the Integer 0, its keys are not numbers, and a key
      that is a Mul has coefficient 1 -/
  def wf : Expr → Bool
    | .rat n d => decide (1 < d) && Nat.gcd n.natAbs d == 1
    | .add c ts => wf c && c.isNum && (!numIsZero c || isIntZero c) && !ts.isEmpty && wfTerms ts
    | .mul c fs => wf c && c.isNum && wfPairs fs
    | .pow b e => wf b && wf e
    | .fsym _ args => wfList args
    | .app _ args => wfList args
    | _ => true
  def wfTerms : List (Expr × Expr) → Bool
    | [] => true
    | (k, v) :: t => wf k && wf v && v.isNum && mulCoefOne k && !k.isNum && wfTerms t
  def wfPairs : List (Expr × Expr) → Bool
    | [] => true
    | (b, e) :: t => wf b && wf e && wfPairs t
  def wfList : List Expr → Bool
    | [] => true
    | a :: t => wf a && wfList t
end

/-! ## ZeroVisitor -/

def zeroArgHeads : List String := ["Abs", "Conjugate", "Sign"]

def isZeroF (A : Assumptions) : Nat → Expr → Tri
  | 0, _ => .i
  | fuel + 1, e =>
    match e with
    | .sym s => fromMap A.zero s
    | .const _ => .f
    | .app h [a] => if zeroArgHeads.contains h then isZeroF A fuel a else .i
    | e => if e.isNum then Tri.ofBool (numIsZero e) else .i

def isZero (A : Assumptions) (e : Expr) : Tri := isZeroF A (size e + 1) e
def isNonzero (A : Assumptions) (e : Expr) : Tri := (isZero A e).not

/-! ## sign visitors without container rules -/

/-- NegativeVisitor -/
def isNegative (A : Assumptions) : Expr → Tri
  | .sym s => fromMap A.negative s
  | .const _ => .f
  | e => if e.isNum then (if numIsComplexCls e then .f else Tri.ofBool (numIsNeg e)) else .i

/-- NonNegativeVisitor -/
def isNonnegative (A : Assumptions) : Expr → Tri
  | .sym s => fromMap A.nonneg s
  | .const _ => .t
  | e => if e.isNum then (if numIsComplexCls e then .f else Tri.ofBool (!numIsNeg e)) else .i

/-- NonPositiveVisitor -/
def isNonpositive (A : Assumptions) : Expr → Tri
  | .sym s => fromMap A.nonpos s
  | .const _ => .f
  | e => if e.isNum then (if numIsComplexCls e then .f else Tri.ofBool (!numIsPos e)) else .i

/-! ## PositiveVisitor -/

/-- one iteration of the loop in `PositiveVisitor::bvisit(const Add &)`;
    the state is `(can_be_true, can_be_false)` -/
def posStep (vpos vneg : Bool) (pk nk : Tri) (st : Bool × Bool) : Bool × Bool :=
  if (vpos && pk == .t) || (vneg && nk == .t) then (st.1, false)
  else if (vneg && pk == .t) || (vpos && nk == .t) then (false, st.2)
  else (false, false)

def posFold (pk nk : Expr → Tri) : List (Expr × Expr) → Bool × Bool → Bool × Bool
  | [], st => st
  | (k, v) :: t, st => posFold pk nk t (posStep (numIsPos v) (numIsNeg v) (pk k) (nk k) st)

def posResult (st : Bool × Bool) : Tri := if st.1 then .t else if st.2 then .f else .i

def isPositiveF (A : Assumptions) : Nat → Expr → Tri
  | 0, _ => .i
  | fuel + 1, e =>
    match e with
    | .sym s => fromMap A.positive s
    | .const _ => .t
    | .add c ts =>
      posResult (posFold (isPositiveF A fuel) (isNegative A) ts (!numIsNeg c, !numIsPos c))
    | e => if e.isNum then (if numIsComplexCls e then .f else Tri.ofBool (numIsPos e)) else .i

def isPositive (A : Assumptions) (e : Expr) : Tri := isPositiveF A (size e + 1) e

/-! ## IntegerVisitor -/

def allT (l : List Tri) : Bool := l.all (· == .t)

def isIntegerF (A : Assumptions) : Nat → Expr → Tri
  | 0, _ => .i
  | fuel + 1, e =>
    match e with
    | .int _ => .t
    | .sym s => fromSet A.intS s
    | .const c => if knownConsts.contains c then .f else .i
    | .add c ts => if allT ((argsOf (.add c ts)).map (isIntegerF A fuel)) then .t else .i
    | .mul c fs => if allT ((argsOf (.mul c fs)).map (isIntegerF A fuel)) then .t else .i
    | .app h args =>
      if h == "Conjugate" then
        match args with
        | [a] => isIntegerF A fuel a
        | _ => .i
      else if h == "KroneckerDelta" then .t
      else if isLogic (.app h args) then .f else .i
    | .bool _ => .f
    | e => if e.isNum then .f else .i

def isInteger (A : Assumptions) (e : Expr) : Tri := isIntegerF A (size e + 1) e

/-! ## ComplexVisitor -/

/-- the value the member `is_complex_` holds after the loops of bvisit(Add)/bvisit(Mul):
    the first result that is not true, or true -/
def firstNonT : List Tri → Tri
  | [] => .t
  | .t :: rest => firstNonT rest
  | r :: _ => r

def cplxArgHeads : List String :=
  ["Cos", "Sin", "ASin", "ACos", "Sinh", "Cosh", "Sign", "Floor", "Ceiling", "Abs", "Conjugate"]
/-- functions handled by `complex_arg_not_zero(x, *x.get_arg())` -/
def cplxNotZeroHeads : List String := ["Log", "ASec", "ASech", "ACsc", "ACsch"]
/-- functions whose rule builds a new function object (cos(arg), arg - i, …): not modelled -/
def cplxUnmodelledHeads : List String := ["Tan", "Cot", "Sec", "Csc", "ATan", "ATanh", "ACot", "ACoth"]

/-- `ComplexVisitor::check_power` -/
def cpowWith (visit : Expr → Tri) (b x : Expr) : Tri :=
  let rb := visit b
  if rb == .t then visit x else rb

/-- `complex_arg_not_zero(x, *x.get_arg())`; `is_zero(not_zero)` is called without the assumptions -/
def cplxNotZero (r : Tri) (a : Expr) : Tri :=
  if r == .t then
    let z := isZero Assumptions.empty a
    if z != .f then z.not else .t
  else r

def isComplexF (A : Assumptions) : Nat → Expr → Tri
  | 0, _ => .i
  | fuel + 1, e =>
    match e with
    | .sym s => fromSet A.complexS s
    | .const _ => .t
    | .add c ts => firstNonT ((argsOf (.add c ts)).map (isComplexF A fuel))
    | .mul _ fs => firstNonT (fs.map fun p => cpowWith (isComplexF A fuel) p.1 p.2)
    | .pow b x => cpowWith (isComplexF A fuel) b x
    | .app h args =>
      if h == "KroneckerDelta" then .t
      else if isLogic (.app h args) then .f
      else match args with
        | [a] =>
          if cplxArgHeads.contains h then isComplexF A fuel a
          else if cplxNotZeroHeads.contains h then cplxNotZero (isComplexF A fuel a) a
          else .i
        | _ => .i
    | .bool _ => .f
    | e => if e.isNum then (if isInftyOrNaN e then .f else .t) else .i

def isComplex (A : Assumptions) (e : Expr) : Tri := isComplexF A (size e + 1) e

/-! ## RealVisitor -/

/-- `is_zero(*sub(exp, integer(1)), assumptions_)`: the difference is built by `add`, which folds the
    number into the coefficient and collapses `0 + 1*k` to `k` -/
def subOneIsZero (A : Assumptions) : Expr → Tri
  | .add c ts =>
    if numSubOneIsZero c then
      match ts with
      | [(k, v)] => if isOne v then isZero A k else .i
      | _ => .i
    else .i
  | e => if e.isNum then Tri.ofBool (numSubOneIsZero e) else .i

def andwkList : List Tri → Tri
  | [] => .t
  | r :: rest => Tri.andwk r (andwkList rest)

/-- result of the loop of `RealVisitor::bvisit(const Mul &)` -/
def realMulRes (coefNonReal : Bool) (rs : List Tri) : Tri :=
  if rs.any (· == .i) then .i
  else
    let n := (if coefNonReal then 1 else 0) + rs.countP (· == .f)
    if n ≥ 2 then .i else if n == 1 then .f else .t

/-- `RealVisitor::check_power` -/
def checkPowerWith (A : Assumptions) (visit : Expr → Tri) (b x : Expr) : Tri :=
  if isZero A x == .t then .t
  else
    let rb := visit b
    if rb == .t then
      if isInteger A x == .t then .t
      else if isNonnegative A b == .t then
        let rx := visit x
        if rx == .f then .i else rx
      else .i
    else if rb == .f && isComplex A b == .t && subOneIsZero A x == .t then .f
    else .i

def isRealF (A : Assumptions) : Nat → Expr → Tri
  | 0, _ => .i
  | fuel + 1, e =>
    match e with
    | .sym s => fromSet A.realS s
    | .const c => if knownConsts.contains c then .t else .i
    | .add c ts => andwkList ((argsOf (.add c ts)).map (isRealF A fuel))
    | .mul c fs => realMulRes (numIsComplexMeth c) (fs.map fun p => checkPowerWith A (isRealF A fuel) p.1 p.2)
    | .pow b x => checkPowerWith A (isRealF A fuel) b x
    | .app h args => if isLogic (.app h args) then .f else .i
    | .bool _ => .f
    | e => if e.isNum then (if numIsComplexCls e || isInftyOrNaN e then .f else .t) else .i

def isReal (A : Assumptions) (e : Expr) : Tri := isRealF A (size e + 1) e

/-! ## RationalVisitor -/

/-- loop of `RationalVisitor::bvisit(const Add &)`: stops at the first indeterminate argument, otherwise the
    member keeps the value of the last argument; `neither_` accumulates -/
def ratAdd : Tri → Bool → List (Tri × Bool) → Tri × Bool
  | last, nei, [] => (last, nei)
  | _, nei, (r, n) :: rest => if r == .i then (.i, nei || n) else ratAdd r (nei || n) rest

def ratConsts : List String := ["pi", "E", "GoldenRatio"]

/-- the pair `(is_rational_, neither_)` after the visit -/
def ratF : Nat → Expr → Tri × Bool
  | 0, _ => (.i, false)
  | fuel + 1, e =>
    match e with
    | .int _ => (.t, false)
    | .rat _ _ => (.t, false)
    | .const c => (if ratConsts.contains c then .f else .i, false)
    | .add c ts => ratAdd .i false ((argsOf (.add c ts)).map (ratF fuel))
    | .app h args => if isLogic (.app h args) then (.f, true) else (.i, false)
    | .bool _ => (.f, true)
    | e => if e.isNum then (.f, numIsComplexCls e || isInftyOrNaN e) else (.i, false)

/-- `RationalVisitor::apply` for `is_rational` (`rational = true`) / `is_irrational` -/
def ratApply (rational : Bool) (r : Tri × Bool) : Tri :=
  if !rational && !r.2 then r.1.not else r.1

def isRational (e : Expr) : Tri := ratApply true (ratF (size e + 1) e)
def isIrrational (e : Expr) : Tri := ratApply false (ratF (size e + 1) e)

/-! ## FiniteVisitor -/

def isFinite (A : Assumptions) : Expr → Tri
  | .sym s => fromSet A.complexS s
  | .const _ => .t
  | .infty _ => .f
  | .nan => .i     -- `FiniteVisitor::bvisit(const NaN &)` throws (see `query`)
  | e => if e.isNum then .t else .i

def isInfinite (A : Assumptions) (e : Expr) : Tri := (isFinite A e).not

/-! ## AlgebraicVisitor -/

def algAdd : Tri → List Tri → Tri
  | cur, [] => cur
  | cur, r :: rest =>
    if cur == .f && r == .f then .i
    else
      let cur' := Tri.andwk cur r
      if cur' == .i then .i else algAdd cur' rest

def algTransHeads : List String :=
  ["Sin", "Cos", "Tan", "Cot", "Csc", "Sec", "Sinh", "Csch", "Cosh", "Sech", "Tanh", "Coth", "LambertW"]

def isAlgebraicF (A : Assumptions) : Nat → Expr → Tri
  | 0, _ => .i
  | fuel + 1, e =>
    match e with
    | .int _ => .t
    | .rat _ _ => .t
    | .sym s => fromSet A.ratS s
    | .const c => if c == "pi" || c == "E" then .f else if c == "GoldenRatio" then .t else .i
    | .add c ts => algAdd .t ((argsOf (.add c ts)).map (isAlgebraicF A fuel))
    | .app h [a] =>
      if algTransHeads.contains h then
        -- `is_nonzero(b)` is called without the assumptions
        if isAlgebraicF A fuel a == .t && isNonzero Assumptions.empty a == .t then .f else .i
      else .i
    | _ => .i

def isAlgebraic (A : Assumptions) (e : Expr) : Tri := isAlgebraicF A (size e + 1) e
def isTranscendental (A : Assumptions) (e : Expr) : Tri := (isAlgebraic A e).not

/-! ## queries as dispatched by the driver -/

/-- nodes below the top for which the model is not exact: Set/Relational/Boolean objects nested inside
    an expression (several visitors throw when they reach one; whether they reach it depends on hash order) -/
def nestedLogicList : List Expr → Bool
  | [] => false
  | a :: t => isLogic a || nestedLogicList t

mutual
  def hasLogic : Expr → Bool
    | .add c ts => hasLogic c || hasLogicPairs ts
    | .mul c fs => hasLogic c || hasLogicPairs fs
    | .pow b e => hasLogic b || hasLogic e
    | .fsym _ args => hasLogicList args
    | .app h args => isLogic (.app h args) || hasLogicList args
    | .bool _ => true
    | _ => false
  def hasLogicList : List Expr → Bool
    | [] => false
    | a :: t => hasLogic a || hasLogicList t
  def hasLogicPairs : List (Expr × Expr) → Bool
    | [] => false
    | (k, v) :: t => hasLogic k || hasLogic v || hasLogicPairs t
end

mutual
  def hasHead (hs : List String) : Expr → Bool
    | .add c ts => hasHead hs c || hasHeadPairs hs ts
    | .mul c fs => hasHead hs c || hasHeadPairs hs fs
    | .pow b e => hasHead hs b || hasHead hs e
    | .fsym _ args => hasHeadList hs args
    | .app h args => hs.contains h || hasHeadList hs args
    | _ => false
  def hasHeadList (hs : List String) : List Expr → Bool
    | [] => false
    | a :: t => hasHead hs a || hasHeadList hs t
  def hasHeadPairs (hs : List String) : List (Expr × Expr) → Bool
    | [] => false
    | (k, v) :: t => hasHead hs k || hasHead hs v || hasHeadPairs hs t
end

/-- is the ComplexVisitor result on this tree dependent on the dictionary order?  (some Add/Mul node
    whose dictionary part has both a false and an indeterminate entry) -/
def mixedFI (l : List Tri) : Bool := l.any (· == .f) && l.any (· == .i)

mutual
  def orderSensitive (A : Assumptions) : Expr → Bool
    | .add c ts =>
      mixedFI ((addArgs ts).map (isComplex A)) || orderSensitive A c || orderSensitivePairs A ts
    | .mul c fs =>
      mixedFI ((mulArgs fs).map (isComplex A)) || orderSensitive A c || orderSensitivePairs A fs
    | .pow b e => orderSensitive A b || orderSensitive A e
    | .fsym _ args => orderSensitiveList A args
    | .app _ args => orderSensitiveList A args
    | _ => false
  def orderSensitiveList (A : Assumptions) : List Expr → Bool
    | [] => false
    | a :: t => orderSensitive A a || orderSensitiveList A t
  def orderSensitivePairs (A : Assumptions) : List (Expr × Expr) → Bool
    | [] => false
    | (k, v) :: t => orderSensitive A k || orderSensitive A v || orderSensitivePairs A t
end

/-- the queries that throw on Set / Relational / Boolean objects -/
def throwingQueries : List String :=
  ["zero", "nonzero", "positive", "negative", "nonnegative", "nonpositive", "finite", "infinite",
   "algebraic", "transcendental"]

/-- dispatch on the query name (none: unknown query) -/
def queryCore (q : String) (A : Assumptions) (e : Expr) : Option Tri :=
  if q == "zero" then some (isZero A e)
  else if q == "nonzero" then some (isNonzero A e)
  else if q == "positive" then some (isPositive A e)
  else if q == "negative" then some (isNegative A e)
  else if q == "nonnegative" then some (isNonnegative A e)
  else if q == "nonpositive" then some (isNonpositive A e)
  else if q == "integer" then some (isInteger A e)
  else if q == "real" then some (isReal A e)
  else if q == "complex" then some (isComplex A e)
  else if q == "rational" then some (isRational e)
  else if q == "irrational" then some (isIrrational e)
  else if q == "finite" then some (isFinite A e)
  else if q == "infinite" then some (isInfinite A e)
  else if q == "algebraic" then some (isAlgebraic A e)
  else if q == "transcendental" then some (isTranscendental A e)
  else none

def isNaN : Expr → Bool
  | .nan => true
  | _ => false

/-- inputs on which the library throws (`runtime`) or which are outside the modelled fragment (`unmodelled`) -/
def queryGuard (q : String) (A : Assumptions) (e : Expr) : Option Err :=
  if isLogic e then (if throwingQueries.contains q then some .runtime else none)
  else if hasLogic e then some .unmodelled
  else if (q == "finite" || q == "infinite") && isNaN e then some .runtime
  else if (q == "zero" || q == "nonzero" || q == "real") && hasHead ["PrimePi"] e then some .unmodelled
  else if (q == "real" || q == "complex") && (hasHead cplxUnmodelledHeads e || orderSensitive A e) then
    some .unmodelled
  else none

/-- what the driver runs -/
def query (q : String) (A : Assumptions) (e : Expr) : Except Err Tri :=
  match queryGuard q A e with
  | some err => .error err
  | none =>
    match queryCore q A e with
    | some r => .ok r
    | none => .error .unmodelled

end SymVerif.Queries
