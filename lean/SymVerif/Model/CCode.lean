/-
Model of the C code printers (symengine/printers/codegen.cpp: CodePrinter, C89CodePrinter,
C99CodePrinter, on top of StrPrinter in printers/strprinter.cpp):

  toC    : Expr → CExpr     the C expression tree the printer emits (with the parentheses it adds)
  render : CExpr → String   concrete syntax, character for character what `ccode()` returns

and an independent small C expression front end

  lex / cparse : String → List Tok → CExpr   C operator precedence (ISO C 6.5), fuel based
  cEval        : value of a C expression tree over a number structure

The tree handed to `toC` is in *printing order* (harness: Add entries sorted by `__cmp__`, Mul
entries / And-Or-Xor operands in container order) and has the RewriteTrigVisitor rewrites already
applied (`rewritesTo` checks that certificate).
Core Lean only.
-/
import SymVerif.Model.EvalG
import SymVerif.Model.EvalFloat

namespace SymVerif.CCode
open SymVerif.EvalG

/-! ### print_double: `%.15g`, then ".0" / "." appended -/

def pow10 (n : Nat) : Nat := 10 ^ n

/-- decimal exponent X with 10^X ≤ num/den < 10^(X+1)  (num, den > 0) -/
def dec10 (num den : Nat) : Int :=
  let ge (x : Int) : Bool := if x ≥ 0 then num ≥ den * pow10 x.toNat else num * pow10 (-x).toNat ≥ den
  -- estimate from bit lengths, then correct
  let est : Int := (((Nat.log2 num : Int) - (Nat.log2 den : Int)) * 30103) / 100000
  let rec down (x : Int) (fuel : Nat) : Int :=
    match fuel with
    | 0 => x
    | f + 1 => if ge x then x else down (x - 1) f
  let rec up (x : Int) (fuel : Nat) : Int :=
    match fuel with
    | 0 => x
    | f + 1 => if ge (x + 1) then up (x + 1) f else x
  up (down (est + 1) 6) 6

def stripTrailingZeros (l : List Char) : List Char :=
  (l.reverse.dropWhile (· == '0')).reverse

def padLeft (n : Nat) (l : List Char) : List Char := List.replicate (n - l.length) '0' ++ l

/-- `printf("%.15g", d)` for a finite double given by its bit pattern -/
def fmtG15 (b : UInt64) : String :=
  match bitsToQ b with
  | none => if (b &&& 0xfffffffffffff) == 0 then (if b >>> 63 == 1 then "-inf" else "inf") else "nan"
  | some (n, den) =>
    let sign := if b >>> 63 == 1 then "-" else ""
    let num := n.natAbs
    if num == 0 then sign ++ "0" else
    let x := dec10 num den
    -- D = round-half-even(num/den / 10^(x-14))
    let s : Int := 14 - x
    let (q, r, dd) : Nat × Nat × Nat :=
      if s ≥ 0 then let nn := num * pow10 s.toNat; (nn / den, nn % den, den)
      else let d2 := den * pow10 (-s).toNat; (num / d2, num % d2, d2)
    let up := 2 * r > dd || (2 * r == dd && q % 2 == 1)
    let q := if up then q + 1 else q
    let (q, x) := if q == pow10 15 then (pow10 14, x + 1) else (q, x)
    let digits := padLeft 15 (toString q).toList
    if x < -4 || x ≥ 15 then
      let ds := stripTrailingZeros digits
      let mant := match ds with
        | [] => "0"
        | [d] => String.ofList [d]
        | d :: rest => String.ofList (d :: '.' :: rest)
      let ex := x.natAbs
      let exs := if ex < 10 then "0" ++ toString ex else toString ex
      sign ++ mant ++ "e" ++ (if x < 0 then "-" else "+") ++ exs
    else if x ≥ 0 then
      let ip := digits.take (x.toNat + 1)
      let fp := stripTrailingZeros (digits.drop (x.toNat + 1))
      sign ++ String.ofList ip ++ (if fp.isEmpty then "" else "." ++ String.ofList fp)
    else
      let fp := stripTrailingZeros (List.replicate ((-x).toNat - 1) '0' ++ digits)
      sign ++ "0." ++ String.ofList fp

/-- `print_double` of strprinter.cpp (the `digits10 - size() > 0` test is unsigned: false only for size 15) -/
def printDouble (b : UInt64) : String :=
  let s := fmtG15 b
  if s.contains '.' || s.contains 'e' then s
  else if s.length != 15 then s ++ ".0" else s ++ "."

/-- `print_double` of a negative number without its '-' (the size test counts the sign character) -/
def printDoubleAbs (b : UInt64) (hadMinus : Bool) : String :=
  let s := fmtG15 b
  if s.contains '.' || s.contains 'e' then s
  else if s.length + (if hadMinus then 1 else 0) != 15 then s ++ ".0" else s ++ "."

/-! ### C expression trees -/

inductive BinOp where
  | mul | div | add | sub | lt | le | gt | ge | eq | ne | land | lor
  deriving DecidableEq, Repr, Inhabited

/-- a numeric literal as the printer emits it: a decimal integer constant, or `print_double` of a
(non-negative) double, optionally with the float suffix -/
inductive NumLit where
  | int (n : Nat)
  | dbl (bits : UInt64) (f : Bool) (hadMinus : Bool)
  deriving DecidableEq, Repr, Inhabited

def NumLit.str : NumLit → String
  | .int n => toString n
  | .dbl b f m => printDoubleAbs b m ++ (if f then "f" else "")

inductive CExpr where
  /-- literal token as read back by the parser -/
  | lit (s : String)
  /-- literal emitted by the printer model -/
  | num (v : NumLit)
  | ident (s : String)
  | call (f : String) (args : List CExpr)
  | neg (a : CExpr)
  | lnot (a : CExpr)
  | bin (op : BinOp) (a b : CExpr)
  | cond (multiline : Bool) (c a b : CExpr)
  | paren (a : CExpr)
  deriving Repr, Inhabited, BEq

def BinOp.str : BinOp → String
  | .mul => "*" | .div => "/" | .add => " + " | .sub => " - "
  | .lt => " < " | .le => " <= " | .gt => " > " | .ge => " >= " | .eq => " == " | .ne => " != "
  | .land => " && " | .lor => " || "

mutual
  /-- concrete syntax exactly as the printers lay it out -/
  def render : CExpr → String
    | .lit s => s
    | .num v => v.str
    | .ident s => s
    | .call f args => f ++ "(" ++ renderArgs args ++ ")"
    | .neg a => "-" ++ render a
    | .lnot a => "!" ++ render a
    | .bin op a b => render a ++ op.str ++ render b
    | .cond true c a b => render c ++ " ? " ++ renderML a ++ "\n: " ++ renderML b
    | .cond false c a b => render c ++ " ? " ++ render a ++ " : " ++ render b
    | .paren a => "(" ++ render a ++ ")"
  /-- a parenthesised branch of the multi-line Piecewise layout: `(\n   e\n)`; other shapes as `render` -/
  def renderML : CExpr → String
    | .paren (.cond true c a b) => "(" ++ render c ++ " ? " ++ renderML a ++ "\n: " ++ renderML b ++ ")"
    | .paren a => "(\n   " ++ render a ++ "\n)"
    | e => render e
  def renderArgs : List CExpr → String
    | [] => ""
    | [a] => render a
    | a :: t => render a ++ ", " ++ renderArgs t
end

/-! ### the printer -/

inductive Flavor where
  | c89 | c99
  deriving DecidableEq, Repr

structure PCfg where
  flavor : Flavor
  float : Bool
  /-- CodePrinter::bvisit(UnevaluatedExpr) parenthesises its argument (translated flag) -/
  unevalParen : Bool
  /-- generic function names `init_str_printer_names` (translated) -/
  names : List (String × String)

inductive PErr where
  | notSupported    -- SymEngineException("Not supported")
  | notImpl         -- NotImplementedError
  | unmodelled      -- outside the modelled fragment
  deriving DecidableEq, Repr

def PErr.token : PErr → String
  | .notSupported => "E:Runtime"
  | .notImpl => "E:NotImplemented"
  | .unmodelled => "E:unmodelled"

/-- PrecedenceEnum { Relational, Add, Mul, Pow, Atom } as 0..4 (class Precedence) -/
def prec : Expr → Nat
  | .add _ _ => 1
  | .mul _ _ => 2
  | .pow _ _ => 3
  | .rat _ _ => 1
  | .int n => if n < 0 then 2 else 4
  | .dbl b => if (b >>> 63 == 1) && (b != 0x8000000000000000) && !(isNaNBitsC b) then 2 else 4
  | .cplx re im => if re.num == 0 then (if im.num == 1 && im.den == 1 then 4 else 2) else 1
  | .cdbl _ _ => 1
  | .app h _ => if ["Equality", "Unequality", "LessThan", "StrictLessThan"].contains h then 0 else 4
  | _ => 4
where isNaNBitsC (b : UInt64) : Bool := (b &&& 0x7fffffffffffffff) > 0x7ff0000000000000

def suffix (cfg : PCfg) : String := if cfg.float then "f" else ""
def mathFn (cfg : PCfg) (n : String) : String := if cfg.float then n ++ "f" else n

/-- `print_scalar_literal(d)` as a C tree: a leading '-' is a unary minus token -/
def scalarLit (cfg : PCfg) (bits : UInt64) : CExpr :=
  if bits >>> 63 == 1 then .neg (.num (.dbl (bits &&& 0x7fffffffffffffff) cfg.float true))
  else .num (.dbl bits cfg.float false)

def intBits (n : Int) : UInt64 := (ratToBits false n 1).getD 0

def intLit (cfg : PCfg) (n : Int) : CExpr :=
  if cfg.float then scalarLit cfg (intBits n)
  else if n < 0 then .neg (.num (.int n.natAbs)) else .num (.int n.natAbs)

/-- remove the '-' a rendered term starts with (StrPrinter::bvisit(Add): `t[0] == '-'`, `t.substr(1)`) -/
def stripLeadNeg : CExpr → Option CExpr
  | .neg a => some a
  | .bin op a b => (stripLeadNeg a).map (fun a' => .bin op a' b)
  | .cond m c a b => (stripLeadNeg c).map (fun c' => .cond m c' a b)
  | _ => none

/-- a '-' written in front of a rendered operand binds to its leftmost primary in C -/
def negLeft : CExpr → CExpr
  | .bin op a b => .bin op (negLeft a) b
  | e => .neg e

def mulAll : List CExpr → Option CExpr
  | [] => none
  | a :: t => some (t.foldl (fun acc x => .bin .mul acc x) a)

/-- `print_binary_reduction_impl`: balanced fmax/fmin tree, split at size/2 -/
def binReduce (f : String) (fuel : Nat) (args : List CExpr) : Option CExpr :=
  match fuel with
  | 0 => none
  | fuel + 1 =>
    match args with
    | [] => none
    | [a] => some a
    | _ =>
      let mid := args.length / 2
      match binReduce f fuel (args.take mid), binReduce f fuel (args.drop mid) with
      | some l, some r => some (.call f [l, r])
      | _, _ => none

def isHalf : Expr → Bool
  | .rat 1 2 => true
  | _ => false
def isThird : Expr → Bool
  | .rat 1 3 => true
  | _ => false
def isMinusOne : Expr → Bool
  | .int (-1) => true
  | _ => false
/-- negative Integer or Rational (Mul denominators) -/
def isNegRat : Expr → Bool
  | .int n => n < 0
  | .rat n _ => n < 0
  | _ => false
def negNum : Expr → Expr
  | .int n => .int (-n)
  | .rat n d => .rat (-n) d
  | e => e

def parenIf (b : Bool) (c : CExpr) : CExpr := if b then .paren c else c

def relOp : String → Option BinOp
  | "Equality" => some .eq
  | "Unequality" => some .ne
  | "LessThan" => some .le
  | "StrictLessThan" => some .lt
  | _ => none

/-- kinds the RewriteTrigVisitor replaces before printing: they never reach `toC` -/
def rewrittenKinds : List String :=
  ["Cot", "Csc", "Sec", "ACot", "ACsc", "ASec", "Coth", "Csch", "Sech", "ACoth", "ACsch", "ASech"]

/-- CodePrinter::bvisit(Piecewise) on printed operands: e₁ c₁ … eₙ cₙ with cₙ = True -/
def pwShape : List Expr → List CExpr → Except PErr CExpr
  | [_, c], [ce, _] =>
    match c with
    | .bool true => .ok (.paren ce)
    | _ => .error .notSupported
  | _ :: _ :: rest, ce :: cc :: crest => do
    let r ← pwShape rest crest
    pure (.paren (.cond true (.paren cc) (.paren ce) r))
  | _, _ => .error .unmodelled

/-- every node kind other than Add/Mul/Pow/Contains, on already printed operands `cs` -/
def appShape (cfg : PCfg) (h : String) (args : List Expr) (cs : List CExpr) : Except PErr CExpr :=
  match relOp h, cs with
  | some op, [ca, cb] => .ok (.bin op ca cb)
  | _, _ =>
  if rewrittenKinds.contains h then .error .unmodelled
  else if h == "Piecewise" then pwShape args cs
  else if h == "And" || h == "Or" then
    match cs.map CExpr.paren with
    | [] => .error .unmodelled
    | a :: t => .ok (.paren (t.foldl (fun acc x => .bin (if h == "And" then .land else .lor) acc x) a))
  else if h == "Xor" then
    match cs.map (fun c => CExpr.paren (.bin .ne (.paren c) (.num (.int 0)))) with
    | [] => .error .unmodelled
    | a :: t => .ok (.paren (t.foldl (fun acc x => .bin .ne acc x) a))
  else if h == "Not" then
    match cs with
    | [c] => .ok (.lnot (.paren c))
    | _ => .error .unmodelled
  else if h == "Sign" then
    match cs with
    | [c] =>
      let z := scalarLit cfg 0
      let one := scalarLit cfg (intBits 1)
      let mone := scalarLit cfg (intBits (-1))
      .ok (.paren (.cond false (.paren (.bin .eq c z)) (.paren z)
        (.paren (.cond false (.paren (.bin .lt c z)) (.paren mone) (.paren one)))))
    | _ => .error .unmodelled
  else if h == "UnevaluatedExpr" then
    match cs with
    | [c] => .ok (parenIf cfg.unevalParen c)
    | _ => .error .unmodelled
  else if h == "Max" || h == "Min" then
    if cs.length < 2 then .error .notSupported else
    match binReduce (mathFn cfg (if h == "Max" then "fmax" else "fmin")) (cs.length + 1) cs with
    | some c => .ok c
    | none => .error .unmodelled
  else
    let special : Option String :=
      if h == "Abs" then some (mathFn cfg "fabs")
      else if h == "Ceiling" then some (mathFn cfg "ceil")
      else if h == "Truncate" then some (mathFn cfg "trunc")
      else if h == "Gamma" && cfg.flavor == .c99 then some (mathFn cfg "tgamma")
      else if h == "LogGamma" && cfg.flavor == .c99 then some (mathFn cfg "lgamma")
      else (cfg.names.lookup h).map (mathFn cfg)
    match special with
    | none => .error .notSupported
    | some f => .ok (.call f cs)

/-- Integer / Rational leaves (CodePrinter::bvisit(Integer), bvisit(Rational)) -/
def numC (cfg : PCfg) : Expr → CExpr
  | .int n => intLit cfg n
  | .rat n d => .bin .div (scalarLit cfg (intBits n)) (scalarLit cfg (intBits d))
  | _ => .ident "?"

/-- `_print_pow` of C89CodePrinter / C99CodePrinter on already printed operands -/
def powShape (cfg : PCfg) (b e : Expr) (cb ce : CExpr) : CExpr :=
  if isE b then .call (mathFn cfg "exp") [ce]
  else if isMinusOne e then .bin .div (intLit cfg 1) (parenIf (prec b ≤ 2) cb)
  else if isHalf e then .call (mathFn cfg "sqrt") [cb]
  else if isThird e && cfg.flavor == .c99 then .call (mathFn cfg "cbrt") [cb]
  else .call (mathFn cfg "pow") [cb, ce]

mutual
  /-- `apply(b)` of C89CodePrinter / C99CodePrinter -/
  def toC (cfg : PCfg) : Expr → Except PErr CExpr
    | .int n => .ok (numC cfg (.int n))
    | .rat n d =>
      -- CodePrinter::bvisit(Rational): print_scalar_literal(num) "/" print_scalar_literal(den)
      .ok (numC cfg (.rat n d))
    | .dbl b => .ok (scalarLit cfg b)
    | .sym n => .ok (.ident n)
    | .const n =>
      if n == "E" then
        .ok (if cfg.float then .call (mathFn cfg "exp") [scalarLit cfg (intBits 1)] else .call "exp" [.num (.int 1)])
      else if n == "pi" then
        .ok (if cfg.float then .call (mathFn cfg "acos") [scalarLit cfg (intBits (-1))] else .call "acos" [.neg (.num (.int 1))])
      else .ok (.ident n)
    | .infty d =>
      let nm := if cfg.flavor == .c89 then "HUGE_VAL" else "INFINITY"
      if d == 1 then .ok (.ident nm) else if d == -1 then .ok (.neg (.ident nm)) else .error .notSupported
    | .nan => .ok (.ident "NAN")
    | .bool b => .ok (scalarLit cfg (intBits (if b then 1 else 0)))
    | .cplx _ _ => .error .notImpl
    | .cdbl _ _ => .error .unmodelled
    | .dummy n i => .ok (.ident (n ++ "_" ++ toString i))
    | .fsym _ _ => .error .unmodelled
    | .add coef terms => do
      -- StrPrinter::bvisit(Add): coefficient first (unless zero), then the terms in __cmp__ order
      let first ← if isZero coef then pure none else do
        let c ← toC cfg coef
        pure (some c)
      addTerms cfg first terms
    | .mul coef facs => do
      -- StrPrinter::bvisit(Mul), split_mul_coef() == false
      let (cn, lead) ← if isMinusOne coef then pure (([] : List CExpr), true)
        else if isOne coef then pure ([], false)
        else do
          let c ← toC cfg coef
          pure ([parenIf (prec coef < 2) c], false)
      let (nums, dens) ← mulFacs cfg facs
      let numL := cn ++ nums
      let numL := if numL.isEmpty then [intLit { cfg with float := false } 1] else numL
      -- the "-" of a coefficient -1 is glued to the first factor
      let numL := if lead then (match numL with
        | a :: t => negLeft a :: t
        | [] => []) else numL
      match mulAll numL with
      | none => .error .unmodelled
      | some num =>
        match dens with
        | [] => pure num
        | [d] => pure (.bin .div num d)
        | ds => match mulAll ds with
          | some d => pure (.bin .div num (.paren d))
          | none => .error .unmodelled
    | .pow b e => do
      let cb ← toC cfg b
      let ce ← toC cfg e
      pure (powShape cfg b e cb ce)
    | .app h args =>
      if h == "Contains" then containsC cfg args
      else do
        let cs ← toCList cfg args
        appShape cfg h args cs

  def toCList (cfg : PCfg) : List Expr → Except PErr (List CExpr)
    | [] => .ok []
    | a :: t => do
      let c ← toC cfg a
      let cs ← toCList cfg t
      pure (c :: cs)

  /-- the dictionary loop of StrPrinter::bvisit(Mul): (numerator factors, denominator factors) -/
  def mulFacs (cfg : PCfg) : List (Expr × Expr) → Except PErr (List CExpr × List CExpr)
    | [] => .ok ([], [])
    | (b, e) :: t => do
      let cb ← toC cfg b
      let ce ← toC cfg e
      let (ns, ds) ← mulFacs cfg t
      if isNegRat e && !(isE b) then
        if isMinusOne e then pure (ns, parenIf (prec b < 2) cb :: ds)
        else pure (ns, powShape cfg b (negNum e) cb (numC cfg (negNum e)) :: ds)
      else if isOne e then pure (parenIf (prec b < 2) cb :: ns, ds)
      else pure (powShape cfg b e cb ce :: ns, ds)

  /-- the term loop of StrPrinter::bvisit(Add) -/
  def addTerms (cfg : PCfg) (acc : Option CExpr) : List (Expr × Expr) → Except PErr CExpr
    | [] => match acc with
      | some c => .ok c
      | none => .error .unmodelled
    | (k, c) :: rest => do
      let t ← if isOne c then do
          let ck ← toC cfg k
          pure (parenIf (prec k < 1) ck)
        else if isMinusOne c then do
          let ck ← toC cfg k
          pure (negLeft (parenIf (prec k < 2) ck))
        else do
          let cc ← toC cfg c
          let ck ← toC cfg k
          -- "coef*key": when the key prints as a quotient `1/…` (Pow with exponent -1, precedence Pow)
          -- the C grammar reads  coef*1/…  as  (coef*1)/…
          match isRecipPow k, ck with
          | true, .bin .div one den => pure (CExpr.bin .div (.bin .mul (parenIf (prec c < 2) cc) one) den)
          | _, _ => pure (CExpr.bin .mul (parenIf (prec c < 2) cc) (parenIf (prec k < 2) ck))
      let acc' := match acc with
        | none => t
        | some a => match stripLeadNeg t with
          | some t' => CExpr.bin .sub a t'
          | none => CExpr.bin .add a t
      addTerms cfg (some acc') rest
  where isRecipPow : Expr → Bool
    | .pow b e => isMinusOne e && !(isE b)
    | _ => false

  /-- CodePrinter::bvisit(Contains) + bvisit(Interval) -/
  def containsC (cfg : PCfg) : List Expr → Except PErr CExpr
    | [x, .app "Interval" [s, e, .bool lo, .bool ro]] => do
      let cx ← toC cfg x
      let negInf := match s with
        | .infty (-1) => true
        | _ => false
      let posInf := match e with
        | .infty 1 => true
        | _ => false
      let left ← if negInf then pure none else do
        let cs ← toC cfg s
        pure (some (CExpr.bin (if lo then .gt else .ge) cx cs))
      let right ← if posInf then pure none else do
        let ce ← toC cfg e
        pure (some (CExpr.bin (if ro then .lt else .le) cx ce))
      match left, right with
      | some l, some r => pure (.bin .land l r)
      | some l, none => pure l
      | none, some r => pure r
      | none, none => .error .unmodelled
    | _ => .error .notSupported
end

end SymVerif.CCode
