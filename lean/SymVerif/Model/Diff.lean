/-
C10 model: the *textbook* symbolic derivative on `SymVerif.Expr` trees, following the rules of
`DiffVisitor` (symengine/derivative.cpp) one by one, but producing an **unsimplified** tree: the
library re-canonicalises every intermediate result through `add`/`mul`/`pow`, the model does not.
The two are compared by the proven-sound normaliser `NF` (certificate checking, `Drv/C10.lean`).

  occurs x e        x occurs syntactically in e (the walk of `has_symbol`)
  diffE x e         derivative of e with respect to the symbol named x
  diffC x e memo    the same traversal with the `visited` memo table of `DiffVisitor::apply`
                    threaded through (keys: the visited sub-objects, looked up with `Expr.eqb`)
  supported e       e only contains node kinds whose rule is modelled

Rules (derivative.cpp):
  Number, Constant → 0;  Symbol → 1 / 0
  Add   : termwise, coefficients kept
  Mul   : product rule over the dictionary, factor i replaced by d(bᵢ^eᵢ)
  Pow   : numeric exponent  e·b^(e-1)·b'   (e-1 computed on integer / rational literals)
          otherwise         b^e · d(e·log b) = b^e·(e'·log b + e·b⁻¹·b');  base E: b^e·e'
  one-argument functions: chain rule with the outer derivative of table `fprime`
  Abs   : 0 if x does not occur, else the unevaluated `Derivative(abs(a), x)`
  ATan2, Beta: as coded;  Zeta/PolyGamma/LowerGamma/UpperGamma: `fdiff` with the known index 1
  FunctionSymbol: `fdiff` – `Derivative(f(..x..), x)` or `Subs(Derivative(f(.._xi_i..), _xi_i), _xi_i, argᵢ)·argᵢ'`
Core Lean only.
-/
import SymVerif.Model.NF
import SymVerif.Model.ExprEq

namespace SymVerif
namespace Diff
open SymVerif Expr

/-! ### syntactic occurrence (`has_symbol` for a plain Symbol) -/

mutual
  def occurs (x : String) : Expr → Bool
    | .sym n => n == x
    | .add c ts => occurs x c || occursPairs x ts
    | .mul c fs => occurs x c || occursPairs x fs
    | .pow b e => occurs x b || occurs x e
    | .fsym _ args => occursList x args
    | .app _ args => occursList x args
    | _ => false
  def occursList (x : String) : List Expr → Bool
    | [] => false
    | a :: t => occurs x a || occursList x t
  def occursPairs (x : String) : List (Expr × Expr) → Bool
    | [] => false
    | (k, v) :: t => occurs x k || occurs x v || occursPairs x t
end

/-! ### small tree builders (no canonicalisation) -/

def zero : Expr := .int 0
def one : Expr := .int 1
/-- `Π l` as a `Mul` tree with unit exponents -/
def prod (l : List Expr) : Expr := .mul (.int 1) (l.map fun e => (e, .int 1))
def sq (a : Expr) : Expr := .pow a (.int 2)
/-- `1 + t` -/
def onePlus (t : Expr) : Expr := .add (.int 1) [(t, .int 1)]
/-- `1 - t` -/
def oneMinus (t : Expr) : Expr := .add (.int 1) [(t, .int (-1))]
/-- `t - 1` -/
def minusOnePlus (t : Expr) : Expr := .add (.int (-1)) [(t, .int 1)]
def fn1 (h : String) (a : Expr) : Expr := .app h [a]
def halfNeg : Expr := .rat (-1) 2

/-- `e - 1` for a numeric exponent: computed on integer and rational literals (as `sub(exp, one)` does),
left as an unevaluated sum otherwise -/
def decExp : Expr → Expr
  | .int n => .int (n - 1)
  | .rat n d => .rat (n - d) d
  | e => .add (.int (-1)) [(e, .int 1)]

/-- `s + 1` for the parameter of `zeta` / `polygamma` (literals folded, an `Add` keeps its shape) -/
def incE : Expr → Expr
  | .int n => .int (n + 1)
  | .rat n d => .rat (n + d) d
  | .add (.int c) ts => .add (.int (c + 1)) ts
  | .mul (.int c) [(b, .int 1)] => .add (.int 1) [(b, .int c)]
  | e => .add (.int 1) [(e, .int 1)]

/-- `s - 1` likewise (exponent of `x**(s-1)` in the incomplete gamma rules) -/
def decE : Expr → Expr
  | .int n => .int (n - 1)
  | .rat n d => .rat (n - d) d
  | .add (.int c) ts => .add (.int (c - 1)) ts
  | .mul (.int c) [(b, .int 1)] => .add (.int (-1)) [(b, .int c)]
  | e => .add (.int (-1)) [(e, .int 1)]

/-- `-a` as the library's `neg` prints it for the simple shapes -/
def negE : Expr → Expr
  | .int n => .int (-n)
  | .rat n d => .rat (-n) d
  | .mul (.int c) fs => .mul (.int (-c)) fs
  | .pow b e => .mul (.int (-1)) [(b, e)]
  | e => .mul (.int (-1)) [(e, .int 1)]

def isNumLit : Expr → Bool
  | .int _ | .rat _ _ | .cplx _ _ | .dbl _ | .cdbl _ _ | .infty _ | .nan => true
  | _ => false

/-! ### the rules -/

/-- `d(b^e)` from `b`, `e` and their derivatives `db`, `de` (`DiffVisitor::bvisit(const Pow &)`;
`e = 1` is the `pow(p.first, p.second)` of a `Mul` entry with unit exponent, which is `b` itself) -/
def powRule (b e db de : Expr) : Expr :=
  match e with
  | .int 1 => db
  | _ =>
    if isNumLit e then .mul e [(b, decExp e), (db, .int 1)]
    else
      match b with
      | .const "E" => .mul (.int 1) [(.pow b e, .int 1), (de, .int 1)]
      | _ =>
        .mul (.int 1) [(.pow b e, .int 1),
          (.add (.int 0) [(prod [de, fn1 "Log" b], .int 1),
                          (.mul (.int 1) [(e, .int 1), (b, .int (-1)), (db, .int 1)], .int 1)], .int 1)]

/-- outer derivative `f'(a)` of the one-argument functions with a coded rule -/
def fprime (h : String) (a : Expr) : Option Expr :=
  match h with
  | "Sin" => some (fn1 "Cos" a)
  | "Cos" => some (.mul (.int (-1)) [(fn1 "Sin" a, .int 1)])
  | "Tan" => some (onePlus (sq (fn1 "Tan" a)))
  | "Cot" => some (.mul (.int (-1)) [(onePlus (sq (fn1 "Cot" a)), .int 1)])
  | "Sec" => some (prod [fn1 "Tan" a, fn1 "Sec" a])
  | "Csc" => some (.mul (.int (-1)) [(fn1 "Cot" a, .int 1), (fn1 "Csc" a, .int 1)])
  | "ASin" => some (.pow (oneMinus (sq a)) halfNeg)
  | "ACos" => some (.mul (.int (-1)) [(oneMinus (sq a), halfNeg)])
  | "ATan" => some (.pow (onePlus (sq a)) (.int (-1)))
  | "ACot" => some (.mul (.int (-1)) [(onePlus (sq a), .int (-1))])
  | "ASec" => some (.mul (.int 1) [(oneMinus (.pow a (.int (-2))), halfNeg), (a, .int (-2))])
  | "ACsc" => some (.mul (.int (-1)) [(oneMinus (.pow a (.int (-2))), halfNeg), (a, .int (-2))])
  | "Sinh" => some (fn1 "Cosh" a)
  | "Cosh" => some (fn1 "Sinh" a)
  | "Tanh" => some (oneMinus (sq (fn1 "Tanh" a)))
  | "Coth" => some (.mul (.int (-1)) [(fn1 "Sinh" a, .int (-2))])
  | "Sech" => some (.mul (.int (-1)) [(fn1 "Sech" a, .int 1), (fn1 "Tanh" a, .int 1)])
  | "Csch" => some (.mul (.int (-1)) [(fn1 "Coth" a, .int 1), (fn1 "Csch" a, .int 1)])
  | "ASinh" => some (.pow (onePlus (sq a)) halfNeg)
  | "ACosh" => some (.pow (minusOnePlus (sq a)) halfNeg)
  | "ATanh" => some (.pow (oneMinus (sq a)) (.int (-1)))
  | "ACoth" => some (.pow (oneMinus (sq a)) (.int (-1)))
  | "ASech" => some (.mul (.int (-1)) [(oneMinus (sq a), halfNeg), (a, .int (-1))])
  | "ACsch" => some (.mul (.int (-1)) [(onePlus (.pow a (.int (-2))), halfNeg), (a, .int (-2))])
  | "Log" => some (.pow a (.int (-1)))
  | "Erf" => some (.mul (.int 2) [(.const "E", .mul (.int (-1)) [(a, .int 2)]), (.const "pi", halfNeg)])
  | "Erfc" => some (.mul (.int (-2)) [(.const "E", .mul (.int (-1)) [(a, .int 2)]), (.const "pi", halfNeg)])
  | "Gamma" => some (prod [fn1 "Gamma" a, .app "PolyGamma" [.int 0, a]])
  | "LogGamma" => some (.app "PolyGamma" [.int 0, a])
  | "LambertW" =>
    some (.mul (.int 1) [(fn1 "LambertW" a, .int 1), (a, .int (-1)), (onePlus (fn1 "LambertW" a), .int (-1))])
  | _ => none

/-- `get_dummy(self, name)`: prefix underscores until the name does not occur in `self` -/
def dummyGo (self : Expr) : Nat → String → String
  | 0, n => n
  | k + 1, n => if occurs n self then dummyGo self k ("_" ++ n) else n

def dummyName (self : Expr) (base : String) : String := dummyGo self 64 ("_" ++ base)

/-- replace position `i` of a list -/
def setAt (l : List Expr) (i : Nat) (v : Expr) : List Expr := l.set i v

/-- `fdiff(self, x, visitor)` (derivative.cpp:13): `mk` rebuilds the function from an argument list,
`known i` is the coded partial derivative with respect to argument `i` if there is one. -/
def fdiffE (x : String) (self : Expr) (mk : List Expr → Expr) (known : Nat → Option Expr)
    (args dargs : List Expr) : Expr :=
  let idx := (List.range args.length).filter fun i => occurs x (args.getD i zero)
  let term (i : Nat) : Expr :=
    match known i with
    | some r => prod [r, dargs.getD i zero]
    | none =>
      let xi := Expr.sym (dummyName self ("xi_" ++ toString (i + 1)))
      prod [dargs.getD i zero,
            .app "Subs" [.app "Derivative" [mk (setAt args i xi), xi], xi, args.getD i zero]]
  match idx with
  | [] => .int 0
  | [i] =>
    match known i with
    | some _ => term i
    | none =>
      if Expr.eqb (args.getD i zero) (.sym x) then .app "Derivative" [self, .sym x] else term i
  | _ => .add (.int 0) (idx.map fun i => (term i, .int 1))

/-- coded partial derivatives of the two-argument special functions (index 1 only) -/
def known2 (h : String) (a1 a2 : Expr) : Nat → Option Expr
  | 1 =>
    match h with
    | "Zeta" => some (.mul (.int (-1)) [(a1, .int 1), (.app "Zeta" [incE a1, a2], .int 1)])
    | "PolyGamma" => some (.app "PolyGamma" [incE a1, a2])
    | "LowerGamma" => some (.mul (.int 1) [(a2, decE a1), (.const "E", negE a2)])
    | "UpperGamma" => some (.mul (.int (-1)) [(a2, decE a1), (.const "E", negE a2)])
    | _ => none
  | _ => none

def isFdiff2 (h : String) : Bool :=
  h == "Zeta" || h == "PolyGamma" || h == "LowerGamma" || h == "UpperGamma"

/-- the rule of a named function node, from the arguments and their derivatives -/
def appRule (x : String) (h : String) (args dargs : List Expr) : Expr :=
  match h, args, dargs with
  | "Abs", [a], [_] => if occurs x a then .app "Derivative" [.app "Abs" [a], .sym x] else .int 0
  | "ATan2", [n, d], [dn, dd] =>
    -- d²/(d²+n²) · d(n/d)
    .mul (.int 1) [(d, .int 2), (.add (.int 0) [(sq d, .int 1), (sq n, .int 1)], .int (-1)),
      (.add (.int 0) [(.mul (.int 1) [(dn, .int 1), (d, .int (-1))], .int 1),
                      (.mul (.int (-1)) [(n, .int 1), (d, .int (-2)), (dd, .int 1)], .int 1)], .int 1)]
  | "Beta", [a, b], [da, db] =>
    .mul (.int 1) [(.app "Beta" [a, b], .int 1),
      (.add (.int 0) [(prod [.app "PolyGamma" [.int 0, a], da], .int 1),
                      (prod [.app "PolyGamma" [.int 0, b], db], .int 1),
                      (prod [.app "PolyGamma" [.int 0, .add (.int 0) [(a, .int 1), (b, .int 1)]],
                             .add (.int 0) [(da, .int 1), (db, .int 1)]], .int (-1))], .int 1)]
  | h, [a], [da] =>
    match fprime h a with
    | some f => prod [f, da]
    | none => if occurs x a then .app "Derivative" [.app h [a], .sym x] else .int 0
  | h, [a1, a2], [_, _] =>
    if isFdiff2 h then fdiffE x (.app h [a1, a2]) (fun l => .app h l) (known2 h a1 a2) args dargs
    else if occursList x args then .app "Derivative" [.app h args, .sym x] else .int 0
  | h, args, _ => if occursList x args then .app "Derivative" [.app h args, .sym x] else .int 0

mutual
  /-- the derivative of `e` with respect to the symbol `x` (unsimplified) -/
  def diffE (x : String) : Expr → Expr
    | .sym n => if n == x then .int 1 else .int 0
    | .add _ ts => .add (.int 0) (diffTerms x ts)
    | .mul c fs => .add (.int 0) (diffFacs x c [] fs)
    | .pow b e => powRule b e (diffE x b) (diffE x e)
    | .fsym f args => fdiffE x (.fsym f args) (fun l => .fsym f l) (fun _ => none) args (diffList x args)
    | .app h args => appRule x h args (diffList x args)
    | _ => .int 0
  def diffList (x : String) : List Expr → List Expr
    | [] => []
    | a :: t => diffE x a :: diffList x t
  /-- `Σ kᵢ'·cᵢ` -/
  def diffTerms (x : String) : List (Expr × Expr) → List (Expr × Expr)
    | [] => []
    | (k, c) :: t => (diffE x k, c) :: diffTerms x t
  /-- product rule: one summand `c · pre · d(b^e) · rest` per dictionary entry -/
  def diffFacs (x : String) (c : Expr) (pre : List (Expr × Expr)) : List (Expr × Expr) → List (Expr × Expr)
    | [] => []
    | (b, e) :: t =>
      (.mul c (pre ++ (powRule b e (diffE x b) (diffE x e), .int 1) :: t), .int 1)
        :: diffFacs x c (pre ++ [(b, e)]) t
end

/-! ### which trees are modelled -/

def knownHeads : List String :=
  ["Sin", "Cos", "Tan", "Cot", "Sec", "Csc", "ASin", "ACos", "ATan", "ACot", "ASec", "ACsc",
   "Sinh", "Cosh", "Tanh", "Coth", "Sech", "Csch", "ASinh", "ACosh", "ATanh", "ACoth", "ASech", "ACsch",
   "Log", "Erf", "Erfc", "Gamma", "LogGamma", "LambertW", "Abs",
   "ATan2", "Beta", "Zeta", "PolyGamma", "LowerGamma", "UpperGamma"]

mutual
  /-- first node kind without a modelled rule (`none`: the tree is inside the modelled fragment) -/
  def unsupported : Expr → Option String
    | .add c ts => (unsupported c).orElse fun _ => unsupportedPairs ts
    | .mul c fs => (unsupported c).orElse fun _ => unsupportedPairs fs
    | .pow b e => (unsupported b).orElse fun _ => unsupported e
    | .fsym _ args => unsupportedList args
    | .app h args => if knownHeads.contains h then unsupportedList args else some h
    | .dummy _ _ => some "Dummy"
    | .bool _ => some "Boolean"
    | _ => none
  def unsupportedList : List Expr → Option String
    | [] => none
    | a :: t => (unsupported a).orElse fun _ => unsupportedList t
  def unsupportedPairs : List (Expr × Expr) → Option String
    | [] => none
    | (k, v) :: t => (unsupported k).orElse fun _ => (unsupported v).orElse fun _ => unsupportedPairs t
end

/-! ### the memo table of `DiffVisitor::apply` -/

abbrev Memo := List (Expr × Expr)

def Memo.find : Memo → Expr → Option Expr
  | [], _ => none
  | (k, v) :: t, e => if Expr.eqb k e then some v else Memo.find t e

/-- `apply(b)` with `cache = true`: look `b` up, otherwise compute with `k` and record the result -/
def memoize (key : Expr) (m : Memo) (k : Memo → Expr × Memo) : Expr × Memo :=
  match m.find key with
  | some d => (d, m)
  | none =>
    let r := k m
    (r.1, (key, r.1) :: r.2)

/-- the object under which a `Mul` entry `(b, e)` is visited: `pow(b, e)`, which is `b` when `e = 1` -/
def facKey (b e : Expr) : Expr :=
  match e with
  | .int 1 => b
  | _ => .pow b e

mutual
  /-- `diffE` with the memo table threaded through the traversal in the library's visiting order -/
  def diffC (x : String) : Expr → Memo → Expr × Memo
    | .sym n, m => memoize (.sym n) m fun m => (if n == x then .int 1 else .int 0, m)
    | .add c ts, m => memoize (.add c ts) m fun m =>
        let r := diffCTerms x ts m
        (.add (.int 0) r.1, r.2)
    | .mul c fs, m => memoize (.mul c fs) m fun m =>
        let r := diffCFacs x c [] fs m
        (.add (.int 0) r.1, r.2)
    | .pow b e, m => memoize (.pow b e) m fun m =>
        let rb := diffC x b m
        let re := diffC x e rb.2
        (powRule b e rb.1 re.1, re.2)
    | .fsym f args, m => memoize (.fsym f args) m fun m =>
        let r := diffCList x args m
        (fdiffE x (.fsym f args) (fun l => .fsym f l) (fun _ => none) args r.1, r.2)
    | .app h args, m => memoize (.app h args) m fun m =>
        let r := diffCList x args m
        (appRule x h args r.1, r.2)
    | e, m => memoize e m fun m => (.int 0, m)
  def diffCList (x : String) : List Expr → Memo → List Expr × Memo
    | [], m => ([], m)
    | a :: t, m =>
      let ra := diffC x a m
      let rt := diffCList x t ra.2
      (ra.1 :: rt.1, rt.2)
  def diffCTerms (x : String) : List (Expr × Expr) → Memo → List (Expr × Expr) × Memo
    | [], m => ([], m)
    | (k, c) :: t, m =>
      let rk := diffC x k m
      let rt := diffCTerms x t rk.2
      ((rk.1, c) :: rt.1, rt.2)
  /-- a `Mul` entry `(b, e)` is visited as the object `pow(b, e)` (`b` itself when `e = 1`), which is
  looked up / recorded in the table under that key -/
  def diffCFacs (x : String) (c : Expr) (pre : List (Expr × Expr)) :
      List (Expr × Expr) → Memo → List (Expr × Expr) × Memo
    | [], m => ([], m)
    | (b, e) :: t, m =>
      let rf := memoize (facKey b e) m fun m =>
        let rb := diffC x b m
        let re := diffC x e rb.2
        (powRule b e rb.1 re.1, re.2)
      let rt := diffCFacs x c (pre ++ [(b, e)]) t rf.2
      ((.mul c (pre ++ (rf.1, .int 1) :: t), .int 1) :: rt.1, rt.2)
end

/-- `diff(e, x, cache = true)` of the model -/
def diffCached (x : String) (e : Expr) : Expr := (diffC x e []).1


/-! ### polynomial classes: `diff_upoly` / `diff_mpoly` on coefficient dictionaries (executable mirror) -/

/-- `n/d` in lowest terms with positive denominator (`d ≠ 0`) -/
def ratNorm (n : Int) (d : Nat) : Int × Nat :=
  let g := Nat.gcd n.natAbs d
  if g == 0 then (0, 1) else (n / (g : Int), d / g)

def derivCoeffs : Nat → List (Int × Nat) → List (Int × Nat)
  | _, [] => []
  | i, (n, d) :: t => ratNorm ((i : Int) * n) d :: derivCoeffs (i + 1) t

def trimZeros (l : List (Int × Nat)) : List (Int × Nat) :=
  (l.reverse.dropWhile fun c => c.1 == 0).reverse

/-- dense coefficients of the derivative of `Σ cᵢ·varⁱ` with respect to `x` (`same` = the variable is `x`) -/
def upolyDiff (same : Bool) (cs : List (Int × Nat)) : List (Int × Nat) :=
  if same then trimZeros (derivCoeffs 1 cs.tail) else []

def showDense (l : List (Int × Nat)) : String :=
  if l.isEmpty then "0" else " ".intercalate (l.map fun c => Expr.ratStr c.1 c.2)

abbrev MTerm := (Nat × Nat) × Int

def mkeyLt (a b : Nat × Nat) : Bool := a.1 < b.1 || (a.1 == b.1 && a.2 < b.2)

/-- insert a term into a list sorted by exponent pair, adding coefficients of equal exponents -/
def minsert (t : MTerm) : List MTerm → List MTerm
  | [] => [t]
  | u :: r =>
    if t.1 == u.1 then (u.1, u.2 + t.2) :: r
    else if mkeyLt t.1 u.1 then t :: u :: r
    else u :: minsert t r

def mnorm (l : List MTerm) : List MTerm := (l.foldl (fun acc t => minsert t acc) []).filter fun t => t.2 != 0

/-- `diff_mpoly` for polynomials in `(x, y)`: terms `((i, j), c)` = `c·xⁱ·yʲ` -/
def mpolyDiff (x : String) (l : List MTerm) : List MTerm :=
  let l := mnorm l
  if x == "x" then mnorm (l.filterMap fun t => if t.1.1 == 0 then none else some ((t.1.1 - 1, t.1.2), t.2 * (t.1.1 : Int)))
  else if x == "y" then mnorm (l.filterMap fun t => if t.1.2 == 0 then none else some ((t.1.1, t.1.2 - 1), t.2 * (t.1.2 : Int)))
  else []

def showMPoly (l : List MTerm) : String :=
  if l.isEmpty then "0"
  else " ".intercalate (l.map fun t => toString t.1.1 ++ "," ++ toString t.1.2 ++ ":" ++ toString t.2)

def parseMTerms : List String → Option (List MTerm)
  | [] => some []
  | a :: b :: c :: t => do
    let i ← a.toNat?
    let j ← b.toNat?
    let k ← c.toInt?
    let r ← parseMTerms t
    pure (((i, j), k) :: r)
  | _ => none

/-! ### the certificate check -/

mutual
  /-- only symbols as atoms: on such trees `NF.equiv` is a decision procedure, a mismatch is a real one -/
  def pureRat : Expr → Bool
    | .int _ | .rat _ _ | .sym _ => true
    | .add c ts => pureRat c && pureRatPairs ts
    | .mul c fs => pureRat c && pureRatFacs fs
    | .pow b (.int _) => pureRat b
    | _ => false
  def pureRatPairs : List (Expr × Expr) → Bool
    | [] => true
    | (k, v) :: t => pureRat k && pureRat v && pureRatPairs t
  def pureRatFacs : List (Expr × Expr) → Bool
    | [] => true
    | (b, .int _) :: t => pureRat b && pureRatFacs t
    | _ => false
end

/-! ### when is a mismatch of normal forms certainly a mismatch of values?

The normaliser treats function applications and non-integer powers as independent variables.  Two different
normal forms over the *same* variables denote different functions unless the variables are algebraically related
through an identity the library applies and the normaliser does not know — in practice the power laws
(`x**a * x**b`, `(x**a)**n`, `E**a * E**b`).  `independentAtoms` excludes exactly those situations: no
non-integer-power atom may share its base with another such atom, and no base may itself be an atom. -/

def polyVars (p : NF.Poly) : List String :=
  p.foldl (fun acc t => t.1.foldl (fun acc v => if acc.contains v.1 then acc else v.1 :: acc) acc) []

def fracVars (f : NF.Frac) : List String :=
  (polyVars f.den).foldl (fun acc v => if acc.contains v then acc else v :: acc) (polyVars f.num)

def sameSet (a b : List String) : Bool := a.all (fun v => b.contains v) && b.all (fun v => a.contains v)

/-- the dump of the base of a power atom `(^ base exp)` -/
def powBase? (atom : String) : Option String :=
  match Expr.parse atom with
  | some (.pow b _) => some (Expr.dumpCanon b)
  | _ => none

def independentAtoms (vars : List String) : Bool :=
  let bases := vars.filterMap powBase?
  -- pairwise different bases, and no base is itself one of the variables
  bases.all (fun b => !vars.contains b) &&
  (bases.length == (bases.foldl (fun acc b => if acc.contains b then acc else b :: acc) []).length)

/-- the two fractions live over the same, independent variables: a mismatch is a mismatch of values -/
def comparable (fr fd : NF.Frac) : Bool :=
  let vr := fracVars fr
  let vd := fracVars fd
  sameSet vr vd && independentAtoms vr

/-! ### a cost guard for the normaliser

Fractions are not reduced, so sums of terms with different denominators multiply all of them up: a product of four
sums under the exponent -3, differentiated, has a normal form with millions of terms.  `est` is a crude upper estimate
of (numerator terms, denominator terms); the driver answers `SKIP:too-large` instead of normalising such cases. -/

def capN : Nat := 100000000

def capMul (a b : Nat) : Nat := min capN (a * b)

def capPow (a n : Nat) : Nat :=
  if a ≤ 1 then a else if n ≥ 27 then capN else min capN (a ^ n)

mutual
  def est : Expr → Nat × Nat
    | .add c ts => estTerms ts (est c)
    | .mul c fs => estFacs fs (est c)
    | .pow b (.int n) =>
      let pq := est b
      if n ≥ 0 then (capPow pq.1 n.natAbs, capPow pq.2 n.natAbs) else (capPow pq.2 n.natAbs, capPow pq.1 n.natAbs)
    | _ => (1, 1)
  /-- `n/d + Σ kᵢ·vᵢ` -/
  def estTerms : List (Expr × Expr) → Nat × Nat → Nat × Nat
    | [], acc => acc
    | (k, v) :: t, acc =>
      let a := est k
      let b := est v
      let pn := capMul a.1 b.1
      let qd := capMul a.2 b.2
      estTerms t (if qd == 1 then (min capN (acc.1 + capMul pn acc.2), acc.2)
                  else (min capN (capMul acc.1 qd + capMul pn acc.2), capMul acc.2 qd))
  /-- `n/d · Π bᵢ^eᵢ` -/
  def estFacs : List (Expr × Expr) → Nat × Nat → Nat × Nat
    | [], acc => acc
    | (b, .int n) :: t, acc =>
      let pq := est b
      let r : Nat × Nat :=
        if n ≥ 0 then (capPow pq.1 n.natAbs, capPow pq.2 n.natAbs) else (capPow pq.2 n.natAbs, capPow pq.1 n.natAbs)
      estFacs t (capMul acc.1 r.1, capMul acc.2 r.2)
    | _ :: t, acc => estFacs t acc
end

/-- the comparison `NF.equivF (normT r) (normT d)` is affordable -/
def affordable (r d : Expr) : Bool :=
  let a := est r
  let b := est d
  a.1 ≤ 20000 && a.2 ≤ 20000 && b.1 ≤ 20000 && b.2 ≤ 20000 && a.1 * b.2 + b.1 * a.2 ≤ 3000000

inductive Verdict where
  | ok
  | skip (why : String)
  | fail (why : String)
  deriving Repr, DecidableEq

def Verdict.toString : Verdict → String
  | .ok => "ok"
  | .skip w => "SKIP:" ++ w
  | .fail w => "FAIL:" ++ w

/-- the acceptance test of the certificate: the library's result `r` and the model's derivative have the
same normal form -/
def accepts (x : String) (e r : Expr) : Bool := NF.equiv r (diffE x e)

/-- comparison of the library's result `r` with the model's derivative `d` of `e` -/
def judgeNF (e r d : Expr) : Verdict :=
  if !affordable r d then .skip "too-large" else
  match NF.firstErr r, NF.firstErr d with
  | some err, _ => .skip ("result-" ++ err.toString)
  | _, some err => .skip ("model-" ++ err.toString)
  | none, none =>
    if NF.equivF (NF.normT r) (NF.normT d) then .ok
    else if pureRat e && pureRat r then .fail "value-differs"
    else if comparable (NF.normT r) (NF.normT d) then .fail "same-atoms-value-differs"
    else .skip "atoms-differ"

/-- `x` does not occur in `e` but the result is not the integer 0 -/
def absentBad (x : String) (e r : Expr) : Bool := !occurs x e && !(Expr.eqb r (.int 0))

/-- what the driver prints for `diff <cache> <x> <e>` with library result `r` -/
def judge (cache : Bool) (x : String) (e r : Expr) : Verdict :=
  match unsupported e with
  | some h => .skip ("unsupported-" ++ h)
  | none =>
    if absentBad x e r then .fail "absent-symbol-result-not-zero"
    else judgeNF e r (if cache then diffCached x e else diffE x e)

end Diff
end SymVerif
