/-
RewriteTrigVisitor (symengine/visitor.h) as seen by the C printers: the twelve reciprocal /
inverse-reciprocal function nodes are replaced by `div(one, f(arg))` resp. `g(div(one, arg))`
before printing.  `rwF` computes the rewritten tree for the shapes where `div(one, ·)` and the
function constructors are inert; the harness reports the tree the library really printed and the
driver only accepts it when it coincides (otherwise the case is skipped, not trusted).
Core Lean only.
-/
import SymVerif.Model.CCode

namespace SymVerif.CCode
open SymVerif.EvalG

def recipNum : Expr → Option Expr
  | .int n =>
    if n == 0 then none else if n == 1 || n == -1 then some (.int n)
    else if n > 0 then some (.rat 1 n.toNat) else some (.rat (-1) (-n).toNat)
  | .rat n d =>
    if n == 0 then none else if n == 1 then some (.int d) else if n == -1 then some (.int (-(d : Int)))
    else if n > 0 then some (.rat d n.toNat) else some (.rat (-(d : Int)) (-n).toNat)
  | _ => none

def negExp : Expr → Option Expr
  | .int n => some (.int (-n))
  | .rat n d => some (.rat (-n) d)
  | _ => none

def recipFacs : List (Expr × Expr) → Option (List (Expr × Expr))
  | [] => some []
  | (b, e) :: t => do
    if b.isNum then none
    let e' ← negExp e
    let t' ← recipFacs t
    pure ((b, e') :: t')

/-- `div(one, a)` for the shapes whose canonical form is immediate -/
def recip : Expr → Option Expr
  | .int n => recipNum (.int n)
  | .rat n d => recipNum (.rat n d)
  | .pow b e =>
    if b.isNum then none
    else if isMinusOne e then some b
    else match negExp e with
      | some e' => some (.pow b e')
      | none => none
  | .mul c fs => do
    let c' ← recipNum c
    let fs' ← recipFacs fs
    match c', fs' with
    | .int 1, [(b, e)] => if isOne e then some b else some (.pow b e)   -- Mul::from_dict collapses
    | _, _ => pure (.mul c' fs')
  | .sym n => some (.pow (.sym n) (.int (-1)))
  | .const n => some (.pow (.const n) (.int (-1)))
  | .add c ts => some (.pow (.add c ts) (.int (-1)))
  | .app h args => some (.pow (.app h args) (.int (-1)))
  | _ => none

def recipFn : String → Option String
  | "Cot" => some "Tan" | "Csc" => some "Sin" | "Sec" => some "Cos"
  | "Coth" => some "Tanh" | "Csch" => some "Sinh" | "Sech" => some "Cosh"
  | _ => none

def invRecipFn : String → Option String
  | "ACot" => some "ATan" | "ACsc" => some "ASin" | "ASec" => some "ACos"
  | "ACoth" => some "ATanh" | "ACsch" => some "ASinh" | "ASech" => some "ACosh"
  | _ => none

mutual
  def rwF : Nat → Expr → Option Expr
    | 0, _ => none
    | fuel + 1, e =>
      match e with
      | .add c ts => do
        let ts' ← rwPairs fuel ts
        pure (.add c ts')
      | .mul c fs => do
        let fs' ← rwPairs fuel fs
        pure (.mul c fs')
      | .pow b x => do
        let b' ← rwF fuel b
        let x' ← rwF fuel x
        pure (.pow b' x')
      | .app h args =>
        match recipFn h, invRecipFn h, args with
        | some f, _, [a] => do
          let a' ← rwF fuel a
          pure (.pow (.app f [a']) (.int (-1)))
        | _, some g, [a] => do
          let r ← recip a
          let r' ← rwF fuel r
          pure (.app g [r'])
        | _, _, _ => do
          let args' ← rwList fuel args
          pure (.app h args')
      | other => some other
  def rwList : Nat → List Expr → Option (List Expr)
    | 0, _ => none
    | _ + 1, [] => some []
    | fuel + 1, a :: t => do
      let a' ← rwF fuel a
      let t' ← rwList fuel t
      pure (a' :: t')
  def rwPairs : Nat → List (Expr × Expr) → Option (List (Expr × Expr))
    | 0, _ => none
    | _ + 1, [] => some []
    | fuel + 1, (k, v) :: t => do
      let k' ← rwF fuel k
      let v' ← rwF fuel v
      let t' ← rwPairs fuel t
      pure ((k', v') :: t')
end

end SymVerif.CCode
