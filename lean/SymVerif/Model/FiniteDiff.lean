/-
Model of symengine/finitediff.cpp : `generate_fdiff_weights_vector(grid, max_deriv, around)`
(Fornberg's algorithm, Math. Comp. 51 (1988) 699-706).

The C++ runs on `RCP<const Basic>` values; for rational inputs every `sub/mul/div` is an exact
operation on normalised rationals, modelled here by core Lean's `Rat` (normalised `num/den`,
`den > 0`, coprime: the same canonical form as symengine's `Integer`/`Rational`).

The weight vector is one flat array addressed `j + k*len_g` (grid index `j`, derivative order `k`).
Every read/write goes through `getW/setW/getG`, which return `Err.oob` instead of touching memory
outside the vector (undefined behaviour in the C++: `std::vector::operator[]`).  A division by an
exact zero (repeated grid points) is `Err.divzero`: the C++ does not throw there, `div(x, 0)` is the
symbolic `zoo`/`nan`, which then propagates into the result (the harness prints `nonfinite`).

Core Lean only: this file is linked into the native driver.
-/
namespace SymVerif.FiniteDiff

inductive Err where
  | oob      -- index outside `grid` / `weights` (undefined behaviour in the C++)
  | divzero  -- division by an exact zero: repeated grid points (C++: zoo/nan in the result)
  deriving Repr, DecidableEq

/-- `weights[i]` (read) -/
def getW (w : Array Rat) (i : Nat) : Except Err Rat :=
  if h : i < w.size then .ok w[i] else .error .oob

/-- `weights[i] = v` -/
def setW (w : Array Rat) (i : Nat) (v : Rat) : Except Err (Array Rat) :=
  if h : i < w.size then .ok (w.set i v h) else .error .oob

/-- `grid[i]` -/
def getG (g : Array Rat) (i : Nat) : Except Err Rat :=
  if h : i < g.size then .ok g[i] else .error .oob

/-- `div(a, b)` on numbers -/
def qdiv (a b : Rat) : Except Err Rat :=
  if b = 0 then .error .divzero else .ok (a / b)

/-- The block executed when `j == i-1` (new node `i`):
    `for (int k = mn; k >= 1; --k)
       weights[i + k*len] = c1*(k*weights[i-1 + (k-1)*len] - c5*weights[i-1 + k*len]) / c2;`
    The first argument counts `k` down. -/
def newLoop (len i : Nat) (c1 c2 c5 : Rat) : Nat → Array Rat → Except Err (Array Rat)
  | 0, w => .ok w
  | k + 1, w => do
    let a ← getW w (i - 1 + k * len)
    let b ← getW w (i - 1 + (k + 1) * len)
    let v ← qdiv (c1 * (((k + 1 : Nat) : Rat) * a - c5 * b)) c2
    let w ← setW w (i + (k + 1) * len) v
    newLoop len i c1 c2 c5 k w

/-- `for (int k = mn; k >= 1; --k)
       weights[j + k*len] = (c4*weights[j + k*len] - k*weights[j + (k-1)*len]) / c3;` -/
def oldLoop (len j : Nat) (c3 c4 : Rat) : Nat → Array Rat → Except Err (Array Rat)
  | 0, w => .ok w
  | k + 1, w => do
    let a ← getW w (j + (k + 1) * len)
    let b ← getW w (j + k * len)
    let v ← qdiv (c4 * a - ((k + 1 : Nat) : Rat) * b) c3
    let w ← setW w (j + (k + 1) * len) v
    oldLoop len j c3 c4 k w

/-- body of `if (j == i - 1) { … }`: the `k` loop for the new node, then
    `weights[i] = -1 * (c1*(c5*weights[i-1]) / c2)` -/
def newBlock (len i mn : Nat) (c1 c2 c5 : Rat) (w : Array Rat) : Except Err (Array Rat) := do
  let w ← newLoop len i c1 c2 c5 mn w
  let a ← getW w (i - 1)
  let v ← qdiv (c1 * (c5 * a)) c2
  setW w i (-1 * v)

/-- the update of column `j`: the `k` loop, then `weights[j] = c4*weights[j] / c3` -/
def oldCol (len j mn : Nat) (c3 c4 : Rat) (w : Array Rat) : Except Err (Array Rat) := do
  let w ← oldLoop len j c3 c4 mn w
  let a ← getW w j
  let v ← qdiv (c4 * a) c3
  setW w j v

/-- `for (unsigned j = 0; j < i; ++j) { … }`; state: `c2` and the weights.
    `rem` = remaining iterations (`i - j`). -/
def jLoop (grid : Array Rat) (len i mn : Nat) (c1 c4 c5 : Rat) :
    Nat → Nat → Rat → Array Rat → Except Err (Rat × Array Rat)
  | 0, _, c2, w => .ok (c2, w)
  | rem + 1, j, c2, w => do
    let gi ← getG grid i
    let gj ← getG grid j
    let c3 := gi - gj
    let c2 := c2 * c3
    let w ← (if j + 1 = i then newBlock len i mn c1 c2 c5 w else pure w)
    let w ← oldCol len j mn c3 c4 w
    jLoop grid len i mn c1 c4 c5 rem (j + 1) c2 w

/-- `for (unsigned i = 1; i < len_g; ++i) { … }`; state: `c1`, `c4` and the weights. -/
def iLoop (grid : Array Rat) (around : Rat) (len maxDeriv : Nat) :
    Nat → Nat → Rat → Rat → Array Rat → Except Err (Array Rat)
  | 0, _, _, _, w => .ok w
  | rem + 1, i, c1, c4, w => do
    let mn := if i < maxDeriv then i else maxDeriv
    let c5 := c4
    let gi ← getG grid i
    let c4 := gi - around
    let (c2, w) ← jLoop grid len i mn c1 c4 c5 i 0 1 w
    iLoop grid around len maxDeriv rem (i + 1) c2 c4 w

/-- `generate_fdiff_weights_vector(grid, max_deriv, around)` -/
def weights (grid : Array Rat) (maxDeriv : Nat) (around : Rat) : Except Err (Array Rat) := do
  let len := grid.size
  let lenW := len * (maxDeriv + 1)
  let g0 ← getG grid 0
  let c4 := g0 - around
  let w ← setW (Array.replicate lenW 0) 0 1
  iLoop grid around len maxDeriv (len - 1) 1 1 c4 w

end SymVerif.FiniteDiff
