/-
M-Num: model of symengine's number tower and its binary arithmetic
(`Number::add/sub/mul/div/pow` with the double dispatch of integer.h, rational.h,
complex.h/.cpp, real_double.h, complex_double.h, infinity.cpp, nan.cpp, number.cpp)
and of the numeric branches of `Eq/Ne/Lt/Le/Gt/Ge` (logic.cpp).

* Exact kinds are modelled exactly on `Int`/`Nat`: `Q` is the `mpq` representation
  (numerator, positive denominator), `Q.norm` is `mpq_canonicalize`.
* Floating kinds are generic over a structure `FloatOps F` of IEEE operations; the
  executable instance is Lean's `Float` (binary64; `+ - * /` are single IEEE operations
  exactly as C++ `double`).  Theorems about float operands quantify over every `F` and
  state the IEEE facts they use as hypotheses.
* Every class method of the C++ is one function here, named `<class><Method>`; the
  fall-through `other.add(*this)` is the last group of rows of each function.
  Rank order int < rat < cplx < dbl < cdbl < infty/nan: a class handles the lower ranks
  itself and delegates to the class of a higher-ranked operand, so there is no recursion.
* The model is the code *as patched* for D4 (Infty::add/div/pow ignore a NaN operand),
  D5 (Le), D10 (Complex::rdiv(Rational)), 0**negative in Integer::pow_negint and
  Infty::div by a complex number; the original behaviour of those cells is kept as
  `…Orig` definitions so that the defects can be stated (Props/C06, Props/C29).
* Where the C++ calls libm/libgcc routines that are not single IEEE operations
  (`std::pow` on complex, complex division `__divdc3`, NaN recovery of `__muldc3`)
  the model returns `Err.skip`: not modelled, the correspondence check skips the line.

Core Lean only: this file is linked into the native drivers.
-/
namespace SymVerif.Num

/-! ### `mpq` representation -/

structure Q where
  num : Int
  den : Nat
  deriving DecidableEq, Repr, Inhabited

namespace Q

/-- `mpq_canonicalize` for a positive denominator -/
def norm (n : Int) (d : Nat) : Q :=
  let g := Int.gcd n (d : Int)
  ⟨n / (g : Int), d / g⟩

/-- `rational_class q(n, m); canonicalize(q)` for `m ≠ 0` of either sign -/
def make (n m : Int) : Q :=
  if m < 0 then norm (-n) m.natAbs else norm n m.natAbs

def ofInt (n : Int) : Q := ⟨n, 1⟩
def add (a b : Q) : Q := norm (a.num * b.den + b.num * a.den) (a.den * b.den)
def sub (a b : Q) : Q := norm (a.num * b.den - b.num * a.den) (a.den * b.den)
def mul (a b : Q) : Q := norm (a.num * b.num) (a.den * b.den)
def neg (a : Q) : Q := ⟨-a.num, a.den⟩
/-- `1 / a` for `a ≠ 0` (the sign moves to the numerator) -/
def inv (a : Q) : Q :=
  if a.num < 0 then ⟨-(a.den : Int), a.num.natAbs⟩ else ⟨(a.den : Int), a.num.natAbs⟩
def div (a b : Q) : Q := mul a (inv b)
def isZero (a : Q) : Bool := a.num == 0
/-- `mpz_pow_ui` on numerator and denominator (canonical stays canonical) -/
def pow (a : Q) (k : Nat) : Q := ⟨a.num ^ k, a.den ^ k⟩
/-- canonical: positive denominator, lowest terms -/
def canon (a : Q) : Bool := decide (0 < a.den) && Int.gcd a.num (a.den : Int) == 1

end Q

/-! ### floating-point operations (IEEE binary64 in the executable instance) -/

class FloatOps (F : Type) where
  fadd : F → F → F
  fsub : F → F → F
  fmul : F → F → F
  fdiv : F → F → F
  fneg : F → F
  /-- libm `pow(double,double)` -/
  fpow : F → F → F
  /-- `mpz_get_d` (truncation towards zero) -/
  ofInt : Int → F
  /-- `mpq_get_d` (truncation towards zero) of a canonical fraction -/
  ofQ : Q → F
  /-- `x > 0` -/
  isPos : F → Bool
  /-- `x < 0` -/
  isNeg : F → Bool
  /-- `x == 0.0` (true for both signed zeros) -/
  isZero : F → Bool
  isNaN : F → Bool
  /-- C++ `==` on doubles -/
  beq : F → F → Bool

inductive Err where
  | notImpl        -- NotImplementedError
  | runtime        -- SymEngineException (error code SYMENGINE_RUNTIME_ERROR)
  | skip           -- not modelled (libm / libgcc complex routines, astronomically large powers)
  deriving DecidableEq, Repr

/-- The number kinds.  Invariants of values built by the library (`Normalised`):
`rat q`: `q` canonical with `den ≠ 1`; `cplx re im`: canonical parts, `im ≠ 0`;
`infty dir`: `dir ∈ {-1, 0, 1}` (`0` is zoo). -/
inductive Num (F : Type) where
  | int (n : Int)
  | rat (q : Q)
  | cplx (re im : Q)
  | dbl (d : F)
  | cdbl (re im : F)
  | infty (dir : Int)
  | nan

abbrev Res (F : Type) := Except Err (Num F)

section
variable {F : Type} [FloatOps F]
open FloatOps

/-- `Rational::from_mpq` -/
def fromMpq (q : Q) : Num F := if q.den == 1 then .int q.num else .rat q
/-- `Complex::from_mpq` -/
def cFromMpq (re im : Q) : Num F := if im.num == 0 then fromMpq re else .cplx re im

namespace Num

def isZero : Num F → Bool
  | .int n => n == 0
  | .rat q => q.num == 0
  | .cplx _ _ => false
  | .dbl d => FloatOps.isZero d
  | .cdbl a b => FloatOps.isZero a && FloatOps.isZero b
  | .infty _ => false
  | .nan => false

def isOne : Num F → Bool
  | .int n => n == 1
  | .rat q => q.num == 1 && q.den == 1
  | _ => false

def isPositive : Num F → Bool
  | .int n => decide (0 < n)
  | .rat q => decide (0 < q.num)
  | .dbl d => isPos d
  | .infty dir => decide (0 < dir)
  | _ => false

def isNegative : Num F → Bool
  | .int n => decide (n < 0)
  | .rat q => decide (q.num < 0)
  | .dbl d => isNeg d
  | .infty dir => decide (dir < 0)
  | _ => false

/-- `Number::is_exact` -/
def isExact : Num F → Bool
  | .int _ | .rat _ | .cplx _ _ => true
  | _ => false

/-- the invariants the library maintains on its number objects -/
def normalised : Num F → Bool
  | .int _ => true
  | .rat q => q.canon && q.den != 1
  | .cplx re im => re.canon && im.canon && im.num != 0
  | .infty d => d == 1 || d == 0 || d == -1
  | _ => true

end Num

/-! ### `add` -/

def nanAdd (_o : Num F) : Res F := .ok .nan

/-- `Infty::add` (patched: a NaN operand gives NaN) -/
def inftyAdd (d : Int) (o : Num F) : Res F :=
  match o with
  | .nan => .ok .nan
  | .infty e => if e != d then .ok .nan else if d == 0 then .ok .nan else .ok (.infty d)
  | _ => .ok (.infty d)

/-- `Infty::add` as in the unpatched source: `if (not is_a<Infty>(other)) return this` -/
def inftyAddOrig (d : Int) (o : Num F) : Res F :=
  match o with
  | .infty e => if e != d then .ok .nan else if d == 0 then .ok .nan else .ok (.infty d)
  | _ => .ok (.infty d)

/-- `ComplexDouble::add` -/
def cdblAdd (a b : F) (o : Num F) : Res F :=
  match o with
  | .int m => .ok (.cdbl (fadd a (ofInt m)) b)
  | .rat p => .ok (.cdbl (fadd a (ofQ p)) b)
  | .cplx re im => .ok (.cdbl (fadd a (ofQ re)) (fadd b (ofQ im)))
  | .dbl e => .ok (.cdbl (fadd a e) b)
  | .cdbl c d => .ok (.cdbl (fadd a c) (fadd b d))
  | .infty d => inftyAdd d (.cdbl a b)
  | .nan => nanAdd (.cdbl a b)

/-- `RealDouble::add`; `double + complex` is `(re + d, im)` in libstdc++ -/
def dblAdd (d : F) (o : Num F) : Res F :=
  match o with
  | .int m => .ok (.dbl (fadd d (ofInt m)))
  | .rat p => .ok (.dbl (fadd d (ofQ p)))
  | .cplx re im => .ok (.cdbl (fadd (ofQ re) d) (ofQ im))
  | .dbl e => .ok (.dbl (fadd d e))
  | .cdbl a b => cdblAdd a b (.dbl d)
  | .infty e => inftyAdd e (.dbl d)
  | .nan => nanAdd (.dbl d)

/-- `Complex::add` -/
def cplxAdd (re im : Q) (o : Num F) : Res F :=
  match o with
  | .int m => .ok (cFromMpq (re.add (.ofInt m)) im)
  | .rat p => .ok (cFromMpq (re.add p) im)
  | .cplx re' im' => .ok (cFromMpq (re.add re') (im.add im'))
  | .dbl d => dblAdd d (.cplx re im)
  | .cdbl a b => cdblAdd a b (.cplx re im)
  | .infty e => inftyAdd e (.cplx re im)
  | .nan => nanAdd (.cplx re im)

/-- `Rational::add` -/
def ratAdd (q : Q) (o : Num F) : Res F :=
  match o with
  | .int m => .ok (fromMpq (q.add (.ofInt m)))
  | .rat p => .ok (fromMpq (q.add p))
  | .cplx re im => cplxAdd re im (.rat q)
  | .dbl d => dblAdd d (.rat q)
  | .cdbl a b => cdblAdd a b (.rat q)
  | .infty e => inftyAdd e (.rat q)
  | .nan => nanAdd (.rat q)

/-- `Integer::add` -/
def intAdd (n : Int) (o : Num F) : Res F :=
  match o with
  | .int m => .ok (.int (n + m))
  | .rat p => ratAdd p (.int n)
  | .cplx re im => cplxAdd re im (.int n)
  | .dbl d => dblAdd d (.int n)
  | .cdbl a b => cdblAdd a b (.int n)
  | .infty e => inftyAdd e (.int n)
  | .nan => nanAdd (.int n)

/-- `a.add(b)` (virtual dispatch on the class of `a`) -/
def add (a b : Num F) : Res F :=
  match a with
  | .int n => intAdd n b
  | .rat q => ratAdd q b
  | .cplx re im => cplxAdd re im b
  | .dbl d => dblAdd d b
  | .cdbl x y => cdblAdd x y b
  | .infty d => inftyAdd d b
  | .nan => nanAdd b

/-- `add` with the unpatched `Infty::add` (for stating defect D4) -/
def addOrig (a b : Num F) : Res F :=
  match a, b with
  | .infty d, _ => inftyAddOrig d b
  | .nan, _ => nanAdd b
  | _, .infty e => inftyAddOrig e a
  | _, _ => add a b

/-! ### `mul` -/

def nanMul (_o : Num F) : Res F := .ok .nan

/-- `Infty::mul` -/
def inftyMul (d : Int) (o : Num F) : Res F :=
  match o with
  | .cplx _ _ => .error .notImpl
  | .infty e => .ok (.infty (d * e))
  | _ => if o.isPositive then .ok (.infty d)
         else if o.isNegative then .ok (.infty (d * (-1)))
         else .ok .nan

/-- product of two `std::complex<double>` (inline expansion of `__muldc3`); when both parts
come out NaN the C++ calls the recovery routine, which is not modelled -/
def cmulF (a b c d : F) : Res F :=
  let re := fsub (fmul a c) (fmul b d)
  let im := fadd (fmul a d) (fmul b c)
  if isNaN re && isNaN im then .error .skip else .ok (.cdbl re im)

/-- `ComplexDouble::mul` -/
def cdblMul (a b : F) (o : Num F) : Res F :=
  match o with
  | .int m => .ok (.cdbl (fmul a (ofInt m)) (fmul b (ofInt m)))
  | .rat p => .ok (.cdbl (fmul a (ofQ p)) (fmul b (ofQ p)))
  | .cplx re im => cmulF a b (ofQ re) (ofQ im)
  | .dbl e => .ok (.cdbl (fmul a e) (fmul b e))
  | .cdbl c d => cmulF a b c d
  | .infty d => inftyMul d (.cdbl a b)
  | .nan => nanMul (.cdbl a b)

/-- `RealDouble::mul`; an exact zero `Integer` annihilates the float (returns the exact `zero`) -/
def dblMul (d : F) (o : Num F) : Res F :=
  match o with
  | .int m => if m == 0 then .ok (.int 0) else .ok (.dbl (fmul d (ofInt m)))
  | .rat p => .ok (.dbl (fmul d (ofQ p)))
  | .cplx re im => .ok (.cdbl (fmul (ofQ re) d) (fmul (ofQ im) d))
  | .dbl e => .ok (.dbl (fmul d e))
  | .cdbl a b => cdblMul a b (.dbl d)
  | .infty e => inftyMul e (.dbl d)
  | .nan => nanMul (.dbl d)

/-- `Complex::mul` -/
def cplxMul (re im : Q) (o : Num F) : Res F :=
  match o with
  | .int m => .ok (cFromMpq (re.mul (.ofInt m)) (im.mul (.ofInt m)))
  | .rat p => .ok (cFromMpq (re.mul p) (im.mul p))
  | .cplx re' im' =>
      .ok (cFromMpq ((re.mul re').sub (im.mul im')) ((re.mul im').add (im.mul re')))
  | .dbl d => dblMul d (.cplx re im)
  | .cdbl a b => cdblMul a b (.cplx re im)
  | .infty e => inftyMul e (.cplx re im)
  | .nan => nanMul (.cplx re im)

/-- `Rational::mul` -/
def ratMul (q : Q) (o : Num F) : Res F :=
  match o with
  | .int m => .ok (fromMpq (q.mul (.ofInt m)))
  | .rat p => .ok (fromMpq (q.mul p))
  | .cplx re im => cplxMul re im (.rat q)
  | .dbl d => dblMul d (.rat q)
  | .cdbl a b => cdblMul a b (.rat q)
  | .infty e => inftyMul e (.rat q)
  | .nan => nanMul (.rat q)

/-- `Integer::mul` -/
def intMul (n : Int) (o : Num F) : Res F :=
  match o with
  | .int m => .ok (.int (n * m))
  | .rat p => ratMul p (.int n)
  | .cplx re im => cplxMul re im (.int n)
  | .dbl d => dblMul d (.int n)
  | .cdbl a b => cdblMul a b (.int n)
  | .infty e => inftyMul e (.int n)
  | .nan => nanMul (.int n)

def mul (a b : Num F) : Res F :=
  match a with
  | .int n => intMul n b
  | .rat q => ratMul q b
  | .cplx re im => cplxMul re im b
  | .dbl d => dblMul d b
  | .cdbl x y => cdblMul x y b
  | .infty d => inftyMul d b
  | .nan => nanMul b

/-! ### `Infty::pow`, `Infty::rpow`, `NaN::pow` (needed by the default `Number::rdiv`) -/

/-- `Infty::pow` (patched: a NaN exponent gives NaN) -/
def inftyPow (d : Int) (o : Num F) : Res F :=
  match o with
  | .nan => .ok .nan
  | .infty _ =>
      if 0 < d then
        (if o.isNegative then .ok (.int 0) else if o.isPositive then .ok (.infty d) else .ok .nan)
      else if d < 0 then .ok .nan
      else (if o.isPositive then .ok (.infty 0) else if o.isNegative then .ok (.int 0) else .ok .nan)
  | .cplx _ _ => .error .notImpl
  | _ =>
      if o.isNegative then .ok (.int 0)
      else if o.isZero then .ok (.int 1)
      else if 0 < d then .ok (.infty d)
      else if d < 0 then .error .notImpl
      else .ok (.infty 0)

/-- `Infty::pow` as in the unpatched source (no NaN test) -/
def inftyPowOrig (d : Int) (o : Num F) : Res F :=
  match o with
  | .nan => if 0 < d then .ok (.infty d) else if d < 0 then .error .notImpl else .ok (.infty 0)
  | _ => inftyPow d o

/-- `s.sub(*one)->is_negative()` for the operand kinds that reach it in `Infty::rpow` -/
def subOneIsNeg (o : Num F) : Bool :=
  match o with
  | .int n => decide (n - 1 < 0)
  | .rat q => decide ((q.sub (.ofInt 1)).num < 0)
  | .dbl d => isNeg (fsub d (ofInt 1))
  | _ => false

/-- `Infty::rpow`: `o ** (infty d)` -/
def inftyRpow (d : Int) (o : Num F) : Res F :=
  match o with
  | .cplx _ _ | .cdbl _ _ => .error .notImpl
  | _ =>
    if o.isNegative then .error .notImpl
    else if o.isZero then .error .runtime
    else if o.isOne then .ok .nan
    else if 0 < d then (if subOneIsNeg o then .ok (.int 0) else .ok (.infty d))
    else if d < 0 then (if subOneIsNeg o then .ok (.infty 0) else .ok (.int 0))
    else .error .runtime

/-! ### `sub` / `rsub` -/

/-- `Number::sub` default: `add(*other.mul(*integer(-1)))` — used by Infty and NaN -/
def defaultSub (self o : Num F) : Res F :=
  match mul o (.int (-1)) with
  | .error e => .error e
  | .ok t => add self t

/-- `Number::rsub` default: `mul(*integer(-1))->add(other)` : `o - self` -/
def defaultRsub (self o : Num F) : Res F :=
  match mul self (.int (-1)) with
  | .error e => .error e
  | .ok t => add t o

/-- `ComplexDouble::rsub` : `o - (a + b i)`; `double - complex` is `(-a + x, -b)` in libstdc++ -/
def cdblRsub (a b : F) (o : Num F) : Res F :=
  match o with
  | .int m => .ok (.cdbl (fadd (fneg a) (ofInt m)) (fneg b))
  | .rat p => .ok (.cdbl (fadd (fneg a) (ofQ p)) (fneg b))
  | .cplx re im => .ok (.cdbl (fadd (fneg a) (ofQ re)) (fadd (fneg b) (ofQ im)))
  | .dbl e => .ok (.cdbl (fadd (fneg a) e) (fneg b))
  | _ => .error .notImpl

/-- `ComplexDouble::sub` -/
def cdblSub (a b : F) (o : Num F) : Res F :=
  match o with
  | .int m => .ok (.cdbl (fsub a (ofInt m)) b)
  | .rat p => .ok (.cdbl (fsub a (ofQ p)) b)
  | .cplx re im => .ok (.cdbl (fsub a (ofQ re)) (fsub b (ofQ im)))
  | .dbl e => .ok (.cdbl (fsub a e) b)
  | .cdbl c d => .ok (.cdbl (fsub a c) (fsub b d))
  | .infty _ => defaultRsub o (.cdbl a b)
  | .nan => defaultRsub o (.cdbl a b)

/-- `RealDouble::rsub` : `o - d` -/
def dblRsub (d : F) (o : Num F) : Res F :=
  match o with
  | .int m => .ok (.dbl (fsub (ofInt m) d))
  | .rat p => .ok (.dbl (fsub (ofQ p) d))
  | .cplx re im => .ok (.cdbl (fadd (ofQ re) (fneg d)) (ofQ im))
  | _ => .error .notImpl

/-- `RealDouble::sub`; `double - complex` is `(-re + d, -im)` -/
def dblSub (d : F) (o : Num F) : Res F :=
  match o with
  | .int m => .ok (.dbl (fsub d (ofInt m)))
  | .rat p => .ok (.dbl (fsub d (ofQ p)))
  | .cplx re im => .ok (.cdbl (fadd (fneg (ofQ re)) d) (fneg (ofQ im)))
  | .dbl e => .ok (.dbl (fsub d e))
  | .cdbl a b => cdblRsub a b (.dbl d)
  | .infty _ => defaultRsub o (.dbl d)
  | .nan => defaultRsub o (.dbl d)

/-- `Complex::rsub` : `o - (re + im i)` -/
def cplxRsub (re im : Q) (o : Num F) : Res F :=
  match o with
  | .int m => .ok (cFromMpq ((Q.ofInt m).sub re) im.neg)
  | .rat p => .ok (cFromMpq (p.sub re) im.neg)
  | _ => .error .notImpl

/-- `Complex::sub` -/
def cplxSub (re im : Q) (o : Num F) : Res F :=
  match o with
  | .int m => .ok (cFromMpq (re.sub (.ofInt m)) im)
  | .rat p => .ok (cFromMpq (re.sub p) im)
  | .cplx re' im' => .ok (cFromMpq (re.sub re') (im.sub im'))
  | .dbl d => dblRsub d (.cplx re im)
  | .cdbl a b => cdblRsub a b (.cplx re im)
  | .infty _ => defaultRsub o (.cplx re im)
  | .nan => defaultRsub o (.cplx re im)

/-- `Rational::rsub` : `o - q` -/
def ratRsub (q : Q) (o : Num F) : Res F :=
  match o with
  | .int m => .ok (fromMpq ((Q.ofInt m).sub q))
  | _ => .error .notImpl

/-- `Rational::sub` -/
def ratSub (q : Q) (o : Num F) : Res F :=
  match o with
  | .int m => .ok (fromMpq (q.sub (.ofInt m)))
  | .rat p => .ok (fromMpq (q.sub p))
  | .cplx re im => cplxRsub re im (.rat q)
  | .dbl d => dblRsub d (.rat q)
  | .cdbl a b => cdblRsub a b (.rat q)
  | .infty _ => defaultRsub o (.rat q)
  | .nan => defaultRsub o (.rat q)

/-- `Integer::sub` -/
def intSub (n : Int) (o : Num F) : Res F :=
  match o with
  | .int m => .ok (.int (n - m))
  | .rat p => ratRsub p (.int n)
  | .cplx re im => cplxRsub re im (.int n)
  | .dbl d => dblRsub d (.int n)
  | .cdbl a b => cdblRsub a b (.int n)
  | .infty _ => defaultRsub o (.int n)
  | .nan => defaultRsub o (.int n)

def sub (a b : Num F) : Res F :=
  match a with
  | .int n => intSub n b
  | .rat q => ratSub q b
  | .cplx re im => cplxSub re im b
  | .dbl d => dblSub d b
  | .cdbl x y => cdblSub x y b
  | .infty _ => defaultSub a b
  | .nan => defaultSub a b

/-! ### `div` / `rdiv` -/

/-- `Number::rdiv` default: `other.mul(*pow(*integer(-1)))` : `o / self`, for Infty and NaN -/
def defaultRdiv (self o : Num F) : Res F :=
  let p : Res F := match self with
    | .infty d => inftyPow d (.int (-1))
    | _ => .ok .nan
  match p with
  | .error e => .error e
  | .ok t => mul o t

def nanDiv (_o : Num F) : Res F := .ok .nan

/-- `Infty::div` (patched: NaN divisor gives NaN; a Complex divisor throws like `Infty::mul`;
a divisor that is neither positive, zero nor negative gives NaN) -/
def inftyDiv (d : Int) (o : Num F) : Res F :=
  match o with
  | .cplx _ _ => .error .notImpl
  | .infty _ => .ok .nan
  | .nan => .ok .nan
  | _ => if o.isPositive then .ok (.infty d)
         else if o.isZero then .ok (.infty 0)
         else if o.isNegative then .ok (.infty (d * (-1)))
         else .ok .nan

/-- `Infty::div` as in the unpatched source -/
def inftyDivOrig (d : Int) (o : Num F) : Res F :=
  match o with
  | .infty _ => .ok .nan
  | _ => if o.isPositive then .ok (.infty d)
         else if o.isZero then .ok (.infty 0)
         else .ok (.infty (d * (-1)))

/-- `ComplexDouble::rdiv` : `o / (a + b i)` is a `std::complex` division (`__divdc3`) -/
def cdblRdiv (_a _b : F) (o : Num F) : Res F :=
  match o with
  | .int _ | .rat _ | .cplx _ _ | .dbl _ => .error .skip
  | _ => .error .notImpl

/-- `ComplexDouble::div`; `complex / double` is componentwise -/
def cdblDiv (a b : F) (o : Num F) : Res F :=
  match o with
  | .int m => .ok (.cdbl (fdiv a (ofInt m)) (fdiv b (ofInt m)))
  | .rat p => .ok (.cdbl (fdiv a (ofQ p)) (fdiv b (ofQ p)))
  | .cplx _ _ => .error .skip
  | .dbl e => .ok (.cdbl (fdiv a e) (fdiv b e))
  | .cdbl _ _ => .error .skip
  | .infty _ => defaultRdiv o (.cdbl a b)
  | .nan => defaultRdiv o (.cdbl a b)

/-- `RealDouble::rdiv` : `o / d` -/
def dblRdiv (d : F) (o : Num F) : Res F :=
  match o with
  | .int m => .ok (.dbl (fdiv (ofInt m) d))
  | .rat p => .ok (.dbl (fdiv (ofQ p) d))
  | .cplx re im => .ok (.cdbl (fdiv (ofQ re) d) (fdiv (ofQ im) d))
  | _ => .error .notImpl

/-- `RealDouble::div` -/
def dblDiv (d : F) (o : Num F) : Res F :=
  match o with
  | .int m => .ok (.dbl (fdiv d (ofInt m)))
  | .rat p => .ok (.dbl (fdiv d (ofQ p)))
  | .cplx _ _ => .error .skip
  | .dbl e => .ok (.dbl (fdiv d e))
  | .cdbl a b => cdblRdiv a b (.dbl d)
  | .infty _ => defaultRdiv o (.dbl d)
  | .nan => defaultRdiv o (.dbl d)

/-- `|z|^2` of a Gaussian rational -/
def modSq (re im : Q) : Q := (re.mul re).add (im.mul im)

/-- `Complex::rdiv` : `o / (re + im i)`; the Rational row is the D10 patch -/
def cplxRdiv (re im : Q) (o : Num F) : Res F :=
  let m2 := modSq re im
  match o with
  | .int m =>
      if m2.num == 0 then (if m == 0 then .ok .nan else .ok (.infty 0))
      else .ok (cFromMpq ((re.mul (.ofInt m)).div m2) ((im.mul (.ofInt (-m))).div m2))
  | .rat p =>
      if m2.num == 0 then (if p.num == 0 then .ok .nan else .ok (.infty 0))
      else .ok (cFromMpq ((re.mul p).div m2) ((im.mul p.neg).div m2))
  | _ => .error .notImpl

/-- `Complex::rdiv` as in the unpatched source: only `Integer` is handled -/
def cplxRdivOrig (re im : Q) (o : Num F) : Res F :=
  match o with
  | .int _ => cplxRdiv re im o
  | _ => .error .notImpl

/-- `Complex::div` -/
def cplxDiv (re im : Q) (o : Num F) : Res F :=
  match o with
  | .int m =>
      if m == 0 then (if (modSq re im).num == 0 then .ok .nan else .ok (.infty 0))
      else .ok (cFromMpq (re.div (.ofInt m)) (im.div (.ofInt m)))
  | .rat p =>
      if p.num == 0 then (if (modSq re im).num == 0 then .ok .nan else .ok (.infty 0))
      else .ok (cFromMpq (re.div p) (im.div p))
  | .cplx re' im' =>
      let m2 := modSq re' im'
      if m2.num == 0 then (if (modSq re im).num == 0 then .ok .nan else .ok (.infty 0))
      else .ok (cFromMpq (((re.mul re').add (im.mul im')).div m2)
                         (((re.neg.mul im').add (im.mul re')).div m2))
  | .dbl d => dblRdiv d (.cplx re im)
  | .cdbl a b => cdblRdiv a b (.cplx re im)
  | .infty _ => defaultRdiv o (.cplx re im)
  | .nan => defaultRdiv o (.cplx re im)

/-- `Rational::rdiv` : `o / q` -/
def ratRdiv (q : Q) (o : Num F) : Res F :=
  match o with
  | .int m =>
      if q.num == 0 then (if m == 0 then .ok .nan else .ok (.infty 0))
      else .ok (fromMpq ((Q.ofInt m).div q))
  | _ => .error .notImpl

/-- `Rational::div` -/
def ratDiv (q : Q) (o : Num F) : Res F :=
  match o with
  | .int m =>
      if m == 0 then (if q.num == 0 then .ok .nan else .ok (.infty 0))
      else .ok (fromMpq (q.div (.ofInt m)))
  | .rat p =>
      if p.num == 0 then (if q.num == 0 then .ok .nan else .ok (.infty 0))
      else .ok (fromMpq (q.div p))
  | .cplx re im => cplxRdiv re im (.rat q)
  | .dbl d => dblRdiv d (.rat q)
  | .cdbl a b => cdblRdiv a b (.rat q)
  | .infty _ => defaultRdiv o (.rat q)
  | .nan => defaultRdiv o (.rat q)

/-- `Integer::divint` -/
def divint (n m : Int) : Num F :=
  if m == 0 then (if n == 0 then .nan else .infty 0) else fromMpq (Q.make n m)

/-- `Integer::div` -/
def intDiv (n : Int) (o : Num F) : Res F :=
  match o with
  | .int m => .ok (divint n m)
  | .rat p => ratRdiv p (.int n)
  | .cplx re im => cplxRdiv re im (.int n)
  | .dbl d => dblRdiv d (.int n)
  | .cdbl a b => cdblRdiv a b (.int n)
  | .infty _ => defaultRdiv o (.int n)
  | .nan => defaultRdiv o (.int n)

def div (a b : Num F) : Res F :=
  match a with
  | .int n => intDiv n b
  | .rat q => ratDiv q b
  | .cplx re im => cplxDiv re im b
  | .dbl d => dblDiv d b
  | .cdbl x y => cdblDiv x y b
  | .infty d => inftyDiv d b
  | .nan => nanDiv b

/-- `div` with the unpatched `Infty::div` and `Complex::rdiv` (for stating D4 / D10) -/
def divOrig (a b : Num F) : Res F :=
  match a, b with
  | .infty d, _ => inftyDivOrig d b
  | .rat q, .cplx re im => cplxRdivOrig re im (.rat q)
  | _, _ => div a b

/-! ### `pow` / `rpow` -/

def ulongMax : Nat := 2 ^ 64 - 1
def slongMax : Int := 2 ^ 63 - 1
/-- exponents beyond this are outside the modelled range (the real computation does not
terminate in practice / GMP aborts with "overflow in mpz type") -/
def hugeExp : Nat := 100000

/-- `mpz_pow_ui` guarded against astronomically large results -/
def zpow (n : Int) (k : Nat) : Except Err Int :=
  if k > hugeExp && !(n == 0 || n == 1 || n == -1) then .error .skip else .ok (n ^ k)

/-- `Integer::powint` for an exponent that fits `unsigned long` or is positive -/
def powintNonneg (n : Int) (e : Int) : Except Err Int :=
  if e > (ulongMax : Int) then .error .runtime else zpow n e.toNat

/-- `Integer::pow_negint` (patched: `0 ** negative` is zoo instead of dividing by zero) -/
def powNegint (n : Int) (e : Int) : Res F :=
  if n == 0 then .ok (.infty 0) else
  match powintNonneg n (-e) with
  | .error x => .error x
  | .ok j => .ok (fromMpq ⟨Int.sign j, j.natAbs⟩)

/-- `Integer::powint` -/
def powint (n e : Int) : Res F :=
  if e < 0 then powNegint n e
  else match powintNonneg n e with
    | .error x => .error x
    | .ok j => .ok (.int j)

/-- `Rational::powrat(const Integer&)` -/
def powrat (q : Q) (e : Int) : Res F :=
  let k := e.natAbs
  if k > ulongMax then .error .runtime
  else if k > hugeExp then .error .skip
  else
    let v := q.pow k
    if e < 0 then .ok (fromMpq v.inv) else .ok (fromMpq v)

/-- multiply two Gaussian rationals as `pow_number` does -/
def gmul (r p : Q × Q) : Q × Q :=
  ((r.1.mul p.1).sub (r.2.mul p.2), (r.1.mul p.2).add (r.2.mul p.1))
/-- square as `pow_number` does: `(p_re² - p_im², 2 p_re p_im)` -/
def gsq (p : Q × Q) : Q × Q :=
  ((p.1.mul p.1).sub (p.2.mul p.2), ((Q.ofInt 2).mul p.1).mul p.2)

/-- the `while (true)` loop of `pow_number(const Complex&, unsigned long)`;
`mask` is an `unsigned long` (shifted out bits are lost) -/
def powNumberLoop : Nat → Nat → Nat → Q × Q → Q × Q → Q × Q
  | 0, _, _, r, _ => r
  | fuel + 1, n, mask, r, p =>
    let r' := if n &&& mask != 0 then gmul r p else r
    let mask' := (mask <<< 1) % 2 ^ 64
    if !(decide (mask' > 0) && decide (n ≥ mask')) then r'
    else powNumberLoop fuel n mask' r' (gsq p)

/-- `pow_number(x, n)` -/
def powNumber (re im : Q) (n : Nat) : Num F :=
  let r := powNumberLoop 65 n 1 (Q.ofInt 1, Q.ofInt 0) (re, im)
  cFromMpq r.1 r.2

/-- `one->div(x)` for `x` a result of `Complex::from_mpq` -/
def oneDiv (x : Num F) : Res F :=
  match x with
  | .int m => .ok (divint 1 m)
  | .rat p => ratRdiv p (.int 1)
  | .cplx re im => cplxRdiv re im (.int 1)
  | _ => .error .notImpl

/-- `I ** e` as selected by `mod_f(e, 4)` in `Complex::powcomp`: `one`, `I`, `minus_one`, `mulnum(I, minus_one)` -/
def iPowRes (e : Int) : Num F :=
  match e % 4 with
  | 0 => .int 1
  | 1 => .cplx (.ofInt 0) (.ofInt 1)
  | 2 => .int (-1)
  | _ => .cplx (.ofInt 0) (.ofInt (-1))

/-- `im->pow(other)` for `im = Rational::from_mpq(imaginary_)` -/
def imPow (im : Q) (e : Int) : Res F :=
  if im.den == 1 then powint im.num e else powrat im e

/-- `Complex::powcomp` -/
def powcomp (re im : Q) (e : Int) : Res F :=
  if re.num == 0 then
    match imPow im e with
    | .error x => .error x
    | .ok v => mul v (iPowRes e)
  else if e > slongMax || e < -slongMax then .error .runtime
  else if e.natAbs > hugeExp then .error .skip
  else if 0 < e then .ok (powNumber re im e.toNat)
  else oneDiv (powNumber re im (-e).toNat)

def nanPow (_o : Num F) : Res F := .ok .nan
def nanRpow (_o : Num F) : Res F := .ok .nan

/-- `ComplexDouble::rpow` : complex `std::pow` (libm) is not modelled -/
def cdblRpow (_a _b : F) (o : Num F) : Res F :=
  match o with
  | .int _ | .rat _ | .cplx _ _ | .dbl _ => .error .skip
  | _ => .error .notImpl

/-- `ComplexDouble::pow` -/
def cdblPow (a b : F) (o : Num F) : Res F :=
  match o with
  | .int _ | .rat _ | .cplx _ _ | .dbl _ | .cdbl _ _ => .error .skip
  | .infty d => inftyRpow d (.cdbl a b)
  | .nan => nanRpow (.cdbl a b)

/-- `RealDouble::rpow` : `o ** d` -/
def dblRpow (d : F) (o : Num F) : Res F :=
  match o with
  | .int m => if m < 0 then .error .skip else .ok (.dbl (fpow (ofInt m) d))
  | .rat p => if p.num < 0 then .error .skip else .ok (.dbl (fpow (ofQ p) d))
  | .cplx _ _ => .error .skip
  | _ => .error .notImpl

/-- `RealDouble::pow` (negative base with a non-integer exponent goes through complex `std::pow`) -/
def dblPow (d : F) (o : Num F) : Res F :=
  match o with
  | .int m => .ok (.dbl (fpow d (ofInt m)))
  | .rat p => if isNeg d then .error .skip else .ok (.dbl (fpow d (ofQ p)))
  | .cplx _ _ => .error .skip
  | .dbl e => if isNeg d then .error .skip else .ok (.dbl (fpow d e))
  | .cdbl a b => cdblRpow a b (.dbl d)
  | .infty e => inftyRpow e (.dbl d)
  | .nan => nanRpow (.dbl d)

/-- `Complex::pow`; `Complex::rpow` and `Rational::rpow` always throw -/
def cplxPow (re im : Q) (o : Num F) : Res F :=
  match o with
  | .int e => powcomp re im e
  | .rat _ => .error .notImpl
  | .cplx _ _ => .error .notImpl
  | .dbl d => dblRpow d (.cplx re im)
  | .cdbl a b => cdblRpow a b (.cplx re im)
  | .infty d => inftyRpow d (.cplx re im)
  | .nan => nanRpow (.cplx re im)

/-- `Rational::pow` -/
def ratPow (q : Q) (o : Num F) : Res F :=
  match o with
  | .int e => powrat q e
  | .rat _ => .error .notImpl
  | .cplx _ _ => .error .notImpl
  | .dbl d => dblRpow d (.rat q)
  | .cdbl a b => cdblRpow a b (.rat q)
  | .infty d => inftyRpow d (.rat q)
  | .nan => nanRpow (.rat q)

/-- `Integer::pow` -/
def intPow (n : Int) (o : Num F) : Res F :=
  match o with
  | .int e => powint n e
  | .rat _ => .error .notImpl
  | .cplx _ _ => .error .notImpl
  | .dbl d => dblRpow d (.int n)
  | .cdbl a b => cdblRpow a b (.int n)
  | .infty d => inftyRpow d (.int n)
  | .nan => nanRpow (.int n)

def pow (a b : Num F) : Res F :=
  match a with
  | .int n => intPow n b
  | .rat q => ratPow q b
  | .cplx re im => cplxPow re im b
  | .dbl d => dblPow d b
  | .cdbl x y => cdblPow x y b
  | .infty d => inftyPow d b
  | .nan => nanPow b

/-- The numeric prelude of the free function `pow(a, b)` (pow.cpp) for an exact base and an
`Integer` exponent: `b == 0 → 1`, `b == 1 → a`, `0 ** positive → 0`, `0 ** negative → zoo`,
`(-1) ** b → ±1`, otherwise `a.pow(b)`. -/
def powTop (a : Num F) (e : Int) : Res F :=
  if e == 0 then .ok (.int 1)
  else if e == 1 then .ok a
  else match a with
    | .int n =>
        if n == 0 then (if 0 < e then .ok (.int 0) else .ok (.infty 0))
        else if n == -1 then (if e % 2 == 0 then .ok (.int 1) else .ok (.int (-1)))
        else pow a (.int e)
    | _ => pow a (.int e)

/-! ### relations (logic.cpp) -/

/-- structural `eq` on numbers (`__eq__` of each class) -/
def eqNum (a b : Num F) : Bool :=
  match a, b with
  | .int n, .int m => n == m
  | .rat p, .rat q => p == q
  | .cplx r i, .cplx r' i' => r == r' && i == i'
  | .dbl d, .dbl e => beq d e
  | .cdbl a b, .cdbl c d => beq a c && beq b d
  | .infty d, .infty e => d == e
  | .nan, .nan => true
  | _, _ => false

def isNan : Num F → Bool
  | .nan => true
  | _ => false
/-- `is_a_Complex` -/
def isComplexKind : Num F → Bool
  | .cplx _ _ | .cdbl _ _ => true
  | _ => false
def isZoo : Num F → Bool
  | .infty d => d == 0
  | _ => false

def relEq (a b : Num F) : Except Err Bool :=
  if isNan a || isNan b then .ok false
  else .ok (eqNum a b)

def relNe (a b : Num F) : Except Err Bool :=
  match relEq a b with
  | .ok r => .ok (!r)
  | .error e => .error e

/-- the common guard of `Lt` and `Le` -/
def relGuard (a b : Num F) : Bool :=
  isComplexKind a || isComplexKind b || isNan a || isNan b || isZoo a || isZoo b

def relLt (a b : Num F) : Except Err Bool :=
  if relGuard a b then .error .runtime
  else if eqNum a b then .ok false
  else match sub a b with
    | .error e => .error e
    | .ok s => .ok s.isNegative

/-- `Le` (patched for D5: a zero difference of unequal objects, e.g. `1 - 1.0`, is `≤`) -/
def relLe (a b : Num F) : Except Err Bool :=
  if relGuard a b then .error .runtime
  else if eqNum a b then .ok true
  else match sub a b with
    | .error e => .error e
    | .ok s => .ok (s.isNegative || s.isZero)

/-- `Le` as in the unpatched source: `if (s->is_negative()) true else false` -/
def relLeOrig (a b : Num F) : Except Err Bool :=
  if relGuard a b then .error .runtime
  else if eqNum a b then .ok true
  else match sub a b with
    | .error e => .error e
    | .ok s => .ok s.isNegative

def relGt (a b : Num F) : Except Err Bool := relLt b a
def relGe (a b : Num F) : Except Err Bool := relLe b a

end

/-! ### executable instance: Lean `Float` (IEEE binary64) -/

/-- `mpz_get_d`: truncation of `|n|` to 53 significant bits, sign restored -/
def floatOfInt (n : Int) : Float :=
  let m := n.natAbs
  if m == 0 then 0.0 else
  let bits := m.log2 + 1
  let v : Float :=
    if bits ≤ 53 then Float.ofNat m
    else
      let sh := bits - 53
      Float.scaleB (Float.ofNat (m >>> sh)) (Int.ofNat sh)
  if n < 0 then -v else v

/-- `mpq_get_d`: the quotient truncated to 53 significant bits -/
def floatOfQ (q : Q) : Float :=
  let a := q.num.natAbs
  let d := q.den
  if a == 0 || d == 0 then 0.0 else
  -- k with 2^52 ≤ floor(a * 2^k / d) < 2^53
  let k0 : Int := 53 + (Int.ofNat d.log2) - (Int.ofNat a.log2)
  let quo (k : Int) : Nat := if k ≥ 0 then (a <<< k.toNat) / d else a / (d <<< (-k).toNat)
  let q0 := quo k0
  let k : Int := if q0 ≥ 2 ^ 53 then k0 - 1 else if q0 < 2 ^ 52 then k0 + 1 else k0
  let m := quo k
  let v := Float.scaleB (Float.ofNat m) (-k)
  if q.num < 0 then -v else v

instance : FloatOps Float where
  fadd := (· + ·)
  fsub := (· - ·)
  fmul := (· * ·)
  fdiv := (· / ·)
  fneg := fun x => -x
  fpow := Float.pow
  ofInt := floatOfInt
  ofQ := floatOfQ
  isPos := fun x => x > 0.0
  isNeg := fun x => x < 0.0
  isZero := fun x => x == 0.0
  isNaN := Float.isNaN
  beq := fun x y => x == y

end SymVerif.Num
