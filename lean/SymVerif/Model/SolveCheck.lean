/-
C30 driver-side checking logic (certificate mode): set-expression trees returned by `solve`, their members,
and the comparison "returned set = { r | N(r) = 0 ∧ D(r) ≠ 0 ∧ r ∈ domain }" over two number domains:

  * exact: `RP` (ℚ with formal square roots, Model/SolveCert.lean) — the factorisation certificate is the
    proven part (Props/C30.lean); the set bookkeeping around it is executable specification only;
  * numeric: complex `Float`s, for returned elements outside the `RP` fragment (cube roots, nested radicals).

Core Lean only.
-/
import SymVerif.Model.SolveCert

namespace SymVerif.Solve

/-! ### set expressions -/

inductive SetE where
  | empty | univ | reals
  | fin (l : List Expr)
  | union (l : List SetE)
  | interR (s : SetE)          -- Intersection(Reals, s)
  | compl (a b : SetE)         -- a \ b
  deriving Inhabited

partial def parseSet : Expr → Option SetE
  | .app "EmptySet" [] => some .empty
  | .app "UniversalSet" [] => some .univ
  | .app "Reals" [] => some .reals
  | .app "FiniteSet" l => some (.fin l)
  | .app "Union" l => (l.mapM parseSet).map .union
  | .app "Intersection" l =>
    let isReals : Expr → Bool := fun e => match e with | .app "Reals" [] => true | _ => false
    match l.filter (fun e => !isReals e) with
    | [s] => if l.any isReals then (parseSet s).map .interR else none
    | _ => none
  | .app "Complement" [a, b] => do
    let a ← parseSet a
    let b ← parseSet b
    pure (.compl a b)
  | _ => none

/-- the operations the set comparison needs from a number domain -/
structure Alg (α : Type) where
  val : Expr → Option α
  eq : α → α → Bool
  isReal : α → Bool
  isNonReal : α → Bool
  polyZero : Poly → α → Bool
  polyNonZero : Poly → α → Bool

/-- listed elements with their "member only if real" flag -/
partial def members {α} (A : Alg α) : SetE → Bool → Option (List (α × Bool))
  | .empty, _ => some []
  | .fin l, ur => (l.mapM A.val).map fun vs => vs.map (·, ur)
  | .union l, ur => (l.mapM (members A · ur)).map List.flatten
  | .interR s, _ => members A s true
  | .compl a b, ur => do
    let xs ← members A a ur
    let ys ← members A b false
    pure (xs.filter fun x => !(ys.any fun y => A.eq x.1 y.1 && (!y.2 || A.isReal y.1)))
  | _, _ => none

/-- compare the members `E` of the returned set with the certified complex roots `roots` of `N` -/
def compareSets {α} (A : Alg α) (real : Bool) (D : Poly) (roots : List α) (E : List (α × Bool)) : String :=
  let bad1 := E.findSome? fun (x, flag) =>
    match roots.find? (A.eq x ·) with
    | none => some "member-not-a-root"
    | some r =>
      if A.polyZero D r then some "pole-not-excluded"
      else if !A.polyNonZero D r then some "undecided-pole"
      else if real && !flag && !A.isReal r then some "non-real-member"
      else none
  match bad1 with
  | some s => s
  | none =>
    let bad2 := roots.findSome? fun r =>
      if A.polyZero D r then none
      else if !A.polyNonZero D r then some "undecided-pole"
      else if E.any (fun x => A.eq x.1 r) then none
      else if real && A.isNonReal r then none
      else some "missing-root"
    bad2.getD "ok"

/-! ### exact domain -/

def rpEq (p q : RP) : Bool :=
  RP.isZero (RP.sub p q) ||
    (match canon p, canon q with
     | some a, some b => RP.isZero (RP.sub a b)
     | _, _ => false)

def algRP : Alg RP where
  val := toRP
  eq := rpEq
  isReal := isRealRP
  isNonReal := isNonRealRP
  polyZero := fun D x => RP.isZero (evalPolyRP D x)
  polyNonZero := fun D x => RP.isNonZero (evalPolyRP D x)

/-! ### numeric domain -/

structure Cx where
  re : Float
  im : Float
  deriving Inhabited

namespace Cx
def ofRat (r : Rat) : Cx := ⟨Float.ofInt r.num / Float.ofNat r.den, 0⟩
def add (a b : Cx) : Cx := ⟨a.re + b.re, a.im + b.im⟩
def sub (a b : Cx) : Cx := ⟨a.re - b.re, a.im - b.im⟩
def mul (a b : Cx) : Cx := ⟨a.re * b.re - a.im * b.im, a.re * b.im + a.im * b.re⟩
def abs (a : Cx) : Float := Float.sqrt (a.re * a.re + a.im * a.im)
/-- principal value of `z^(p/q)` -/
def powRat (z : Cx) (p : Int) (q : Nat) : Cx :=
  if z.re == 0 && z.im == 0 then (if p > 0 then ⟨0, 0⟩ else ⟨Float.ofInt 1 / 0, 0⟩)
  else
    let e := Float.ofInt p / Float.ofNat q
    let r := Float.exp (e * Float.log (abs z))
    let th := e * Float.atan2 z.im z.re
    ⟨r * Float.cos th, r * Float.sin th⟩
def powInt (z : Cx) (n : Int) : Cx :=
  if n ≥ 0 then (List.replicate n.toNat z).foldl mul ⟨1, 0⟩
  else powRat ((List.replicate (-n).toNat z).foldl mul ⟨1, 0⟩) (-1) 1
def finite (a : Cx) : Bool := a.re.isFinite && a.im.isFinite
end Cx

mutual
  def evalC : Expr → Option Cx
    | .int n => some (Cx.ofRat (n : Rat))
    | .rat n d => some (Cx.ofRat (mkRat n d))
    | .cplx re im => some ⟨(Cx.ofRat (qToRat re)).re, (Cx.ofRat (qToRat im)).re⟩
    | .add c ts => do
      let c ← evalC c
      let s ← evalSum ts
      pure (Cx.add c s)
    | .mul c fs => do
      let c ← evalC c
      let s ← evalProd fs
      pure (Cx.mul c s)
    | .pow b e => do
      let b ← evalC b
      match e with
      | .int n => pure (Cx.powInt b n)
      | .rat n d => pure (Cx.powRat b n d)
      | _ => none
    | _ => none
  def evalSum : List (Expr × Expr) → Option Cx
    | [] => some ⟨0, 0⟩
    | (k, v) :: t => do
      let k ← evalC k
      let v ← evalC v
      let r ← evalSum t
      pure (Cx.add (Cx.mul k v) r)
  def evalProd : List (Expr × Expr) → Option Cx
    | [] => some ⟨1, 0⟩
    | (b, e) :: t => do
      let b ← evalC b
      let x ← match e with
        | .int n => some (Cx.powInt b n)
        | .rat n d => some (Cx.powRat b n d)
        | _ => none
      let r ← evalProd t
      pure (Cx.mul x r)
end

def evalPolyC (p : Poly) (x : Cx) : Cx := p.foldr (fun c acc => Cx.add (Cx.ofRat c) (Cx.mul x acc)) ⟨0, 0⟩
/-- Σ |cᵢ| |x|ⁱ -/
def polyScale (p : Poly) (x : Cx) : Float :=
  let a := Cx.abs x
  let s := p.foldr (fun c acc => Float.abs (Cx.ofRat c).re + a * acc) 0
  if s > 0 then s else 1

def cxEq (a b : Cx) : Bool := Cx.abs (Cx.sub a b) ≤ 1e-6 * (1 + Cx.abs a)

def algCx : Alg Cx where
  val := fun e => (evalC e).bind fun v => if v.finite then some v else none
  eq := cxEq
  isReal := fun z => Float.abs z.im ≤ 1e-7 * (1 + Cx.abs z)
  isNonReal := fun z => Float.abs z.im > 1e-5 * (1 + Cx.abs z)
  polyZero := fun D x => Cx.abs (evalPolyC D x) ≤ 1e-8 * polyScale D x
  polyNonZero := fun D x => Cx.abs (evalPolyC D x) > 1e-6 * polyScale D x

/-! ### exact square-free degree (number of distinct complex roots) -/

def pneg (p : Poly) : Poly := p.map (-·)

/-- remainder of `a` modulo `b` (`b` trimmed, non-zero) -/
def pmodFuel : Nat → Poly → Poly → Poly
  | 0, a, _ => a
  | fuel + 1, a, b =>
    let a := trim a
    if a.length < b.length then a
    else
      match a.getLast?, b.getLast? with
      | some la, some lb =>
        let f := la / lb
        let sh := List.replicate (a.length - b.length) (0 : Rat) ++ pscale f b
        pmodFuel fuel ((padd a (pneg sh)).take (a.length - 1)) b
      | _, _ => a

def pgcdFuel : Nat → Poly → Poly → Poly
  | 0, a, _ => a
  | fuel + 1, a, b =>
    let b := trim b
    if b.isEmpty then trim a else pgcdFuel fuel b (pmodFuel 10 a b)

def pderiv (p : Poly) : Poly :=
  match p with
  | [] => []
  | _ :: cs => (cs.zip (List.range cs.length)).map fun (c, i) => c * ((i + 1 : Nat) : Int)

/-- number of distinct complex roots of a non-zero polynomial -/
def distinctRoots (p : Poly) : Nat :=
  let p := trim p
  if p.length ≤ 1 then 0
  else
    let g := pgcdFuel 12 p (pderiv p)
    (p.length - 1) - (g.length - 1)

/-- numeric certificate for the auxiliary complex root list: every element is a root, and the number of
    numerically distinct elements is the number of distinct roots -/
def checkRootsNumeric (N : Poly) (rs : List Cx) : Bool :=
  let okRoots := rs.all fun r => Cx.abs (evalPolyC N r) ≤ 1e-5 * polyScale N r
  let distinct := rs.foldl (fun (acc : List Cx) r => if acc.any (cxEq r ·) then acc else r :: acc) []
  okRoots && distinct.length == distinctRoots N

end SymVerif.Solve
