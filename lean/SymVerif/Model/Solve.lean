/-
C30 model: the polynomial part of symengine/solve.cpp on exact rational coefficient vectors.

  solvePolyLinear / solvePolyQuadratic / solvePolyCubic / solvePolyQuartic  — the closed forms as coded
      (which formula is used for which zero pattern of the coefficients); roots that are rational or
      quadratic surds are represented exactly as `Surd` (a + b·√d); the Cardano / Euler / nested-radical
      branches are represented by `Sol.symbolic <branch name>` (only the certificate check applies there)
  solvePoly      — `solve_poly` + `solve_poly_heuristics`: degree dispatch after `from_basic<UExprPoly>`
                   (which drops leading zero coefficients)
  solveRational  — `solve_rational`: roots of the numerator minus roots of the denominator
  linsolve       — `linsolve_helper` = `fraction_free_gauss_jordan_solve` with pivoting, on rational matrices

Core Lean only (linked into the driver).  `Rat` is core Lean's exact rational type.
-/
namespace SymVerif.Solve

/-- coefficient vector c0, c1, …, cn of  Σ cᵢ xⁱ -/
abbrev Poly := List Rat

/-- drop the trailing (= leading-coefficient side) zeros: what `from_basic<UExprPoly>` does implicitly -/
def trim : Poly → Poly
  | [] => []
  | c :: cs =>
    match trim cs with
    | [] => if c = 0 then [] else [c]
    | cs' => c :: cs'

def evalPoly (p : Poly) (x : Rat) : Rat := p.foldr (fun c acc => c + x * acc) 0

/-- the number a + b·√d (d rational; d < 0 gives a non-real number) -/
structure Surd where
  a : Rat
  b : Rat
  d : Rat
  deriving DecidableEq, Repr, Inhabited

def Surd.ofRat (r : Rat) : Surd := ⟨r, 0, 0⟩
def Surd.shift (s : Surd) (t : Rat) : Surd := ⟨s.a + t, s.b, s.d⟩
def Surd.isRat (s : Surd) : Bool := s.b = 0 || s.d = 0

inductive Sol where
  | all                          -- the whole domain (zero polynomial)
  | roots (l : List Surd)        -- `finiteset({…})` before deduplication
  | symbolic (branch : String)   -- closed form outside the `Surd` fragment
  | cond                         -- degree > 4: ConditionSet
  deriving Repr, Inhabited, DecidableEq

/-- `solve_poly_linear`: root = -(c0/c1) -/
def solvePolyLinear (c0 c1 : Rat) : List Surd := [Surd.ofRat (-(c0 / c1))]

/-- `solve_poly_quadratic` as coded: normalise by the leading coefficient, then
    c = 0 → {-b, 0};  b = 0 → {√(-c), -√(-c)};  else -b/2 ± √(b²-4c)/2 -/
def solvePolyQuadratic (c0 c1 c2 : Rat) : List Surd :=
  let b := c1 / c2
  let c := c0 / c2
  if c = 0 then [Surd.ofRat (-b), Surd.ofRat 0]
  else if b = 0 then [⟨0, 1, -c⟩, ⟨0, -1, -c⟩]
  else
    let disc := b * b - 4 * c
    [⟨-b / 2, 1 / 2, disc⟩, ⟨-b / 2, -(1 / 2), disc⟩]

/-- `solve_poly_cubic` as coded (sub-solves are done over the full domain, see docs/C30.md) -/
def solvePolyCubic (c0 c1 c2 c3 : Rat) : Sol :=
  let b := c2 / c3
  let c := c1 / c3
  let d := c0 / c3
  if d = 0 then
    .roots (Surd.ofRat 0 :: solvePolyQuadratic c b 1)
  else
    let delta0 := b * b - 3 * c
    let delta1 := 2 * (b * b * b) - 9 * b * c + 27 * d
    let delta := (4 * (delta0 * delta0 * delta0) - delta1 * delta1) / 27
    if delta = 0 then
      if delta0 = 0 then .roots [Surd.ofRat (-b / 3)]
      else
        let r12 := (9 * d - b * c) / (2 * delta0)
        let r3 := (4 * b * c - (d * 9 + b * b * b)) / delta0
        .roots [Surd.ofRat r12, Surd.ofRat r12, Surd.ofRat r3]
    else .symbolic "cardano"

/-- `solve_poly_quartic` as coded -/
def solvePolyQuartic (c0 c1 c2 c3 c4 : Rat) : Sol :=
  let a := c3 / c4
  let b := c2 / c4
  let c := c1 / c4
  let d := c0 / c4
  if d = 0 then
    match solvePolyCubic c b a 1 with
    | .roots l => .roots (Surd.ofRat 0 :: l)
    | s => s
  else
    let sqa := a * a
    let cba := sqa * a
    let aby4 := a / 4
    let e := b - 3 * sqa / 8
    let ff := c + cba / 8 - a * b / 2
    let g := d + sqa * b / 16 - (a * c / 4 + 3 * cba * a / 256)
    if g = 0 then
      match solvePolyCubic ff e 0 1 with
      | .roots l => .roots (Surd.ofRat (-aby4) :: l.map (·.shift (-aby4)))
      | s => s
    else if ff = 0 then
      -- y² ∈ roots of z² + e z + g ;  y = ±√z ;  x = y - a/4
      let zs := solvePolyQuadratic g e 1
      if zs.all Surd.isRat then
        .roots (zs.flatMap fun z => [⟨-aby4, 1, z.a⟩, ⟨-aby4, -1, z.a⟩])
      else .symbolic "biquadratic-nested"
    else .symbolic "euler"

/-- `solve` on a polynomial: number ⇒ domain / EmptySet; otherwise `solve_poly` → `solve_poly_heuristics` -/
def solvePoly (p : Poly) : Sol :=
  match trim p with
  | [] => .all
  | [_] => .roots []
  | [c0, c1] => .roots (solvePolyLinear c0 c1)
  | [c0, c1, c2] => .roots (solvePolyQuadratic c0 c1 c2)
  | [c0, c1, c2, c3] => solvePolyCubic c0 c1 c2 c3
  | [c0, c1, c2, c3, c4] => solvePolyQuartic c0 c1 c2 c3 c4
  | _ => .cond

/-! ### polynomial arithmetic used for `n1/d1 + n2/d2` -/

def padd : Poly → Poly → Poly
  | [], q => q
  | p, [] => p
  | a :: p, b :: q => (a + b) :: padd p q

def pscale (c : Rat) (p : Poly) : Poly := p.map (c * ·)

def pmul : Poly → Poly → Poly
  | [], _ => []
  | a :: p, q => padd (pscale a q) (0 :: pmul p q)

/-- `solve_rational`: `set_complement(numsoln, densoln)` on finite root lists (elements compared by `==`) -/
def solveRational {α} [BEq α] (numRoots denRoots : List α) : List α :=
  numRoots.filter fun r => !denRoots.contains r

/-! ### linsolve: fraction-free Gauss-Jordan with pivoting (dense_matrix.cpp) on `n × n` rational systems -/

abbrev Mat := Array (Array Rat)

def Mat.get (m : Mat) (i j : Nat) : Rat := (m.getD i #[]).getD j 0
def Mat.set (m : Mat) (i j : Nat) (v : Rat) : Mat := m.modify i (·.setIfInBounds j v)

inductive LinErr where
  | singular   -- no pivot: SYMENGINE_ASSERT(p != col), out-of-bounds read without assertions
  | shape
  deriving Repr, DecidableEq

/-- first row `p ≥ i` with `A[p][i] ≠ 0` (the `while` loop) -/
def findPivot (A : Mat) (n i : Nat) : Nat → Nat → Option Nat
  | 0, _ => none
  | fuel + 1, p => if p ≥ n then none else if A.get p i ≠ 0 then some p else findPivot A n i fuel (p + 1)

/-- one outer iteration `i` of `fraction_free_gauss_jordan_solve` (bcol = 1) -/
def ffgjStep (n : Nat) (st : Mat × Array Rat) (i : Nat) : Except LinErr (Mat × Array Rat) := do
  let (A, b) := st
  let d : Rat := if i > 0 then A.get (i - 1) (i - 1) else 1
  let p ← match findPivot A n i (n + 1) i with
    | some p => pure p
    | none => throw LinErr.singular
  -- pivot: swap columns k ≥ i of rows p and i (entries left of i in both rows are already zero), and b
  let (A, b) :=
    if p ≠ i then
      let A' := (List.range n).foldl (fun (M : Mat) k =>
        if k ≥ i then (M.set p k (A.get i k)).set i k (A.get p k) else M) A
      let b' := (b.setIfInBounds p (b.getD i 0)).setIfInBounds i (b.getD p 0)
      (A', b')
    else (A, b)
  let piv := A.get i i
  -- rows j ≠ i
  let (A, b) := (List.range n).foldl (fun (st : Mat × Array Rat) j =>
    if j = i then st else
      let (A', b') := st
      let aji := A'.get j i
      let bj := piv * b'.getD j 0 - aji * b'.getD i 0
      let bj := if i > 0 then bj / d else bj
      let A'' := (List.range n).foldl (fun (M : Mat) k =>
        if k = i then M else
          let v := piv * M.get j k - aji * M.get i k
          M.set j k (if i > 0 then v / d else v)) A'
      (A'', b'.setIfInBounds j bj)) (A, b)
  let A := (List.range n).foldl (fun (M : Mat) j => if j = i then M else M.set j i 0) A
  pure (A, b)

/-- `linsolve` for an `n × n` system: `x[i] = b[i] / A[i][i]` after the elimination -/
def linsolve (n : Nat) (A : Mat) (b : Array Rat) : Except LinErr (List Rat) := do
  if A.size ≠ n ∨ b.size ≠ n ∨ A.any (·.size ≠ n) then throw LinErr.shape
  let (A', b') ← (List.range n).foldlM (ffgjStep n) (A, b)
  pure ((List.range n).map fun i => b'.getD i 0 / A'.get i i)

/-- `A * x` -/
def mulVec (A : Mat) (x : List Rat) : List Rat :=
  A.toList.map fun row => (row.toList.zip x).foldl (fun s p => s + p.1 * p.2) 0

/-- the model's answer together with the multiply-back check (the property) -/
def linsolveChecked (n : Nat) (A : Mat) (b : Array Rat) : Except LinErr (List Rat) := do
  let x ← linsolve n A b
  if mulVec A x = b.toList then pure x else throw LinErr.singular

end SymVerif.Solve
