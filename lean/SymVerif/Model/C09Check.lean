/-
C09 certificate checker for `expand`.  Given the input `e` and the expression `R` the real library returned
for `expand(e)`, decide

  1. value       `NF.equiv R e` — the rational-function normal forms agree (soundness: Lemmas/NFSound.lean);
  2. completeness `expandedB R` — outside function arguments `R` contains no sum as a key of a sum, no factor
                 `(sum)^(positive integer)` in a product and no `(sum)^(positive integer)`;
  3. canonical   on the polynomial fragment (`polyB e`: numbers, atoms — symbols, constants, opaque function
                 applications —, sums, products and non-negative integer powers) `R` is *the* canonical expanded form: `R` is, entry for entry in wire order, the rendering
                 of the reduced monomial dictionary `canonPoly e`, `R` is itself a polynomial expression and
                 `canonPoly R = canonPoly e`.

Core Lean only (linked into the driver).  Theorems: `Props/C09.lean`.
-/
import SymVerif.Model.NF
import SymVerif.Model.ExprEq
import SymVerif.Model.Multinomial

namespace SymVerif
namespace C09

open NF

/-! ### structural completeness -/

def isAdd : Expr → Bool
  | .add _ _ => true
  | _ => false

/-- a positive integer literal -/
def posInt : Expr → Bool
  | .int n => decide (0 < n)
  | _ => false

mutual
  /-- no product or positive integer power of a sum, no sum as a key of a sum; function arguments
  (`fsym`, `app`) and exponents are not inspected -/
  def expandedB : Expr → Bool
    | .add _ ts => expandedTerms ts
    | .mul _ fs => expandedFacs fs
    | .pow b e => !(isAdd b && posInt e) && expandedB b
    | _ => true
  def expandedTerms : List (Expr × Expr) → Bool
    | [] => true
    | (k, _) :: t => !isAdd k && expandedB k && expandedTerms t
  def expandedFacs : List (Expr × Expr) → Bool
    | [] => true
    | (b, e) :: t => !(isAdd b && posInt e) && expandedB b && expandedFacs t
end

/-! ### the polynomial fragment -/

/-- an exact number leaf with non-zero denominators -/
def isNumLit : Expr → Bool
  | .int _ => true
  | .rat _ d => d != 0
  | .cplx re im => re.den != 0 && im.den != 0
  | _ => false

/-- integer literal `0 ≤ n ≤ maxExp` -/
def natExp : Expr → Bool
  | .int n => decide (0 ≤ n) && decide (n.natAbs ≤ maxExp)
  | _ => false

mutual
  /-- polynomials in atoms (symbols, constants, opaque function applications) with exact coefficients, written
  with sums, products and non-negative integer powers -/
  def polyB : Expr → Bool
    | .int _ => true
    | .rat _ d => d != 0
    | .cplx re im => re.den != 0 && im.den != 0
    | .sym _ => true
    | .dummy _ _ => true
    | .const _ => true
    | .fsym _ _ => true
    | .app _ _ => true
    | .add c ts => isNumLit c && polyTerms ts
    | .mul c fs => isNumLit c && polyFacs fs
    | .pow b e => natExp e && polyB b
    | _ => false
  def polyTerms : List (Expr × Expr) → Bool
    | [] => true
    | (k, c) :: t => polyB k && isNumLit c && polyTerms t
  def polyFacs : List (Expr × Expr) → Bool
    | [] => true
    | (b, e) :: t => polyB b && natExp e && polyFacs t
end

/-! ### reduced monomial dictionary -/

/-- Gaussian rational, both parts in lowest terms -/
structure QI where
  re : Q
  im : Q
  deriving Repr, DecidableEq, Inhabited

/-- `n / d` in lowest terms (`d > 0`) -/
def redQ (n d : Int) : Q :=
  let g : Int := (Int.gcd n d : Nat)
  if g = 0 then ⟨0, 1⟩ else ⟨n / g, (d / g).toNat⟩

/-- the positive integer a constant denominator polynomial stands for -/
def constDen? : Poly → Option Int
  | [([], c)] => if c.im = 0 ∧ 0 < c.re then some c.re else none
  | _ => none

abbrev QPoly := List (Mono × QI)

def reduceCoefs (d : Int) : Poly → QPoly
  | [] => []
  | (m, c) :: t => (m, ⟨redQ c.re d, redQ c.im d⟩) :: reduceCoefs d t

/-- the monomial dictionary of a polynomial expression: monomials in the normaliser's order, coefficients
in lowest terms.  `none` when the denominator of the normal form is not a positive integer. -/
def canonPoly (e : Expr) : Option QPoly :=
  match constDen? (normT e).den with
  | some d => some (reduceCoefs d (normT e).num)
  | none => none

/-! ### rendering a dictionary as the expression SymEngine stores -/

def numExpr (q : QI) : Expr :=
  if q.im.num = 0 then (if q.re.den = 1 then .int q.re.num else .rat q.re.num q.re.den)
  else .cplx q.re q.im

def qiIsZero (q : QI) : Bool := q.re.num == 0 && q.im.num == 0
def qiIsOne (q : QI) : Bool := q.re.num == 1 && q.re.den == 1 && q.im.num == 0

/-- the dictionary of a `Mul` for a power product -/
def facsOf : Mono → Option (List (Expr × Expr))
  | [] => some []
  | (a, n) :: t =>
    match Expr.parse a, facsOf t with
    | some x, some r => some ((x, .int n) :: r)
    | _, _ => none

/-- a power product with coefficient one: `x`, `x^n`, or `Mul 1 {x: i, y: j, …}` -/
def monoExpr (m : Mono) : Option Expr :=
  match m with
  | [] => none
  | [(a, n)] =>
    match Expr.parse a with
    | some x => if n = 1 then some x else some (.pow x (.int n))
    | none => none
  | m => (facsOf m).map (fun fs => .mul (.int 1) fs)

def constCoef : QPoly → QI
  | [] => ⟨⟨0, 1⟩, ⟨0, 1⟩⟩
  | (m, c) :: t => if m = [] then c else constCoef t

def nonConst : QPoly → QPoly
  | [] => []
  | (m, c) :: t => if m = [] then nonConst t else (m, c) :: nonConst t

def termPairs : QPoly → Option (List (Expr × Expr))
  | [] => some []
  | (m, c) :: t =>
    match monoExpr m, termPairs t with
    | some k, some r => some ((k, numExpr c) :: r)
    | _, _ => none

/-- the expression `Add::from_dict` builds for the dictionary (entries in the dictionary's order) -/
def render (p : QPoly) : Option Expr :=
  let c0 := constCoef p
  match nonConst p with
  | [] => some (numExpr c0)
  | [(m, c)] =>
    if qiIsZero c0 then
      (if qiIsOne c then monoExpr m else (facsOf m).map (fun fs => .mul (numExpr c) fs))
    else (termPairs [(m, c)]).map (fun ts => .add (numExpr c0) ts)
  | rest => (termPairs rest).map (fun ts => .add (numExpr c0) ts)

/-! ### the acceptance test -/

def valueOk (e r : Expr) : Bool := NF.equiv r e

/-- clause 3; vacuous outside the polynomial fragment -/
def canonOk (e r : Expr) : Bool :=
  if polyB e then
    match canonPoly e, canonPoly r with
    | some p, some q =>
      decide (q = p) && polyB r &&
        (match render p with
         | some x => Expr.eqb r (Expr.canonOrder x)
         | none => false)
    | _, _ => false
  else true

def accepts (e r : Expr) : Bool := valueOk e r && expandedB r && canonOk e r

inductive Verdict where
  | ok
  | skip (why : String)
  | fail (why : String)
  deriving Repr, DecidableEq

def Verdict.toString : Verdict → String
  | .ok => "ok"
  | .skip w => "SKIP:" ++ w
  | .fail w => "FAIL:" ++ w

/-- what the driver prints for `expand e ↦ r` -/
def judge (e r : Expr) : Verdict :=
  match firstErr e with
  | some err => .skip ("input-" ++ err.toString)
  | none =>
    match firstErr r with
    | some err =>
      -- |exponent| > NF.maxExp is a limit of the normaliser, not a defect of the result
      if err = .expTooLarge then .skip "result-exponent-too-large"
      else .fail ("result-outside-fragment-" ++ err.toString)
    | none =>
      if !valueOk e r then .fail "value-differs"
      else if !expandedB r then .fail "not-expanded"
      else if !canonOk e r then .fail "not-canonical"
      else .ok

/-- `pair e₁ e₂ ↦ r₁ ;; r₂ ;; flag`: both certificates, `flag` = structural equality of the results, and on
the polynomial fragment equality of the results ⇔ equality of the dictionaries -/
def judgePair (e1 e2 r1 r2 : Expr) (flag : Bool) : Verdict :=
  match judge e1 r1 with
  | .ok =>
    match judge e2 r2 with
    | .ok =>
      if flag != Expr.eqb r1 r2 then .fail "eq-flag-differs-from-structural-equality"
      else if polyB e1 && polyB e2 then
        (if decide (canonPoly e1 = canonPoly e2) == Expr.eqb r1 r2 then .ok
         else .fail "identity-not-decided")
      else .ok
    | v => v
  | v => v

end C09
end SymVerif
