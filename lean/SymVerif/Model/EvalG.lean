/-
M-Eval (DESIGN.md §4.4): a generic numeric evaluator for canonical `SymVerif.Expr`
trees, parametrised by
  * a number structure `NumOps α` (instantiated at `Float` for execution in the
    drivers and at `ℝ` in the proof files), and
  * a table `Defs` of *per-node-kind definitions* (`NodeDef`) that is **generated**
    from the C++ sources by tools/extract/c12_formulas.py (Gen/EvalFormulas.lean):
    one table per evaluator (EvalRealDoubleVisitor, init_eval_double single-dispatch
    table, LambdaRealDoubleVisitor).

Anchors: symengine/eval_double.cpp (EvalDoubleVisitor::bvisit…, init_eval_double),
symengine/lambda_double.h (LambdaDoubleVisitor::bvisit…), Add::get_args / Mul::get_args
/ Add::from_dict (add.cpp, mul.cpp) for the argument lists the folds run over.
Core Lean only.
-/
import SymVerif.Model.Expr

namespace SymVerif.EvalG

/-- libm / <algorithm> entry points that occur in the translated bodies -/
inductive Fn where
  | sin | cos | tan | asin | acos | atan | atan2
  | sinh | cosh | tanh | asinh | acosh | atanh
  | exp | log | pow | abs | floor | ceil | trunc
  | tgamma | lgamma | erf | erfc | max | min | sqrt | cbrt | isnan
  deriving DecidableEq, Repr, Inhabited

inductive Cmp where
  | eq | ne | le | lt
  deriving DecidableEq, Repr, Inhabited

/-- Formula AST of a translated `result_ = …;` right-hand side.  `arg i` is the value of the
i-th already evaluated operand; comparisons and logical connectives yield 1/0 like the C
`bool → double` conversion; `ite c a b` is the C conditional `c ? a : b` (c "true" iff ≠ 0). -/
inductive Formula where
  | arg (i : Nat)
  | lit (n : Int) (d : Nat)
  | inf (negative : Bool)
  | nan
  | call1 (f : Fn) (a : Formula)
  | call2 (f : Fn) (a b : Formula)
  | add (a b : Formula)
  | sub (a b : Formula)
  | mul (a b : Formula)
  | div (a b : Formula)
  | neg (a : Formula)
  | cmp (op : Cmp) (a b : Formula)
  | ite (c a b : Formula)
  | lnot (a : Formula)
  | land (a b : Formula)
  | lor (a b : Formula)
  | lxor (a b : Formula)
  deriving DecidableEq, Repr, Inhabited

/-- Shape of one `bvisit` body / table entry. -/
inductive NodeDef where
  /-- evaluate the operands (`get_args()` order), then the formula -/
  | fn (body : Formula)
  /-- `tmp = init; for p in get_args(): tmp = step(tmp, apply(p))` (arg 0 = tmp, arg 1 = operand) -/
  | foldArgs (init step : Formula)
  /-- `tmp = apply(coef); for (k,v) in dict: tmp = step(tmp, apply(k), apply(v))` -/
  | foldDict (step : Formula)
  /-- as `foldDict`, but an entry whose key is the constant E uses `eStep(tmp, apply(v))` -/
  | foldDictE (eStep step : Formula)
  /-- Pow: `if base == E then eBody(exp) else body(base, exp)` -/
  | powE (eBody body : Formula)
  /-- Pow without the special case: `body(base, exp)` -/
  | powPlain (body : Formula)
  /-- Constant: chain of `eq(x, *name)` tests; anything else throws NotImplemented -/
  | const (tbl : List (String × Formula))
  /-- `result = apply(args[0]); for i in start..n: result = step(result, apply(args[i]))` -/
  | foldFirst (start : Nat) (step : Formula)
  /-- as `foldFirst` but on truth values: `bool r = bool(a0); for i in start..n: r = step(r, bool(ai)); double(r)` -/
  | boolFold (start : Nat) (step : Formula)
  /-- Piecewise: first pair whose predicate value satisfies `test` (arg 0 = predicate value) -/
  | piecewise (test : Formula)
  /-- Contains(expr, Interval): the lambda in LambdaRealDoubleVisitor::bvisit(const Contains&) -/
  | containsInterval
  | leafInt | leafRat | leafDouble | leafBool | leafInfty | leafNaN
  | symbolLookup
  | throwRuntime
  deriving DecidableEq, Repr, Inhabited

abbrev Defs := List (String × NodeDef)

def Defs.find (d : Defs) (k : String) : Option NodeDef :=
  match d with
  | [] => none
  | (k', v) :: t => if k' = k then some v else Defs.find t k

inductive Err where
  | notImpl     -- NotImplementedError
  | runtime     -- SymEngineException
  | badArg      -- formula refers to an operand that is not there (would be UB / out of range)
  | badCall     -- libm entry point not available in the number structure
  | noncanon    -- tree is not of the canonical shape the model covers
  | noOracle    -- value of a special function not supplied
  deriving DecidableEq, Repr, Inhabited

def Err.token : Err → String
  | .notImpl => "E:NotImplemented"
  | .runtime => "E:Runtime"
  | .badArg => "E:oob"
  | .badCall => "E:badcall"
  | .noncanon => "E:noncanon"
  | .noOracle => "E:nooracle"

/-- The number structure the evaluators compute in. -/
structure NumOps (α : Type) where
  /-- `mp_get_d` of an exact rational (GMP truncates towards zero) -/
  ofQTrunc : Int → Nat → α
  /-- a decimal literal written in the C++ source (compiler rounds to nearest) -/
  ofQNear : Int → Nat → α
  /-- a stored `double` -/
  ofBits : UInt64 → α
  inf : Bool → α
  nan : α
  add : α → α → α
  sub : α → α → α
  mul : α → α → α
  div : α → α → α
  neg : α → α
  call1 : Fn → α → Option α
  call2 : Fn → α → α → Option α
  eq : α → α → Bool
  lt : α → α → Bool
  le : α → α → Bool

variable {α : Type}

def NumOps.ofBool (O : NumOps α) (b : Bool) : α := if b then O.ofQNear 1 1 else O.ofQNear 0 1
/-- C conversion `bool(x)`: true iff x ≠ 0 -/
def NumOps.truthy (O : NumOps α) (x : α) : Bool := !(O.eq x (O.ofQNear 0 1))

def NumOps.cmp (O : NumOps α) : Cmp → α → α → Bool
  | .eq, a, b => O.eq a b
  | .ne, a, b => !(O.eq a b)
  | .le, a, b => O.le a b
  | .lt, a, b => O.lt a b

def optErr {β : Type} (e : Err) : Option β → Except Err β
  | some x => .ok x
  | none => .error e

/-- value of a formula on evaluated operands -/
def evalF (O : NumOps α) (args : List α) : Formula → Except Err α
  | .arg i => optErr .badArg args[i]?
  | .lit n d => .ok (O.ofQNear n d)
  | .inf s => .ok (O.inf s)
  | .nan => .ok O.nan
  | .call1 f a => do
    let x ← evalF O args a
    optErr .badCall (O.call1 f x)
  | .call2 f a b => do
    let x ← evalF O args a
    let y ← evalF O args b
    optErr .badCall (O.call2 f x y)
  | .add a b => do
    let x ← evalF O args a
    let y ← evalF O args b
    pure (O.add x y)
  | .sub a b => do
    let x ← evalF O args a
    let y ← evalF O args b
    pure (O.sub x y)
  | .mul a b => do
    let x ← evalF O args a
    let y ← evalF O args b
    pure (O.mul x y)
  | .div a b => do
    let x ← evalF O args a
    let y ← evalF O args b
    pure (O.div x y)
  | .neg a => do
    let x ← evalF O args a
    pure (O.neg x)
  | .cmp op a b => do
    let x ← evalF O args a
    let y ← evalF O args b
    pure (O.ofBool (O.cmp op x y))
  | .ite c a b => do
    let x ← evalF O args c
    if O.truthy x then evalF O args a else evalF O args b
  | .lnot a => do
    let x ← evalF O args a
    pure (O.ofBool (!(O.truthy x)))
  | .land a b => do
    let x ← evalF O args a
    if O.truthy x then do
      let y ← evalF O args b
      pure (O.ofBool (O.truthy y))
    else pure (O.ofBool false)
  | .lor a b => do
    let x ← evalF O args a
    if O.truthy x then pure (O.ofBool true) else do
      let y ← evalF O args b
      pure (O.ofBool (O.truthy y))
  | .lxor a b => do
    let x ← evalF O args a
    let y ← evalF O args b
    pure (O.ofBool (O.truthy x != O.truthy y))

/-- `tmp = init; for v in vals: tmp = step(tmp, v)` -/
def foldVals (O : NumOps α) (step : Formula) : α → List α → Except Err α
  | acc, [] => .ok acc
  | acc, v :: vs => do
    let acc' ← evalF O [acc, v] step
    foldVals O step acc' vs

/-- `tmp = c; for (k,v) in pairs: tmp = step(tmp, k, v)` -/
def foldPairVals (O : NumOps α) (step : Formula) : α → List (α × α) → Except Err α
  | acc, [] => .ok acc
  | acc, (k, v) :: vs => do
    let acc' ← evalF O [acc, k, v] step
    foldPairVals O step acc' vs

/-- `foldPairVals` with the base-E special case (flag = key is the constant E) -/
def foldPairValsE (O : NumOps α) (eStep step : Formula) : α → List (Bool × α × α) → Except Err α
  | acc, [] => .ok acc
  | acc, (isE, k, v) :: vs => do
    let acc' ← if isE then evalF O [acc, v] eStep else evalF O [acc, k, v] step
    foldPairValsE O eStep step acc' vs

/-- boolean fold of And/Or/Xor in LambdaRealDoubleVisitor -/
def foldBoolVals (O : NumOps α) (step : Formula) : α → List α → Except Err α
  | acc, [] => .ok acc
  | acc, v :: vs => do
    let acc' ← evalF O [acc, O.ofBool (O.truthy v)] step
    foldBoolVals O step (O.ofBool (O.truthy acc')) vs

def isOne : Expr → Bool
  | .int 1 => true
  | _ => false

def isZero : Expr → Bool
  | .int 0 => true
  | _ => false

def isE : Expr → Bool
  | .const n => n == "E"
  | _ => false

/-- apply a Pow definition to already evaluated operands (`vb` is only forced when needed) -/
def powVal (O : NumOps α) (d : Option NodeDef) (baseIsE : Bool) (vb : Except Err α) (ve : α) : Except Err α :=
  match d with
  | some (.powE eBody body) =>
    if baseIsE then evalF O [ve] eBody
    else do
      let b ← vb
      evalF O [b, ve] body
  | some (.powPlain body) => do
      let b ← vb
      evalF O [b, ve] body
  | some _ => .error .noncanon
  | none => .error .notImpl

/-- value of a Mul-shaped argument list `[coef?] ++ factors` under the Mul definition -/
def mulVal (O : NumOps α) (d : Option NodeDef) (vals : List α) : Except Err α :=
  match d with
  | some (.foldArgs init step) => do
    let i ← evalF O [] init
    foldVals O step i vals
  | some _ => .error .noncanon
  | none => .error .notImpl

/-- the Contains(Interval) closure of lambda_double.h -/
def containsVal (O : NumOps α) (x s e : α) (leftOpen rightOpen : Bool) : α :=
  let notnan : Bool := match O.call1 .isnan x with
    | some r => !(O.truthy r)
    | none => true
  let leftOk := if O.eq s (O.inf true) then notnan else (if leftOpen then O.lt s x else O.le s x)
  let rightOk := if O.eq e (O.inf false) then notnan else (if rightOpen then O.lt x e else O.le x e)
  O.ofBool (leftOk && rightOk)

structure Ctx (α : Type) where
  O : NumOps α
  defs : Defs
  env : String → Option α

mutual
  /-- The generic evaluator.  The traversal mirrors `apply(b) { b.accept(*this); return result_; }`. -/
  def evalG (C : Ctx α) : Expr → Except Err α
    | .int n =>
      match C.defs.find "Integer" with
      | some .leafInt => .ok (C.O.ofQTrunc n 1)
      | some _ => .error .noncanon
      | none => .error .notImpl
    | .rat n d =>
      match C.defs.find "Rational" with
      | some .leafRat => .ok (C.O.ofQTrunc n d)
      | some _ => .error .noncanon
      | none => .error .notImpl
    | .dbl b =>
      match C.defs.find "RealDouble" with
      | some .leafDouble => .ok (C.O.ofBits b)
      | some _ => .error .noncanon
      | none => .error .notImpl
    | .bool b =>
      match C.defs.find "BooleanAtom" with
      | some .leafBool => .ok (C.O.ofBool b)
      | some _ => .error .noncanon
      | none => .error .notImpl
    | .infty dir =>
      match C.defs.find "Infty" with
      | some .leafInfty =>
        if dir == 1 then .ok (C.O.inf false)
        else if dir == -1 then .ok (C.O.inf true)
        else .error .runtime
      | some _ => .error .noncanon
      | none => .error .notImpl
    | .nan =>
      match C.defs.find "NaN" with
      | some .leafNaN => .ok C.O.nan
      | some _ => .error .noncanon
      | none => .error .notImpl
    | .sym name =>
      match C.defs.find "Symbol" with
      | some .symbolLookup => optErr .runtime (C.env name)
      | some .throwRuntime => .error .runtime
      | some _ => .error .noncanon
      | none => .error .notImpl
    | .const name =>
      match C.defs.find "Constant" with
      | some (.const tbl) =>
        match tbl.lookup name with
        | some f => evalF C.O [] f
        | none => .error .notImpl
      | some _ => .error .noncanon
      | none => .error .notImpl
    | .add coef terms =>
      match C.defs.find "Add" with
      | some (.foldArgs init step) => do
        -- Add::get_args(): coef_ unless zero, then one operand per dictionary entry
        let i ← evalF C.O [] init
        let cv ← if isZero coef then pure [] else do
          let c ← evalG C coef
          pure [c]
        let tv ← evalTerms C terms
        foldVals C.O step i (cv ++ tv)
      | some (.foldDict step) => do
        let c ← evalG C coef
        let pv ← evalPairs C terms
        foldPairVals C.O step c pv
      | some _ => .error .noncanon
      | none => .error .notImpl
    | .mul coef facs =>
      match C.defs.find "Mul" with
      | some (.foldArgs _ _) => do
        -- Mul::get_args(): coef_ unless one, then base or Pow(base, exp) per dictionary entry
        let cv ← if isOne coef then pure [] else do
          let c ← evalG C coef
          pure [c]
        let fv ← evalFacs C facs
        mulVal C.O (C.defs.find "Mul") (cv ++ fv)
      | some (.foldDict step) => do
        let c ← evalG C coef
        let pv ← evalPairs C facs
        foldPairVals C.O step c pv
      | some (.foldDictE eStep step) => do
        let c ← evalG C coef
        let pv ← evalPairs C facs
        foldPairValsE C.O eStep step c ((facs.map (fun p => isE p.1)).zip pv)
      | some _ => .error .noncanon
      | none => .error .notImpl
    | .pow b e =>
      match C.defs.find "Pow" with
      | none => .error .notImpl
      | some d => do
        let ve ← evalG C e
        powVal C.O (some d) (isE b) (evalG C b) ve
    | .app head args =>
      match C.defs.find head with
      | none => .error .notImpl
      | some (.fn body) => do
        let vs ← evalList C args
        evalF C.O vs body
      | some (.foldFirst start step) => do
        let vs ← evalList C args
        match vs with
        | [] => .error .badArg
        | v0 :: _ => foldVals C.O step v0 (vs.drop start)
      | some (.boolFold start step) => do
        let vs ← evalList C args
        match vs with
        | [] => .error .badArg
        | v0 :: _ => foldBoolVals C.O step (C.O.ofBool (C.O.truthy v0)) (vs.drop start)
      | some (.piecewise test) => evalPw C test args
      | some .containsInterval => evalContains C args
      | some _ => .error .noncanon
    | .cplx _ _ => .error .notImpl
    | .cdbl _ _ => .error .notImpl
    | .dummy _ _ => .error .notImpl
    | .fsym _ _ => .error .notImpl

  def evalList (C : Ctx α) : List Expr → Except Err (List α)
    | [] => .ok []
    | a :: t => do
      let v ← evalG C a
      let vs ← evalList C t
      pure (v :: vs)

  /-- both components of every dictionary entry (lambda_double.h Add/Mul loops) -/
  def evalPairs (C : Ctx α) : List (Expr × Expr) → Except Err (List (α × α))
    | [] => .ok []
    | (k, v) :: t => do
      let a ← evalG C k
      let b ← evalG C v
      let r ← evalPairs C t
      pure ((a, b) :: r)

  /-- operands of `Mul::get_args()`: `base` if the exponent is 1, else the value of `Pow(base, exp)` -/
  def evalFacs (C : Ctx α) : List (Expr × Expr) → Except Err (List α)
    | [] => .ok []
    | (b, e) :: t => do
      let v ← if isOne e then evalG C b else do
        let ve ← evalG C e
        powVal C.O (C.defs.find "Pow") (isE b) (evalG C b) ve
      let r ← evalFacs C t
      pure (v :: r)

  /-- operands of `Add::get_args()`: `key` if the coefficient is 1, else the value of
  `Add::from_dict(0, {key: c})`, which is the Mul `c * key` with `key`'s own factors merged in -/
  def evalTerms (C : Ctx α) : List (Expr × Expr) → Except Err (List α)
    | [] => .ok []
    | (k, c) :: t => do
      let v ← if isOne c then evalG C k else do
        let cv ← evalG C c
        let fv ← match k with
          | .mul kc kd => if isOne kc then evalFacs C kd else .error .noncanon
          | .pow b e => do
            let ve ← evalG C e
            let p ← powVal C.O (C.defs.find "Pow") (isE b) (evalG C b) ve
            pure [p]
          | other => do
            let x ← evalG C other
            pure [x]
        mulVal C.O (C.defs.find "Mul") (cv :: fv)
      let r ← evalTerms C t
      pure (v :: r)

  /-- Contains(expr, Interval(start, end, left_open, right_open)); any other set throws -/
  def evalContains (C : Ctx α) : List Expr → Except Err α
    | [x, .app "Interval" [s, e, .bool lo, .bool ro]] => do
      let vx ← evalG C x
      let vs ← evalG C s
      let ve ← evalG C e
      pure (containsVal C.O vx vs ve lo ro)
    | _ => .error .runtime

  /-- Piecewise::get_args() = e₁ c₁ e₂ c₂ …; predicates are tried in order -/
  def evalPw (C : Ctx α) (test : Formula) : List Expr → Except Err α
    | e :: c :: rest => do
      let cv ← evalG C c
      let t ← evalF C.O [cv] test
      if C.O.truthy t then evalG C e else evalPw C test rest
    | _ => .error .runtime
end

end SymVerif.EvalG
