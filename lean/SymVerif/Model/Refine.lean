/-
Model of `refine` (symengine/refine.cpp, RefineVisitor over TransformVisitor) and `simplify`
(symengine/simplify.cpp, SimplifyVisitor), on top of the query model (Model/Queries.lean).

Results are built with *raw* constructors (`negRaw e = (* -1 (e 1))`, `(+ 0 (a 1) (b 1))` …): the library
re-canonicalises what it rebuilds, the value is the same.  The driver therefore compares the library's
result with the model's result through a normaliser (see Drv/C35.lean), not textually.

Fragment.  A rule of RefineVisitor is applied to the *refined* argument, on which it runs the queries of C34.
The model applies a rule only where refining the argument leaves it unchanged (then the queries run on the
canonical subtree that came over the wire); where the argument itself changes the model answers
`unmodelled` (the harness oracle still judges those inputs).

`asIs = true` models the Pow-of-Pow rule as coded (D16: `(x**k)**n → abs(x)**(k*n)` for every real `x` and
all real numbers `k`, `n`); `asIs = false` the repaired rule (only even integers `k`).
Core Lean only.
-/
import SymVerif.Model.Queries

namespace SymVerif.Refine
open SymVerif SymVerif.Queries

def negRaw (e : Expr) : Expr := .mul (.int (-1)) [(e, .int 1)]

/-- `add(vec)` / `mul(vec)` of already transformed arguments, uncanonicalised -/
def sumRaw (l : List Expr) : Expr := .add (.int 0) (l.map fun a => (a, .int 1))
def prodRaw (l : List Expr) : Expr := .mul (.int 1) (l.map fun a => (a, .int 1))

/-! ### exact numbers -/

def numToQ : Expr → Option (Int × Nat)
  | .int n => some (n, 1)
  | .rat n d => some (n, d)
  | _ => none

def qToNum (n : Int) (d : Nat) : Expr :=
  let g := Nat.gcd n.natAbs d
  if g == 0 then .nan else
  let n' := n / (g : Int)
  let d' := d / g
  if d' == 1 then .int n' else .rat n' d'

/-- product of two exact real numbers (`mul(newexp, inner_exp)` in the Pow rule) -/
def numMul (a b : Expr) : Option Expr :=
  match numToQ a, numToQ b with
  | some (n1, d1), some (n2, d2) => some (qToNum (n1 * n2) (d1 * d2))
  | _, _ => none

def isEvenInt : Expr → Bool
  | .int n => n % 2 == 0
  | _ => false

/-- the Number classes that are not complex (`not Number::is_complex()`) and exact -/
def isExactReal : Expr → Bool
  | .int _ => true
  | .rat _ _ => true
  | _ => false

/-! ### perfect powers (`mp_perfect_power_decomposition`) -/

/-- bisection of the library: largest `i` in `[lo, hi)` … with `i^p ≤ n` -/
def bisect (n p : Nat) : Nat → Nat → Nat → Nat
  | 0, i, _ => i
  | fuel + 1, i, j =>
    if j > i + 1 then
      let m := (i + j) / 2
      if m ^ p > n then bisect n p fuel i m else bisect n p fuel m j
    else i

/-- the loop over `p = 2, 3, …` while `2^p ≤ n`; keeps the last hit -/
def ppLoop (n : Nat) : Nat → Nat → Nat × Nat → Nat × Nat
  | 0, _, acc => acc
  | fuel + 1, p, acc =>
    if 2 ^ p ≤ n then
      let i := bisect n p (n + 2) 2 n
      ppLoop n fuel (p + 1) (if i ^ p == n then (i, p) else acc)
    else acc

def perfectPower (n : Nat) : Nat × Nat := ppLoop n (n + 2) 2 (n, 1)

/-! ### heads -/

/-- classes derived from OneArgFunction (TransformVisitor recurses into the argument) -/
def oneArgHeads : List String :=
  ["Sin", "Cos", "Tan", "Cot", "Csc", "Sec", "ASin", "ACos", "ASec", "ACsc", "ATan", "ACot", "Sinh", "Csch", "Cosh",
   "Sech", "Tanh", "Coth", "ASinh", "ACsch", "ACosh", "ATanh", "ACoth", "ASech", "Log", "LambertW", "Gamma", "LogGamma",
   "Erf", "Erfc", "Abs", "Sign", "Floor", "Ceiling", "Truncate", "Conjugate", "Dirichlet_eta", "PrimePi", "Primorial",
   "UnevaluatedExpr"]

/-! ### RefineVisitor -/

/-- result of transforming a node: `none` = the very same object is returned -/
abbrev Res := Except Err (Option Expr)

def Res.get (e : Expr) : Option Expr → Expr
  | none => e
  | some r => r

/-- transform a list of arguments; `changed` is true when some argument changed -/
def mapArgs (f : Expr → Res) : List Expr → Except Err (List Expr × Bool)
  | [] => .ok ([], false)
  | a :: t =>
    match f a, mapArgs f t with
    | .ok r, .ok (l, ch) => .ok (Res.get a r :: l, ch || r.isSome)
    | .error e, _ => .error e
    | _, .error e => .error e

/-- `RefineVisitor::bvisit(const Max &)`: the classification loop; state = (keep, nonpositive, negative,
    have_positive, have_nonnegative), lists in visiting order -/
def maxStep (A : Assumptions) (a : Expr) (st : List Expr × List Expr × List Expr × Bool × Bool) :
    List Expr × List Expr × List Expr × Bool × Bool :=
  let (keep, nonpos, neg, hp, hn) := st
  if isPositive A a == .t then (keep ++ [a], nonpos, neg, true, hn)
  else if isNonnegative A a == .t then (keep ++ [a], nonpos, neg, hp, true)
  else if isNegative A a == .t then (keep, nonpos, neg ++ [a], hp, hn)
  else if isNonpositive A a == .t then (keep, nonpos ++ [a], neg, hp, hn)
  else (keep ++ [a], nonpos, neg, hp, hn)

def maxKeep (A : Assumptions) (args : List Expr) : List Expr :=
  let (keep, nonpos, neg, hp, hn) := args.foldl (fun st a => maxStep A a st) ([], [], [], false, false)
  let keep := if !hp && !nonpos.isEmpty then keep ++ nonpos else keep
  if !hn && !hp && !neg.isEmpty then keep ++ neg else keep

def minStep (A : Assumptions) (a : Expr) (st : List Expr × List Expr × List Expr × Bool × Bool) :
    List Expr × List Expr × List Expr × Bool × Bool :=
  let (keep, nonneg, pos, hn, hnp) := st
  if isNegative A a == .t then (keep ++ [a], nonneg, pos, true, hnp)
  else if isNonpositive A a == .t then (keep ++ [a], nonneg, pos, hn, true)
  else if isPositive A a == .t then (keep, nonneg, pos ++ [a], hn, hnp)
  else if isNonnegative A a == .t then (keep, nonneg ++ [a], pos, hn, hnp)
  else (keep ++ [a], nonneg, pos, hn, hnp)

def minKeep (A : Assumptions) (args : List Expr) : List Expr :=
  let (keep, nonneg, pos, hn, hnp) := args.foldl (fun st a => minStep A a st) ([], [], [], false, false)
  let keep := if !hn && !nonneg.isEmpty then keep ++ nonneg else keep
  if !hnp && !hn && !pos.isEmpty then keep ++ pos else keep

/-- `max(vec)` / `min(vec)` of the kept arguments: one argument is returned as it is -/
def mkExt (h : String) : List Expr → Expr
  | [a] => a
  | l => .app h l

/-- the rule of a one-argument node applied to its (unchanged) argument `a`; `none` = no rule fired, the node
    itself is returned -/
def ruleOne (A : Assumptions) (h : String) (a : Expr) : Option Expr :=
  if h == "Abs" then
    if isNonnegative A a == .t then some a
    else if isNonpositive A a == .t then some (negRaw a)
    else match a with
      | .app "Conjugate" [u] => some (.app "Abs" [u])
      | _ => none
  else if h == "Sign" then
    if isPositive A a == .t then some (.int 1)
    else if isNegative A a == .t then some (.int (-1))
    else if isZero A a == .t then some (.int 0)
    else none
  else if h == "Floor" || h == "Ceiling" then
    if isInteger A a == .t then some a else none
  else if h == "Conjugate" then
    if isReal A a == .t then some a else none
  else if h == "Log" then
    match a with
    | .pow b x =>
      if isPositive A b == .t && isReal A x == .t then some (.mul (.int 1) [(x, .int 1), (.app "Log" [b], .int 1)])
      else none
    | .int n =>
      if 2 ≤ n then
        let (b, k) := perfectPower n.toNat
        if k != 1 && b ^ k == n.toNat then some (.mul (.int k) [(.app "Log" [.int b], .int 1)]) else none
      else none
    | _ => none
  else none

/-- `RefineVisitor::bvisit(const Pow &)` on unchanged base and exponent -/
def rulePow (asIs : Bool) (A : Assumptions) (b x : Expr) : Option Expr :=
  match b with
  | .pow ib ie =>
    if x.isNum && isReal A ib == .t && ie.isNum && !numIsComplexMeth ie && !numIsComplexMeth x then
      if isPositive A ib == .t then
        (numMul x ie).map fun p => .pow ib p
      else if asIs || isEvenInt ie then
        (numMul x ie).map fun p => .pow (.app "Abs" [ib]) p
      else none
    else none
  | _ => none

/-- shapes that canonical objects never have (`(b**k)**n` with an integer `n`, or with `k = 0`) -/
def powNonCanon (b x : Expr) : Bool :=
  match b, x with
  | .pow _ _, .int _ => true
  | .pow _ (.int k), _ => k == 0
  | _, _ => false

/-- is the Pow-of-Pow rule reached with inexact numbers (whose product the model does not compute)? -/
def powInexact (b x : Expr) : Bool :=
  match b with
  | .pow _ ie => (x.isNum && ie.isNum) && !(isExactReal x && isExactReal ie) && !numIsComplexMeth x && !numIsComplexMeth ie
  | _ => false

def refineF (asIs : Bool) (A : Assumptions) : Nat → Expr → Res
  | 0, _ => .error .unmodelled
  | fuel + 1, e =>
    match e with
    | .add c ts =>
      match mapArgs (refineF asIs A fuel) (argsOf (.add c ts)) with
      | .ok (l, ch) => .ok (if ch then some (sumRaw l) else none)
      | .error err => .error err
    | .mul c fs =>
      match mapArgs (refineF asIs A fuel) (argsOf (.mul c fs)) with
      | .ok (l, ch) => .ok (if ch then some (prodRaw l) else none)
      | .error err => .error err
    | .pow b x =>
      match refineF asIs A fuel b, refineF asIs A fuel x with
      | .ok none, .ok none =>
        if powInexact b x || powNonCanon b x then .error .unmodelled else .ok (rulePow asIs A b x)
      | .ok rb, .ok rx =>
        let b' := Res.get b rb
        let x' := Res.get x rx
        -- a changed base that is again a power would re-enter the rule on a non-canonical tree
        (match b' with
         | .pow _ _ => if x'.isNum then .error .unmodelled else .ok (some (.pow b' x'))
         | _ => .ok (some (.pow b' x')))
      | .error err, _ => .error err
      | _, .error err => .error err
    | .app h args =>
      if h == "Max" || h == "Min" then
        match mapArgs (refineF asIs A fuel) args with
        | .ok (_, true) => .error .unmodelled
        | .ok (_, false) =>
          let keep := if h == "Max" then maxKeep A args else minKeep A args
          .ok (if keep.length == args.length then none else some (mkExt h keep))
        | .error err => .error err
      else if h == "Interval" then
        match args with
        | [.infty a, .infty b, _, _] => .ok (if a == -1 && b == 1 then some (.app "Reals" []) else none)
        | _ => .ok none
      else match args with
        | [a] =>
          if oneArgHeads.contains h then
            match refineF asIs A fuel a with
            | .ok none => .ok (ruleOne A h a)
            | .ok (some a') =>
              -- the rules of RefineVisitor would now query the rebuilt argument
              if h == "Abs" || h == "Sign" || h == "Floor" || h == "Ceiling" || h == "Conjugate" || h == "Log" then
                .error .unmodelled
              else .ok (some (.app h [a']))
            | .error err => .error err
          else .ok none
        | [a, b] =>
          if h == "ATan2" || h == "KroneckerDelta" || h == "Beta" || h == "Zeta" || h == "PolyGamma"
              || h == "LowerGamma" || h == "UpperGamma" then
            match mapArgs (refineF asIs A fuel) [a, b] with
            | .ok (l, ch) => .ok (if ch then some (.app h l) else none)
            | .error err => .error err
          else .ok none
        | _ => .ok none
    | .fsym n args =>
      match mapArgs (refineF asIs A fuel) args with
      | .ok (l, ch) => .ok (if ch then some (.fsym n l) else none)
      | .error err => .error err
    | _ => .ok none

/-- `refine(e, assumptions)` -/
def refine (asIs : Bool) (A : Assumptions) (e : Expr) : Except Err Expr :=
  match refineF asIs A (size e + 1) e with
  | .ok r => .ok (Res.get e r)
  | .error err => .error err

/-! ### SimplifyVisitor -/

/-- `SimplifyVisitor::simplify_pow(e, b)`: `(exponent, base)` of the result -/
def simplifyPow (x b : Expr) : Expr × Expr :=
  match b, x with
  | .app "Csc" [u], .int (-1) => (.int 1, .app "Sin" [u])
  | .app "Sec" [u], .int (-1) => (.int 1, .app "Cos" [u])
  | .app "Cot" [u], .int (-1) => (.int 1, .app "Tan" [u])
  | _, _ => (x, b)

def simpFacs (f : Expr → Expr) : List (Expr × Expr) → List (Expr × Expr)
  | [] => []
  | (b, x) :: t =>
    let p := simplifyPow x (f b)
    (p.2, p.1) :: simpFacs f t

def simplifyF : Nat → Expr → Expr
  | 0, e => e
  | fuel + 1, e =>
    match e with
    | .add c ts => sumRaw ((argsOf (.add c ts)).map (simplifyF fuel))
    | .mul c fs => .mul c (simpFacs (simplifyF fuel) fs)
    | .pow b x =>
      let p := simplifyPow (simplifyF fuel x) (simplifyF fuel b)
      .pow p.2 p.1
    | .app h args => if isLogic (.app h args) then .app h args else .app h (args.map (simplifyF fuel))
    | .fsym n args => .fsym n (args.map (simplifyF fuel))
    | e => e

/-- `simplify(e, assumptions)` = SimplifyVisitor after refine -/
def simplify (asIs : Bool) (A : Assumptions) (e : Expr) : Except Err Expr :=
  match refine asIs A e with
  | .ok r => .ok (simplifyF (size r + 1) r)
  | .error err => .error err

end SymVerif.Refine
