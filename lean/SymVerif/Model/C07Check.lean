/-
C07 certificate checker: given one arithmetic constructor call `op A B…` and the
expression `R` the real library returned, decide with the normaliser `NF`
whether `R` denotes `op` applied to the denotations of the operands.
Core Lean only (linked into the driver).  Soundness: `Props/C07.lean`.
-/
import SymVerif.Model.NF

namespace SymVerif
namespace C07

open NF

inductive Op where
  | add | sub | mul | div | neg | pow | addn | muln
  deriving Repr, DecidableEq, Inhabited

def Op.ofString : String → Option Op
  | "add" => some .add | "sub" => some .sub | "mul" => some .mul | "div" => some .div
  | "neg" => some .neg | "pow" => some .pow | "addn" => some .addn | "muln" => some .muln
  | _ => none

def sumF : List Expr → Frac
  | [] => zeroF
  | a :: t => addF (normT a) (sumF t)

def prodF : List Expr → Frac
  | [] => oneF
  | a :: t => mulF (normT a) (prodF t)

/-- the normal form the result must have: the operation carried out on the operands' normal forms -/
def recipe : Op → List Expr → Option Frac
  | .add, [a, b] => some (addF (normT a) (normT b))
  | .sub, [a, b] => some (subF (normT a) (normT b))
  | .mul, [a, b] => some (mulF (normT a) (normT b))
  | .div, [a, b] => some (divF (normT a) (normT b))
  | .neg, [a] => some (negF (normT a))
  | .pow, [a, .int n] => some (powF (normT a) n)
  | .addn, as => some (sumF as)
  | .muln, as => some (prodF as)
  | _, _ => none

/-- the acceptance test: `true` only if `R` and the recipe have equal normal forms -/
def accepts (op : Op) (args : List Expr) (r : Expr) : Bool :=
  match recipe op args with
  | some f => equivF (normT r) f
  | none => false

inductive Verdict where
  | ok
  | skip (why : String)     -- the case is outside the checker's fragment or the operation is undefined
  | fail (why : String)
  deriving Repr, DecidableEq

def firstErrList : List Expr → Option NFErr
  | [] => none
  | a :: t => match firstErr a with
    | some e => some e
    | none => firstErrList t

/-- `true` when the operation itself is undefined for every assignment: division by an operand that
normalises to 0, or a negative power of one -/
def undefinedOp : Op → List Expr → Bool
  | .div, [_, b] => decide ((normT b).num = [])
  | .pow, [a, .int n] => n < 0 && decide ((normT a).num = [])
  | _, _ => false

/-- what the driver prints -/
def judge (op : Op) (args : List Expr) (r : Expr) : Verdict :=
  match op, args with
  | .pow, [a, .int n] =>
    if n.natAbs > maxExp then .skip "exponent-too-large" else
    match firstErr a with
    | some e => .skip ("operand-" ++ e.toString)
    | none =>
      if undefinedOp .pow [a, .int n] then .skip "undefined-zero-base" else
      match firstErr r with
      | some .expTooLarge => .skip "result-exponent-beyond-cost-guard"
      | some e => .fail ("result-outside-fragment-" ++ e.toString)
      | none => if accepts .pow [a, .int n] r then .ok else .fail "value-differs"
  | .pow, _ => .skip "non-integer-exponent"
  | op, args =>
    match firstErrList args with
    | some e => .skip ("operand-" ++ e.toString)
    | none =>
      if undefinedOp op args then .skip "undefined-zero-divisor" else
      match firstErr r with
      | some .expTooLarge => .skip "result-exponent-beyond-cost-guard"
      | some e => .fail ("result-outside-fragment-" ++ e.toString)
      | none => if accepts op args r then .ok else .fail "value-differs"

def Verdict.toString : Verdict → String
  | .ok => "ok"
  | .skip w => "SKIP:" ++ w
  | .fail w => "FAIL:" ++ w

end C07
end SymVerif
