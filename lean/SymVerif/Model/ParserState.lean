/-
The `SymEngine::Parser` object as a state machine (C18).  Core Lean only.

    class Parser { std::string inp; std::unique_ptr<Tokenizer> m_tokenizer; RCP<const Basic> res; ... };
    class Tokenizer { unsigned char *cur, *mar, *tok; ... };

    RCP<const Basic> Parser::parse(const std::string &input, bool convert_xor) {
        inp = input;
        if (convert_xor) std::replace(inp.begin(), inp.end(), '^', '@');
        m_tokenizer->set_string(inp);          // cur = &inp[0]   (mar, tok keep their old values)
        yy::parser p(*this);                   // a fresh bison stack per call
        if (p() == 0) return this->res;        // res was assigned by the action of  st_expr: expr
        throw ParseError("Parsing Unsuccessful");
    }

Everything that survives a call is a field of `PState`; `parse` is the `step` function.  Cursors are suffixes of
the buffer `inp ++ [0]` (see Model/Parser.lean); after `inp` is reassigned the old cursors dangle - they are kept in
the state exactly to make "is a stale value ever read?" a question about the model.  A failed parse leaves `inp`,
the cursors wherever the tokenizer stopped, and `res` from the *previous successful* parse.
-/
import SymVerif.Model.ParserSem

namespace SymVerif
namespace Parser

structure PState where
  inp : Bytes               -- Parser::inp (without the terminator)
  cur : Bytes               -- Tokenizer::cur
  mar : Bytes               -- Tokenizer::mar
  tok : Bytes               -- Tokenizer::tok
  res : Option PExpr        -- Parser::res, null before the first successful parse
  deriving Repr, Inhabited

/-- a freshly constructed `Parser` -/
def PState.init : PState := { inp := [], cur := [], mar := [], tok := [], res := none }

inductive Outcome where
  | value (e : PExpr)       -- the returned expression (as a syntax tree)
  | throws (e : Err)        -- `ParseError` (`Err.parse`) or undefined behaviour in the model's sense (`oob`, `fuel`)
  deriving Repr, Inhabited, BEq

/-- `Tokenizer::lex` on the object's cursor: `tok = cur;` then the scanner.  `mar` is written by the scanner before
it is read (re2c stores the cursor at an accepting state and restores it only on a path through that state), so the
value left by the previous call never matters; the model records the cursor of the token start in it. -/
def lexS (s : PState) : Except Err Tok × PState :=
  match lex s.cur with
  | .ok (t, c) => (.ok t, { s with tok := s.cur, mar := s.cur, cur := c })
  | .error e => (.error e, { s with tok := s.cur })

/-- bison's token loop: `yylex` until END_OF_FILE or an exception -/
def lexAllS : Nat → PState → Except Err (List Tok) × PState
  | 0, s => (.error .fuel, s)
  | f + 1, s =>
    match lexS s with
    | (.error e, s') => (.error e, s')
    | (.ok t, s') =>
      if t = .eof then (.ok [.eof], s')
      else
        match lexAllS f s' with
        | (.ok ts, s'') => (.ok (t :: ts), s'')
        | (.error e, s'') => (.error e, s'')

/-- `Parser::parse(input, convert_xor)` -/
def PState.parse (s : PState) (input : Bytes) (cx : Bool) : Outcome × PState :=
  let s1 := { s with inp := if cx then convertXor input else input }        -- inp = input; std::replace
  let s2 := { s1 with cur := s1.inp ++ [0] }                                 -- set_string
  match lexAllS (s2.inp.length + 2) s2 with
  | (.error e, s3) => (.throws e, s3)
  | (.ok ts, s3) =>
    match parseTokens genBP ts with
    | .error e => (.throws e, s3)
    | .ok ast =>
      match check ast with
      | .parseError => (.throws .parse, s3)                                  -- an action threw before `p.res = $$`
      | _ =>
        let s4 := { s3 with res := some ast }                                -- st_expr: expr { p.res = $$; }
        match s4.res with                                                    -- return this->res;
        | some e => (.value e, s4)
        | none => (.throws .oob, s4)

/-- a call history on one object -/
def PState.run (s : PState) : List (Bytes × Bool) → List Outcome
  | [] => []
  | (i, cx) :: t => let (o, s') := s.parse i cx; o :: s'.run t

/-- what a fresh parser answers -/
def freshParse (input : Bytes) (cx : Bool) : Outcome := (PState.init.parse input cx).1

end Parser
end SymVerif
