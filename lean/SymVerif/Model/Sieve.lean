/-
Model of symengine/prime_sieve.cpp (no-primesieve branch).

The process-global state is the static vector `sieve_primes()` plus the two
statics `_clear` and `_sieve_size`.  `std::vector::erase` (in `Sieve::clear`)
keeps the storage, and `Sieve::iterator::next_prime` may read `_primes[_index-1]`
*beyond* the logical size after a clear by somebody else, so the model keeps the
storage (`buf`) and the logical size (`size`) apart: a read below `size` is a
normal read, a read in `[size, buf.size)` is a stale read of what was stored
there before, a read at or beyond `buf.size` is out of bounds (`Err.oob`).

`unsigned` arithmetic is modelled on `Nat`; every op checks `limit < 2^31` so
that `start + 2*segment + 1`, `p*p` for the needed primes and `2*p` cannot wrap
(the harness stays far below that; stated in the evidence as not covered).

Core Lean only: this file is linked into the native driver.
-/
namespace SymVerif.Sieve

inductive Err where
  | oob      -- an index outside the container (undefined behaviour in the C++)
  | range    -- argument outside the modelled range (limit ≥ 2^31)
  | fuel     -- cannot happen: recursion fuel exhausted
  deriving Repr, DecidableEq

structure State where
  buf : Array Nat          -- storage of the static vector (capacity contents)
  size : Nat               -- logical size, ≤ buf.size
  clearFlag : Bool         -- Sieve::_clear
  sieveBits : Nat          -- Sieve::_sieve_size (bits)
  deriving Repr

def firstTen : Array Nat := #[2, 3, 5, 7, 11, 13, 17, 19, 23, 29]

def init : State := { buf := firstTen, size := 10, clearFlag := true, sieveBits := 32 * 1024 * 8 }

/-- `_primes.push_back(n)` -/
def State.push (s : State) (n : Nat) : State :=
  if s.size < s.buf.size then { s with buf := s.buf.set! s.size n, size := s.size + 1 }
  else { s with buf := s.buf.push n, size := s.size + 1 }

/-- `_primes[i]` for a read the C++ performs with `i < size()` guaranteed by a loop guard -/
def State.get (s : State) (i : Nat) : Nat := s.buf.getD i 0

/-- `_primes.back()` -/
def State.back (s : State) : Nat := s.buf.getD (s.size - 1) 0

/-- `Sieve::clear` : erase everything after the first ten primes -/
def State.clear (s : State) : State := { s with size := min s.size 10 }

/-- `is_prime[slice(first, count, stride)] = false`, with bounds checking. -/
def markSlice (a : Array Bool) (first count stride : Nat) : Except Err (Array Bool) :=
  match count with
  | 0 => .ok a
  | k + 1 =>
    if first < a.size then markSlice (a.set! first false) (first + stride) k stride
    else .error .oob

/-- `multiple = (start / n + 1) * n; if (multiple % 2 == 0) multiple += n;` -/
def firstOddMultiple (start n : Nat) : Nat :=
  let multiple0 := (start / n + 1) * n
  if multiple0 % 2 == 0 then multiple0 + n else multiple0

/-- The marking loop over the known primes (`index` runs from 1). -/
def markLoop (s : State) (start finish : Nat) : Nat → Nat → Array Bool → Except Err (Array Bool)
  | 0, _, a => .ok a
  | fuel + 1, index, a =>
    if index < s.size && s.get index * s.get index ≤ finish then
      let n := s.get index
      let multiple := firstOddMultiple start n
      if multiple > finish then markLoop s start finish fuel (index + 1) a
      else
        match markSlice a ((multiple - start) / 2) (1 + (finish - multiple) / (2 * n)) n with
        | .error e => .error e
        | .ok a' => markLoop s start finish fuel (index + 1) a'
    else .ok a

/-- `for (n = start+1; n <= finish; n += 2) if (is_prime[(n-start)/2]) push_back(n)` -/
def collectLoop (a : Array Bool) (start finish : Nat) : Nat → Nat → State → Except Err State
  | 0, _, s => .ok s
  | fuel + 1, n, s =>
    if n ≤ finish then
      let i := (n - start) / 2
      if h : i < a.size then
        collectLoop a start finish fuel (n + 2) (if a[i] then s.push n else s)
      else .error .oob
    else .ok s

/-- The segment loop `for (; start <= limit; start += 2*segment)`.
    `finishOf start` is the C++ expression for `finish`; it is a parameter so that
    the pre-fix code (`start + 2*segment + 1`) can be stated and refuted too. -/
def segLoop (finishOf : Nat → Nat → Nat) (segment limit : Nat) : Nat → Nat → State → Except Err State
  | 0, _, s => .ok s
  | fuel + 1, start, s =>
    if start ≤ limit then
      let finish := min (finishOf start segment) limit
      let a := Array.replicate segment true
      match markLoop s start finish (s.size + 1) 1 a with
      | .error e => .error e
      | .ok a' =>
        match collectLoop a' start finish (finish + 1) (start + 1) s with
        | .error e => .error e
        | .ok s' => segLoop finishOf segment limit fuel (start + 2 * segment) s'
    else .ok s

/-- `finish` as in the repaired code: indices `(n-start)/2` stay below `segment`. -/
def finishFixed (start segment : Nat) : Nat := start + 2 * segment - 1
/-- `finish` as in the original code: examines `start + 2*segment + 1`, index `segment`. -/
def finishOrig (start segment : Nat) : Nat := start + 2 * segment + 1

/-- `Sieve::_extend(limit)`; `fuel` bounds the `sqrt` recursion (depth ≤ log log limit). -/
def extendWith (finishOf : Nat → Nat → Nat) : Nat → State → Nat → Except Err State
  | 0, _, _ => .error .fuel
  | fuel + 1, s, limit =>
    let sqrtLimit := Nat.sqrt limit
    let start := s.back + 1
    if limit ≤ start then .ok s
    else
      let r : Except Err State :=
        if sqrtLimit ≥ start then extendWith finishOf fuel s sqrtLimit else .ok s
      match r with
      | .error e => .error e
      | .ok s1 =>
        let start1 := s1.back + 1
        if s.sieveBits == 0 then
          -- `start += 0` never advances: the C++ loops forever when `start ≤ limit`
          if start1 ≤ limit then .error .fuel else .ok s1
        else
          segLoop finishOf s1.sieveBits limit (limit + 1) start1 s1

def extend (s : State) (limit : Nat) : Except Err State := extendWith finishFixed 64 s limit

def maxLimit : Nat := 2 ^ 31

/-- `std::upper_bound` + copy: the stored primes `≤ limit` (the vector is sorted). -/
def State.upTo (s : State) (limit : Nat) : List Nat :=
  ((s.buf.toList.take s.size).takeWhile (· ≤ limit))

/-- `Sieve::generate_primes(primes, limit)` -/
def generatePrimes (s : State) (limit : Nat) : Except Err (State × List Nat) :=
  if limit ≥ maxLimit then .error .range else
  match extend s limit with
  | .error e => .error e
  | .ok s1 =>
    let out := s1.upTo limit
    .ok (if s1.clearFlag then s1.clear else s1, out)

/-- An iterator object: `_index`, `_limit` (0 = unlimited). -/
structure Iter where
  index : Nat
  limit : Nat
  deriving Repr

/-- `Sieve::iterator::next_prime` -/
def nextPrime (s : State) (it : Iter) : Except Err (State × Iter × Nat) :=
  if it.index ≥ s.size then
    -- `_primes[_index - 1]`: possibly a stale read beyond `size` (after a clear by someone else)
    if it.index = 0 ∨ it.index - 1 ≥ s.buf.size then .error .oob else
    let extendTo0 := s.buf.getD (it.index - 1) 0 * 2
    let extendTo := if it.limit > 0 && it.limit < extendTo0 then it.limit else extendTo0
    if extendTo ≥ maxLimit then .error .range else
    match extend s extendTo with
    | .error e => .error e
    | .ok s1 =>
      if it.index ≥ s1.size then .ok (s1, it, it.limit + 1)
      else .ok (s1, { it with index := it.index + 1 }, s1.get it.index)
  else .ok (s, { it with index := it.index + 1 }, s.get it.index)

/-- `Sieve::iterator::~iterator` -/
def iterDestroy (s : State) : State := if s.clearFlag then s.clear else s

/-! ### Operation language for histories (the line protocol of the driver) -/

inductive Op where
  | gen (limit : Nat)                 -- generate_primes
  | clear                             -- Sieve::clear()
  | setClear (b : Bool)
  | setSize (kib : Nat)               -- set_sieve_size(kib): bits = kib*1024*8
  | setBits (bits : Nat)              -- test hook: _sieve_size in bits (not reachable from the API)
  | iterNew (slot : Nat) (limit : Nat)
  | iterNext (slot : Nat) (count : Nat)
  | iterDel (slot : Nat)
  deriving Repr

/-- Admissible arguments — the range in which the model's `Nat` arithmetic coincides with the
C++ `unsigned` arithmetic: `generate_primes` limits below `2^31`, sieve sizes positive and below
`2^30` bits (`start + 2*segment` cannot wrap), iterator limits below `2^32 - 1` (`_limit + 1`). -/
def opOk : Op → Bool
  | .gen limit => decide (limit < maxLimit)
  | .setSize kib => decide (0 < kib) && decide (kib < 2 ^ 17)
  | .setBits bits => decide (0 < bits) && decide (bits < 2 ^ 30)
  | .iterNew _ limit => decide (limit < 2 ^ 32 - 1)
  | _ => true
/-- every op of a history is admissible -/
def opsOk (ops : List Op) : Bool := ops.all opOk

structure World where
  s : State
  iters : List (Nat × Iter)
  deriving Repr

def World.init : World := { s := Sieve.init, iters := [] }

def lookupIter (l : List (Nat × Iter)) (k : Nat) : Option Iter :=
  match l with
  | [] => none
  | (k', v) :: t => if k == k' then some v else lookupIter t k

def setIter (l : List (Nat × Iter)) (k : Nat) (v : Iter) : List (Nat × Iter) :=
  (k, v) :: l.filter (fun p => p.1 != k)

/-- `count` successive `next_prime` calls on one iterator -/
def nextMany : Nat → State → Iter → List Nat → Except Err (State × Iter × List Nat)
  | 0, s, it, acc => .ok (s, it, acc.reverse)
  | k + 1, s, it, acc =>
    match nextPrime s it with
    | .error e => .error e
    | .ok (s1, it1, p) => nextMany k s1 it1 (p :: acc)

/-- One API call; the output is the list of numbers the call returns. -/
def step (w : World) : Op → Except Err (World × List Nat)
  | .gen limit =>
    match generatePrimes w.s limit with
    | .error e => .error e
    | .ok (s1, out) => .ok ({ w with s := s1 }, out)
  | .clear => .ok ({ w with s := w.s.clear }, [])
  | .setClear b => .ok ({ w with s := { w.s with clearFlag := b } }, [])
  | .setSize k => .ok ({ w with s := { w.s with sieveBits := k * 1024 * 8 } }, [])
  | .setBits b => .ok ({ w with s := { w.s with sieveBits := b } }, [])
  | .iterNew slot limit =>
    -- constructing into an occupied slot destroys the iterator that lived there
    let s1 := match lookupIter w.iters slot with
      | some _ => iterDestroy w.s
      | none => w.s
    .ok ({ s := s1, iters := setIter w.iters slot { index := 0, limit := limit } }, [])
  | .iterNext slot count =>
    match lookupIter w.iters slot with
    | none => .ok (w, [])
    | some it =>
      match nextMany count w.s it [] with
      | .error e => .error e
      | .ok (s1, it1, out) => .ok ({ s := s1, iters := setIter w.iters slot it1 }, out)
  | .iterDel slot =>
    match lookupIter w.iters slot with
    | none => .ok (w, [])
    | some _ => .ok ({ s := iterDestroy w.s, iters := w.iters.filter (fun p => p.1 != slot) }, [])

/-- Run a history; collect each call's output (or stop at the first error). -/
def run : World → List Op → List (Except Err (List Nat)) → World × List (Except Err (List Nat))
  | w, [], acc => (w, acc.reverse)
  | w, op :: ops, acc =>
    match step w op with
    | .error e => (w, (Except.error e :: acc).reverse)
    | .ok (w1, out) => run w1 ops (.ok out :: acc)

end SymVerif.Sieve
