/-
Brute-force executable *definitions* (not algorithms) of the number-theoretic functions,
used for the `spec` ops of the C32 driver: the real library's answer is compared with the
answer the definition gives, for every argument tuple of the exhaustive ranges.
They share nothing with `Model/NTheory.lean` except `powModNat` (proved `= a^e % m`).

Core Lean only.
-/
import SymVerif.Model.NTheory
namespace SymVerif.NTheorySpec
open SymVerif.NTheory (powModNat)

/-- `x^n mod m` for any sign of `x`, `m > 0` -/
def pw (x : Int) (n m : Nat) : Nat := powModNat (x % (m : Int)).toNat n m

/-- `{x ∈ [0,m) | x^n ≡ a (mod m)}`, ascending -/
def nthRoots (a : Int) (n m : Nat) : List Nat :=
  (List.range m).filter (fun (x : Nat) => pw (x : Int) n m == (a % (m : Int)).toNat)

def isNthResidue (a : Int) (n m : Nat) : Bool := !(nthRoots a n m).isEmpty

def coprime (a : Int) (n : Nat) : Bool := Int.gcd a n == 1

/-- Euler's φ by counting (φ 0 = 1 is symengine's convention) -/
def totient (n : Nat) : Nat :=
  if n == 0 then 1 else ((List.range n).filter (fun (x : Nat) => coprime (x : Int) n)).length

/-- least `k ≥ 1` in `[1, bound]` with `pred k` -/
def leastFrom (pred : Nat → Bool) : Nat → Nat → Option Nat
  | 0, _ => none
  | f + 1, k => if pred k then some k else leastFrom pred f (k + 1)

/-- multiplicative order of `a` modulo `n ≥ 1` (none if not a unit) -/
def order (a : Int) (n : Nat) : Option Nat :=
  if n == 0 || !coprime a n then none else leastFrom (fun k => pw a k n == 1 % n) (n + 1) 1

/-- exponent of the unit group modulo `n ≥ 1` (λ 0 = 1 is symengine's convention) -/
def carmichael (n : Nat) : Nat :=
  if n == 0 then 1
  else
    let units := (List.range n).filter (fun (x : Nat) => coprime (x : Int) n)
    (leastFrom (fun k => units.all (fun (x : Nat) => pw (x : Int) k n == 1 % n)) (n + 1) 1).getD 0

/-- the primitive roots modulo `n` in `[0, n)`: units of order φ(n); none for `n ≤ 1` -/
def primitiveRoots (n : Nat) : List Nat :=
  if n ≤ 1 then []
  else (List.range n).filter (fun (g : Nat) => order (g : Int) n == some (totient n))

def isPrime (n : Nat) : Bool := n ≥ 2 && (List.range (n - 2)).all (fun i => n % (i + 2) != 0)

/-- prime divisors of `n ≥ 1`, ascending -/
def primeDivisors (n : Nat) : List Nat := (List.range (n + 1)).filter (fun p => isPrime p && n % p == 0)

/-- multiplicity of `p ≥ 2` in `n ≥ 1` -/
def multiplicity (p : Nat) : Nat → Nat → Nat
  | 0, _ => 0
  | f + 1, n => if n % p == 0 && n != 0 then multiplicity p f (n / p) + 1 else 0

def factorization (n : Nat) : List (Nat × Nat) := (primeDivisors n).map (fun p => (p, multiplicity p n n))

def mobius (n : Nat) : Int :=
  let f := factorization n
  if f.any (fun pe => pe.2 > 1) then 0 else if f.length % 2 == 0 then 1 else -1

def mertens (n : Nat) : Int := (List.range n).foldl (fun acc i => acc + mobius (i + 1)) 0

def quadraticResidues (n : Nat) : List Nat := (List.range n).filter (fun r => (List.range n).any (fun x => x * x % n == r))

/-- Kronecker symbol from its definition: multiplicative extension of the Legendre symbol
    (Euler's criterion), `(a|2)`, `(a|-1)`, `(a|0)`. -/
def legendreEuler (a : Int) (p : Nat) : Int :=
  let r := pw a ((p - 1) / 2) p
  if r == 0 then 0 else if r == 1 then 1 else -1

def kroneckerPrime (a : Int) (p : Nat) : Int :=
  if p == 2 then
    (if a % 2 == 0 then 0 else if a % 8 == 1 || a % 8 == 7 then 1 else -1)
  else legendreEuler a p

def kronecker (a n : Int) : Int :=
  if n == 0 then (if a.natAbs == 1 then 1 else 0)
  else
    let u : Int := if n < 0 && a < 0 then -1 else 1
    (factorization n.natAbs).foldl (fun acc pe => acc * (kroneckerPrime a pe.1) ^ pe.2) u

def modInverse (a : Int) (m : Nat) : Option Nat :=
  if m == 1 then some 0 else (List.range m).find? (fun x => ((a % (m : Int)).toNat * x) % m == 1)

def primepi (n : Nat) : Nat := ((List.range (n + 1)).filter isPrime).length
def primorial (n : Nat) : Nat := ((List.range (n + 1)).filter isPrime).foldl (· * ·) 1

def nextprime (n : Int) : Nat :=
  let s := if n < 2 then 2 else n.toNat + 1
  ((List.range (s + 2)).map (· + s)).find? isPrime |>.getD 0

/-- smallest `(base, exponent)` decomposition: largest exponent `e` with `n = b^e` (or lowest `e ≥ 2`) -/
def perfectPower (n : Nat) (lowest : Bool) : Nat × Nat :=
  let cands := (List.range (n.log2 + 1)).filterMap (fun i =>
    let e := i + 2
    match (List.range (n + 1)).find? (fun b => b ≥ 2 && b ^ e == n) with
    | some b => some (b, e)
    | none => none)
  if lowest then cands.head?.getD (n, 1) else cands.getLast?.getD (n, 1)

end SymVerif.NTheorySpec
