/-
Model of the structural queries of symengine/visitor.{h,cpp}:
  free_symbols (FreeSymbolsVisitor), has_symbol (HasSymbolVisitor + preorder_traversal_stop),
  atoms<…> (AtomsVisitor), function_symbols.
All of them walk the tree through `Basic::get_args()`, so the model first mirrors
`get_args()` on the stored fields (`argsOf`): Add::get_args / Mul::get_args rebuild
`coef*key` and `base**exp` objects, and omit a zero Add coefficient, a unit Mul
coefficient, unit term coefficients and unit exponents.

The visitors' `visited` sets only avoid re-walking structurally equal subterms; the
result sets are pure functions of the tree, which is what is modelled.
Core Lean only.
-/
import SymVerif.Model.ExprEq

namespace SymVerif.Struct
open SymVerif Expr

/-- `Add::from_dict(zero, {{key, c}})` for one entry with a coefficient ≠ 1 -/
def termOf (k c : Expr) : Expr :=
  match k with
  | .mul _ facs => .mul c facs
  | .pow b e => .mul c [(b, e)]
  | k => .mul c [(k, .int 1)]

def addArgs : List (Expr × Expr) → List Expr
  | [] => []
  | (k, c) :: t => (if Expr.eqb c (.int 1) then k else termOf k c) :: addArgs t

def mulArgs : List (Expr × Expr) → List Expr
  | [] => []
  | (b, e) :: t => (if Expr.eqb e (.int 1) then b else .pow b e) :: mulArgs t

/-- `Basic::get_args()` on the stored fields -/
def argsOf : Expr → List Expr
  | .add c ts => (if Expr.eqb c (.int 0) then [] else [c]) ++ addArgs ts
  | .mul c fs => (if Expr.eqb c (.int 1) then [] else [c]) ++ mulArgs fs
  | .pow b e => [b, e]
  | .fsym _ args => args
  | .app _ args => args
  | .infty d => [.int d]
  | _ => []

/-! ### A size measure that dominates `argsOf` (so that walks through `argsOf` terminate) -/

mutual
  def size : Expr → Nat
    | .add c ts => 3 + size c + sizePairs ts
    | .mul c fs => 3 + size c + sizePairs fs
    | .pow b e => 3 + size b + size e
    | .fsym _ args => 3 + sizeList args
    | .app _ args => 3 + sizeList args
    | .infty _ => 2
    | _ => 1
  def sizeList : List Expr → Nat
    | [] => 0
    | a :: t => 1 + size a + sizeList t
  def sizePairs : List (Expr × Expr) → Nat
    | [] => 0
    | (k, v) :: t => 4 + size k + size v + sizePairs t
end

def dedupE (l : List Expr) : List Expr :=
  l.foldl (fun acc s => if Expr.memb s acc then acc else acc ++ [s]) []

def dedup (l : List String) : List String :=
  l.foldl (fun acc s => if acc.contains s then acc else acc ++ [s]) []

/-- split the arguments of `Subs` (`get_args()`: expr, variables…, points…) -/
def splitSubs (rest : List Expr) : List Expr × List Expr :=
  let m := rest.length / 2
  (rest.take m, rest.drop m)

/-- `free_symbols`: structural recursion with fuel = size (the walk goes through `argsOf`).
    Returns the Symbol objects (possibly with repeats). -/
def freeSymsF : Nat → Expr → List Expr
  | 0, _ => []
  | fuel + 1, e =>
    match e with
    | .sym n => [.sym n]
    | .dummy n i => [.dummy n i]
    | .app "Subs" (a :: rest) =>
      let (vars, pts) := splitSubs rest
      (freeSymsF fuel a).filter (fun s => !Expr.memb s vars) ++ (pts.map (freeSymsF fuel)).flatten
    | .app "ConditionSet" [v, cond] =>
      (freeSymsF fuel cond).filter (fun s => !(Expr.eqb s v))
    | .app "ImageSet" [v, ex, base] =>
      (freeSymsF fuel ex).filter (fun s => !(Expr.eqb s v)) ++ freeSymsF fuel base
    | e => ((argsOf e).map (freeSymsF fuel)).flatten

def freeSymsE (e : Expr) : List Expr := dedupE (freeSymsF (size e + 1) e)

/-- `free_symbols(b)` as the sorted list of dumps -/
def freeSyms (e : Expr) : List String := sortStrs ((freeSymsE e).map Expr.dumpCanon)

/-- all subterms reached by the preorder walk through `get_args()` (the node itself first) -/
def subtermsF : Nat → Expr → List Expr
  | 0, _ => []
  | fuel + 1, e => e :: ((argsOf e).map (subtermsF fuel)).flatten

def subterms (e : Expr) : List Expr := subtermsF (size e + 1) e

/-- `has_symbol(b, x)`: some Symbol/FunctionSymbol subterm equals `x` -/
def hasSymbol (b x : Expr) : Bool :=
  (subterms b).any fun t =>
    match t with
    | .sym _ | .dummy _ _ | .fsym _ _ => Expr.eqb t x
    | _ => false

inductive Kind where
  | symbol | funcsym | integer | number | constant | pow | mul | add
  deriving Repr, DecidableEq

def isKind : Kind → Expr → Bool
  | .symbol, .sym _ => true
  | .symbol, .dummy _ _ => true
  | .funcsym, .fsym _ _ => true
  | .integer, .int _ => true
  | .number, e => e.isNum
  | .constant, .const _ => true
  | .pow, .pow _ _ => true
  | .mul, .mul _ _ => true
  | .add, .add _ _ => true
  | _, _ => false

/-- `atoms<K…>(b)` as the sorted, duplicate-free list of dumps -/
def atoms (ks : List Kind) (e : Expr) : List String :=
  sortStrs (dedup (((subterms e).filter fun t => ks.any (fun k => isKind k t)).map Expr.dumpCanon))

end SymVerif.Struct
