/-
Model of `multinomial_coefficients_mpz(m, n, r)` (symengine/pow.cpp), the table used by
`ExpandVisitor::pow_expand` for `(a₁ + … + a_m)^n`, n ≥ 3.  Core Lean only.

The C++ keeps a vector `t` of `m` exponents (sum `n`), an index `j`, and the result map `r`; each turn of
`while (j < m - 1)` moves to the next composition of `n` and computes its coefficient from coefficients that
are already in the map:

    r[t] = (tj · Σ_k r[t + e₀ − e_k]) / (n − t₀)

`std::map::operator[]` on a key that is absent would silently insert 0 and make the result wrong; the model
makes that visible as `Err.missing`.  Unsigned wrap-around of `t[0] -= 1` is `Err.underflow`, division by
`n - t[0] = 0` is `Err.divZero`, an index outside `t` is `Err.oob`.  Soundness (every coefficient of an `.ok`
result is `n!/∏kᵢ!`) is proved in `Lemmas/C09Multinomial.lean`; that the errors do not occur is checked by
running the model against the library for every generated `(m, n)`.
-/
namespace SymVerif
namespace Multinomial

inductive Err where
  | badM        -- m < 2: the C++ throws SymEngineException
  | missing     -- r[t] read for a key that is not in the map yet
  | underflow   -- t[0] -= 1 with t[0] = 0, or n - t[0] with t[0] > n
  | divZero     -- n - t[0] = 0
  | oob         -- index outside the vector t
  | fuel        -- loop bound exhausted (never: the loop runs once per composition)
  deriving Repr, DecidableEq, Inhabited

def Err.toString : Err → String
  | .badM => "E:Runtime" | .missing => "E:missing" | .underflow => "E:underflow"
  | .divZero => "E:divzero" | .oob => "E:oob" | .fuel => "E:fuel"

/-- the result map, newest binding first (`r[t] = v` conses; reads return the newest binding) -/
abbrev Tab := List (List Nat × Nat)

def lookup : Tab → List Nat → Option Nat
  | [], _ => none
  | (k, v) :: r, t => if k = t then some v else lookup r t

/-- `for (k = start; k < m; k++) if (t[k]) { t[k] -= 1; v += r[t]; t[k] += 1; }` — the sum that is added
to `v`; `cnt = m - start` -/
def innerSum (r : Tab) (t : List Nat) : Nat → Nat → Except Err Nat
  | _, 0 => .ok 0
  | k, cnt + 1 =>
    match t[k]? with
    | none => .error .oob
    | some tk =>
      match (if tk = 0 then some 0 else lookup r (t.set k (tk - 1))) with
      | none => .error .missing
      | some here =>
        match innerSum r t (k + 1) cnt with
        | .error e => .error e
        | .ok rest => .ok (here + rest)

structure St where
  t : List Nat
  j : Nat
  r : Tab
  deriving Repr

/-- `t[0] -= 1; r[t] = (v * tj) / (n - t[0]);` -/
def finish (n : Nat) (r : Tab) (t2 : List Nat) (j' v tj : Nat) : Except Err St :=
  match t2[0]? with
  | none => .error .oob
  | some t0 =>
    if t0 = 0 then .error .underflow
    else if n < t0 - 1 then .error .underflow
    else if n - (t0 - 1) = 0 then .error .divZero
    else .ok ⟨t2.set 0 (t0 - 1), j', (t2.set 0 (t0 - 1), (v * tj) / (n - (t0 - 1))) :: r⟩

/-- one turn of the `while (j < m - 1)` loop -/
def step (m n : Nat) (s : St) : Except Err St :=
  match s.t[s.j]? with
  | none => .error .oob
  | some tj =>
    -- if (j) { t[j] = 0; t[0] = tj; }
    let t1 := if s.j = 0 then s.t else (s.t.set s.j 0).set 0 tj
    if 1 < tj then
      -- t[j + 1] += 1; j = 0; start = 1; v = 0;
      match t1[s.j + 1]? with
      | none => .error .oob
      | some tn =>
        match innerSum s.r (t1.set (s.j + 1) (tn + 1)) 1 (m - 1) with
        | .error e => .error e
        | .ok sum => finish n s.r (t1.set (s.j + 1) (tn + 1)) 0 sum tj
    else
      -- j += 1; start = j + 1; v = r[t]; t[j] += 1;
      match lookup s.r t1 with
      | none => .error .missing
      | some v0 =>
        match t1[s.j + 1]? with
        | none => .error .oob
        | some tn =>
          match innerSum s.r (t1.set (s.j + 1) (tn + 1)) (s.j + 2) (m - (s.j + 2)) with
          | .error e => .error e
          | .ok sum => finish n s.r (t1.set (s.j + 1) (tn + 1)) (s.j + 1) (v0 + sum) tj

def loop (m n : Nat) : Nat → St → Except Err St
  | 0, s => if s.j < m - 1 then .error .fuel else .ok s
  | f + 1, s => if s.j < m - 1 then (step m n s).bind (loop m n f) else .ok s

/-- upper bound on the number of compositions of `n` into `m` parts -/
def fuel (m n : Nat) : Nat := (n + 1) ^ (m - 1) + 1

def initT (m n : Nat) : List Nat := n :: List.replicate (m - 1) 0

def multinomial (m n : Nat) : Except Err Tab :=
  if m < 2 then .error .badM
  else if n = 0 then .ok [(initT m n, 1)]
  else (loop m n (fuel m n) ⟨initT m n, 0, [(initT m n, 1)]⟩).map (·.r)

/-! ### canonical output (keys in lexicographic order, as `std::map<vec_uint, …>` iterates) -/

def keyLt : List Nat → List Nat → Bool
  | [], [] => false
  | [], _ :: _ => true
  | _ :: _, [] => false
  | a :: s, b :: t => if a = b then keyLt s t else decide (a < b)

def insertSorted (e : List Nat × Nat) : Tab → Tab
  | [] => [e]
  | f :: r => if e.1 = f.1 then f :: r          -- an older binding of the same key: shadowed
              else if keyLt e.1 f.1 then e :: f :: r else f :: insertSorted e r

/-- newest binding of every key, sorted by key -/
def sortTab (r : Tab) : Tab := r.reverse.foldl (fun acc e => insertSorted e (acc.filter (·.1 ≠ e.1))) []

def keyStr (t : List Nat) : String := ",".intercalate (t.map toString)

def render (r : Tab) : String := ";".intercalate ((sortTab r).map fun e => keyStr e.1 ++ "=" ++ toString e.2)

def run (m n : Nat) : String :=
  match multinomial m n with
  | .ok r => render r
  | .error e => e.toString

end Multinomial
end SymVerif
