/-
Model of symengine/matrices/*.cpp : the matrix-expression constructors
(`identity_matrix`, `zero_matrix`, `diagonal_matrix`, `immutable_dense_matrix`,
`matrix_symbol`, `matrix_add`, `matrix_mul`, `hadamard_product`, `transpose`,
`conjugate_matrix`, `trace`), the `size` visitor and the tribool predicate
visitors `is_zero/diagonal/symmetric/lower/upper/real/square/toeplitz`.

Entries and scalars are exact numbers: Gaussian rationals `GQ` (SymEngine
`Integer`, `Rational`, `Complex`), on which `add`, `mul`, `sub`, `conjugate`,
`is_zero`, `is_real` are exact and total.  Dimensions of `IdentityMatrix` /
`ZeroMatrix` are non-negative integers or plain symbols (`Dim`); for these
`is_zero(sub(a, b))` is `true` for identical arguments, `false` for two
different integers and `indeterminate` otherwise.

Every `make_rcp<Class>(…)` of the C++ is a `mkClass` here, which returns
`Err.assert` when the constructor's `SYMENGINE_ASSERT(is_canonical(…))` fails
(the verification build throws there; a release build would go on with a
non-canonical object).  A container access the C++ performs without a bounds
check is performed with one here and yields `Err.oob`.

The model follows the code *as patched* by docs/patches/C26_*.patch
(see docs/C26.md): zero absorption in `matrix_mul` returns a zero matrix of the
size of the product, `scalar * I` keeps its scalar, `check_matching_sizes`
treats unknown row/column counts independently, `is_symmetric(HadamardProduct)`
never concludes `false`, `is_toeplitz(ImmutableDenseMatrix)` stays inside the
matrix, `conjugate_matrix(Transpose(A))` is `transpose(conjugate_matrix(A))`.

Core Lean only: this file is linked into the native driver.
-/
namespace SymVerif.MatExpr

/-! ## numbers -/

/-- Gaussian rational `re + im*i` (Integer / Rational / Complex of SymEngine). -/
structure GQ where
  re : Rat
  im : Rat
  deriving DecidableEq, Repr

namespace GQ
instance : Inhabited GQ := ⟨⟨0, 0⟩⟩
instance : OfNat GQ 0 := ⟨⟨0, 0⟩⟩
instance : OfNat GQ 1 := ⟨⟨1, 0⟩⟩
instance : Add GQ := ⟨fun a b => ⟨a.re + b.re, a.im + b.im⟩⟩
instance : Mul GQ := ⟨fun a b => ⟨a.re * b.re - a.im * b.im, a.re * b.im + a.im * b.re⟩⟩
instance : Neg GQ := ⟨fun a => ⟨-a.re, -a.im⟩⟩
instance : Sub GQ := ⟨fun a b => ⟨a.re - b.re, a.im - b.im⟩⟩
/-- `Number::conjugate` -/
def conj (a : GQ) : GQ := ⟨a.re, -a.im⟩
/-- `is_a<Integer>(e) && e.is_zero()` (exact numbers are canonical: the only zero is Integer 0) -/
def isZero (a : GQ) : Bool := a == 0
/-- `is_a<Integer>(e) && e.is_one()` -/
def isOne (a : GQ) : Bool := a == 1
/-- `RealVisitor::bvisit(Number)`: not Complex -/
def isReal (a : GQ) : Bool := a.im == 0

def ratStr (q : Rat) : String := if q.den == 1 then toString q.num else s!"{q.num}/{q.den}"
def dump (a : GQ) : String :=
  if a.im == 0 then ratStr a.re else s!"(C {ratStr a.re} {ratStr a.im})"
end GQ

/-! ## basic types -/

inductive Err where
  | domain   -- DomainError
  | assert   -- SYMENGINE_ASSERT(is_canonical(..)) failed in a constructor
  | oob      -- container index out of range (undefined behaviour in the C++)
  | ub       -- other undefined behaviour (vec[0] of an empty vector, bad down-cast)
  deriving DecidableEq, Repr

def Err.token : Err → String
  | .domain => "E:Domain"
  | .assert => "E:Assert"
  | .oob => "E:oob"
  | .ub => "E:UB"

inductive Tri where
  | t | f | u
  deriving DecidableEq, Repr

def Tri.ofBool (b : Bool) : Tri := if b then .t else .f
def Tri.str : Tri → String
  | .t => "T" | .f => "F" | .u => "?"

/-- A dimension of IdentityMatrix / ZeroMatrix: `Integer` (non-negative) or `Symbol`. -/
inductive Dim where
  | nat (n : Nat)
  | sym (s : String)
  deriving DecidableEq, Repr

def Dim.dump : Dim → String
  | .nat n => toString n
  | .sym s => s!"(s {s})"

def Dim.isInt : Dim → Bool
  | .nat _ => true
  | .sym _ => false

/-- `is_zero(*sub(a, b))` for dimensions -/
def dimMatch : Dim → Dim → Tri
  | .nat a, .nat b => if a = b then .t else .f
  | .sym a, .sym b => if a = b then .t else .u
  | _, _ => .u

/-- Matrix expressions (the stored fields of the C++ classes). -/
inductive MExpr where
  | ident (n : Dim)
  | zero (r c : Dim)
  | diag (d : List GQ)
  | dense (r c : Nat) (v : List GQ)
  | sym (name : String)
  | add (ts : List MExpr)
  | mul (s : GQ) (fs : List MExpr)
  | had (fs : List MExpr)
  | transpose (e : MExpr)
  | conj (e : MExpr)
  deriving Repr, Inhabited

open MExpr

def isIdent : MExpr → Bool | ident _ => true | _ => false
def isZeroM : MExpr → Bool | zero _ _ => true | _ => false
def isDiag : MExpr → Bool | diag _ => true | _ => false
def isDense : MExpr → Bool | dense _ _ _ => true | _ => false
def isAdd : MExpr → Bool | add _ => true | _ => false
def isMul : MExpr → Bool | mul _ _ => true | _ => false
def isHad : MExpr → Bool | had _ => true | _ => false
def isTranspose : MExpr → Bool | transpose _ => true | _ => false
def isConj : MExpr → Bool | conj _ => true | _ => false

/-! ## dump (wire format shared with harness/c26.cpp) -/

def dumpGQs : List GQ → String
  | [] => ""
  | a :: t => " " ++ a.dump ++ dumpGQs t

mutual
  def dump : MExpr → String
    | ident n => s!"(I {n.dump})"
    | zero r c => s!"(Z {r.dump} {c.dump})"
    | diag d => "(diag" ++ dumpGQs d ++ ")"
    | dense r c v => s!"(dense {r} {c}" ++ dumpGQs v ++ ")"
    | sym n => s!"(M {n})"
    | add ts => "(add" ++ dumpList ts ++ ")"
    | mul s fs => "(mul " ++ s.dump ++ dumpList fs ++ ")"
    | had fs => "(had" ++ dumpList fs ++ ")"
    | transpose e => "(T " ++ dump e ++ ")"
    | conj e => "(conj " ++ dump e ++ ")"
  def dumpList : List MExpr → String
    | [] => ""
    | e :: t => " " ++ dump e ++ dumpList t
end

/-! ## leaf constructors -/

/-- `is_zero_vec` -/
def isZeroVec (l : List GQ) : Bool := l.all GQ.isZero
/-- `is_identity_vec` -/
def isIdentityVec (l : List GQ) : Bool := l.all GQ.isOne

/-- flat row-major access `values_[i * n + j]` with a bounds check -/
def getFlat (v : List GQ) (c i j : Nat) : Except Err GQ :=
  match v[i * c + j]? with
  | some x => .ok x
  | none => .error .oob

def getIdx (v : List GQ) (i : Nat) : Except Err GQ :=
  match v[i]? with
  | some x => .ok x
  | none => .error .oob

/-- entry `(i,j)` of a well-formed flat container, 0 outside (used where the C++ has checked the sizes) -/
def ent (v : List GQ) (c i j : Nat) : GQ := v.getD (i * c + j) 0

/-- build the flat container of an `r × c` matrix from an entry function (two nested `for` loops) -/
def mkFlat (r c : Nat) (f : Nat → Nat → GQ) : List GQ :=
  (List.range r).flatMap fun i => (List.range c).map fun j => f i j

/-- `is_identity_dense(n, container)` on an `n × n` container -/
def isIdentityDense (n : Nat) (v : List GQ) : Bool :=
  (List.range n).all fun i => (List.range n).all fun j =>
    if i = j then (ent v n i j).isOne else (ent v n i j).isZero
/-- `is_diagonal_dense(n, container)` -/
def isDiagonalDense (n : Nat) (v : List GQ) : Bool :=
  (List.range n).all fun i => (List.range n).all fun j =>
    if i = j then true else (ent v n i j).isZero
/-- `extract_diagonal(n, container)` -/
def extractDiagonal (n : Nat) (v : List GQ) : List GQ :=
  (List.range n).map fun i => ent v n i i

/-- `DiagonalMatrix::is_canonical` -/
def diagCanonical (d : List GQ) : Bool :=
  !d.isEmpty && !isZeroVec d && !isIdentityVec d
/-- `make_rcp<const DiagonalMatrix>(container)` -/
def mkDiag (d : List GQ) : Except Err MExpr :=
  if diagCanonical d then .ok (diag d) else .error .assert

/-- `ImmutableDenseMatrix::is_canonical` -/
def denseCanonical (r c : Nat) (v : List GQ) : Bool :=
  !(r < 1 || c < 1 || v.isEmpty) && r * c == v.length && !isZeroVec v
    && !(r == c && isIdentityDense r v) && !(r == c && isDiagonalDense r v)
/-- `make_rcp<const ImmutableDenseMatrix>(m, n, values)` -/
def mkDense (r c : Nat) (v : List GQ) : Except Err MExpr :=
  if denseCanonical r c v then .ok (dense r c v) else .error .assert

/-- argument of `identity_matrix` / `zero_matrix` as it appears in a recipe -/
inductive DimArg where
  | int (z : Int)
  | nonint            -- a Number that is not an Integer
  | sym (s : String)
  deriving Repr

def DimArg.toDim : DimArg → Except Err Dim
  | .int z => if z < 0 then .error .domain else .ok (.nat z.toNat)
  | .nonint => .error .domain
  | .sym s => .ok (.sym s)

/-- `identity_matrix(n)` -/
def identityMatrix (n : DimArg) : Except Err MExpr := do
  let d ← n.toDim
  pure (ident d)

/-- `zero_matrix(m, n)` -/
def zeroMatrix (m n : DimArg) : Except Err MExpr := do
  let a ← m.toDim
  let b ← n.toDim
  pure (zero a b)

/-- `diagonal_matrix(container)` -/
def diagonalMatrix (d : List GQ) : Except Err MExpr :=
  if isZeroVec d then .ok (zero (.nat d.length) (.nat d.length))
  else if isIdentityVec d then .ok (ident (.nat d.length))
  else mkDiag d

/-- `immutable_dense_matrix(m, n, container)`; the recipe guarantees `container.size() == m*n` -/
def immutableDenseMatrix (r c : Nat) (v : List GQ) : Except Err MExpr :=
  if v.length ≠ r * c then .error .oob
  else if isZeroVec v then .ok (zero (.nat r) (.nat c))
  else if r == c && isIdentityDense r v then .ok (ident (.nat r))
  else if r == c && isDiagonalDense r v then mkDiag (extractDiagonal r v)
  else mkDense r c v

/-! ## size -/

abbrev Size := Option Dim × Option Dim

def optIsInt : Option Dim → Bool
  | some d => d.isInt
  | none => false

/-- the loop of `MatrixSizeVisitor::all_same_size` after the first element -/
def allSameLoop : List Size → Option Dim → Option Dim → Size
  | [], rows, cols => (rows, cols)
  | (nr, nc) :: rest, rows, cols =>
    let rows' := if optIsInt nr || (rows.isNone && nr.isSome) then nr else rows
    let cols' := if optIsInt nc || (cols.isNone && nc.isSome) then nc else cols
    if optIsInt rows' && optIsInt cols' then (rows', cols') else allSameLoop rest rows' cols'

/-- `MatrixSizeVisitor::all_same_size` on the sizes of the elements -/
def allSameSize : List Size → Size
  | [] => (none, none)      -- vec[0] of an empty vector: no canonical MatrixAdd/HadamardProduct is empty
  | (r, c) :: rest =>
    if optIsInt r && optIsInt c then (r, c) else allSameLoop rest r c

mutual
  /-- `size(const MatrixExpr &)` : a null RCP is `none` -/
  def size : MExpr → Size
    | ident n => (some n, some n)
    | zero r c => (some r, some c)
    | diag d => (some (.nat d.length), some (.nat d.length))
    | dense r c _ => (some (.nat r), some (.nat c))
    | sym _ => (none, none)
    | add ts => allSameSize (sizeList ts)
    | had fs => allSameSize (sizeList fs)
    | mul _ fs =>
      let ss := sizeList fs
      ((ss.head?.bind (·.1)), (ss.getLast?.bind (·.2)))
    | transpose _ => (none, none)
    | conj _ => (none, none)
  def sizeList : List MExpr → List Size
    | [] => []
    | e :: t => size e :: sizeList t
end

def dimsMismatch (a b : Option Dim) : Bool :=
  match a, b with
  | some x, some y => dimMatch x y == .f
  | _, _ => false

/-- `check_matching_sizes(vec)` (patched: rows and columns are compared independently when known):
    every `i < size-1` against every `j ≥ 1` -/
def checkMatchingSizes (ss : List Size) : Except Err Unit :=
  if ss.dropLast.all (fun a => (ss.drop 1).all (fun b =>
      !dimsMismatch a.1 b.1 && !dimsMismatch a.2 b.2)) then .ok () else .error .domain

/-- `check_matching_mul_sizes(vec)`: columns of each factor against rows of the next -/
def checkMatchingMulSizes : List Size → Except Err Unit
  | a :: b :: rest =>
    if dimsMismatch a.2 b.1 then .error .domain else checkMatchingMulSizes (b :: rest)
  | _ => .ok ()

/-! ## MatrixAdd -/

def countP (p : MExpr → Bool) (l : List MExpr) : Nat := (l.filter p).length

/-- `MatrixAdd::is_canonical` -/
def addCanonical (ts : List MExpr) : Bool :=
  !(ts.length < 2) && !ts.any (fun t => isZeroM t || isAdd t)
    && !(countP isDiag ts > 1 || countP isDense ts > 1)
    && !(countP isDiag ts == 1 && countP isDense ts == 1)
/-- `make_rcp<const MatrixAdd>(terms)` -/
def mkAdd (ts : List MExpr) : Except Err MExpr :=
  if addCanonical ts then .ok (add ts) else .error .assert

/-- pointwise combination of two containers of the same length (`for i < a.size(): f(a[i], b[i])`) -/
def zipSame (f : GQ → GQ → GQ) (a b : List GQ) : Except Err (List GQ) :=
  if a.length = b.length then .ok (List.zipWith f a b) else .error .oob

structure AddSt where
  keep : List MExpr := []
  dg : Option (List GQ) := none
  dn : Option (Nat × Nat × List GQ) := none
  zr : Option (Dim × Dim) := none

/-- one iteration of the partition loop of `matrix_add` -/
def addStep (st : AddSt) : MExpr → Except Err AddSt
  | zero r c => .ok { st with zr := some (r, c) }
  | diag d =>
    match st.dg with
    | none => .ok { st with dg := some d }
    | some d0 => do
      let s ← zipSame (· + ·) d0 d
      let _ ← mkDiag s
      pure { st with dg := some s }
  | dense r c v =>
    match st.dn with
    | none => .ok { st with dn := some (r, c, v) }
    | some (r0, c0, v0) => do
      let s ← zipSame (· + ·) v v0
      let _ ← mkDense r0 c0 s
      pure { st with dn := some (r0, c0, s) }
  | t => .ok { st with keep := st.keep ++ [t] }

def addLoop : List MExpr → AddSt → Except Err AddSt
  | [], st => .ok st
  | t :: rest, st => do
    let st' ← addStep st t
    addLoop rest st'

/-- nested MatrixAdd terms are spliced in -/
def flattenAdd : List MExpr → List MExpr
  | [] => []
  | add ts :: rest => ts ++ flattenAdd rest
  | t :: rest => t :: flattenAdd rest

/-- the merge of the collected DiagonalMatrix and ImmutableDenseMatrix after the partition loop of
    `matrix_add`: the final `keep` vector -/
def addMerge (st : AddSt) : Except Err (List MExpr) :=
  match st.dg, st.dn with
  | some d, some (r, c, v) =>
    if d.length = r ∧ r = c ∧ v.length = r * c then do
      let s := mkFlat r c fun i j => if i = j then ent v c i j + d.getD i 0 else ent v c i j
      let _ ← mkDense r c s
      pure (st.keep ++ [dense r c s])
    else .error .oob
  | some d, none => .ok (st.keep ++ [diag d])
  | none, some (r, c, v) => .ok (st.keep ++ [dense r c v])
  | none, none => .ok st.keep

/-- the tail of `matrix_add` -/
def addFinish (st : AddSt) : Except Err MExpr := do
  let keep ← addMerge st
  match keep, st.zr with
  | [k], _ => pure k
  | [], some (r, c) => pure (zero r c)
  | _, _ => mkAdd keep

/-- `matrix_add(terms)` -/
def matrixAdd (terms : List MExpr) : Except Err MExpr :=
  match terms with
  | [] => .error .domain
  | [t] => .ok t
  | _ => do
    let expanded := flattenAdd terms
    checkMatchingSizes (sizeList expanded)
    let st ← addLoop expanded {}
    addFinish st

/-! ## MatrixMul -/

/-- an element of the argument vector of `matrix_mul`: a scalar or a matrix expression -/
inductive Factor where
  | scalar (q : GQ)
  | mat (e : MExpr)
  deriving Repr

/-- `MatrixMul::is_canonical` (patched: a lone IdentityMatrix factor is allowed; a ZeroMatrix factor is
    allowed when the size of the product is unknown), the scan over the factors with the per-segment
    counters `num_diag`, `num_dense` -/
def mulCanonScan (single sizeKnown : Bool) : List MExpr → Nat → Nat → Bool
  | [], nd, nn => !(nd > 1 || nn > 1) && !(nd == 1 && nn == 1)
  | f :: rest, nd, nn =>
    if (isZeroM f && sizeKnown) || (isIdent f && !single) || isMul f then false
    else if isDiag f then mulCanonScan single sizeKnown rest (nd + 1) nn
    else if isDense f then mulCanonScan single sizeKnown rest nd (nn + 1)
    else if (nd > 1 || nn > 1) || (nd == 1 && nn == 1) then false
    else mulCanonScan single sizeKnown rest 0 0

/-- rows of the first and columns of the last factor -/
def mulOuterSize (fs : List MExpr) : Size :=
  let ss := sizeList fs
  ((ss.head?.bind (·.1)), (ss.getLast?.bind (·.2)))

def mulCanonical (s : GQ) (fs : List MExpr) : Bool :=
  !(fs.isEmpty || (fs.length == 1 && s == 1))
    && mulCanonScan (fs.length == 1)
        ((mulOuterSize fs).1.isSome && (mulOuterSize fs).2.isSome) fs 0 0

/-- `make_rcp<const MatrixMul>(scalar, factors)` -/
def mkMul (s : GQ) (fs : List MExpr) : Except Err MExpr :=
  if mulCanonical s fs then .ok (mul s fs) else .error .assert

/-- `mul_diag_diag` -/
def mulDiagDiag (a b : List GQ) : Except Err (List GQ) := zipSame (· * ·) a b

/-- `mul_dense_dense` -/
def mulDenseDense (ar ac : Nat) (av : List GQ) (br bc : Nat) (bv : List GQ) :
    Except Err (Nat × Nat × List GQ) :=
  if av.length = ar * ac ∧ bv.length = br * bc ∧ ac = br then
    .ok (ar, bc, mkFlat ar bc fun i j =>
      (List.range ac).foldl (fun acc k => acc + ent av ac i k * ent bv bc k j) 0)
  else .error .oob

/-- `mul_diag_dense` -/
def mulDiagDense (a : List GQ) (br bc : Nat) (bv : List GQ) : Except Err (Nat × Nat × List GQ) :=
  if bv.length = br * bc ∧ a.length = br then
    .ok (br, bc, mkFlat br bc fun i j => ent bv bc i j * a.getD i 0)
  else .error .oob

/-- `mul_dense_diag` -/
def mulDenseDiag (ar ac : Nat) (av : List GQ) (b : List GQ) : Except Err (Nat × Nat × List GQ) :=
  if av.length = ar * ac ∧ b.length = ac then
    .ok (ar, ac, mkFlat ar ac fun i j => ent av ac i j * b.getD j 0)
  else .error .oob

/-- extraction of nested MatrixMul factors and scalars -/
def expandMul : List Factor → GQ → List MExpr → GQ × List MExpr
  | [], s, acc => (s, acc)
  | .scalar q :: rest, s, acc => expandMul rest (s * q) acc
  | .mat (mul s' fs) :: rest, s, acc => expandMul rest (s * s') (acc ++ fs)
  | .mat e :: rest, s, acc => expandMul rest s (acc ++ [e])

structure MulSt where
  keep : List MExpr := []
  dg : Option (List GQ) := none
  dn : Option (Nat × Nat × List GQ) := none
  idn : Option Dim := none

def mkDenseT (x : Nat × Nat × List GQ) : Except Err Unit := do
  let _ ← mkDense x.1 x.2.1 x.2.2
  pure ()

/-- one iteration of the merge loop of `matrix_mul` -/
def mulStep (st : MulSt) : MExpr → Except Err MulSt
  | ident n => .ok { st with idn := some n }
  | diag d =>
    match st.dg, st.dn with
    | some d0, _ => do
      let p ← mulDiagDiag d0 d
      let _ ← mkDiag p
      pure { st with dg := some p }
    | none, some (r, c, v) => do
      let p ← mulDenseDiag r c v d
      mkDenseT p
      pure { st with dn := some p }
    | none, none => .ok { st with dg := some d }
  | dense r c v =>
    match st.dn, st.dg with
    | some (r0, c0, v0), _ => do
      let p ← mulDenseDense r0 c0 v0 r c v
      mkDenseT p
      pure { st with dn := some p }
    | none, some d0 => do
      let p ← mulDiagDense d0 r c v
      mkDenseT p
      pure { st with dn := some p, dg := none }
    | none, none => .ok { st with dn := some (r, c, v) }
  | f =>
    match st.dg, st.dn with
    | some d, _ => .ok { st with keep := st.keep ++ [diag d, f], dg := none }
    | none, some (r, c, v) => .ok { st with keep := st.keep ++ [dense r c v, f], dn := none }
    | none, none => .ok { st with keep := st.keep ++ [f] }

def mulLoop : List MExpr → MulSt → Except Err MulSt
  | [], st => .ok st
  | f :: rest, st => do
    let st' ← mulStep st f
    mulLoop rest st'

def firstZero : List MExpr → Option (Dim × Dim)
  | [] => none
  | zero r c :: _ => some (r, c)
  | _ :: rest => firstZero rest

/-- the final `keep` vector of `matrix_mul`: the pending merged leaf is pushed -/
def mulKeep (st : MulSt) : List MExpr :=
  match st.dg, st.dn with
  | some d, _ => st.keep ++ [diag d]
  | none, some (r, c, v) => st.keep ++ [dense r c v]
  | none, none => st.keep

/-- the tail of `matrix_mul` after the merge loop (patched: the scalar survives `scalar * I`) -/
def mulFinish (s : GQ) (st : MulSt) : Except Err MExpr :=
  match mulKeep st, st.idn with
  | [k], _ => if s == 1 then .ok k else mkMul s [k]
  | [], some n => if s == 1 then .ok (ident n) else mkMul s [ident n]
  | keep, _ => mkMul s keep

/-- `matrix_mul(factors)` -/
def matrixMul (factors : List Factor) : Except Err MExpr :=
  match factors with
  | [] => .error .domain
  | [.mat e] => .ok e
  | [.scalar _] => .error .ub          -- rcp_static_cast<const MatrixExpr> of a Number
  | _ =>
    let (s, expanded) := expandMul factors 1 []
    if expanded.isEmpty then .error .ub  -- check_matching_mul_sizes reads vec[0]
    else do
      checkMatchingMulSizes (sizeList expanded)
      -- patched: zero matrix with the rows of the first and the columns of the last factor;
      -- if one of them is unknown the ZeroMatrix stays an ordinary factor
      match firstZero expanded, mulOuterSize expanded with
      | some _, (some rows, some cols) => pure (zero rows cols)
      | _, _ =>
        let st ← mulLoop expanded {}
        mulFinish s st

/-! ## HadamardProduct -/

/-- `HadamardProduct::is_canonical` -/
def hadCanonical (fs : List MExpr) : Bool :=
  !(fs.length < 2) && !fs.any (fun t => isZeroM t || isHad t)
    && !(countP isDiag fs > 1 || countP isIdent fs > 1 || countP isDense fs > 1)
    && !(countP isDiag fs == 1 && countP isDense fs == 1)
/-- `make_rcp<const HadamardProduct>(factors)` -/
def mkHad (fs : List MExpr) : Except Err MExpr :=
  if hadCanonical fs then .ok (had fs) else .error .assert

def flattenHad : List MExpr → List MExpr
  | [] => []
  | had fs :: rest => fs ++ flattenHad rest
  | t :: rest => t :: flattenHad rest

structure HadSt where
  keep : List MExpr := []
  dg : Option (List GQ) := none
  dn : Option (Nat × Nat × List GQ) := none
  haveId : Bool := false

/-- the loop of `hadamard_product`; `Sum.inl z` is the early `return factor` on a ZeroMatrix -/
def hadLoop : List MExpr → HadSt → Except Err (MExpr ⊕ HadSt)
  | [], st => .ok (.inr st)
  | zero r c :: _, _ => .ok (.inl (zero r c))
  | ident n :: rest, st =>
    if st.haveId then hadLoop rest st
    else hadLoop rest { st with haveId := true, keep := st.keep ++ [ident n] }
  | diag d :: rest, st =>
    match st.dg with
    | none => hadLoop rest { st with dg := some d }
    | some d0 => do
      let p ← zipSame (· * ·) d0 d
      let _ ← mkDiag p
      hadLoop rest { st with dg := some p }
  | dense r c v :: rest, st =>
    match st.dn with
    | none => hadLoop rest { st with dn := some (r, c, v) }
    | some (r0, c0, v0) => do
      let p ← zipSame (· * ·) v v0
      let _ ← mkDense r0 c0 p
      hadLoop rest { st with dn := some (r0, c0, p) }
  | f :: rest, st => hadLoop rest { st with keep := st.keep ++ [f] }

/-- the merge of the collected ImmutableDenseMatrix and DiagonalMatrix after the loop of
    `hadamard_product`: the final `keep` vector -/
def hadMerge (st : HadSt) : Except Err (List MExpr) :=
  match st.dn, st.dg with
  | some (r, c, v), some d =>
    if d.length = r ∧ r = c ∧ v.length = r * c then do
      let p := (List.range r).map fun i => ent v c i i * d.getD i 0
      let _ ← mkDiag p
      pure (st.keep ++ [diag p])
    else .error .oob
  | some (r, c, v), none => .ok (st.keep ++ [dense r c v])
  | none, some d => .ok (st.keep ++ [diag d])
  | none, none => .ok st.keep

def hadFinish (st : HadSt) : Except Err MExpr := do
  let keep ← hadMerge st
  match keep with
  | [k] => pure k
  | _ => mkHad keep

/-- `hadamard_product(factors)` -/
def hadamardProduct (factors : List MExpr) : Except Err MExpr :=
  match factors with
  | [] => .error .domain
  | [f] => .ok f
  | _ => do
    let expanded := flattenHad factors
    checkMatchingSizes (sizeList expanded)
    match ← hadLoop expanded {} with
    | .inl z => pure z
    | .inr st => hadFinish st

/-! ## Transpose, ConjugateMatrix -/

/-- `Transpose::is_canonical` -/
def transposeCanonical (a : MExpr) : Bool :=
  !(isIdent a || isZeroM a || isDiag a || isDense a || isTranspose a || isAdd a || isHad a)
def mkTranspose (a : MExpr) : Except Err MExpr :=
  if transposeCanonical a then .ok (transpose a) else .error .assert

/-- `ConjugateMatrix::is_canonical` -/
def conjCanonical (a : MExpr) : Bool :=
  !(isIdent a || isZeroM a || isDiag a || isDense a || isConj a || isTranspose a || isAdd a
    || isHad a)
def mkConj (a : MExpr) : Except Err MExpr :=
  if conjCanonical a then .ok (conj a) else .error .assert

mutual
  /-- `transpose(arg)` (TransposeVisitor) -/
  def transposeM : MExpr → Except Err MExpr
    | ident n => .ok (ident n)
    | zero r c => .ok (zero c r)
    | diag d => .ok (diag d)
    | dense r c v =>
      if v.length = r * c then mkDense c r (mkFlat c r fun j i => ent v c i j) else .error .oob
    | transpose a => .ok a
    | add ts => do
      let l ← transposeList ts
      mkAdd l
    | had fs => do
      let l ← transposeList fs
      mkHad l
    | sym n => mkTranspose (sym n)
    | mul s fs => mkTranspose (mul s fs)
    | conj a => mkTranspose (conj a)
  def transposeList : List MExpr → Except Err (List MExpr)
    | [] => .ok []
    | e :: t => do
      let e' ← transposeM e
      let t' ← transposeList t
      pure (e' :: t')
end

mutual
  /-- `conjugate_matrix(arg)` (ConjugateMatrixVisitor) -/
  def conjugateM : MExpr → Except Err MExpr
    | ident n => .ok (ident n)
    | zero r c => .ok (zero r c)
    | diag d => mkDiag (d.map GQ.conj)
    | dense r c v => mkDense r c (v.map GQ.conj)
    | conj a => .ok a
    | transpose a => do
      -- patched: transpose(conj(A)) through the visitor and `transpose`, so that conj(A) may simplify
      let c ← conjugateM a
      transposeM c
    | add ts => do
      let l ← conjugateList ts
      mkAdd l
    | had fs => do
      let l ← conjugateList fs
      mkHad l
    | sym n => mkConj (sym n)
    | mul s fs => mkConj (mul s fs)
  def conjugateList : List MExpr → Except Err (List MExpr)
    | [] => .ok []
    | e :: t => do
      let e' ← conjugateM e
      let t' ← conjugateList t
      pure (e' :: t')
end

/-! ## predicates -/

inductive Pred where
  | zero | diagonal | symmetric | lower | upper | real | square | toeplitz
  deriving DecidableEq, Repr

def Pred.all : List Pred :=
  [.zero, .diagonal, .symmetric, .lower, .upper, .real, .square, .toeplitz]
def Pred.key : Pred → String
  | .zero => "z" | .diagonal => "d" | .symmetric => "s" | .lower => "l" | .upper => "u"
  | .real => "r" | .square => "q" | .toeplitz => "t"

/-- `is_square(ZeroMatrix)` : `is_zero(sub(nrows, ncols))` -/
def squareZero (r c : Dim) : Tri := dimMatch r c

/-- along one diagonal of a dense matrix starting at `(i0, j0)`: all entries equal the first -/
def toeplitzDiagOk (r c : Nat) (v : List GQ) (i0 j0 : Nat) : Bool :=
  (List.range (min (r - i0) (c - j0) - 1)).all fun k =>
    ((ent v c i0 j0 - ent v c (i0 + 1 + k) (j0 + 1 + k)) : GQ).isZero

/-- `MatrixToeplitzVisitor::bvisit(ImmutableDenseMatrix)` (patched bounds `w < ncols`, `w < nrows`) -/
def toeplitzDense (r c : Nat) (v : List GQ) : Bool :=
  (List.range (max r c - 1)).all fun w =>
    (if w < c then toeplitzDiagOk r c v 0 w else true)
      && (if w < r ∧ w ≠ 0 then toeplitzDiagOk r c v w 0 else true)

/-- the visitors' answers on the non-recursive classes -/
def leafPred (p : Pred) : MExpr → Tri
  | ident _ =>
    match p with
    | .zero => .f
    | _ => .t
  | zero r c =>
    match p with
    | .zero | .real | .toeplitz => .t
    | _ => squareZero r c
  | diag d =>
    match p with
    | .zero => Tri.ofBool (d.all GQ.isZero)
    | .real => Tri.ofBool (d.all GQ.isReal)
    | .toeplitz =>
      match d with
      | [] => .u        -- vec[0] of an empty container: no canonical DiagonalMatrix is empty
      | a :: rest => Tri.ofBool (rest.all fun b => (a - b : GQ).isZero)
    | _ => .t
  | dense r c v =>
    match p with
    | .zero => Tri.ofBool (v.all GQ.isZero)
    | .real => Tri.ofBool (v.all GQ.isReal)
    | .square => Tri.ofBool (r == c)
    | .toeplitz => Tri.ofBool (toeplitzDense r c v)
    | .diagonal =>
      Tri.ofBool (r == c && (List.range c).all fun i => (List.range c).all fun j =>
        if j = i then true else (ent v c i j).isZero)
    | .symmetric =>
      Tri.ofBool (r == c && (List.range c).all fun i => (List.range i).all fun j =>
        ((ent v c i j - ent v c j i : GQ)).isZero)
    | .lower =>
      Tri.ofBool (r == c && (List.range r).all fun i => (List.range r).all fun j =>
        if i < j then (ent v c i j).isZero else true)
    | .upper =>
      Tri.ofBool (r == c && (List.range r).all fun i => (List.range i).all fun j =>
        (ent v c i j).isZero)
  | _ => .u

/-- the MatrixAdd loop of is_diagonal / is_symmetric / is_lower / is_upper -/
def addRuleLoop : List Tri → Bool → Tri
  | [], found => if found then .f else .t
  | .u :: _, _ => .u
  | .f :: rest, found => if found then .f else addRuleLoop rest true
  | .t :: rest, found => addRuleLoop rest found

/-- first definite answer (is_square's check_vector) -/
def firstDefinite : List Tri → Tri
  | [] => .u
  | .u :: rest => firstDefinite rest
  | x :: _ => x

/-- `true` as soon as one factor says `true`, otherwise indeterminate -/
def anyTrue (l : List Tri) : Tri := if l.any (· == .t) then .t else .u
/-- `true` if every factor says `true`, otherwise indeterminate (patched is_symmetric) -/
def allTrue (l : List Tri) : Tri := if l.all (· == .t) then .t else .u

def addRule (p : Pred) (l : List Tri) : Tri :=
  match p with
  | .diagonal | .symmetric | .lower | .upper => addRuleLoop l false
  | .square => firstDefinite l
  | .zero | .real | .toeplitz => .u

def hadRule (p : Pred) (l : List Tri) : Tri :=
  match p with
  | .diagonal | .lower | .upper => anyTrue l
  | .symmetric => allTrue l
  | .square => firstDefinite l
  | .zero | .real | .toeplitz => .u

mutual
  /-- `is_zero / is_diagonal / … (const MatrixExpr &)` -/
  def evalPred (p : Pred) : MExpr → Tri
    | add ts => addRule p (evalPredList p ts)
    | had fs => hadRule p (evalPredList p fs)
    | ident n => leafPred p (ident n)
    | zero r c => leafPred p (zero r c)
    | diag d => leafPred p (diag d)
    | dense r c v => leafPred p (dense r c v)
    | sym _ => .u
    | mul _ _ => .u
    | transpose _ => .u
    | conj _ => .u
  def evalPredList (p : Pred) : List MExpr → List Tri
    | [] => []
    | e :: t => evalPred p e :: evalPredList p t
end

/-! ## trace -/

/-- result of `trace(arg)`: a number, a symbolic dimension, an unevaluated `Trace`, or a sum
    involving such atoms (printed as `other`) -/
inductive TraceRes where
  | num (q : GQ)
  | dim (s : String)
  | unev (e : MExpr)
  | other
  deriving Repr

def TraceRes.dump : TraceRes → String
  | .num q => q.dump
  | .dim s => s!"(s {s})"
  | .unev e => "(trace " ++ MatExpr.dump e ++ ")"
  | .other => "other"

/-- `add(sum, trace_)` on the results: numbers add up, one lone atom with a zero number stays itself -/
def traceAcc (acc : GQ × List TraceRes) (r : TraceRes) : GQ × List TraceRes :=
  match r with
  | .num q => (acc.1 + q, acc.2)
  | x => (acc.1, acc.2 ++ [x])

def traceOfAcc (acc : GQ × List TraceRes) : TraceRes :=
  match acc.2 with
  | [] => .num acc.1
  | [a] => if acc.1 == 0 then a else .other
  | _ => .other

mutual
  /-- `trace(arg)` (MatrixTraceVisitor) -/
  def traceM : MExpr → Except Err TraceRes
    | ident (.nat n) => .ok (.num ⟨((n : Nat) : Rat), 0⟩)
    | ident (.sym s) => .ok (.dim s)
    | zero r c =>
      match squareZero r c with
      | .t => .ok (.num 0)
      | .f => .error .domain
      | .u => .ok (.unev (zero r c))
    | diag d => .ok (.num (d.foldl (· + ·) 0))
    | dense r c v =>
      if r ≠ c then .error .domain
      else .ok (.num (((List.range r).map fun i => ent v c i i).foldl (· + ·) 0))
    | add ts => do
      let l ← traceList ts
      pure (traceOfAcc (l.foldl traceAcc (0, [])))
    | e => .ok (.unev e)
  def traceList : List MExpr → Except Err (List TraceRes)
    | [] => .ok []
    | e :: t => do
      let e' ← traceM e
      let t' ← traceList t
      pure (e' :: t')
end

end SymVerif.MatExpr
