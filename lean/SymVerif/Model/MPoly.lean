/-
Model of symengine/polys/msymenginepoly.{h,cpp}: multivariate polynomials
`MSymEnginePoly<Container, Poly>` (MIntPoly, MExprPoly with numeric coefficients).

* A variable is a natural number: its *rank* in the library's `set_basic` order
  (`RCPBasicKeyLess`: hash, then structural comparison).  The harness maps rank `k`
  to the `k`-th symbol of a fixed pool sorted with the library's own comparator, so the
  only thing assumed about that order is that it is one strict total order shared by
  all variable sets (what `std::set` needs anyway).
* `Poly.vars` is `vars_` (a `std::set`, i.e. a strictly increasing list);
  `Poly.dict` is `poly_.dict_` (an `unordered_map` from exponent vectors to
  coefficients) as an association list.  The iteration order of an
  `unordered_map` is unspecified; nothing below depends on the order of the
  list (the driver prints terms sorted), and every operation that *finds* a key
  uses the first match, which is the only match under the container invariant
  (distinct keys).  `vec_size` is `vars.length`.
* Exponents are `unsigned int` in C++ and `Nat` here: sums of exponents are
  assumed to stay below 2^32.
* Where the C++ indexes a vector out of range (undefined behaviour, or a failed
  `SYMENGINE_ASSERT`) the model returns `Err.oob`.

The coefficient type is a parameter: `Int` for `MIntPoly` (`integer_class`),
`Rat` for `MExprPoly` restricted to rational-number coefficients
(`Expression` arithmetic on `Integer`/`Rational` is exact rational arithmetic).

Two one-line repairs proposed for the library are modelled *as repaired*
(docs/C22.md): `UDictWrapper::pow` returns 1 for exponent 0 instead of looping
forever, and `MSymEnginePoly::__eq__` requires *both* single-term polynomials to
be constants (`&&`, not `||`) before it ignores the variable sets.  The original
behaviour of `__eq__` is kept as `polyEqOrig` so that the defect can be stated.

Core Lean only: this file is linked into the native driver.
-/
namespace SymVerif.MPoly

inductive Err where
  | oob      -- vector index out of range / failed size assertion (UB in the C++)
  | missing  -- `vals.find(sym)` returned `end()` in `eval` (UB in the C++)
  deriving Repr, DecidableEq

abbrev Var := Nat
abbrev Mono := List Nat
abbrev Dict (R : Type) := List (Mono × R)

structure Poly (R : Type) where
  vars : List Var
  dict : Dict R
  deriving Repr

section Generic
variable {R : Type} [Add R] [Sub R] [Mul R] [Neg R] [Zero R] [One R] [DecidableEq R]

/-! ### `unordered_map` primitives -/

/-- `dict_.find(k)` -/
def find? : Dict R → Mono → Option R
  | [], _ => none
  | (k', c) :: t, k => if k' = k then some c else find? t k

/-- `d.insert({k, c})`: no effect when the key is present -/
def insertNew (d : Dict R) (k : Mono) (c : R) : Dict R :=
  match find? d k with
  | some _ => d
  | none => (k, c) :: d

/-- constructor `UDictWrapper(Dict &&p, sz)`: erase zero coefficients -/
def stripZeros (d : Dict R) : Dict R := d.filter (fun kc => decide (kc.2 ≠ 0))

/-- one iteration of `operator+=`: `find`, add, erase when the sum is zero, else insert -/
def addTerm : Dict R → Mono → R → Dict R
  | [], k, c => [(k, c)]
  | (k', c') :: t, k, c =>
    if k' = k then (if c' + c = 0 then t else (k', c' + c) :: t)
    else (k', c') :: addTerm t k c

/-- one iteration of `operator-=` -/
def subTerm : Dict R → Mono → R → Dict R
  | [], k, c => [(k, -c)]
  | (k', c') :: t, k, c =>
    if k' = k then (if c' - c = 0 then t else (k', c' - c) :: t)
    else (k', c') :: subTerm t k c

/-- `x += y` -/
def addDict (x y : Dict R) : Dict R := y.foldl (fun acc kc => addTerm acc kc.1 kc.2) x
/-- `x -= y` -/
def subDict (x y : Dict R) : Dict R := y.foldl (fun acc kc => subTerm acc kc.1 kc.2) x
/-- unary minus: every coefficient `*= -1` -/
def negDict (x : Dict R) : Dict R := x.map (fun kc => (kc.1, -kc.2))

/-- the accumulation step inside `UDictWrapper::mul` (no erase of zeros here) -/
def accTerm : Dict R → Mono → R → Dict R
  | [], k, c => [(k, c)]
  | (k', c') :: t, k, c =>
    if k' = k then (k', c' + c) :: t else (k', c') :: accTerm t k c

/-- `target[i] = a[i] + b[i]` for `i < vec_size` -/
def addVec (n : Nat) (a b : Mono) : Except Err Mono :=
  if a.length = n ∧ b.length = n then .ok (List.zipWith (· + ·) a b) else .error .oob

/-- inner loop of `mul`: one term of `a` against all of `b` -/
def mulRow (n : Nat) (ka : Mono) (ca : R) : Dict R → Dict R → Except Err (Dict R)
  | [], acc => .ok acc
  | (kb, cb) :: t, acc =>
    match addVec n ka kb with
    | .error e => .error e
    | .ok k => mulRow n ka ca t (accTerm acc k (ca * cb))

/-- outer loop of `mul` -/
def mulRows (n : Nat) : Dict R → Dict R → Dict R → Except Err (Dict R)
  | [], _, acc => .ok acc
  | (ka, ca) :: t, b, acc =>
    match mulRow n ka ca b acc with
    | .error e => .error e
    | .ok acc' => mulRows n t b acc'

/-- `UDictWrapper::mul(a, b)` (also `operator*`) -/
def mulRaw (n : Nat) (a b : Dict R) : Except Err (Dict R) :=
  match mulRows n a b [] with
  | .error e => .error e
  | .ok p => .ok (stripZeros p)

/-- `x *= y` with its shortcuts (empty operands, `y` a constant) -/
def mulDict (n : Nat) (x y : Dict R) : Except Err (Dict R) :=
  if x.isEmpty then .ok x
  else if y.isEmpty then .ok []
  else
    match y, find? y (List.replicate n 0) with
    | [_], some c => .ok (x.map (fun kc => (kc.1, kc.2 * c)))
    | _, _ => mulRaw n x y

/-- the `while (p != 1)` loop of `UDictWrapper::pow`; entered with `p ≥ 1` only -/
def powLoop (n : Nat) (tmp res : Dict R) (p : Nat) : Except Err (Dict R) :=
  if _h : p ≤ 1 then mulRaw n res tmp
  else
    match mulRaw n tmp tmp with
    | .error e => .error e
    | .ok tmp2 =>
      if p % 2 = 0 then powLoop n tmp2 res (p / 2)
      else
        match mulRaw n res tmp with
        | .error e => .error e
        | .ok res2 => powLoop n tmp2 res2 (p / 2)
termination_by p
decreasing_by all_goals omega

/-- `UDictWrapper::pow(a, p)`, with the proposed repair `if (p == 0) return res;` -/
def powDict (n : Nat) (a : Dict R) (p : Nat) : Except Err (Dict R) :=
  let res : Dict R := [(List.replicate n 0, 1)]
  if p = 0 then .ok res else powLoop n a res p

/-! ### variable reconciliation -/

/-- insertion into a `std::set` / `std::map` keyed by the variable order -/
def insertSorted (x : Var) : List Var → List Var
  | [] => [x]
  | y :: t => if x < y then x :: y :: t else if x = y then y :: t else y :: insertSorted x t

/-- `s = s1; s.insert(s2.begin(), s2.end())`: the elements of `s2` inserted one by one -/
def merge (s1 s2 : List Var) : List Var := s2.foldl (fun acc x => insertSorted x acc) s1

/-- the `for (auto &it : s)` loop of `reconcile`; `l1`, `l2` are the parts of `s1`, `s2`
    from the iterators `i`, `j` on -/
def recLoop : List Var → List Var → List Var → Nat → List Nat × List Nat
  | [], _, _, _ => ([], [])
  | it :: s, l1, l2, pos =>
    let hit1 := match l1 with
      | a :: _ => decide (it = a)
      | [] => false
    let hit2 := match l2 with
      | b :: _ => decide (it = b)
      | [] => false
    let r := recLoop s (if hit1 then l1.tail else l1) (if hit2 then l2.tail else l2) (pos + 1)
    (if hit1 then pos :: r.1 else r.1, if hit2 then pos :: r.2 else r.2)

/-- `reconcile(v1, v2, s, s1, s2)`: returns `(v1, v2, s)`; the returned size is `s.length` -/
def reconcile (s1 s2 : List Var) : List Nat × List Nat × List Var :=
  let s := merge s1 s2
  let r := recLoop s s1 s2 0
  (r.1, r.2, s)

/-- `changed[translator[i]] = vec[i]` for `i < vec_size` (`= translator.size()`) -/
def setAll : List Nat → Mono → Mono → Except Err Mono
  | [], _, acc => .ok acc
  | _ :: _, [], _ => .error .oob
  | t :: ts, x :: xs, acc =>
    if t < acc.length then setAll ts xs (acc.set t x) else .error .oob

def translateVec (tr : List Nat) (size : Nat) (e : Mono) : Except Err Mono :=
  setAll tr e (List.replicate size 0)

/-- the loop of `UDictWrapper::translate` (before zero stripping) -/
def translateRaw (tr : List Nat) (size : Nat) : Dict R → Except Err (Dict R)
  | [] => .ok []
  | (e, c) :: t =>
    match translateVec tr size e with
    | .error er => .error er
    | .ok e' =>
      match translateRaw tr size t with
      | .error er => .error er
      | .ok t' => .ok (insertNew t' e' c)

/-- `UDictWrapper::translate(translator, size)` -/
def translate (tr : List Nat) (size : Nat) (d : Dict R) : Except Err (Dict R) :=
  match translateRaw tr size d with
  | .error e => .error e
  | .ok d' => .ok (stripZeros d')

/-- `get_translated_container(x, y, a, b)`: returns `(s, x, y)` -/
def translated (a b : Poly R) : Except Err (List Var × Dict R × Dict R) :=
  let r := reconcile a.vars b.vars
  match translate r.1 r.2.2.length a.dict with
  | .error e => .error e
  | .ok x =>
    match translate r.2.1 r.2.2.length b.dict with
    | .error e => .error e
    | .ok y => .ok (r.2.2, x, y)

/-! ### the public operations -/

def addPoly (a b : Poly R) : Except Err (Poly R) :=
  match translated a b with
  | .error e => .error e
  | .ok (s, x, y) => .ok ⟨s, addDict x y⟩

def subPoly (a b : Poly R) : Except Err (Poly R) :=
  match translated a b with
  | .error e => .error e
  | .ok (s, x, y) => .ok ⟨s, subDict x y⟩

def mulPoly (a b : Poly R) : Except Err (Poly R) :=
  match translated a b with
  | .error e => .error e
  | .ok (s, x, y) =>
    match mulDict s.length x y with
    | .error e => .error e
    | .ok z => .ok ⟨s, z⟩

def negPoly (a : Poly R) : Poly R := ⟨a.vars, negDict a.dict⟩

def powPoly (a : Poly R) (n : Nat) : Except Err (Poly R) :=
  match powDict a.vars.length a.dict n with
  | .error e => .error e
  | .ok d => .ok ⟨a.vars, d⟩

def sortVars (v : List Var) : List Var := v.foldr insertSorted []

/-- `MSymEnginePoly::from_dict(v, d)`: `trans[i]` = position of `v[i]` in the sorted set -/
def fromDict (v : List Var) (d : Dict R) : Except Err (Poly R) :=
  let s := sortVars v
  let trans := v.map (fun x => s.idxOf x)
  if trans.length ≠ s.length then .error .oob   -- `translate` asserts `translator.size() == vec_size`
  else
    match translate trans s.length (stripZeros d) with
    | .error e => .error e
    | .ok d' => .ok ⟨s, d'⟩

/-- `vals.find(sym)->second` -/
def lookupVal : List (Var × R) → Var → Option R
  | [], _ => none
  | (v, x) :: t, w => if v = w then some x else lookupVal t w

def rpow (x : R) : Nat → R
  | 0 => 1
  | n + 1 => rpow x n * x

/-- the inner loop of `eval`: `term *= vals[sym] ^ exponent` over the variables -/
def evalTerm (vals : List (Var × R)) : List Var → Mono → R → Except Err R
  | [], _, acc => .ok acc
  | _ :: _, [], _ => .error .oob
  | v :: vs, e :: es, acc =>
    match lookupVal vals v with
    | none => .error .missing
    | some x => evalTerm vals vs es (acc * rpow x e)

def evalDict (vals : List (Var × R)) (vars : List Var) : Dict R → R → Except Err R
  | [], ans => .ok ans
  | (k, c) :: t, ans =>
    match evalTerm vals vars k c with
    | .error e => .error e
    | .ok term => evalDict vals vars t (ans + term)

/-- `MIntPoly::eval(vals)` / `MExprPoly::eval(vals)` -/
def evalPoly (p : Poly R) (vals : List (Var × R)) : Except Err R := evalDict vals p.vars p.dict 0

/-- `unordered_map::operator==` -/
def dictEq (d1 d2 : Dict R) : Bool :=
  d1.length == d2.length && d1.all (fun kc => find? d2 kc.1 == some kc.2)

def isZeroVec (k : Mono) (n : Nat) : Bool := k == List.replicate n 0

/-- `MSymEnginePoly::__eq__`, parameterised by how the two "is a constant" tests are combined -/
def polyEqWith (comb : Bool → Bool → Bool) (p q : Poly R) : Bool :=
  match p.dict, q.dict with
  | [(k1, c1)], [(k2, c2)] =>
    if c1 ≠ c2 then false
    else if k1 = k2 ∧ p.vars = q.vars then true
    else comb (isZeroVec k1 p.vars.length) (isZeroVec k2 q.vars.length)
  | [], [] => true
  | d1, d2 => p.vars == q.vars && dictEq d1 d2

/-- `__eq__` with the proposed repair (`&&`) -/
def polyEq (p q : Poly R) : Bool := polyEqWith (· && ·) p q
/-- `__eq__` as it is in the library (`||`) -/
def polyEqOrig (p q : Poly R) : Bool := polyEqWith (· || ·) p q

end Generic

/-! ### canonical printing order (driver only) -/

def monoLt : Mono → Mono → Bool
  | [], [] => false
  | [], _ :: _ => true
  | _ :: _, [] => false
  | a :: as, b :: bs => if a < b then true else if b < a then false else monoLt as bs

def insertTerm {R : Type} (kc : Mono × R) : Dict R → Dict R
  | [] => [kc]
  | h :: t => if monoLt kc.1 h.1 then kc :: h :: t else h :: insertTerm kc t

def sortTerms {R : Type} (d : Dict R) : Dict R := d.foldr insertTerm []

end SymVerif.MPoly
